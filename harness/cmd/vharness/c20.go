package main

// C20 — shared instances are race-free and isolated.
//  part 1 (in process): histories of constructions and API calls on the REAL library, each step between deep snapshots
//          of the package-level variables, of the objects the caller handed in, of all other instances, plus probes of
//          later behaviour (does the HTTP client still follow redirects, does the key-set cache still hold the keys);
//  part 2: concurrent mixes executed by cmd/c20race, which is built with `go build -race` against the same tree; every
//          data race the detector reports becomes one case line (`kind=race`) naming the library functions involved.

import (
	"bufio"
	"fmt"
	"os"
	"os/exec"
	"path/filepath"
	"regexp"
	"sort"
	"strings"
	"sync"

	"verifharness/internal/c20bed"
	"verifharness/internal/hx"
)

func init() { streams["C20"] = c20Stream }

type raceRep struct{ w, o string }

var (
	reAccess = regexp.MustCompile(`^(Previous )?(read|write|atomic read|atomic write|Read|Write|Atomic read|Atomic write) at 0x[0-9a-f]+ by `)
	reFrame  = regexp.MustCompile(`^  (\S+)\(\)$`)
)

// libFn maps a Go symbol of the library to the model's function name: pkg.Type.Method / pkg.Func
func libFn(sym string) (string, bool) {
	const mod = "github.com/zitadel/oidc/v3/pkg/"
	if !strings.HasPrefix(sym, mod) {
		return sym, false
	}
	s := strings.TrimPrefix(sym, mod)
	// generic instantiation: Name[...]
	for {
		i := strings.Index(s, "[")
		if i < 0 {
			break
		}
		depth, j := 0, i
		for ; j < len(s); j++ {
			if s[j] == '[' {
				depth++
			} else if s[j] == ']' {
				depth--
				if depth == 0 {
					break
				}
			}
		}
		if j >= len(s) {
			break
		}
		s = s[:i] + s[j+1:]
	}
	// package path: last element
	dot := strings.Index(s, ".")
	if dot < 0 {
		return s, true
	}
	pkg, rest := s[:dot], s[dot+1:]
	if k := strings.LastIndex(pkg, "/"); k >= 0 {
		pkg = pkg[k+1:]
	}
	rest = strings.ReplaceAll(strings.ReplaceAll(rest, "(*", ""), ")", "")
	parts := strings.Split(rest, ".")
	var keep []string
	for _, p := range parts {
		if strings.HasPrefix(p, "func") || strings.HasPrefix(p, "gowrap") || p == "" || (p[0] >= '0' && p[0] <= '9') {
			break
		}
		keep = append(keep, p)
	}
	return pkg + "." + strings.Join(keep, "."), true
}

// parseRaces reads the race detector's reports: for each report the topmost library frame of both accesses
func parseRaces(log string) []raceRep {
	var out []raceRep
	for _, rep := range strings.Split(log, "WARNING: DATA RACE")[1:] {
		type acc struct {
			write bool
			fn    string
		}
		var accs []acc
		lines := strings.Split(rep, "\n")
		for i := 0; i < len(lines); i++ {
			ln := strings.TrimRight(lines[i], "\r")
			if !reAccess.MatchString(ln) {
				continue
			}
			a := acc{write: strings.Contains(strings.ToLower(ln), "write at")}
			first := ""
			for j := i + 1; j < len(lines) && strings.TrimSpace(lines[j]) != ""; j++ {
				if m := reFrame.FindStringSubmatch(lines[j]); m != nil {
					if first == "" {
						first = m[1]
					}
					if fn, ok := libFn(m[1]); ok {
						a.fn = fn
						break
					}
				}
			}
			if a.fn == "" {
				a.fn = "outside-library:" + first
			}
			accs = append(accs, a)
			if len(accs) == 2 {
				break
			}
		}
		if len(accs) == 0 {
			out = append(out, raceRep{"unparsed", "unparsed"})
			continue
		}
		if len(accs) == 1 {
			accs = append(accs, acc{fn: "unknown"})
		}
		w, o := accs[0], accs[1]
		if !w.write && o.write {
			w, o = o, w
		}
		out = append(out, raceRep{w.fn, o.fn})
	}
	return out
}

func c20Stream(r *hx.Rand, tier string, n int, w *bufio.Writer) map[string]int {
	if n == 0 {
		n = 260
		if tier == "thorough" {
			n = 10000
		}
	}
	caseNo := 0
	emit := func(l *hx.Line) {
		// the case id is the first field
		s := l.String()
		fmt.Fprintln(w, "C20 case="+fmt.Sprint(caseNo)+strings.TrimPrefix(s, "C20"))
		caseNo++
	}
	world := c20bed.NewWorld()
	stats := c20bed.SeqStream(world, r, tier, n, emit)
	world.Close()

	// ---- part 2: the race binary
	seed := r.U64() % 1000000
	bin, err := buildRaceBinary()
	if err != nil {
		emit(hx.NewLine("C20").S("kind", "mix").S("mix", "build").S("res", "race-binary-does-not-build").I("races", 1).S("race.w", "build-failed").S("race.o", err.Error()))
		return stats
	}
	rounds, g, iters := 1, 6, 5
	if tier == "thorough" {
		rounds, g, iters = 10, 8, 14
	}
	type result struct {
		line string
		reps []raceRep
		err  string
	}
	type task struct {
		mix   string
		round int
	}
	var tasks []task
	for round := 0; round < rounds; round++ {
		for _, m := range c20bed.Mixes {
			tasks = append(tasks, task{m.Name, round})
		}
	}
	results := make([]result, len(tasks))
	sem := make(chan struct{}, 6)
	var wg sync.WaitGroup
	for i, t := range tasks {
		wg.Add(1)
		go func(i int, t task) {
			defer wg.Done()
			sem <- struct{}{}
			defer func() { <-sem }()
			dir, _ := os.MkdirTemp("", "c20race")
			defer os.RemoveAll(dir)
			cmd := exec.Command(bin, "-mix", t.mix, "-seed", fmt.Sprint(seed+uint64(t.round)), "-g", fmt.Sprint(g), "-iters", fmt.Sprint(iters))
			cmd.Env = append(os.Environ(), "GORACE=halt_on_error=0 log_path="+filepath.Join(dir, "race"))
			out, err := cmd.Output()
			res := result{line: strings.TrimSpace(string(out))}
			if err != nil {
				res.err = err.Error()
			}
			logs, _ := filepath.Glob(filepath.Join(dir, "race.*"))
			for _, lf := range logs {
				b, _ := os.ReadFile(lf)
				res.reps = append(res.reps, parseRaces(string(b))...)
			}
			results[i] = res
		}(i, t)
	}
	wg.Wait()
	for i, t := range tasks {
		res := results[i]
		stats["mix."+t.mix]++
		if !strings.HasPrefix(res.line, "C20 ") {
			// the binary exits with status 66 when races were reported; anything else without a line is a harness failure
			emit(hx.NewLine("C20").S("kind", "mix").S("mix", t.mix).S("res", "no-output:"+res.err).I("races", 1))
			continue
		}
		// distinct races of this run
		seen := map[raceRep]bool{}
		var reps []raceRep
		for _, rp := range res.reps {
			if !seen[rp] {
				seen[rp] = true
				reps = append(reps, rp)
			}
		}
		sort.Slice(reps, func(a, b int) bool { return reps[a].w+reps[a].o < reps[b].w+reps[b].o })
		base := strings.TrimPrefix(res.line, "C20 ")
		fmt.Fprintln(w, "C20 case="+fmt.Sprint(caseNo)+" "+base+" reports="+fmt.Sprint(len(res.reps))+" races=0 round="+fmt.Sprint(t.round))
		caseNo++
		for _, rp := range reps {
			l := strings.Replace(base, "kind=mix", "kind=race", 1)
			fmt.Fprintln(w, "C20 case="+fmt.Sprint(caseNo)+" "+l+" races=1 race.w="+hx.Esc(rp.w)+" race.o="+hx.Esc(rp.o)+" round="+fmt.Sprint(t.round))
			caseNo++
			stats["race."+rp.w]++
		}
	}
	return stats
}

func buildRaceBinary() (string, error) {
	bin, err := filepath.Abs(filepath.Join("..", "bin", "c20race"))
	if err != nil {
		return "", err
	}
	cmd := exec.Command("go", "build", "-race", "-tags", "verif", "-o", bin, "./cmd/c20race")
	out, err := cmd.CombinedOutput()
	if err != nil {
		return "", fmt.Errorf("%v: %s", err, strings.TrimSpace(string(out)))
	}
	return bin, nil
}
