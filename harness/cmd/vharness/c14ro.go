package main

// C14 request objects at the REAL authorization endpoint (kind=roendpoint), on both routers (op.CreateRouter and
// op.RegisterLegacyServer(op.NewLegacyServer)), with request objects switched on or off, on static-issuer providers and on providers
// that serve 2-3 issuers (op.IssuerFromHost): "targets this issuer as audience" means the issuer the REQUEST is addressed to.
//
// Per case: GET /authorize with plain parameters and `request=<signed object>`.  The object is signed by the requesting client's own key,
// another client's key (under its own or the other's key id) or an unknown key; names the requesting client / another / nobody as
// iss and client_id; is addressed to the issuer the request is sent to / another issuer of the same provider / a foreign one; agrees
// or not in response_type; overrides 0-7 parameters.  All values (redirect URIs, scopes, response modes) are ones the later
// validation of the authorization request accepts, so that the outcome is decided by the request object alone.
// Observed: did the endpoint create an authorization request (redirect to the login page), and with which parameters
// (read back through the storage's AuthRequestByID).

import (
	"bufio"
	"context"
	"encoding/base64"
	"encoding/json"
	"fmt"
	"net/url"
	"strings"

	"github.com/zitadel/oidc/v3/pkg/op"

	"verifharness/internal/hx"
	"verifharness/internal/opbed"
	"verifharness/internal/refstore"
)

func c14ROEndpointStream(r *hx.Rand, tier string, nbeds int, w *bufio.Writer, caseNo *int, stats map[string]int, sy *symbols) {
	keys := hx.Keys()
	perBed := 8
	if tier == "thorough" {
		perBed = 16
	}
	for b := 0; b < nbeds; b++ {
		router := hx.Pick(r, "provider", "legacy")
		issMode := hx.Pick(r, "static", "host", "host", "hostpath")
		roOn := !r.Chance(15)
		hosts := []string{""}
		path := ""
		cfg := opbed.Config{Router: router, S256: true, Post: true, PrivateKeyJWT: true, Refresh: true, RequestObject: roOn}
		switch issMode {
		case "host":
			hosts = []string{"a.example", "b.example", "c.example"}[:2+r.Intn(2)]
			cfg.IssuerFn = op.IssuerFromHost("")
		case "hostpath":
			hosts = []string{"a.example", "b.example"}
			path = "/tenant"
			cfg.IssuerFn = op.IssuerFromHost(path)
		}
		bed, err := opbed.New(cfg)
		if err != nil {
			panic(err)
		}
		cb := &c14epBed{Bed: bed, issMode: issMode, path: path, hosts: hosts}
		type roClient struct {
			id   string
			keys []c14Key
		}
		cls := []roClient{{"roA", []c14Key{{"a1", keys[0]}, {"a2", keys[2]}}}, {"roB", []c14Key{{"b1", keys[1]}}}}
		for _, c := range cls {
			rc := opbed.WebClient(c.id, "secret-"+c.id, "https://rp.example/cb", "https://rp.example/cb2")
			for _, k := range c.keys {
				rc.Keys = append(rc.Keys, refstore.ClientKey{Kid: k.kid, Pub: k.k.Pub})
			}
			bed.Store.AddClient(rc)
		}
		stats["ro-beds"]++
		stats["ro-router-"+router]++
		stats["ro-issmode-"+issMode]++
		for o := 0; o < perBed; o++ {
			host := hosts[r.Intn(len(hosts))]
			reqIssuer := cb.issuerOf(host)
			pc := cls[r.Intn(len(cls))]
			// ---- the object
			iss := pc.id
			if r.Chance(15) {
				iss = hx.Pick(r, "roA", "roB", "", "unknown")
			}
			cid := iss
			if r.Chance(12) {
				cid = hx.Pick(r, "", "roA", "roB")
			}
			ck := pc.keys[r.Intn(len(pc.keys))]
			signKey, kid := ck.k, ck.kid
			signerKind := "own"
			switch r.Intn(10) {
			case 0: // another client's key under the own key id
				signKey, signerKind = hx.Pick(r, keys[1], keys[0], keys[6]), "foreign-key"
			case 1: // another client's key and key id
				other := cls[(r.Intn(len(cls)))]
				signKey, kid, signerKind = other.keys[0].k, other.keys[0].kid, "other-client"
				if other.id == pc.id {
					signerKind = "own"
				}
			case 2:
				kid, signerKind = "zz", "unknown-kid"
			}
			audKind := hx.Pick(r, "own", "own", "own", "own", "own", "cross", "cross", "foreign", "none")
			otherHost := host
			if len(hosts) > 1 {
				for otherHost == host {
					otherHost = hosts[r.Intn(len(hosts))]
				}
			}
			otherIssuer := cb.issuerOf(otherHost)
			if issMode == "static" {
				otherIssuer = "https://b.example"
			}
			var aud []string
			switch audKind {
			case "own":
				aud = []string{reqIssuer}
			case "cross":
				aud = []string{otherIssuer}
			case "foreign":
				aud = []string{"https://other.example"}
			}
			claims := map[string]any{"iss": iss, "client_id": cid}
			if aud != nil {
				claims["aud"] = aud
			}
			if cid == "" {
				delete(claims, "client_id")
			}
			if r.Chance(40) {
				claims["response_type"] = hx.Pick(r, "code", "code", "code", "id_token")
			}
			nOver := 0
			for _, kv := range [][2]string{{"redirect_uri", "https://rp.example/cb2"}, {"state", "ro-state"}, {"nonce", "ro-nonce"}, {"scope", "openid email"},
				{"response_mode", "fragment"}} {
				if r.Chance(45) {
					claims[kv[0]] = kv[1]
					nOver++
				}
			}
			if r.Chance(45) { // the storage keeps challenge and method as one value: they travel together
				claims["code_challenge"], claims["code_challenge_method"] = "ro-challenge", "S256"
				nOver += 2
			}
			payload, _ := json.Marshal(claims)
			tok, err := sy.sign(signKey, signKey.Algs[0], kid, payload)
			if err != nil {
				continue
			}
			plainScopes := hx.Pick(r, []string{"openid", "profile"}, []string{"openid", "profile"}, []string{"profile"})
			q := url.Values{"client_id": {pc.id}, "redirect_uri": {"https://rp.example/cb"}, "response_type": {"code"}, "scope": {strings.Join(plainScopes, " ")},
				"state": {"q-state"}, "nonce": {"q-nonce"}, "request": {tok}}
			l := hx.NewLine("C14").I("case", int64(*caseNo)).S("kind", "roendpoint").S("router", router).S("issmode", issMode).S("host", host).
				S("v.iss", reqIssuer).B("ro.supported", roOn).S("aud", audKind).S("signer", signerKind).I("overrides", int64(nOver))
			l.S("p.client", pc.id).S("p.rt", "code").S("p.redirect", "https://rp.example/cb").L("p.scopes", plainScopes).S("p.state", "q-state").S("p.nonce", "q-nonce")
			nk := 0
			for _, c := range cls {
				nk += len(c.keys)
			}
			l.I("st.n", int64(nk))
			i := 0
			for _, c := range cls {
				for _, k := range c.keys {
					p := fmt.Sprintf("st.%d.", i)
					l.S(p+"client", c.id).S(p+"kid", k.kid).S(p+"use", "sig").S(p+"kty", k.k.Kty).I(p+"no", int64(k.k.No))
					i++
				}
			}
			sy.tokenKV(l, tok)
			if parts := strings.Split(tok, "."); len(parts) == 3 {
				if mid, derr := base64.RawURLEncoding.DecodeString(parts[1]); derr == nil {
					l.B("t.json", roKV(l, mid))
				}
			}
			resp := bed.Do(cb.at(bed.Get("/authorize", q, ""), host))
			obs := "err"
			switch {
			case resp.Panicked:
				obs = "panic"
			case resp.Loc != nil && resp.Loc.Query().Get("authRequestID") != "":
				id := resp.Loc.Query().Get("authRequestID")
				if ar, aerr := bed.Storage.AuthRequestByID(op.ContextWithIssuer(context.Background(), reqIssuer), id); aerr == nil {
					obs = "ok"
					cc, ccm := "", ""
					if ch := ar.GetCodeChallenge(); ch != nil {
						cc, ccm = ch.Challenge, string(ch.Method)
					}
					l.S("o.client", ar.GetClientID()).S("o.rt", string(ar.GetResponseType())).S("o.redirect", ar.GetRedirectURI()).L("o.scopes", ar.GetScopes()).
						S("o.state", ar.GetState()).S("o.nonce", ar.GetNonce()).S("o.mode", string(ar.GetResponseMode())).S("o.cc", cc).S("o.ccm", ccm).S("o.reqparam", "")
				}
			}
			l.S("obs", obs).I("o.status", int64(resp.Status))
			stats["ro-cases"]++
			stats["ro-"+router+"-aud-"+audKind+"-"+signerKind+"-"+obs]++
			fmt.Fprintln(w, l.String())
			*caseNo++
		}
	}
}
