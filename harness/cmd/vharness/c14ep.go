package main

// C14 endpoint stream (kind=endpoint): the REAL endpoints that consume JWT assertions, on providers whose issuer is derived from the
// request (op.IssuerFromHost / IssuerFromForwardedOrHost, with and without a path: what NewDynamicOpenIDProvider builds) with 2-3
// virtual hosts on ONE provider, plus static-issuer providers as control.
//
//   * endpoints (ep): the token endpoint with the jwt-bearer grant (`bearer`) and with private_key_jwt client authentication for the
//     code / refresh / device / token-exchange grants (`code`, `refresh`, `device`, `exchange`), introspection (`introspect`),
//     revocation (`revoke`) and device authorization (`devauth`); on the Provider router (op.CreateRouter) and on the legacy server
//     (op.RegisterLegacyServer(op.NewLegacyServer)).  The Provider router's token-exchange grant takes no assertion and is left out.
//   * assertions: minted by the library's own client.SignedJWTProfileAssertion (`mint=helper`) or by hand (`mint=manual`: issuer
//     registered / unknown, own / another client's / unknown key, sub, iat / exp boundaries), ADDRESSED (aud) to the issuer the
//     request is sent to (`aud=own`), to another virtual issuer of the same provider (`aud=cross`), to both, to a foreign issuer or
//     to nobody; presented at every virtual host, interleaved, so that both orders (assertion for the first-served issuer presented
//     at a later one, and the reverse) occur in every history.
//   * every request that carries an assertion is one case line; grant material (codes through the real authorization endpoint,
//     refresh tokens from earlier successful cases, approved device codes, a live access token as exchange subject) is valid for its
//     owner unless the case says otherwise (`g.owner`).
//
// Observed per case: whether the endpoint honoured the assertion (HTTP 200 with the grant's / lookup's result), the client identity
// it went on with (from the storage calls), for the jwt-bearer grant the granted scopes.

import (
	"bufio"
	"bytes"
	"context"
	"encoding/base64"
	"encoding/json"
	"fmt"
	"io"
	"log/slog"
	"net/http"
	"net/url"
	"strings"
	"time"

	"golang.org/x/oauth2"

	"github.com/zitadel/oidc/v3/pkg/client"
	"github.com/zitadel/oidc/v3/pkg/client/profile"
	"github.com/zitadel/oidc/v3/pkg/client/rp"
	"github.com/zitadel/oidc/v3/pkg/client/rs"
	"github.com/zitadel/oidc/v3/pkg/oidc"
	"github.com/zitadel/oidc/v3/pkg/op"

	"verifharness/internal/hx"
	"verifharness/internal/opbed"
	"verifharness/internal/refstore"
)

type c14Key struct {
	kid string
	k   *hx.Key
}

type c14Client struct {
	c    *refstore.Client
	keys []c14Key
}

// c14Scripted: one fixed opening move of a history (helper-minted assertion of `client`, addressed to the own or the other issuer)
type c14Scripted struct {
	ep, host, client, aud string
	forgeWith             string // (deep 3) not helper-minted: names `client` as iss = sub but is signed with THIS client's key under its key id
	kid                   string // (deep 4) sign with the client's key registered under this key id (default: any of its keys)
	sub, owner            string // (deep 4) not helper-minted: iss = `client`, signed with its OWN key, but sub = `sub`; grant material of `owner`
}

// c14SubjectCheckOP (deep 4): an OP whose JWT-profile verifier carries a custom subject check (op.SubjectCheck, the one option the
// constructor knows; needed e.g. for jwt-bearer grants on behalf of users).  The SAME verifier serves the jwt-bearer grant and client
// authentication on both routers.  Built per request for the issuer of that request, like the stock provider's, or once (static issuer).
type c14SubjectCheckOP struct {
	*op.Provider
	check func(*oidc.JWTTokenRequest) error
	v     *op.JWTProfileVerifier
}

func (p *c14SubjectCheckOP) JWTProfileVerifier(ctx context.Context) *op.JWTProfileVerifier {
	if p.v != nil {
		return p.v
	}
	return op.NewJWTProfileVerifier(p.Storage(), op.IssuerFromContext(ctx), time.Hour, time.Second, op.SubjectCheck(p.check))
}

// c14SubjectTable: the delegation table of the `table` subject check (iss>sub pairs admitted besides sub = iss)
var c14SubjectTable = []string{"pkB>pkA", "pkA>user1", "pkB>pkE", "pkE>pkA"}

func c14SubjectCheckFn(kind string) func(*oidc.JWTTokenRequest) error {
	return func(r *oidc.JWTTokenRequest) error {
		if kind == "all" || r.Subject == r.Issuer {
			return nil
		}
		for _, p := range c14SubjectTable {
			if p == r.Issuer+">"+r.Subject {
				return nil
			}
		}
		return fmt.Errorf("subject %q not admitted for issuer %q", r.Subject, r.Issuer)
	}
}

// c14LongLivedOP (deep 3): a custom OP that creates its JWT-profile verifier ONCE (op.NewJWTProfileVerifier takes a fixed issuer) and
// hands the same object to every request - the stock *op.Provider builds one per request.  Everything else is the embedded provider.
type c14LongLivedOP struct {
	*op.Provider
	v *op.JWTProfileVerifier
}

func (p *c14LongLivedOP) JWTProfileVerifier(context.Context) *op.JWTProfileVerifier { return p.v }

// c14Transport (deep 3): the library's CLIENT packages (profile, rs, rp) talk HTTP; this transport delivers their requests to the
// provider under test in-process (same observation as bed.Do: status, body, storage journal) at the virtual host of the case
type c14Transport struct {
	cb   *c14epBed
	host string
	last *opbed.Resp
	form url.Values // the form the client library sent
}

func (t *c14Transport) RoundTrip(req *http.Request) (*http.Response, error) {
	var body []byte
	if req.Body != nil {
		body, _ = io.ReadAll(req.Body)
	}
	target := req.URL.Path
	if req.URL.RawQuery != "" {
		target += "?" + req.URL.RawQuery
	}
	sreq, _ := http.NewRequest(req.Method, target, bytes.NewReader(body))
	sreq.RequestURI = target
	sreq.RemoteAddr = "192.0.2.1:1234"
	sreq.Host = req.URL.Host
	for k, v := range req.Header {
		sreq.Header[k] = v
	}
	t.form, _ = url.ParseQuery(string(body))
	t.last = t.cb.Bed.Do(t.cb.at(sreq, t.host))
	return &http.Response{StatusCode: t.last.Status, Status: http.StatusText(t.last.Status), Header: t.last.Header, Body: io.NopCloser(bytes.NewReader(t.last.Body)),
		Request: req, Proto: "HTTP/1.1", ProtoMajor: 1, ProtoMinor: 1, ContentLength: int64(len(t.last.Body))}, nil
}

var c14Discard = slog.New(slog.NewTextHandler(io.Discard, nil))

type c14epBed struct {
	*opbed.Bed
	issMode, path string
	hosts         []string
}

// issuerOf: the issuer a request sent to `host` is addressed to (the harness's own knowledge of its virtual hosts)
func (cb *c14epBed) issuerOf(host string) string {
	if cb.issMode == "static" {
		return opbed.Issuer
	}
	return "https://" + host + cb.path
}

func (cb *c14epBed) at(r *http.Request, host string) *http.Request {
	switch cb.issMode {
	case "host", "hostpath":
		r.Host = host
	case "forwarded":
		r.Host = "proxy.internal"
		r.Header.Set("Forwarded", "for=192.0.2.1;host="+host+";proto=https")
	}
	return r
}

func c14Clients() []*c14Client {
	keys := hx.Keys()
	mk := func(id string, auth oidc.AuthMethod, secret string, ks ...c14Key) *c14Client {
		c := opbed.WebClient(id, secret, "https://rp.example/cb")
		c.Auth = auth
		for _, k := range ks {
			c.Keys = append(c.Keys, refstore.ClientKey{Kid: k.kid, Pub: k.k.Pub})
		}
		return &c14Client{c: c, keys: ks}
	}
	return []*c14Client{
		mk("pkA", oidc.AuthMethodPrivateKeyJWT, "", c14Key{"a1", keys[0]}, c14Key{"a2", keys[2]}), // RSA + EC
		mk("pkB", oidc.AuthMethodPrivateKeyJWT, "", c14Key{"b1", keys[1]}),                        // RSA
		mk("pkE", oidc.AuthMethodPrivateKeyJWT, "", c14Key{"e1", keys[5]}),                        // Ed25519 (F-C14)
		mk("secK", oidc.AuthMethodBasic, "secret-k", c14Key{"k1", keys[3]}),                       // registered for a secret, but the storage holds a key
		mk("web", oidc.AuthMethodBasic, "secret-web"),
		// (deep 4) an unusual but legal registration: pkC's key is registered under the key id "a1" - the SAME key id as pkA's RSA key
		// (key ids are only unique per client: GetKeyByIDAndClientID) - and is the key the storage also holds for secK under "k1"
		mk("pkC", oidc.AuthMethodPrivateKeyJWT, "", c14Key{"a1", keys[3]}),
	}
}

func c14EndpointStream(r *hx.Rand, tier string, n int, w *bufio.Writer, caseNo *int, stats map[string]int, sy *symbols) {
	emitLine := func(l *hx.Line) {
		fmt.Fprintln(w, l.String())
		*caseNo++
	}
	maxOps := 12
	if tier == "thorough" {
		maxOps = 30
	}
	ctx := context.Background()
	for h := 0; h < n; h++ {
		router := hx.Pick(r, "provider", "legacy")
		issMode := hx.Pick(r, "host", "host", "host", "forwarded", "hostpath", "static", "static")
		// (deep 3) verifier lifetime: a static-issuer OP may keep ONE verifier object for all requests
		vlife := "per-request"
		if issMode == "static" && r.Chance(65) {
			vlife = "long-lived"
		}
		hosts := []string{""}
		path := ""
		if issMode != "static" {
			hosts = []string{"a.example", "b.example", "c.example"}[:2+r.Intn(2)]
		}
		pkjwt := !r.Chance(12)
		// the first two histories (one per router) open with a fixed script, whatever the seed: the order A-then-B on a two-issuer
		// provider (own assertion at A; assertion addressed to A presented at B; own helper assertion at B; then at A again), and the
		// recorded witness of F-C14b (device grant, client registered for a secret)
		var script []c14Scripted
		if h < 2 {
			router, issMode, hosts, pkjwt = []string{"provider", "legacy"}[h], "host", []string{"a.example", "b.example"}, true
			script = []c14Scripted{
				{ep: "introspect", host: "a.example", client: "pkA", aud: "own"},
				{ep: "bearer", host: "b.example", client: "pkA", aud: "cross"},
				{ep: "code", host: "b.example", client: "pkB", aud: "own"},
				{ep: "revoke", host: "b.example", client: "pkA", aud: "cross"},
				{ep: "devauth", host: "a.example", client: "pkB", aud: "cross"},
				{ep: "bearer", host: "a.example", client: "pkA", aud: "own"},
				{ep: "device", host: "b.example", client: "secK", aud: "own"},
				{ep: "device", host: "a.example", client: "pkA", aud: "cross"},
			}
		}
		if h < 2 {
			vlife = "per-request"
		}
		if h == 2 || h == 3 {
			// (deep 3) histories 2 and 3 (one per router): a static-issuer OP with a LONG-LIVED verifier; client pkB authenticates, then an
			// assertion naming pkA but signed with pkB's key under pkB's key id, then pkA's genuine assertions, then pkB again
			router, issMode, hosts, pkjwt, vlife = []string{"provider", "legacy"}[h-2], "static", []string{""}, true, "long-lived"
			script = []c14Scripted{
				{ep: "introspect", host: "", client: "pkB", aud: "own"},
				{ep: "bearer", host: "", client: "pkA", aud: "own", forgeWith: "pkB"},
				{ep: "bearer", host: "", client: "pkA", aud: "own"},
				{ep: "code", host: "", client: "pkA", aud: "own", forgeWith: "pkB"},
				{ep: "code", host: "", client: "pkA", aud: "own"},
				{ep: "devauth", host: "", client: "pkB", aud: "own"},
				{ep: "revoke", host: "", client: "pkA", aud: "own"},
			}
		}
		// (deep 4) histories 4-7 (one per router and flavour): the verifier carries a custom subject check; registered client pkB signs
		// {iss: pkB, sub: pkA} with its OWN key and presents it at every endpoint that takes a client assertion, with pkA's grant
		// material and with its own - whatever the subject, the endpoint has to go on as pkB (or refuse)
		subjcheck := "default"
		if h >= 10 && r.Chance(35) {
			subjcheck = hx.Pick(r, "all", "table")
		}
		if h == 8 || h == 9 {
			// (deep 4) histories 8 and 9 (one per router): the stock provider, one issuer; pkA and pkC have their keys registered under the
			// SAME key id "a1".  pkA authenticates with a1; then pkC's genuine assertions (kid a1, its own key) and one that names pkC
			// but is signed with pkA's a1 key; then pkA again
			router, issMode, hosts, pkjwt, vlife = []string{"provider", "legacy"}[h-8], "static", []string{""}, true, "per-request"
			script = []c14Scripted{
				{ep: "introspect", host: "", client: "pkA", aud: "own", kid: "a1"},
				{ep: "bearer", host: "", client: "pkC", aud: "own"},
				{ep: "code", host: "", client: "pkC", aud: "own", forgeWith: "pkA"},
				{ep: "code", host: "", client: "pkC", aud: "own"},
				{ep: "devauth", host: "", client: "pkC", aud: "own"},
				{ep: "revoke", host: "", client: "pkA", aud: "own", kid: "a1"},
				{ep: "introspect", host: "", client: "pkC", aud: "own"},
			}
		}
		if h >= 4 && h < 8 {
			router, issMode, hosts, pkjwt, vlife = []string{"provider", "legacy"}[h%2], "host", []string{"a.example", "b.example"}, true, "per-request"
			subjcheck = []string{"all", "table"}[(h-4)/2]
			script = []c14Scripted{
				{ep: "introspect", host: "a.example", client: "pkB", aud: "own", sub: "pkA"},
				{ep: "code", host: "a.example", client: "pkA", aud: "own"},
				{ep: "code", host: "a.example", client: "pkB", aud: "own", sub: "pkA", owner: "pkA"},
				{ep: "refresh", host: "a.example", client: "pkB", aud: "own", sub: "pkA", owner: "pkA"},
				{ep: "code", host: "b.example", client: "pkB", aud: "own", sub: "pkA", owner: "pkB"},
				{ep: "devauth", host: "b.example", client: "pkB", aud: "own", sub: "pkA"},
				{ep: "revoke", host: "a.example", client: "pkB", aud: "own", sub: "pkA"},
				{ep: "device", host: "a.example", client: "pkB", aud: "own", sub: "pkA", owner: "pkA"},
				{ep: "bearer", host: "b.example", client: "pkB", aud: "own", sub: "pkA"},
				{ep: "bearer", host: "a.example", client: "pkA", aud: "own", sub: "user1"},
				{ep: "introspect", host: "b.example", client: "pkA", aud: "own", sub: "pkB"},
				{ep: "exchange", host: "b.example", client: "pkB", aud: "own", sub: "pkA"},
			}
			if router != "legacy" {
				script = script[:len(script)-1]
			}
		}
		cfg := opbed.Config{Router: router, S256: true, Post: true, PrivateKeyJWT: pkjwt, Refresh: true, Caps: refstore.Caps{TE: true, Device: true}}
		switch issMode {
		case "host":
			cfg.IssuerFn = op.IssuerFromHost("")
		case "hostpath":
			path = "/tenant"
			cfg.IssuerFn = op.IssuerFromHost(path)
		case "forwarded":
			cfg.IssuerFn = op.IssuerFromForwardedOrHost("")
		}
		bed, err := opbed.New(cfg)
		if err != nil {
			panic(err)
		}
		mount := func(lp interface {
			op.OpenIDProvider
			op.Authorizer
		}) {
			if router == "legacy" {
				bed.Handler = op.RegisterLegacyServer(op.NewLegacyServer(lp, *op.DefaultEndpoints), op.AuthorizeCallbackHandler(lp), op.WithFallbackLogger(c14Discard))
			} else {
				bed.Handler = op.CreateRouter(lp)
			}
		}
		switch {
		case subjcheck != "default":
			sp := &c14SubjectCheckOP{Provider: bed.Provider, check: c14SubjectCheckFn(subjcheck)}
			if vlife == "long-lived" {
				sp.v = op.NewJWTProfileVerifier(bed.Storage, opbed.Issuer, time.Hour, time.Second, op.SubjectCheck(sp.check))
			}
			mount(sp)
		case vlife == "long-lived":
			mount(&c14LongLivedOP{Provider: bed.Provider, v: op.NewJWTProfileVerifier(bed.Storage, opbed.Issuer, time.Hour, time.Second)})
		}
		stats["ep-subjcheck-"+subjcheck+"-"+router]++
		cb := &c14epBed{Bed: bed, issMode: issMode, path: path, hosts: hosts}
		cls := c14Clients()
		byID := map[string]*c14Client{}
		for _, c := range cls {
			bed.Store.AddClient(c.c)
			byID[c.c.ID] = c
		}
		bed.Store.AddUser("user1", nil)
		h0 := *caseNo
		stats["ep-history"]++
		stats["ep-issuer-mode-"+issMode]++
		stats[fmt.Sprintf("ep-issuers-%d", len(hosts))]++
		stats["ep-router-"+router]++
		stats["ep-vlife-"+vlife+"-"+router]++
		do := func(req *http.Request, host string) *opbed.Resp { return bed.Do(cb.at(req, host)) }

		// grant material made WITHOUT any assertion: a code through the real authorization endpoint
		newCode := func(owner, host string) string {
			q := url.Values{"client_id": {owner}, "redirect_uri": {"https://rp.example/cb"}, "response_type": {"code"}, "scope": {"openid offline_access"}, "state": {"s"}}
			resp := do(bed.Get("/authorize", q, ""), host)
			if resp.Loc == nil {
				return ""
			}
			id := resp.Loc.Query().Get("authRequestID")
			bed.Store.CompleteAuthRequest(id, "user1")
			cbk := do(bed.Get("/authorize/callback", url.Values{"id": {id}}, ""), host)
			if cbk.Loc == nil {
				return ""
			}
			return cbk.Loc.Query().Get("code")
		}
		// a live access token of the secret client `web` per virtual host (subject of token exchanges, object of introspection): the
		// reference storage keeps the tenants apart, grant material is valid at the issuer it was made under
		subjectToken := map[string]string{}
		for _, hst := range hosts {
			if code := newCode("web", hst); code != "" {
				tr := do(bed.Form("/oauth/token", url.Values{"grant_type": {"authorization_code"}, "code": {code}, "redirect_uri": {"https://rp.example/cb"}},
					opbed.Auth{Kind: "basic", ID: "web", Secret: "secret-web"}), hst)
				subjectToken[hst] = tr.Str("access_token")
			}
		}
		nDev := 0
		newDeviceCode := func(owner, issuer string) string {
			ds, ok := bed.Storage.(op.DeviceAuthorizationStorage)
			if !ok {
				return ""
			}
			nDev++
			dc, uc := fmt.Sprintf("devcode-%d-%d", h, nDev), fmt.Sprintf("UC%d-%d", h, nDev)
			if ds.StoreDeviceAuthorization(op.ContextWithIssuer(ctx, issuer), owner, dc, uc, time.Now().Add(5*time.Minute), []string{"openid"}) != nil {
				return ""
			}
			bed.Store.ApproveDevice(uc, "user1")
			return dc
		}
		refreshPool := map[string][]string{} // owner@host -> refresh tokens handed out by earlier successful cases at that host

		eps := []string{"bearer", "bearer", "code", "code", "refresh", "device", "introspect", "introspect", "revoke", "devauth"}
		if router == "legacy" {
			eps = append(eps, "exchange")
		}
		firstHost, served := "", false // the host of the first assertion-bearing request this provider served
		var followUp *c14Client            // the client of a code exchange that just succeeded: its refresh token is used next (at the same host)
		followHost := ""
		nops := 6 + r.Intn(maxOps) + len(script)
		for o := 0; o < nops; o++ {
			host := hosts[r.Intn(len(hosts))]
			reqIssuer := cb.issuerOf(host)
			ep := hx.Pick(r, eps...)
			// ---- the assertion
			mint := hx.Pick(r, "helper", "helper", "manual", "manual", "manual")
			cl := hx.Pick(r, byID["pkA"], byID["pkA"], byID["pkA"], byID["pkB"], byID["pkB"], byID["pkE"], byID["secK"], byID["pkC"], byID["pkC"])
			wantValid := false
			if o < len(script) {
				sc := script[o]
				host, reqIssuer, ep, cl, mint, wantValid, followUp = sc.host, cb.issuerOf(sc.host), sc.ep, byID[sc.client], "helper", true, nil
			}
			if followUp != nil {
				if r.Chance(75) {
					ep, cl = "refresh", followUp
					host, reqIssuer = followHost, cb.issuerOf(followHost)
					wantValid = r.Chance(65)
				}
				followUp = nil
			}
			audKind := hx.Pick(r, "own", "own", "own", "own", "own", "own", "cross", "cross", "cross", "both", "foreign", "none")
			if wantValid {
				audKind, mint = "own", hx.Pick(r, "helper", "manual")
			}
			forgeWith := ""
			if o < len(script) {
				audKind, mint = script[o].aud, "helper"
				if forgeWith = script[o].forgeWith; forgeWith != "" {
					mint = "manual"
				}
				if script[o].sub != "" {
					mint = "manual"
				}
			}
			otherHost := host
			if len(hosts) > 1 {
				for otherHost == host {
					otherHost = hosts[r.Intn(len(hosts))]
				}
			}
			otherIssuer := cb.issuerOf(otherHost)
			if issMode == "static" {
				otherIssuer = "https://b.example" // an issuer this provider does not serve
			}
			var aud []string
			switch audKind {
			case "own":
				aud = []string{reqIssuer}
			case "cross":
				aud = []string{otherIssuer}
			case "both":
				aud = []string{otherIssuer, reqIssuer}
			case "foreign":
				aud = []string{"https://other.example"}
			}
			ck := cl.keys[r.Intn(len(cl.keys))]
			if o < len(script) && script[o].kid != "" {
				for _, k := range cl.keys {
					if k.kid == script[o].kid {
						ck = k
					}
				}
			}
			l := hx.NewLine("C14").I("case", int64(*caseNo)).I("h0", int64(h0)).S("kind", "endpoint").S("router", router).S("issmode", issMode).
				S("host", host).S("req.iss", reqIssuer).S("aud", audKind).S("mint", mint).B("cfg.pkjwt", pkjwt).S("vlife", vlife)
			iss := cl.c.ID
			delegatedTo := "" // (deep 4) the subject of a `delegated` assertion (variant 15)
			farClass := ""    // (deep 5) a time claim far from the verifier's clock (variants 8-10)
			var tok string
			proper := false // made by the library helper, for the addressed issuer, with a key registered for a private_key_jwt client
			switch mint {
			case "helper":
				signer, err := client.NewSignerFromPrivateKeyByte(pemOf(ck.k), ck.kid)
				if err != nil {
					continue
				}
				tok, err = client.SignedJWTProfileAssertion(cl.c.ID, aud, time.Hour, signer)
				if err != nil {
					continue
				}
				parts := strings.Split(tok, ".")
				rawSig, _ := base64.RawURLEncoding.DecodeString(parts[2])
				pl, _ := base64.RawURLEncoding.DecodeString(parts[1])
				sy.sigs[string(rawSig)] = sigRecord{signer: ck.k.No, alg: ck.k.Algs[0], kid: ck.kid, payload: sy.pid(pl)}
				l.S("keytype", ck.k.Kty)
				proper = (audKind == "own" || audKind == "both") && cl.c.Auth == oidc.AuthMethodPrivateKeyJWT
			default:
				sec := time.Now().Unix()
				sub := iss
				signKey, kid := ck.k, ck.kid
				iat, exp := sec-5, sec+300
				variant := r.Intn(16)
				if wantValid {
					variant = 14
				}
				if subjcheck != "default" && !wantValid && r.Chance(45) {
					variant = 15
				}
				if forgeWith != "" {
					variant = 3
				}
				if o < len(script) && script[o].sub != "" {
					variant = 15
				}
				switch variant {
				case 0:
					iss, sub = "unknown", "unknown"
				case 1:
					sub = hx.Pick(r, "pkA", "pkB", "someone")
				case 2: // another client's key under the own key id
					signKey = hx.Pick(r, hx.Keys()[1], hx.Keys()[0], hx.Keys()[6], hx.Keys()[3])
				case 3: // another client's key AND key id
					other := hx.Pick(r, byID["pkA"], byID["pkB"])
					if cl.c.ID == "pkC" { // the client whose key id pkC shares
						other = byID["pkA"]
					}
					if forgeWith != "" {
						other = byID[forgeWith]
					}
					signKey, kid = other.keys[0].k, other.keys[0].kid
				case 4:
					kid = hx.Pick(r, "", "zz")
				case 5:
					exp = sec + 1 + int64(hx.Pick(r, -2, -1, 0, 1, 2))
				case 6:
					iat = sec + 1 + int64(hx.Pick(r, -2, -1, 0, 1, 2))
				case 7:
					iat = sec - 3600 + int64(hx.Pick(r, -2, -1, 0, 1, 2))
				case 8: // (deep 5) iat FAR from the verifier's clock (c14FarTime), everything else genuine
					iat, farClass = c14FarTime(r, sec)
					farClass = "iat-" + farClass
				case 9: // (deep 5) exp far
					exp, farClass = c14FarTime(r, sec)
					farClass = "exp-" + farClass
				case 10: // (deep 5) iat exactly one int64-nanosecond wrap (2^64 ns, about 584.5 years) ahead / ago, or 2^55 .. 2^62 s
					iat = sec + int64(hx.Pick(r, 18446744074, -18446744074, 1<<55, -(1 << 58), 1<<62))
					farClass = "iat-wrap0"
				case 15: // (deep 4) genuine in every respect, signed with the issuer's OWN key - but the subject is somebody else (a registered client / a user)
					for sub == iss {
						sub = hx.Pick(r, "pkA", "pkA", "pkB", "pkB", "pkE", "secK", "pkC", "user1")
					}
					if o < len(script) {
						sub = script[o].sub
					}
					delegatedTo = sub
				}
				claims := map[string]any{"iss": iss, "sub": sub, "aud": aud, "iat": iat, "exp": exp}
				if aud == nil {
					delete(claims, "aud")
				}
				payload, _ := json.Marshal(claims)
				var err error
				tok, err = sy.sign(signKey, signKey.Algs[0], kid, payload)
				if err != nil {
					continue
				}
			}
			// ---- the request
			owner := iss
			if r.Chance(8) && !wantValid {
				owner = hx.Pick(r, "pkA", "pkB")
			}
			// (deep 4) a delegated assertion comes with the grant material of the client named as SUBJECT (60 %) or of the issuer
			if byID[delegatedTo] != nil && r.Chance(60) {
				owner = delegatedTo
			}
			if o < len(script) && script[o].owner != "" {
				owner = script[o].owner
			}
			subrel := "same"
			switch {
			case mint == "manual" && delegatedTo != "" && byID[delegatedTo] != nil:
				subrel = "client"
			case mint == "manual" && delegatedTo != "":
				subrel = "other"
			case mint == "manual":
				subrel = "manual"
			}
			form := url.Values{}
			auth := opbed.Auth{Kind: "assertion", Assertion: tok}
			pathOf := "/oauth/token"
			switch ep {
			case "refresh":
				if len(refreshPool[owner+"@"+host]) == 0 {
					ep = "code"
				}
			}
			var scopeReq []string
			switch ep {
			case "bearer":
				auth = opbed.Auth{Kind: "none"}
				scopeReq = hx.Pick(r, []string{"openid"}, []string{"openid", refstore.ForbiddenScope}, []string{refstore.ForbiddenScope, "profile"}, nil)
				form = url.Values{"grant_type": {string(oidc.GrantTypeBearer)}, "assertion": {tok}}
				if scopeReq != nil {
					form.Set("scope", strings.Join(scopeReq, " "))
				}
				owner = ""
			case "code":
				if byID[owner] == nil {
					owner = "pkA"
				}
				form = url.Values{"grant_type": {"authorization_code"}, "code": {newCode(owner, host)}, "redirect_uri": {"https://rp.example/cb"}}
			case "refresh":
				pool := refreshPool[owner+"@"+host]
				rt := pool[len(pool)-1]
				form = url.Values{"grant_type": {"refresh_token"}, "refresh_token": {rt}}
			case "device":
				if byID[owner] == nil {
					owner = "pkA"
				}
				form = url.Values{"grant_type": {string(oidc.GrantTypeDeviceCode)}, "device_code": {newDeviceCode(owner, reqIssuer)}}
			case "exchange":
				form = url.Values{"grant_type": {string(oidc.GrantTypeTokenExchange)}, "subject_token": {subjectToken[host]},
					"subject_token_type": {string(oidc.AccessTokenType)}, "requested_token_type": {string(oidc.AccessTokenType)}}
				owner = ""
			case "introspect":
				pathOf = "/oauth/introspect"
				form = url.Values{"token": {subjectToken[host]}}
				owner = ""
			case "revoke":
				pathOf = "/revoke"
				form = url.Values{"token": {"no-such-token"}}
				owner = ""
			case "devauth":
				pathOf = "/device_authorization"
				form = url.Values{"scope": {"openid"}}
				owner = ""
			}
			// private_key_jwt must be switched on for client authentication by assertion (the jwt-bearer grant does not depend on it)
			ctxOK := cl.c.Auth == oidc.AuthMethodPrivateKeyJWT && iss == cl.c.ID && (pkjwt || ep == "bearer") && (owner == "" || owner == iss)
			proper = proper && ctxOK
			l.S("ep", ep).S("g.owner", owner).B("proper", proper).B("ctx.ok", ctxOK)
			if farClass != "" {
				l.S("far", farClass)
				stats["endpoint-far-"+farClass]++
			}
			if ep == "bearer" {
				l.L("scope.req", scopeReq).L("scope.forbidden", []string{refstore.ForbiddenScope})
			}
			// registrations (for the model) and the key registry
			l.I("cl.n", int64(len(cls)))
			nk := 0
			for i, c := range cls {
				l.S(fmt.Sprintf("cl.%d.id", i), c.c.ID).S(fmt.Sprintf("cl.%d.auth", i), string(c.c.Auth))
				nk += len(c.keys)
			}
			l.I("st.n", int64(nk))
			i := 0
			for _, c := range cls {
				for _, k := range c.keys {
					p := fmt.Sprintf("st.%d.", i)
					l.S(p+"client", c.c.ID).S(p+"kid", k.kid).S(p+"use", "sig").S(p+"kty", k.k.Kty).I(p+"no", int64(k.k.No))
					i++
				}
			}
			l.S("v.iss", reqIssuer).I("v.maxiat", int64(time.Hour)).I("v.off", int64(time.Second)).S("subrel", subrel)
			if subjcheck != "default" {
				l.S("v.subjcheck", subjcheck)
				if subjcheck == "table" {
					l.L("v.subjtable", c14SubjectTable)
				}
			}
			// order: which issuer did this provider serve first, and where does this assertion point
			order := "first"
			if served {
				switch {
				case host == firstHost:
					order = "at-first"
				default:
					order = "at-later"
				}
			}
			crossOrder := ""
			if audKind == "cross" && issMode != "static" {
				switch {
				case !served:
					crossOrder = "first-request"
				case otherHost == firstHost:
					crossOrder = "AthenB" // addressed to the first-served issuer A, presented at a later issuer B
				case host == firstHost:
					crossOrder = "BthenA" // addressed to a later issuer B, presented at the first-served issuer A
				default:
					crossOrder = "BthenC" // neither is the first-served issuer (3 virtual hosts)
				}
				stats["cross-issuer-assertion-"+ep+"-"+crossOrder]++
				stats["cross-issuer-assertion-"+crossOrder]++
				stats["cross-issuer-assertion-"+router+"-"+ep]++
			}
			if audKind == "own" || audKind == "both" {
				stats["own-issuer-assertion-"+ep+"-"+order]++
			}
			l.S("order", order).S("xorder", crossOrder)
			if !served {
				firstHost, served = host, true
			}
			l.S("first.iss", cb.issuerOf(firstHost))
			// (deep 3) how the assertion gets on the wire: by hand (opbed.Auth), or by the library's own client code -
			//   formauth:     client.ClientAssertionFormAuthorization(assertion) writes the form parameters (any endpoint with client authentication)
			//   rpcode:       rp.CodeExchange(…, rp.WithClientAssertionJWT(assertion)) = client.ClientAssertionCodeOptions through oauth2 (code grant)
			//   tokensource:  profile.NewJWTProfileTokenSource(issuer, client, kid, key, …).TokenCtx: mints AND sends the jwt-bearer grant itself
			//   rsintrospect: rs.NewResourceServerJWTProfile(issuer, client, kid, key, …) + rs.Introspect: mints AND authenticates itself
			wire := "manual"
			selfMint := mint == "helper" && audKind == "own" && o >= len(script)
			switch {
			case ep == "bearer" && selfMint && r.Chance(65):
				wire = "tokensource"
			case ep == "introspect" && selfMint && r.Chance(65):
				wire = "rsintrospect"
			case ep == "code" && o >= len(script) && r.Chance(35):
				wire = "rpcode"
			case ep != "bearer" && o >= len(script) && r.Chance(35):
				wire = "formauth"
			}
			tr := &c14Transport{cb: cb, host: host}
			hc := &http.Client{Transport: tr}
			base := "http://op.internal"
			waitClearOfSecondEdge()
			t0 := time.Now()
			var resp *opbed.Resp
			switch wire {
			case "formauth":
				client.ClientAssertionFormAuthorization(tok)(form)
				resp = do(bed.Form(pathOf, form, opbed.Auth{Kind: "none"}), host)
			case "rpcode":
				conf := &oauth2.Config{ClientID: owner, RedirectURL: "https://rp.example/cb",
					Endpoint: oauth2.Endpoint{AuthURL: base + "/authorize", TokenURL: base + "/oauth/token", AuthStyle: oauth2.AuthStyleInParams}}
				if rpc, err := rp.NewRelyingPartyOAuth(conf, rp.WithHTTPClient(hc)); err == nil {
					rp.CodeExchange[*oidc.IDTokenClaims](ctx, form.Get("code"), rpc, rp.WithClientAssertionJWT(tok))
				}
				resp = tr.last
			case "tokensource":
				if src, err := profile.NewJWTProfileTokenSource(ctx, reqIssuer, cl.c.ID, ck.kid, pemOf(ck.k), scopeReq,
					profile.WithStaticTokenEndpoint(reqIssuer, base+"/oauth/token"), profile.WithHTTPClient(hc)); err == nil {
					src.TokenCtx(ctx)
				}
				resp = tr.last
				if resp != nil {
					tok = tr.form.Get("assertion")
					recordHelperSig(sy, tok, ck.k, ck.kid)
				}
			case "rsintrospect":
				if rsv, err := rs.NewResourceServerJWTProfile(ctx, reqIssuer, cl.c.ID, ck.kid, pemOf(ck.k),
					rs.WithStaticEndpoints(base+"/oauth/token", base+"/oauth/introspect"), rs.WithClient(hc)); err == nil {
					rs.Introspect[*oidc.IntrospectionResponse](ctx, rsv, subjectToken[host])
				}
				resp = tr.last
				if resp != nil {
					tok = tr.form.Get("client_assertion")
					recordHelperSig(sy, tok, ck.k, ck.kid)
				}
			}
			if resp == nil { // the client library produced no request (e.g. an Ed25519 / P-384 key it cannot sign with): by hand
				wire = "manual"
				resp = do(bed.Form(pathOf, form, auth), host)
			}
			t1 := time.Now()
			l.S("wire", wire)
			stats["ep-wire-"+wire+"-"+ep]++
			sy.tokenKV(l, tok)
			l.I("now0", t0.UnixNano()).I("now1", t1.UnixNano())
			ok := resp.Status == 200 && !resp.Panicked
			switch ep {
			case "bearer", "code", "refresh", "device", "exchange":
				ok = ok && resp.Str("access_token") != ""
			case "devauth":
				ok = ok && resp.Str("device_code") != ""
			}
			obs := "err"
			switch {
			case resp.Panicked:
				obs = "panic"
				l.S("obs", "panic")
			case ok:
				obs = "ok"
				l.S("obs", "ok")
				if id := c14Identity(ep, resp.Journal); id != "" {
					l.S("o.id", id)
				}
				if ep == "bearer" {
					l.L("o.scope", strings.Fields(resp.Str("scope")))
					if sub := c14JournalArg(resp.Journal, "CreateAccessToken", 2); sub != "" {
						l.S("o.sub", sub) // whom the token is for
					}
				}
				if rt := resp.Str("refresh_token"); rt != "" && (ep == "code" || ep == "refresh") {
					pk := owner + "@" + host
					if ep == "refresh" { // rotated: the presented token is gone
						refreshPool[pk] = refreshPool[pk][:len(refreshPool[pk])-1]
					}
					refreshPool[pk] = append(refreshPool[pk], rt)
					if ep == "code" {
						followUp, followHost = byID[owner], host
					}
				}
			default:
				l.S("obs", "err").S("o.err", resp.OAuthError())
			}
			l.I("o.status", int64(resp.Status))
			stats["ep-"+ep]++
			stats["ep-"+router+"-"+ep+"-"+obs]++
			stats["ep-aud-"+audKind]++
			stats["ep-mint-"+mint]++
			stats["ep-vlife-"+vlife+"-"+ep+"-"+obs]++
			if subjcheck != "default" {
				stats["ep-subj-"+subjcheck+"-"+router+"-"+ep+"-sub-"+subrel+"-"+obs]++
			}
			emitLine(l)
		}
	}
}

// c14Identity: the client identity the endpoint went on with, read off the storage calls of the request
func c14JournalArg(journal []string, prefix string, i int) string {
	for _, j := range journal {
		if strings.HasPrefix(j, prefix+"(") {
			args := strings.Split(strings.TrimSuffix(strings.TrimPrefix(j, prefix+"("), ")"), ",")
			if i < len(args) {
				return args[i]
			}
		}
	}
	return ""
}

func c14Identity(ep string, journal []string) string {
	arg := func(prefix string, i int) string { return c14JournalArg(journal, prefix, i) }
	switch ep {
	case "bearer":
		return arg("ValidateJWTProfileScopes", 0)
	case "code", "refresh", "device", "exchange":
		if id := arg("CreateAccessAndRefreshTokens", 1); id != "" {
			return id
		}
		return arg("CreateAccessToken", 1)
	case "introspect":
		return arg("SetIntrospectionFromToken", 2)
	case "revoke":
		if id := arg("RevokeToken", 2); id != "" {
			return id
		}
		return arg("GetRefreshTokenInfo", 0)
	case "devauth":
		return arg("StoreDeviceAuthorization", 0)
	}
	return ""
}
