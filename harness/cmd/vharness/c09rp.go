package main

// C09, kind=rph: the client-side HANDLERS and flow helpers of the relying party against a faulty provider.
//
// An OIDC relying party (rp.NewRelyingPartyOIDC: discovery, remote key set, ID-token verifier, state / PKCE cookies) is
// driven through the redirect handlers the library ships — AuthURLHandler, CodeExchangeHandler with a plain callback and
// with UserinfoCallback — and through the flow helpers RefreshTokens, DeviceAuthorization / DeviceAccessToken,
// EndSession, RevokeToken, ClientCredentials, while the provider's answers (token, userinfo, JWKS, device endpoints)
// are varied member by member over: valid | missing | null | wrong JSON type | empty string | well-formed but
// unverifiable (ID token: other key, alg none, expired, wrong issuer / audience, at_hash mismatch, payload null …).
// Everything under recover(); obs = ok (the application callback ran / a value came back) | err | panic | nilnil.

import (
	"context"
	"crypto/rsa"
	"crypto/x509"
	"encoding/json"
	"encoding/pem"
	"fmt"
	"io"
	"net/http"
	"net/http/httptest"
	"net/url"
	"strings"
	"time"

	jose "github.com/go-jose/go-jose/v4"
	"golang.org/x/oauth2"

	"github.com/zitadel/oidc/v3/pkg/client/rp"
	httphelper "github.com/zitadel/oidc/v3/pkg/http"
	"github.com/zitadel/oidc/v3/pkg/oidc"

	"verifharness/internal/hx"
)

// the faulty provider: one answer per endpoint
type c09Ans struct {
	status int
	body   string
}

type c09FakeOP struct {
	ans   map[string]c09Ans // path -> answer
	calls map[string]int
}

func (p *c09FakeOP) RoundTrip(req *http.Request) (*http.Response, error) {
	if req.Body != nil {
		io.Copy(io.Discard, req.Body)
		req.Body.Close()
	}
	p.calls[req.URL.Path]++
	a, ok := p.ans[req.URL.Path]
	if !ok {
		a = c09Ans{404, `{"error":"not_found"}`}
	}
	return &http.Response{StatusCode: a.status, Status: http.StatusText(a.status), Header: http.Header{"Content-Type": {"application/json"}},
		Body: io.NopCloser(strings.NewReader(a.body)), Request: req, ProtoMajor: 1, ProtoMinor: 1}, nil
}

func c09Discovery() string {
	d := map[string]any{"issuer": c09Iss, "authorization_endpoint": c09Iss + "/authorize", "token_endpoint": c09Iss + "/token", "userinfo_endpoint": c09Iss + "/userinfo",
		"jwks_uri": c09Iss + "/keys", "end_session_endpoint": c09Iss + "/end", "revocation_endpoint": c09Iss + "/revoke", "device_authorization_endpoint": c09Iss + "/device",
		"introspection_endpoint": c09Iss + "/introspect", "id_token_signing_alg_values_supported": []string{"RS256"}, "response_types_supported": []string{"code"}, "subject_types_supported": []string{"public"}}
	b, _ := json.Marshal(d)
	return string(b)
}

func c09JWKS() string {
	set := jose.JSONWebKeySet{Keys: []jose.JSONWebKey{{Key: hx.Keys()[0].Pub, KeyID: "sig1", Algorithm: "RS256", Use: "sig"}}}
	b, _ := json.Marshal(set)
	return string(b)
}

// the classes of one member of a JSON answer
type c09Member struct {
	cls  string
	val  any // nil + drop=false => JSON null
	drop bool
}

func c09MemberClasses(valid any) []c09Member {
	return []c09Member{{"valid", valid, false}, {"missing", nil, true}, {"null", nil, false}, {"number", 1, false}, {"empty-string", "", false}, {"object", map[string]any{}, false},
		{"array", []any{1}, false}, {"bool", true, false}}
}

// ID tokens: valid for (iss = c09Iss, aud = "c") and every way of being well-formed but unverifiable
func c09IDTokens(accessToken string) []c09Member {
	now := time.Now().Unix()
	claims := func(mod func(m map[string]any)) string {
		m := map[string]any{"iss": c09Iss, "sub": "user1", "aud": []string{"c"}, "exp": now + 3600, "iat": now - 5, "auth_time": now - 5, "azp": "c"}
		if mod != nil {
			mod(m)
		}
		b, _ := json.Marshal(m)
		return string(b)
	}
	sign := func(k int, alg, kid, payload string) string {
		t, err := hx.Sign(hx.Keys()[k], alg, kid, []byte(payload))
		if err != nil {
			return "e30.e30.e30"
		}
		return t
	}
	hdrNone := c09B64(`{"alg":"none"}`)
	out := []c09Member{
		{"valid", sign(0, "RS256", "sig1", claims(nil)), false},
		{"valid-no-kid", sign(0, "RS256", "", claims(nil)), false},
		{"other-key", sign(1, "RS256", "sig1", claims(nil)), false},
		{"unknown-kid", sign(0, "RS256", "nope", claims(nil)), false},
		{"alg-not-allowed", sign(2, "ES256", "sig1", claims(nil)), false},
		{"alg-none", hdrNone + "." + c09B64(claims(nil)) + ".", false},
		{"expired", sign(0, "RS256", "sig1", claims(func(m map[string]any) { m["exp"] = now - 10 })), false},
		{"iat-future", sign(0, "RS256", "sig1", claims(func(m map[string]any) { m["iat"] = now + 3600 })), false},
		{"wrong-issuer", sign(0, "RS256", "sig1", claims(func(m map[string]any) { m["iss"] = "https://evil.example" })), false},
		{"wrong-audience", sign(0, "RS256", "sig1", claims(func(m map[string]any) { m["aud"] = []string{"other"} })), false},
		{"no-sub", sign(0, "RS256", "sig1", claims(func(m map[string]any) { delete(m, "sub") })), false},
		{"at_hash-mismatch", sign(0, "RS256", "sig1", claims(func(m map[string]any) { m["at_hash"] = "AAAAAAAAAAAAAAAAAAAAAA" })), false},
		{"aud-non-string", sign(0, "RS256", "sig1", claims(func(m map[string]any) { m["aud"] = []any{"c", 1} })), false},
		{"exp-string", sign(0, "RS256", "sig1", claims(func(m map[string]any) { m["exp"] = "soon" })), false},
		{"payload-null", sign(0, "RS256", "sig1", "null"), false},
		{"payload-array", sign(0, "RS256", "sig1", "[]"), false},
		{"payload-empty-object", sign(0, "RS256", "sig1", "{}"), false},
		{"two-segments", "e30.e30", false},
		{"garbage", "not a token", false},
		{"json-serialised", `{"payload":"e30","signatures":[]}`, false},
	}
	for _, m := range c09MemberClasses("x")[1:] {
		out = append(out, m)
	}
	return out
}

type c09RPBed struct {
	op     *c09FakeOP
	party  rp.RelyingParty
	cookie *httphelper.CookieHandler
	kind   string
}

// c09PEMKey: ring key 1 (RSA) as a PKCS#1 PEM block, the form client key files carry
func c09PEMKey() []byte {
	k, ok := hx.Keys()[1].Priv.(*rsa.PrivateKey)
	if !ok {
		return nil
	}
	return pem.EncodeToMemory(&pem.Block{Type: "RSA PRIVATE KEY", Bytes: x509.MarshalPKCS1PrivateKey(k)})
}

func c09NewRPBed(kind string, pkce bool) (*c09RPBed, error) {
	fake := &c09FakeOP{ans: map[string]c09Ans{"/.well-known/openid-configuration": {200, c09Discovery()}, "/keys": {200, c09JWKS()}}, calls: map[string]int{}}
	hc := &http.Client{Transport: fake}
	key := []byte("0123456789abcdef0123456789abcdef")
	ch := httphelper.NewCookieHandler(key, key[:16], httphelper.WithUnsecure())
	opts := []rp.Option{rp.WithHTTPClient(hc), rp.WithCookieHandler(ch)}
	if pkce {
		opts = append(opts, rp.WithPKCE(ch))
	}
	jwtProfile := strings.HasSuffix(kind, "+jwtprofile")
	kind = strings.TrimSuffix(kind, "+jwtprofile")
	if jwtProfile {
		// private_key_jwt towards the token endpoint: CodeExchangeHandler signs a client assertion first
		opts = append(opts, rp.WithJWTProfile(rp.SignerFromKeyAndKeyID(c09PEMKey(), "kid1")))
	}
	var party rp.RelyingParty
	var err error
	switch kind {
	case "oidc":
		party, err = rp.NewRelyingPartyOIDC(context.Background(), c09Iss, "c", "s", "https://rp.example/cb", []string{"openid"}, opts...)
	default:
		party, err = rp.NewRelyingPartyOAuth(&oauth2.Config{ClientID: "c", ClientSecret: "s", RedirectURL: "https://rp.example/cb", Scopes: []string{"openid"},
			Endpoint: oauth2.Endpoint{AuthURL: c09Iss + "/authorize", TokenURL: c09Iss + "/token", DeviceAuthURL: c09Iss + "/device"}}, opts...)
	}
	if err != nil {
		return nil, err
	}
	name := kind
	if jwtProfile {
		name += "+jwtprofile"
	}
	if pkce {
		name += "+pkce"
	}
	return &c09RPBed{op: fake, party: party, cookie: ch, kind: name}, nil
}

func c09JSONDoc(members map[string]c09Member) string {
	m := map[string]any{}
	for k, v := range members {
		if !v.drop {
			m[k] = v.val
		}
	}
	b, _ := json.Marshal(m)
	return string(b)
}

// the cookies AuthURLHandler sets, to be sent back with the callback request
func (b *c09RPBed) authRedirect(state string) (cookies []*http.Cookie, status int, pv string) {
	rec := httptest.NewRecorder()
	func() {
		defer func() {
			if p := recover(); p != nil {
				pv = fmt.Sprint(p)
			}
		}()
		rp.AuthURLHandler(func() string { return state }, b.party)(rec, httptest.NewRequest(http.MethodGet, "/login", nil))
	}()
	return rec.Result().Cookies(), rec.Code, pv
}

func c09RPHandlerStream(r *hx.Rand, n int, emit func(*hx.Line), stats map[string]int) {
	type outcome struct {
		obs, pv string
		status  int
		called  bool
	}
	serve := func(h http.Handler, req *http.Request, called *bool) outcome {
		rec := httptest.NewRecorder()
		o := outcome{}
		func() {
			defer func() {
				if p := recover(); p != nil {
					o.pv = fmt.Sprint(p)
				}
			}()
			h.ServeHTTP(rec, req)
		}()
		o.status = rec.Code
		o.called = *called
		switch {
		case o.pv != "":
			o.obs = "panic"
		case o.called || (rec.Code >= 200 && rec.Code < 400):
			o.obs = "ok"
		default:
			o.obs = "err"
		}
		return o
	}
	line := func(b *c09RPBed, handler string, cls map[string]string, o outcome, detail string) {
		l := hx.NewLine("C09").S("kind", "rph").S("handler", handler).S("rp", b.kind)
		for _, k := range []string{"req", "token", "access_token", "token_type", "expires_in", "refresh_token", "id_token", "userinfo", "jwks", "device"} {
			if v, ok := cls[k]; ok {
				l.S(k, v)
			}
		}
		l.I("status", int64(o.status)).B("called", o.called).S("obs", o.obs)
		if o.pv != "" {
			l.S("pv", clip(o.pv, 160))
		}
		l.S("detail", clip(detail, 300))
		emit(l)
		stats["rph."+handler+"."+o.obs]++
		for _, k := range []string{"id_token", "userinfo", "token", "jwks", "req"} {
			if v, ok := cls[k]; ok && v != "valid" {
				stats["rph.vary."+k+"."+v]++
			}
		}
	}

	at := "access-token-1"
	validTok := func(idt any) map[string]c09Member {
		return map[string]c09Member{"access_token": {"valid", at, false}, "token_type": {"valid", "Bearer", false}, "expires_in": {"valid", 3600, false},
			"refresh_token": {"valid", "rt", false}, "id_token": {"valid", idt, false}}
	}
	idts := c09IDTokens(at)
	goodIDT := idts[0].val
	userinfos := []struct{ cls, body string }{{"valid", `{"sub":"user1","name":"U"}`}, {"sub-mismatch", `{"sub":"someone-else"}`}, {"sub-missing", `{"name":"U"}`}, {"sub-null", `{"sub":null}`},
		{"sub-number", `{"sub":1}`}, {"sub-empty", `{"sub":""}`}, {"null", `null`}, {"array", `[]`}, {"string", `"x"`}, {"empty-body", ``}, {"truncated", `{"sub":"user1"`}, {"email_verified-string", `{"sub":"user1","email_verified":"yes"}`},
		{"address-array", `{"sub":"user1","address":[]}`}, {"locale-bad", `{"sub":"user1","locale":"xx-@@"}`}, {"updated_at-string", `{"sub":"user1","updated_at":"x"}`}, {"status-401", ``}, {"status-500", `{"error":"server_error"}`}}
	jwkss := []struct{ cls, body string }{{"valid", c09JWKS()}, {"keys-missing", `{}`}, {"keys-null", `{"keys":null}`}, {"keys-empty", `{"keys":[]}`}, {"keys-number", `{"keys":1}`}, {"keys-of-null", `{"keys":[null]}`},
		{"key-unknown-kty", `{"keys":[{"kty":"XYZ","kid":"sig1"}]}`}, {"key-truncated", `{"keys":[{"kty":"RSA","kid":"sig1","n":"AA","e":"AQAB"}]}`}, {"null", `null`}, {"array", `[]`}, {"status-500", `{"error":"x"}`}}

	// one callback request through the handler under test
	callback := func(b *c09RPBed, handler string, cls map[string]string, tokenAns c09Ans, userinfoAns c09Ans, reqMod func(q url.Values, cookies []*http.Cookie) (url.Values, []*http.Cookie)) {
		b.op.ans["/token"], b.op.ans["/userinfo"] = tokenAns, userinfoAns
		state := "st-" + fmt.Sprint(r.Intn(1<<30))
		cookies, _, pv := b.authRedirect(state)
		if pv != "" {
			line(b, "AuthURLHandler", cls, outcome{obs: "panic", pv: pv}, "")
			return
		}
		q := url.Values{"code": {"the-code"}, "state": {state}}
		if reqMod != nil {
			q, cookies = reqMod(q, cookies)
		}
		req := httptest.NewRequest(http.MethodGet, "/cb?"+q.Encode(), nil)
		for _, c := range cookies {
			req.AddCookie(c)
		}
		called := false
		var h http.Handler
		switch handler {
		case "CodeExchangeHandler+UserinfoCallback":
			h = rp.CodeExchangeHandler(rp.UserinfoCallback(func(w http.ResponseWriter, r *http.Request, tokens *oidc.Tokens[*oidc.IDTokenClaims], state string, party rp.RelyingParty, info *oidc.UserInfo) {
				called = true
				_ = info.Subject // the application's first field access
				w.WriteHeader(http.StatusOK)
			}), b.party)
		default:
			h = rp.CodeExchangeHandler(func(w http.ResponseWriter, r *http.Request, tokens *oidc.Tokens[*oidc.IDTokenClaims], state string, party rp.RelyingParty) {
				called = true
				_ = tokens.AccessToken
				w.WriteHeader(http.StatusOK)
			}, b.party)
		}
		o := serve(h, req, &called)
		line(b, handler, cls, o, "token="+tokenAns.body+" userinfo="+userinfoAns.body)
	}

	beds := []*c09RPBed{}
	for _, pk := range []bool{false, true, false} {
		kind := "oidc"
		if len(beds) == 2 {
			kind = "oidc+jwtprofile"
		}
		if b, err := c09NewRPBed(kind, pk); err == nil {
			beds = append(beds, b)
		} else {
			emit(hx.NewLine("C09").S("kind", "rph").S("handler", "NewRelyingPartyOIDC").S("rp", "oidc").S("obs", "err").S("detail", clip(err.Error(), 200)))
		}
	}
	if len(beds) == 0 {
		return
	}
	okUI := c09Ans{200, userinfos[0].body}
	handlers := []string{"CodeExchangeHandler+UserinfoCallback", "CodeExchangeHandler+callback"}
	for _, b := range beds {
		for _, h := range handlers {
			// (a) the id_token member over every class, everything else valid
			for _, idt := range idts {
				tok := validTok(nil)
				tok["id_token"] = idt
				callback(b, h, map[string]string{"req": "valid", "token": "id_token:" + idt.cls, "id_token": idt.cls, "userinfo": "valid"}, c09Ans{200, c09JSONDoc(tok)}, okUI, nil)
			}
			// (b) every other member of the token response over every class (with and without an ID token)
			for _, member := range []string{"access_token", "token_type", "expires_in", "refresh_token"} {
				for _, mc := range c09MemberClasses(nil)[1:] {
					for _, withIDT := range []bool{true, false} {
						tok := validTok(goodIDT)
						tok[member] = mc
						cls := map[string]string{"req": "valid", "token": member + ":" + mc.cls, member: mc.cls, "userinfo": "valid", "id_token": "valid"}
						if !withIDT {
							tok["id_token"] = c09Member{"missing", nil, true}
							cls["id_token"] = "missing"
						}
						callback(b, h, cls, c09Ans{200, c09JSONDoc(tok)}, okUI, nil)
					}
				}
			}
			// (c) the whole token answer: not an object, error documents, odd statuses
			for _, ta := range []struct {
				cls string
				a   c09Ans
			}{{"null", c09Ans{200, "null"}}, {"array", c09Ans{200, "[]"}}, {"string", c09Ans{200, `"x"`}}, {"empty", c09Ans{200, ""}}, {"truncated", c09Ans{200, `{"access_token":"a"`}},
				{"error-400", c09Ans{400, `{"error":"invalid_grant"}`}}, {"error-400-null", c09Ans{400, "null"}}, {"error-200", c09Ans{200, `{"error":"invalid_grant"}`}}, {"status-500-html", c09Ans{500, "<html>"}},
				{"form-encoded", c09Ans{200, "access_token=a&token_type=bearer"}}, {"empty-object", c09Ans{200, "{}"}}} {
				callback(b, h, map[string]string{"req": "valid", "token": ta.cls, "userinfo": "valid"}, ta.a, okUI, nil)
			}
			// (d) the userinfo answer over every class (only reached through UserinfoCallback)
			for _, ui := range userinfos {
				a := c09Ans{200, ui.body}
				switch ui.cls {
				case "status-401":
					a.status = 401
				case "status-500":
					a.status = 500
				}
				callback(b, h, map[string]string{"req": "valid", "token": "valid", "id_token": "valid", "userinfo": ui.cls}, c09Ans{200, c09JSONDoc(validTok(goodIDT))}, a, nil)
			}
			// (e) the callback request itself: state / cookies / error parameters
			reqs := []struct {
				cls string
				f   func(q url.Values, cs []*http.Cookie) (url.Values, []*http.Cookie)
			}{
				{"no-cookies", func(q url.Values, cs []*http.Cookie) (url.Values, []*http.Cookie) { return q, nil }},
				{"state-mismatch", func(q url.Values, cs []*http.Cookie) (url.Values, []*http.Cookie) {
					q.Set("state", "other")
					return q, cs
				}},
				{"state-missing", func(q url.Values, cs []*http.Cookie) (url.Values, []*http.Cookie) { q.Del("state"); return q, cs }},
				{"code-missing", func(q url.Values, cs []*http.Cookie) (url.Values, []*http.Cookie) { q.Del("code"); return q, cs }},
				{"code-empty", func(q url.Values, cs []*http.Cookie) (url.Values, []*http.Cookie) { q.Set("code", ""); return q, cs }},
				{"error-param", func(q url.Values, cs []*http.Cookie) (url.Values, []*http.Cookie) {
					q.Set("error", "access_denied")
					q.Set("error_description", "<script>")
					return q, cs
				}},
				{"cookies-garbage", func(q url.Values, cs []*http.Cookie) (url.Values, []*http.Cookie) {
					for _, c := range cs {
						c.Value = "AAAA" + c.Value[min(4, len(c.Value)):]
					}
					return q, cs
				}},
				{"cookies-truncated", func(q url.Values, cs []*http.Cookie) (url.Values, []*http.Cookie) {
					for _, c := range cs {
						c.Value = c.Value[:len(c.Value)/2]
					}
					return q, cs
				}},
				{"cookies-empty", func(q url.Values, cs []*http.Cookie) (url.Values, []*http.Cookie) {
					for _, c := range cs {
						c.Value = ""
					}
					return q, cs
				}},
			}
			for _, rq := range reqs {
				callback(b, h, map[string]string{"req": rq.cls, "token": "valid", "id_token": "valid", "userinfo": "valid"}, c09Ans{200, c09JSONDoc(validTok(goodIDT))}, okUI, rq.f)
			}
		}
		// (f) the key set answer over every class: a fresh relying party each time (nothing cached), a valid token response
		for _, jk := range jwkss {
			fb, err := c09NewRPBed("oidc", false)
			if err != nil {
				continue
			}
			a := c09Ans{200, jk.body}
			if jk.cls == "status-500" {
				a.status = 500
			}
			fb.op.ans["/keys"] = a
			for _, idc := range []int{0, 1, 3} {
				tok := validTok(nil)
				tok["id_token"] = idts[idc]
				callback(fb, handlers[0], map[string]string{"req": "valid", "token": "valid", "id_token": idts[idc].cls, "userinfo": "valid", "jwks": jk.cls}, c09Ans{200, c09JSONDoc(tok)}, okUI, nil)
			}
		}
		// (g) the flow helpers of the relying party against the same answers
		ctx := context.Background()
		helper := func(name string, cls map[string]string, detail string, f func() (any, error)) {
			var v any
			var err error
			o := outcome{}
			func() {
				defer func() {
					if p := recover(); p != nil {
						o.pv = fmt.Sprint(p)
					}
				}()
				v, err = f()
			}()
			switch {
			case o.pv != "":
				o.obs = "panic"
			case err != nil:
				o.obs = "err"
			case c09Nil(v):
				o.obs = "nilnil"
			default:
				o.obs = "ok"
			}
			line(b, name, cls, o, detail)
		}
		for _, idt := range idts {
			tok := validTok(nil)
			tok["id_token"] = idt
			body := c09JSONDoc(tok)
			b.op.ans["/token"] = c09Ans{200, body}
			cls := map[string]string{"token": "id_token:" + idt.cls, "id_token": idt.cls}
			helper("rp.RefreshTokens", cls, body, func() (any, error) {
				t, err := rp.RefreshTokens[*oidc.IDTokenClaims](ctx, b.party, "rt", "", "")
				if err == nil && t != nil {
					_ = t.AccessToken // what every caller reads first
				}
				return t, err
			})
			helper("rp.CodeExchange", cls, body, func() (any, error) {
				t, err := rp.CodeExchange[*oidc.IDTokenClaims](ctx, "code", b.party)
				if err == nil && t != nil {
					_ = t.AccessToken
				}
				return t, err
			})
		}
		devs := []struct{ cls, body string }{{"valid", `{"device_code":"dc","user_code":"uc","verification_uri":"https://op/d","expires_in":600,"interval":1}`}, {"null", "null"}, {"array", "[]"}, {"empty-object", "{}"},
			{"expires_in-string", `{"device_code":"dc","expires_in":"x"}`}, {"interval-null", `{"device_code":"dc","interval":null}`}, {"device_code-number", `{"device_code":1}`}, {"verification_url", `{"device_code":"dc","verification_url":"https://op/d"}`},
			{"truncated", `{"device_code":"dc"`}, {"error-400", `{"error":"invalid_client"}`}}
		for _, dv := range devs {
			a := c09Ans{200, dv.body}
			if dv.cls == "error-400" {
				a.status = 400
			}
			b.op.ans["/device"] = a
			helper("rp.DeviceAuthorization", map[string]string{"device": dv.cls}, dv.body, func() (any, error) { return rp.DeviceAuthorization(ctx, []string{"openid"}, b.party, nil) })
		}
		for _, ta := range []struct {
			cls, body string
			status    int
		}{{"valid", c09JSONDoc(validTok(goodIDT)), 200}, {"null", "null", 200}, {"array", "[]", 200}, {"empty-object", "{}", 200}, {"pending", `{"error":"authorization_pending"}`, 400},
			{"slow_down", `{"error":"slow_down"}`, 400}, {"denied", `{"error":"access_denied"}`, 400}, {"error-null", "null", 400}, {"error-number", `{"error":1}`, 400}, {"expires_in-string", `{"access_token":"a","expires_in":"x"}`, 200}, {"html-500", "<html>", 500}} {
			b.op.ans["/token"] = c09Ans{ta.status, ta.body}
			helper("rp.DeviceAccessToken", map[string]string{"token": ta.cls}, ta.body, func() (any, error) {
				c, cancel := context.WithTimeout(ctx, 25*time.Millisecond)
				defer cancel()
				return rp.DeviceAccessToken(c, "dc", time.Millisecond, b.party)
			})
			helper("rp.ClientCredentials", map[string]string{"token": ta.cls}, ta.body, func() (any, error) { return rp.ClientCredentials(ctx, b.party, nil) })
		}
		for _, ea := range []struct {
			cls string
			a   c09Ans
			loc string
		}{{"redirect", c09Ans{302, ""}, "https://rp.example/out"}, {"redirect-no-location", c09Ans{302, ""}, ""}, {"ok-200", c09Ans{200, "{}"}, ""}, {"error-400-null", c09Ans{400, "null"}, ""},
			{"error-400", c09Ans{400, `{"error":"invalid_request"}`}, ""}, {"bad-location", c09Ans{302, ""}, "://%zz"}} {
			b.op.ans["/end"], b.op.ans["/revoke"] = ea.a, ea.a
			helper("rp.EndSession", map[string]string{"token": ea.cls}, ea.cls, func() (any, error) {
				u, err := rp.EndSession(ctx, b.party, "idt", "https://rp.example/out", "st")
				if err == nil {
					return "done", nil // a nil URL without a Location header is the documented result
				}
				return u, err
			})
			helper("rp.RevokeToken", map[string]string{"token": ea.cls}, ea.cls, func() (any, error) { return "done", rp.RevokeToken(ctx, b.party, "tok", "access_token") })
		}
	}
	// (h) AuthURLHandler: the request that starts the flow, with and without PKCE, odd request targets
	for _, b := range beds {
		for i, target := range []string{"/login", "/login?prompt=none", "/login?" + strings.Repeat("a=b&", 200), "/login?%zz", "//login", "/login#frag"} {
			rec := httptest.NewRecorder()
			o := outcome{}
			func() {
				defer func() {
					if p := recover(); p != nil {
						o.pv = fmt.Sprint(p)
					}
				}()
				req := httptest.NewRequest(http.MethodGet, "/login", nil)
				if u, err := url.Parse(target); err == nil {
					req.URL = u
				} else {
					req.URL.RawQuery = strings.TrimPrefix(target, "/login?")
				}
				rp.AuthURLHandler(func() string { return hx.Pick(r, "", "st", strings.Repeat("s", 5000), "a b\x00c") }, b.party, rp.WithPromptURLParam("login"), rp.WithURLParam("x", "y"))(rec, req)
			}()
			o.status = rec.Code
			o.obs = "ok"
			if o.pv != "" {
				o.obs = "panic"
			} else if rec.Code >= 400 {
				o.obs = "err"
			}
			line(b, "AuthURLHandler", map[string]string{"req": fmt.Sprintf("target-%d", i)}, o, target)
		}
	}
}
