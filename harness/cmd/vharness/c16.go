package main

// C16 — device authorization grant. Three kinds of cases:
//   usercode   : op.NewUserCode called directly for many (alphabet, amount, dash interval) configurations; the indices the
//                real code drew are recovered from its output and handed to the model, which must reproduce the string
//   usercodebytes : op.NewUserCode with crypto/rand.Reader replaced by a chosen byte stream (alphabets of 1 .. 300 runes, so one
//                and two bytes per draw, streams with many rejected candidates and streams that run dry); the model
//                (rand.Int's rejection sampling + the loop) must reproduce the user code AND the number of bytes consumed
//   devicecode : op.NewDeviceCode called directly; the drawn bytes are recovered by decoding
//   histories  : reset, then device_authorization / approve / deny / expire / poll lines against the REAL handlers of both
//                routers on the reference storage, by several clients, with storage faults on the state lookup

import (
	"bufio"
	"context"
	crand "crypto/rand"
	"encoding/base64"
	"encoding/hex"
	"errors"
	"fmt"
	"io"
	"net/http"
	"net/url"
	"strings"
	"time"

	"github.com/zitadel/oidc/v3/pkg/oidc"
	"github.com/zitadel/oidc/v3/pkg/op"

	"verifharness/internal/hx"
	"verifharness/internal/opbed"
	"verifharness/internal/refstore"
)

func init() { streams["C16"] = c16Stream }

// ---------------------------------------------------------------- user-code configurations

type c16Alphabet struct {
	name, chars string
}

var c16Alphabets = []c16Alphabet{
	{"base20", op.CharSetBase20}, {"digits", op.CharSetDigits}, {"single", "A"}, {"two", "AB"}, {"with-dash", "ab-"},
	{"umlaut", "äöüß"}, {"greek", "αβγδεζ"}, {"emoji", "😀😁😂"}, {"mixed-width", "a€😀ж"}, {"dup", "AAB"},
	{"reserved-amp", "AB&"}, {"reserved-plus", "A+B"}, {"reserved-pct", "A%B"}, {"reserved-hash", "A#B"}, {"reserved-eq", "A=B"}, {"reserved-space", "A B"},
}

// c16Reader stands in for crypto/rand.Reader: a finite stream of chosen bytes, then io.EOF
type c16Reader struct {
	data []byte
	pos  int
}

func (r *c16Reader) Read(p []byte) (int, error) {
	if r.pos >= len(r.data) {
		return 0, io.EOF
	}
	n := copy(p, r.data[r.pos:])
	r.pos += n
	return n, nil
}

// c16UserCodeFrom runs op.NewUserCode with crypto/rand.Reader replaced by rd (the stream is single-threaded)
func c16UserCodeFrom(rd io.Reader, cs []rune, amount, dash int) (code string, err error, panicked bool) {
	saved := crand.Reader
	crand.Reader = rd
	defer func() {
		crand.Reader = saved
		if recover() != nil {
			panicked = true
		}
	}()
	code, err = op.NewUserCode(cs, amount, dash)
	return
}

func c16Reserved(cs string) bool { return strings.ContainsAny(cs, "&+%#") }

func c16PickUserCode(r *hx.Rand, exotic int) (c16Alphabet, int, int) {
	a := c16Alphabets[r.Intn(2)]
	if r.Chance(exotic) {
		a = c16Alphabets[r.Intn(len(c16Alphabets))]
	}
	dash := r.Intn(10)
	var amount int
	switch r.Intn(6) {
	case 0:
		amount = 1 + r.Intn(3)
	case 1:
		amount = 1 + r.Intn(64)
	case 2: // around a multiple of the dash interval
		if dash > 0 {
			amount = dash*(1+r.Intn(4)) + r.Intn(3) - 1
		}
	default:
		amount = 4 + r.Intn(9)
	}
	if amount < 1 {
		amount = 1
	}
	return a, amount, dash
}

// c16RecoverIdx reads the alphabet index of every character back from a user code (positions of the dashes as configured)
func c16RecoverIdx(cs []rune, dash int, code string) []string {
	var out []string
	i := 0
	rs := []rune(code)
	for p := 0; p < len(rs); {
		if dash != 0 && i != 0 && i%dash == 0 && rs[p] == '-' {
			p++
			if p >= len(rs) {
				break
			}
		}
		idx := 1000000
		for k, c := range cs {
			if c == rs[p] {
				idx = k
				break
			}
		}
		out = append(out, fmt.Sprint(idx))
		p++
		i++
	}
	return out
}

// ---------------------------------------------------------------- clients

type c16Client struct {
	c        *refstore.Client
	weight   int
	mismatch bool // application type and auth method disagree about "confidential"
}

func c16Clients() []*c16Client {
	dev := []oidc.GrantType{oidc.GrantTypeDeviceCode, oidc.GrantTypeRefreshToken}
	mk := func(id, secret string, app op.ApplicationType, auth oidc.AuthMethod, grants []oidc.GrantType, w int) *c16Client {
		c := &refstore.Client{ID: id, Secret: secret, App: app, Auth: auth, Grants: grants, IDLifetime: time.Hour,
			RespTypes: []oidc.ResponseType{oidc.ResponseTypeCode}, Redirects: []string{"https://rp.example/cb"}}
		return &c16Client{c: c, weight: w, mismatch: (app == op.ApplicationTypeWeb) != (auth != oidc.AuthMethodNone)}
	}
	return []*c16Client{
		mk("tv", "secret-tv", op.ApplicationTypeWeb, oidc.AuthMethodBasic, dev, 6),
		mk("tv2", "secret-tv2", op.ApplicationTypeWeb, oidc.AuthMethodBasic, []oidc.GrantType{oidc.GrantTypeDeviceCode}, 4),
		mk("cli", "", op.ApplicationTypeNative, oidc.AuthMethodNone, dev, 6),
		mk("spa", "", op.ApplicationTypeUserAgent, oidc.AuthMethodNone, dev, 2),
		mk("post", "secret-post", op.ApplicationTypeWeb, oidc.AuthMethodPost, dev, 2),
		mk("pk", "", op.ApplicationTypeWeb, oidc.AuthMethodPrivateKeyJWT, dev, 1),
		mk("nogrant", "secret-ng", op.ApplicationTypeWeb, oidc.AuthMethodBasic, []oidc.GrantType{oidc.GrantTypeCode}, 2),
		mk("natsec", "secret-ns", op.ApplicationTypeNative, oidc.AuthMethodBasic, dev, 2),
		mk("webnone", "", op.ApplicationTypeWeb, oidc.AuthMethodNone, dev, 1),
	}
}

func c16PickClient(r *hx.Rand, cs []*c16Client) *c16Client {
	total := 0
	for _, c := range cs {
		total += c.weight
	}
	k := r.Intn(total)
	for _, c := range cs {
		if k < c.weight {
			return c
		}
		k -= c.weight
	}
	return cs[0]
}

// c16Present picks how the caller presents itself: mostly the canonical way of its registration
func c16Present(r *hx.Rand, l *hx.Line, c *c16Client, all []*c16Client) opbed.Auth {
	reg := c.c
	kind, id, secret := "id-only", reg.ID, ""
	if reg.Auth != oidc.AuthMethodNone {
		kind, secret = "basic", reg.Secret
		if reg.Auth == oidc.AuthMethodPost {
			kind = "post"
		}
	}
	if r.Chance(25) {
		switch r.Intn(7) {
		case 0:
			kind, secret = "id-only", "" // names the client, no credentials
		case 1:
			kind, secret = "basic", "wrong"
		case 2:
			kind, secret = "post", reg.Secret
		case 3:
			kind, id, secret = "none", "", ""
		case 4:
			kind, secret = "basic", reg.Secret
		case 5:
			kind, secret = "basic", all[0].c.Secret // another client's secret
		case 6:
			id = "ghost" // unregistered client
		}
	}
	if kind == "id-only" || kind == "none" {
		secret = ""
	}
	l.S("kind", kind).S("cid", id).S("secret", secret).B("mm", c.mismatch && id == reg.ID)
	return opbed.Auth{Kind: kind, ID: id, Secret: secret}
}

// c16ExtraFormClientID: a caller that authenticates with Basic auth may ALSO carry a client_id in the form (of
// another registered client).  Basic auth takes precedence on both routers, so the request must be treated exactly
// like the plain Basic one: the flow belongs to the authenticated client, never to the one named in the form.
func c16ExtraFormClientID(r *hx.Rand, l *hx.Line, auth opbed.Auth, form url.Values, all []*c16Client) {
	if auth.Kind != "basic" || !r.Chance(15) {
		return
	}
	other := all[r.Intn(len(all))].c.ID
	if other == auth.ID {
		return
	}
	form.Set("client_id", other)
	l.S("xcid", other)
}

type c16Dev struct {
	code, userCode, client string
}

// ---------------------------------------------------------------- the stream

func c16Stream(r *hx.Rand, tier string, n int, w *bufio.Writer) map[string]int {
	if n == 0 {
		n = 500
		if tier == "thorough" {
			n = 10000
		}
	}
	stats := map[string]int{}
	caseNo := 0
	emit := func(l *hx.Line) {
		fmt.Fprintln(w, l.String())
		caseNo++
	}

	// ---- part 1: NewUserCode for many configurations
	for i := 0; i < 6*n; i++ {
		a, amount, dash := c16PickUserCode(r, 60)
		cs := []rune(a.chars)
		code, err, panicked := c16UserCodeFrom(crand.Reader, cs, amount, dash)
		l := hx.NewLine("C16").I("case", int64(caseNo)).S("op", "usercode").S("uc.cs", a.chars).I("uc.n", int64(amount)).I("uc.d", int64(dash))
		if panicked {
			l.S("obs", "panic")
		} else if err != nil {
			l.S("obs", "err").S("o.err", err.Error())
		} else {
			l.S("obs", "ok").S("o.uc", code).L("idx", c16RecoverIdx(cs, dash, code))
		}
		stats["usercode-alphabet-"+a.name]++
		switch {
		case dash == 0:
			stats["usercode-dash-0"]++
		case dash >= amount:
			stats["usercode-dash>=amount"]++
		case amount%dash == 0:
			stats["usercode-amount-multiple-of-dash"]++
		default:
			stats["usercode-dash-inside"]++
		}
		emit(l)
	}
	// ---- part 1b: NewUserCode on a chosen stream of "random" bytes
	for i := 0; i < n; i++ {
		size := hx.Pick(r, 1, 2, 3, 16, 17, 20, 20, 20, 255, 256, 257, 300)
		cs := make([]rune, size)
		for j := range cs {
			cs[j] = rune(0x4E00 + j)
		}
		if size == 20 {
			cs = []rune(op.CharSetBase20)
		}
		amount, dash := 1+r.Intn(12), r.Intn(6)
		k := 1
		if size > 256 {
			k = 2
		}
		ln := k * amount * (1 + r.Intn(4))
		if r.Chance(12) {
			ln = r.Intn(k*amount + 1)
		}
		stream := make([]byte, ln)
		for j := range stream {
			switch r.Intn(6) {
			case 0:
				stream[j] = 0xFF
			case 1:
				stream[j] = byte(size - 2 + r.Intn(4)) // around the bound
			case 2:
				stream[j] = byte(r.Intn(2))
			default:
				stream[j] = byte(r.Intn(256))
			}
		}
		rd := &c16Reader{data: stream}
		code, err, panicked := c16UserCodeFrom(rd, cs, amount, dash)
		l := hx.NewLine("C16").I("case", int64(caseNo)).S("op", "usercodebytes").S("uc.cs", string(cs)).I("uc.n", int64(amount)).I("uc.d", int64(dash)).
			S("stream", hex.EncodeToString(stream))
		switch {
		case panicked:
			l.S("obs", "panic")
			stats["usercodebytes-panic"]++
		case err != nil:
			l.S("obs", "err").S("o.err", "entropy")
			stats["usercodebytes-reader-dry"]++
		default:
			l.S("obs", "ok").S("o.uc", code).I("o.used", int64(rd.pos))
			if rd.pos > k*amount {
				stats["usercodebytes-with-rejections"]++
			} else {
				stats["usercodebytes-no-rejection"]++
			}
		}
		stats[fmt.Sprintf("usercodebytes-alphabet-%d", size)]++
		emit(l)
	}
	// ---- part 2: NewDeviceCode
	for i := 0; i < n/2+1; i++ {
		nb := op.RecommendedDeviceCodeBytes
		if r.Chance(40) {
			nb = r.Intn(41)
		}
		code, _ := op.NewDeviceCode(nb)
		raw, err := base64.RawURLEncoding.DecodeString(code)
		l := hx.NewLine("C16").I("case", int64(caseNo)).S("op", "devicecode").I("n", int64(nb)).S("obs", "ok").S("o.dc", code)
		if err == nil {
			l.S("bytes", hex.EncodeToString(raw))
		}
		stats["devicecode"]++
		emit(l)
	}

	// ---- part 3: histories
	maxOps := 14
	if tier == "thorough" {
		maxOps = 34
	}
	for h := 0; h < n; h++ {
		router := hx.Pick(r, "provider", "legacy")
		capOn := !r.Chance(4)
		a, amount, dash := c16PickUserCode(r, 25)
		if r.Chance(10) { // tiny code space: duplicate user codes happen
			a, amount, dash = c16Alphabets[3], 1+r.Intn(2), 0
		}
		uc := op.UserCodeConfig{CharSet: a.chars, CharAmount: amount, DashInterval: dash}
		lifetime := hx.Pick(r, 5*time.Minute, 5*time.Minute, 10*time.Minute, 90*time.Second)
		poll := hx.Pick(r, 5*time.Second, 5*time.Second, time.Second, 10*time.Second)
		uisub := !r.Chance(12) // the storage fills userinfo.Subject (CanSetUserinfoFromRequest)
		cfg := opbed.Config{Router: router, S256: true, Post: r.Chance(70), PrivateKeyJWT: r.Chance(50), Refresh: true,
			Caps: refstore.Caps{CC: true, TE: true, Device: capOn, UserinfoFromReq: uisub}, UserCode: &uc, DeviceLifetime: lifetime, DevicePoll: poll}
		bed, err := opbed.New(cfg)
		if err != nil {
			panic(err)
		}
		cls := c16Clients()
		for _, c := range cls {
			bed.Store.AddClient(c.c)
		}
		bed.Store.AddUser("user1", nil)
		bed.Store.AddUser("user2", nil)
		h0 := caseNo
		l := hx.NewLine("C16").I("case", int64(caseNo)).I("h0", int64(h0)).S("op", "reset").S("router", router).B("post", cfg.Post).B("pkjwt", cfg.PrivateKeyJWT).
			B("cap", capOn).B("uisub", uisub).S("issuer", opbed.Issuer).S("path", "/device").I("lifetime", int64(lifetime/time.Second)).I("interval", int64(poll/time.Second)).
			S("uc.cs", a.chars).I("uc.n", int64(amount)).I("uc.d", int64(dash))
		l.I("cl.n", int64(len(cls)))
		for i, c := range cls {
			p := fmt.Sprintf("cl.%d.", i)
			l.S(p+"id", c.c.ID).S(p+"secret", c.c.Secret).I(p+"app", appNo(c.c.App)).S(p+"auth", string(c.c.Auth)).L(p+"grants", grantStrings(c.c.Grants))
		}
		emit(l)
		stats["history-"+router]++
		if !capOn {
			stats["history-without-device-storage"]++
		}
		if !uisub {
			stats["history-storage-leaves-userinfo-subject-empty"]++
		}
		stats["history-alphabet-"+a.name]++

		var devs []c16Dev
		nops := 4 + r.Intn(maxOps)
		for o := 0; o < nops; o++ {
			var cand []int
			add := func(k, wgt int) {
				for i := 0; i < wgt; i++ {
					cand = append(cand, k)
				}
			}
			if len(devs) < 2 {
				add(0, 5)
			} else {
				add(0, 2)
			}
			if len(devs) > 0 {
				add(1, 4)
				add(2, 1)
				add(3, 2)
			}
			if len(devs) > 0 {
				add(4, 8)
			} else {
				add(4, 1)
			}
			kind := cand[r.Intn(len(cand))]
			base := func(op string) *hx.Line {
				return hx.NewLine("C16").I("case", int64(caseNo)).I("h0", int64(h0)).S("op", op).S("router", router).B("uisub", uisub)
			}
			switch kind {
			case 0: // device_authorization
				c := c16PickClient(r, cls)
				scopes := hx.Pick(r, "openid", "openid profile", "openid offline_access", "profile email", "offline_access", "")
				l := base("auth")
				auth := c16Present(r, l, c, cls)
				form := url.Values{}
				c16ExtraFormClientID(r, l, auth, form, cls)
				var scopeList []string
				if scopes != "" {
					form.Set("scope", scopes)
					scopeList = strings.Split(scopes, " ")
				}
				l.L("scopes", scopeList).B("ucres", c16Reserved(a.chars))
				bed.Store.LastDeviceAttempt = [2]string{}
				t0 := time.Now()
				resp := bed.Do(bed.Form("/device_authorization", form, auth))
				t1 := time.Now()
				l.I("now0", t0.UnixNano()).I("now1", t1.UnixNano())
				if att := bed.Store.LastDeviceAttempt; att[0] != "" || att[1] != "" {
					if raw, err := base64.RawURLEncoding.DecodeString(att[0]); err == nil {
						l.S("rnd.bytes", hex.EncodeToString(raw))
					}
					l.L("rnd.idx", c16RecoverIdx([]rune(a.chars), dash, att[1]))
				}
				switch {
				case resp.Panicked:
					l.S("obs", "panic")
					stats["auth-panic"]++
				case resp.Status == 200 && resp.Str("device_code") != "":
					num := func(k string) int64 { f, _ := resp.JSON[k].(float64); return int64(f) }
					l.S("obs", "ok").S("o.dc", resp.Str("device_code")).S("o.uc", resp.Str("user_code")).S("o.uri", resp.Str("verification_uri")).
						S("o.uric", resp.Str("verification_uri_complete")).I("o.exp", num("expires_in")).I("o.int", num("interval"))
					if e := bed.Store.Devices()[resp.Str("device_code")]; e != nil {
						l.I("o.expires", e.State.Expires.UnixNano())
					}
					devs = append(devs, c16Dev{code: resp.Str("device_code"), userCode: resp.Str("user_code"), client: auth.ID})
					stats["auth-ok"]++
				default:
					l.S("obs", "err").S("o.err", resp.OAuthError()).I("o.status", int64(resp.Status))
					stats["auth-"+resp.OAuthError()]++
				}
				stats["op-auth"]++
				emit(l)
			case 1: // the user approves
				d := devs[r.Intn(len(devs))]
				sub := hx.Pick(r, "user1", "user2")
				if err := bed.Store.ApproveDevice(d.userCode, sub); err != nil {
					continue
				}
				l := base("approve").S("dev", d.code).S("sub", sub)
				if e := bed.Store.DeviceByUserCode(d.userCode); e != nil {
					l.I("authtime", e.State.AuthTime.Unix())
				}
				stats["op-approve"]++
				emit(l)
			case 2: // the user denies
				d := devs[r.Intn(len(devs))]
				if err := bed.Store.DenyDevice(d.userCode); err != nil {
					continue
				}
				stats["op-deny"]++
				emit(base("deny").S("dev", d.code))
			case 3: // time passes: the expiry is moved
				d := devs[r.Intn(len(devs))]
				e := bed.Store.Devices()[d.code]
				if e == nil {
					continue
				}
				delta := hx.Pick(r, -time.Hour, -time.Second, -time.Millisecond, -time.Nanosecond, 30*time.Millisecond, time.Hour)
				exp := time.Now().Add(delta)
				e.State.Expires = exp
				stats["op-expire"]++
				if delta > 0 {
					stats["op-expire-into-future"]++
				}
				emit(base("expire").S("dev", d.code).I("exp", exp.UnixNano()))
			default: // poll
				l := base("poll")
				code, owner := "", ""
				if len(devs) > 0 && !r.Chance(8) {
					d := devs[r.Intn(len(devs))]
					code, owner = d.code, d.client
				} else {
					code = hx.Pick(r, "garbage", "", "AAAAAAAAAAAAAAAAAAAAAA")
				}
				if code != "" && len(code) > 10 && r.Chance(4) {
					code += "x"
				}
				var caller *c16Client
				for _, c := range cls {
					if c.c.ID == owner {
						caller = c
					}
				}
				foreign := false
				if caller == nil || r.Chance(14) {
					caller = c16PickClient(r, cls)
					foreign = caller.c.ID != owner
				}
				auth := c16Present(r, l, caller, cls)
				fault := "none"
				if r.Chance(14) {
					fault = hx.Pick(r, "deadline", "wrapped", "ctx", "canceled", "other")
				}
				l.S("dev", code).S("fault", fault)
				form := url.Values{"grant_type": {string(oidc.GrantTypeDeviceCode)}}
				if code != "" {
					form.Set("device_code", code)
				}
				c16ExtraFormClientID(r, l, auth, form, cls)
				req := bed.Form("/oauth/token", form, auth)
				var cancel context.CancelFunc = func() {}
				switch fault {
				case "deadline":
					bed.Store.FailMethod("GetDeviceAuthorizatonState", context.DeadlineExceeded)
				case "wrapped":
					bed.Store.FailMethod("GetDeviceAuthorizatonState", fmt.Errorf("database: %w", context.DeadlineExceeded))
				case "other":
					bed.Store.FailMethod("GetDeviceAuthorizatonState", errors.New("injected storage failure"))
				case "ctx": // the request's own deadline has passed: the storage answers with ctx.Err()
					var ctx context.Context
					ctx, cancel = context.WithDeadline(req.Context(), time.Now().Add(-time.Second))
					req = req.WithContext(ctx)
				case "canceled":
					var ctx context.Context
					ctx, cancel = context.WithCancel(req.Context())
					cancel()
					req = req.WithContext(ctx)
				}
				t0 := time.Now()
				resp := bed.Do(req)
				t1 := time.Now()
				cancel()
				bed.Store.ClearFaults()
				l.I("now0", t0.UnixNano()).I("now1", t1.UnixNano())
				c16PollObs(bed, l, resp)
				stats["op-poll"]++
				if foreign {
					stats["poll-by-another-client"]++
				}
				if fault != "none" {
					stats["poll-fault-"+fault]++
				}
				stats["poll-"+obsClass(resp)]++
				emit(l)
			}
		}
	}
	return stats
}

// c16PollObs writes what the token endpoint answered; issued tokens are decoded with the provider's own keys
func c16PollObs(bed *opbed.Bed, l *hx.Line, resp *opbed.Resp) {
	switch {
	case resp.Panicked:
		l.S("obs", "panic")
	case resp.Status == http.StatusOK && resp.Str("access_token") != "":
		l.S("obs", "ok")
		sub, client := "?", "?"
		var scopes, aud []string
		if plain, err := bed.Provider.Crypto().Decrypt(resp.Str("access_token")); err == nil {
			if id, s, ok := strings.Cut(plain, ":"); ok {
				sub = s
				if at := bed.Store.Token(id); at != nil {
					client, scopes, aud = at.ClientID, at.Scopes, at.Audience
					if at.Subject != s {
						sub = "?token-and-record-disagree"
					}
				}
			}
		}
		// the scope the client is told must be the scope of the token
		if sc, _ := resp.JSON["scope"].(string); strings.Join(scopes, " ") != sc {
			scopes = append([]string{"?response-scope-differs"}, scopes...)
		}
		l.S("o.sub", sub).S("o.client", client).L("o.scopes", scopes).L("o.aud", aud).B("o.rt", resp.Str("refresh_token") != "")
		if idt := resp.Str("id_token"); idt != "" {
			if m, ok := opbed.DecodeJWT(idt); ok {
				s, _ := m["sub"].(string)
				azp, _ := m["azp"].(string)
				l.S("o.idsub", s).S("o.azp", azp)
			}
		}
	default:
		l.S("obs", "err").S("o.err", resp.OAuthError()).I("o.status", int64(resp.Status))
	}
}
