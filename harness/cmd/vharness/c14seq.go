package main

// C14 sequence stream (kind=seq): ONE *op.JWTProfileVerifier object for a whole SEQUENCE of assertions.
//
// op.NewJWTProfileVerifier takes a fixed issuer, so an OP may legally create the verifier once and keep it (a custom
// JWTProfileVerifier(ctx) that returns a long-lived object).  The stock op.Provider builds one per request, which is why neither
// the repo's tests nor the per-call streams (kind=assertion / helper) ever hand the SAME object a second assertion.  Here every
// sequence has one verifier object (vlife=shared; a fresh one per step as control with vlife=fresh) and 3-9 steps; each step is
// one case line and is judged ON ITS OWN by the monitor (C14.sequenceStepOK): no clause knows what the object was asked before.
//
//   * via=verify     op.VerifyJWTAssertion(ctx, assertion, v)
//   * via=clientauth op.ClientJWTAuth(ctx, params, holder) with a holder whose JWTProfileVerifier(ctx) returns the long-lived v
//   * steps: genuine assertions of different clients (minted by client.SignedJWTProfileAssertion, by oidc.NewJWTProfileAssertion +
//     oidc.GenerateJWTProfileToken, or by hand), forgeries that name client X as iss = sub but are signed with ANOTHER client's key
//     under that client's key id (the impersonation a verifier with a sticky key set lets through), the same under X's key id,
//     unknown issuers, audience / time near-misses.  The issuer changes from step to step with high probability; `rel` says how
//     the step's issuer relates to the FIRST issuer the object saw (first / same-as-first / other-than-first), `signer` whose key
//     really signed (own / first / other / unknown).
//   * the first two sequences are scripted whatever the seed: M genuine, A forged with M's key, A genuine (helper), M genuine -
//     once through op.VerifyJWTAssertion, once through op.ClientJWTAuth.

import (
	"bufio"
	"context"
	"crypto/ecdh"
	"crypto/ecdsa"
	crand "crypto/rand"
	"crypto/rsa"
	"crypto/x509"
	"encoding/base64"
	"encoding/json"
	"encoding/pem"
	"errors"
	"fmt"
	"strings"
	"time"

	"github.com/zitadel/oidc/v3/pkg/client"
	"github.com/zitadel/oidc/v3/pkg/crypto"
	"github.com/zitadel/oidc/v3/pkg/oidc"
	"github.com/zitadel/oidc/v3/pkg/op"

	"verifharness/internal/hx"
)

// c14Holder: an OP-side object that hands out ONE verifier for its whole life (op.ClientJWTProfile)
type c14Holder struct{ v *op.JWTProfileVerifier }

func (h *c14Holder) JWTProfileVerifier(context.Context) *op.JWTProfileVerifier { return h.v }

// c14FreshHolder: the stock behaviour, a new verifier per call
type c14FreshHolder struct{ mk func() *op.JWTProfileVerifier }

func (h *c14FreshHolder) JWTProfileVerifier(context.Context) *op.JWTProfileVerifier { return h.mk() }

// recordHelperSig: provenance of a token minted by a library helper (the helper signed `payload` with key `k` under `kid`)
func recordHelperSig(sy *symbols, tok string, k *hx.Key, kid string) {
	parts := strings.Split(tok, ".")
	if len(parts) != 3 {
		return
	}
	rawSig, _ := base64.RawURLEncoding.DecodeString(parts[2])
	pl, _ := base64.RawURLEncoding.DecodeString(parts[1])
	sy.sigs[string(rawSig)] = sigRecord{signer: k.No, alg: k.Algs[0], kid: kid, payload: sy.pid(pl)}
}

type c14SeqStep struct {
	iss, signerOf, kidOf, mint string // issuer named; whose key signs; whose key id is named; how it is minted
	sub                        string // (deep 4) manual: the subject, when it is not the issuer
	iatD, expD                 int64  // (deep 5) manual: iat / exp = now + this many seconds (0: the ordinary iat = now-5, exp = now+300)
}

func c14SeqStream(r *hx.Rand, tier string, nseq int, w *bufio.Writer, caseNo *int, stats map[string]int, sy *symbols) {
	keys := hx.Keys()
	const issuer = "https://op.example"
	type ent struct {
		client, kid string
		k           *hx.Key
	}
	ents := []ent{{"client-A", "a1", keys[0]}, {"client-A", "a2", keys[2]}, {"client-B", "b1", keys[1]}, {"client-C", "c1", keys[3]}, {"client-E", "e1", keys[5]}}
	reg := &clientKeyStore{}
	for _, e := range ents {
		reg.clients = append(reg.clients, e.client)
		reg.keys = append(reg.keys, pubKey{e.k, e.kid, "sig"})
	}
	keyOf := func(cl string) ent { // a key registered for the client
		var c []ent
		for _, e := range ents {
			if e.client == cl {
				c = append(c, e)
			}
		}
		return c[r.Intn(len(c))]
	}
	clients := []string{"client-A", "client-A", "client-B", "client-B", "client-C", "client-E"}
	maxSteps := 7
	if tier == "thorough" {
		maxSteps = 14
	}
	ctx := context.Background()
	for s := 0; s < nseq; s++ {
		maxAge := hx.Pick(r, time.Hour, time.Hour, 10*time.Second, 0)
		offset := hx.Pick(r, time.Second, time.Second, 0, 30*time.Second)
		custom := r.Chance(15)
		via := hx.Pick(r, "verify", "verify", "clientauth")
		vlife := hx.Pick(r, "shared", "shared", "shared", "shared", "fresh")
		var script []c14SeqStep
		if s < 2 {
			maxAge, offset, custom, vlife = time.Hour, time.Second, false, "shared"
			via = []string{"verify", "clientauth"}[s]
			script = []c14SeqStep{
				{iss: "client-B", signerOf: "client-B", kidOf: "client-B", mint: "helper"},
				{iss: "client-A", signerOf: "client-B", kidOf: "client-B", mint: "manual"},
				{iss: "client-A", signerOf: "client-A", kidOf: "client-A", mint: "helper"},
				{iss: "client-B", signerOf: "client-B", kidOf: "client-B", mint: "generate"},
				{iss: "client-C", signerOf: "client-C", kidOf: "client-C", mint: "manual"},
			}
		}
		if s == 2 || s == 3 {
			// (deep 4) sequences 2 and 3: a verifier whose custom subject check admits every subject; genuine assertions of B, A, C whose
			// SUBJECT is another registered client - through ClientJWTAuth the answer has to be the issuer (the owner of the verifying key)
			maxAge, offset, custom, vlife = time.Hour, time.Second, true, "shared"
			via = []string{"clientauth", "verify"}[s-2]
			script = []c14SeqStep{
				{iss: "client-B", signerOf: "client-B", kidOf: "client-B", mint: "helper"},
				{iss: "client-B", signerOf: "client-B", kidOf: "client-B", mint: "manual", sub: "client-A"},
				{iss: "client-A", signerOf: "client-A", kidOf: "client-A", mint: "helper"},
				{iss: "client-A", signerOf: "client-A", kidOf: "client-A", mint: "manual", sub: "client-B"},
				{iss: "client-C", signerOf: "client-C", kidOf: "client-C", mint: "manual", sub: "client-E"},
			}
		}
		if s == 4 || s == 5 {
			// (deep 5) sequences 4 and 5: the provider's window (1 h, 1 s); assertions genuine in every respect whose iat / exp lies FAR from
			// the verifier's clock: one int64-nanosecond wrap (2^64 ns = 18446744073.7 s, about 584.5 years) ahead / ago, 2^55 s and 2^62 s
			// (whole multiples of 2^64 ns), half a wrap; an exp one wrap ago (+300 s) must be refused, an exp 2^62 s ahead is unexpired
			maxAge, offset, custom, vlife = time.Hour, time.Second, false, "shared"
			via = []string{"verify", "clientauth"}[s-4]
			script = []c14SeqStep{
				{iss: "client-A", signerOf: "client-A", kidOf: "client-A", mint: "helper"},
				{iss: "client-A", signerOf: "client-A", kidOf: "client-A", mint: "manual", iatD: 18446744074},
				{iss: "client-B", signerOf: "client-B", kidOf: "client-B", mint: "manual", iatD: -18446744074},
				{iss: "client-C", signerOf: "client-C", kidOf: "client-C", mint: "manual", iatD: 1 << 55},
				{iss: "client-A", signerOf: "client-A", kidOf: "client-A", mint: "manual", iatD: -(1 << 62)},
				{iss: "client-B", signerOf: "client-B", kidOf: "client-B", mint: "manual", expD: -18446744074 + 300},
				{iss: "client-A", signerOf: "client-A", kidOf: "client-A", mint: "manual", expD: 1 << 62},
				{iss: "client-B", signerOf: "client-B", kidOf: "client-B", mint: "manual", iatD: 9223372037},
				{iss: "client-A", signerOf: "client-A", kidOf: "client-A", mint: "helper"},
			}
		}
		var opts []op.JWTProfileVerifierOption
		if custom {
			opts = append(opts, op.SubjectCheck(func(*oidc.JWTTokenRequest) error { return nil }))
		}
		mk := func() *op.JWTProfileVerifier { return op.NewJWTProfileVerifier(reg, issuer, maxAge, offset, opts...) }
		shared := mk()
		var holder op.ClientJWTProfile = &c14Holder{v: shared}
		if vlife == "fresh" {
			holder = &c14FreshHolder{mk: mk}
		}
		nsteps := 3 + r.Intn(maxSteps)
		if script != nil {
			nsteps = len(script) + r.Intn(3)
		}
		h0 := *caseNo
		firstIss, prevIss := "", ""
		stats["seq-sequences"]++
		stats["seq-via-"+via]++
		stats["seq-vlife-"+vlife]++
		for k := 0; k < nsteps; k++ {
			// ---- the step: who is named, whose key signs, whose key id is named
			st := c14SeqStep{mint: hx.Pick(r, "helper", "helper", "generate", "manual", "manual", "manual")}
			st.iss = hx.Pick(r, clients...)
			if prevIss != "" && r.Chance(70) { // a different issuer than the step before
				for st.iss == prevIss {
					st.iss = hx.Pick(r, clients...)
				}
			}
			st.signerOf, st.kidOf = st.iss, st.iss
			variant := "genuine"
			if st.mint == "manual" {
				switch r.Intn(10) {
				case 0, 1, 2: // impersonation: the FIRST issuer's (or any other client's) key and key id, naming st.iss
					other := firstIss
					if other == "" || other == "unknown" || other == st.iss || r.Chance(30) {
						other = hx.Pick(r, clients...)
					}
					if other != st.iss {
						st.signerOf, st.kidOf, variant = other, other, "forged-key-and-kid"
					}
				case 3: // another client's key under the named client's own key id
					other := hx.Pick(r, clients...)
					if other != st.iss {
						st.signerOf, variant = other, "forged-key"
					}
				case 4:
					variant = "unknown-issuer"
				case 5:
					variant = "aud"
				case 6:
					variant = "time"
				case 7:
					variant = "sub"
				}
			}
			if k < len(script) {
				st = script[k]
				variant = "genuine"
				if st.signerOf != st.iss {
					variant = "forged-key-and-kid"
				}
				if st.sub != "" {
					variant = "delegated-sub"
				}
				if st.iatD != 0 {
					variant = "far-iat"
				}
				if st.expD != 0 {
					variant = "far-exp"
				}
			}
			signEnt := keyOf(st.signerOf)
			kid := signEnt.kid
			if st.kidOf != st.signerOf {
				kid = keyOf(st.kidOf).kid
			}
			iss := st.iss
			if variant == "unknown-issuer" {
				iss = "unknown"
			}
			aud := []string{issuer}
			var tok string
			var err error
			helperMade := false
			waitClearOfSecondEdge()
			switch st.mint {
			case "helper": // client.NewSignerFromPrivateKeyByte + client.SignedJWTProfileAssertion
				signer, serr := client.NewSignerFromPrivateKeyByte(pemOf(signEnt.k), kid)
				if serr != nil {
					continue
				}
				tok, err = client.SignedJWTProfileAssertion(iss, aud, time.Hour, signer)
				helperMade = err == nil
			case "generate": // oidc.NewJWTProfileAssertion + oidc.GenerateJWTProfileToken
				tok, err = oidc.GenerateJWTProfileToken(oidc.NewJWTProfileAssertion(iss, kid, aud, pemOf(signEnt.k)))
				helperMade = err == nil
			default:
				sec := time.Now().Unix()
				sub := iss
				iat, exp := sec-5, sec+300
				offS := int64(offset / time.Second)
				switch variant {
				case "aud":
					aud = hx.Pick(r, []string{"https://other"}, []string{}, []string{"https://other", issuer})
				case "time":
					switch r.Intn(5) {
					case 3: // (deep 5) far from the verifier's clock (c14FarTime)
						var fc string
						iat, fc = c14FarTime(r, sec)
						variant = "far-iat"
						stats["seq-far-iat-"+fc]++
					case 4:
						var fc string
						exp, fc = c14FarTime(r, sec)
						variant = "far-exp"
						stats["seq-far-exp-"+fc]++
					case 0:
						exp = sec + offS + int64(hx.Pick(r, -2, -1, 0, 1, 2))
					case 1:
						iat = sec + offS + int64(hx.Pick(r, -2, -1, 0, 1, 2))
					case 2:
						if maxAge > 0 {
							iat = sec - int64(maxAge/time.Second) + int64(hx.Pick(r, -2, -1, 0, 1, 2))
						}
					}
				case "sub":
					sub = hx.Pick(r, "client-A", "client-B", "someone")
				}
				if st.sub != "" {
					sub = st.sub
				}
				if st.iatD != 0 {
					iat = sec + st.iatD
				}
				if st.expD != 0 {
					exp = sec + st.expD
				}
				payload, _ := json.Marshal(map[string]any{"iss": iss, "sub": sub, "aud": aud, "iat": iat, "exp": exp})
				tok, err = sy.sign(signEnt.k, signEnt.k.Algs[0], kid, payload)
			}
			if err != nil {
				continue
			}
			if helperMade {
				recordHelperSig(sy, tok, signEnt.k, kid)
			}
			rel := "first"
			if firstIss != "" {
				rel = "other-than-first"
				if iss == firstIss {
					rel = "same-as-first"
				}
			}
			signerRel := "own"
			switch {
			case st.signerOf == st.iss && variant != "unknown-issuer":
			case st.signerOf == firstIss:
				signerRel = "first"
			default:
				signerRel = "other"
			}
			l := hx.NewLine("C14").I("case", int64(*caseNo)).I("h0", int64(h0)).S("kind", "seq").I("seq", int64(s)).I("step", int64(k)).
				S("via", via).S("vlife", vlife).S("mint", st.mint).S("variant", variant).S("rel", rel).S("signer", signerRel).
				S("first.iss", firstIss).S("keytype", signEnt.k.Kty).B("helper", helperMade && st.signerOf == st.iss)
			if custom {
				l.S("v.subjcheck", "any")
			}
			var req *oidc.JWTTokenRequest
			var id string
			var verr error
			panicked := false
			t0 := time.Now()
			func() {
				defer func() {
					if recover() != nil {
						panicked = true
					}
				}()
				switch via {
				case "clientauth":
					id, verr = op.ClientJWTAuth(ctx, oidc.ClientAssertionParams{ClientAssertion: tok, ClientAssertionType: oidc.ClientAssertionTypeJWTAssertion}, holder)
				default:
					req, verr = op.VerifyJWTAssertion(ctx, tok, holder.JWTProfileVerifier(ctx))
				}
			}()
			t1 := time.Now()
			l.I("now0", t0.UnixNano()).I("now1", t1.UnixNano()).S("v.iss", issuer).I("v.maxiat", int64(maxAge)).I("v.off", int64(offset))
			registryKV(l, reg)
			sy.tokenKV(l, tok)
			obs := "err"
			switch {
			case panicked:
				obs = "panic"
				l.S("obs", "panic")
			case verr != nil:
				l.S("obs", "err").S("o.err", hx.ErrName(verr))
			case via == "clientauth":
				obs = "ok"
				l.S("obs", "ok").S("o.id", id)
			default:
				obs = "ok"
				l.S("obs", "ok").S("o.iss", req.Issuer).S("o.sub", req.Subject).L("o.aud", req.Audience).I("o.exp", int64(req.ExpiresAt)).I("o.iat", int64(req.IssuedAt))
			}
			stats["seq-steps"]++
			stats["seq-"+vlife+"-"+rel+"-"+variant+"-"+obs]++
			stats["seq-mint-"+st.mint]++
			fmt.Fprintln(w, l.String())
			*caseNo++
			if firstIss == "" {
				firstIss = iss
			}
			prevIss = iss
		}
	}
}

// ---------------------------------------------------------------------------------------------------------------------------------
// kind=mint: the library's client helpers on their own (correspondence tie of the regenerated helper definitions): key bytes in every
// form BytesToPrivateKey distinguishes (PKCS#8 RSA / EC P-256 / EC P-384 / Ed25519 / another key type, PKCS#1 RSA, SEC1 EC, no PEM),
// both helper families (NewSignerFromPrivateKeyByte + SignedJWTProfileAssertion with several expirations; NewJWTProfileAssertion +
// GenerateJWTProfileToken), audiences.  Observed: the error class or the token (algorithm, key id, claims, exp - iat, iat between the
// clock readings around the call); a minted token whose key is registered and whose audience names the issuer is then shown to a
// verifier (1 h / 1 s): the monitor demands that it is accepted.
func c14MintStream(r *hx.Rand, n int, w *bufio.Writer, caseNo *int, stats map[string]int, sy *symbols) {
	keys := hx.Keys()
	const issuer = "https://op.example"
	reg := &clientKeyStore{
		clients: []string{"client-A", "client-C", "client-D", "client-E"},
		keys:    []pubKey{{keys[0], "a1", "sig"}, {keys[3], "c1", "sig"}, {keys[4], "d1", "sig"}, {keys[5], "e1", "sig"}},
	}
	x25519, _ := ecdh.X25519().GenerateKey(crand.Reader)
	type form struct {
		name, client, kid string
		k                 *hx.Key
		pem               []byte
	}
	pkcs1 := pem.EncodeToMemory(&pem.Block{Type: "RSA PRIVATE KEY", Bytes: x509.MarshalPKCS1PrivateKey(keys[0].Priv.(*rsa.PrivateKey))})
	sec1b, _ := x509.MarshalECPrivateKey(keys[3].Priv.(*ecdsa.PrivateKey))
	sec1 := pem.EncodeToMemory(&pem.Block{Type: "EC PRIVATE KEY", Bytes: sec1b})
	xder, _ := x509.MarshalPKCS8PrivateKey(x25519)
	forms := []form{
		{"pkcs8-rsa", "client-A", "a1", keys[0], pemOf(keys[0])}, {"pkcs1-rsa", "client-A", "a1", keys[0], pkcs1},
		{"pkcs8-ec256", "client-C", "c1", keys[3], pemOf(keys[3])}, {"pkcs8-ec384", "client-D", "d1", keys[4], pemOf(keys[4])},
		{"pkcs8-ed25519", "client-E", "e1", keys[5], pemOf(keys[5])}, {"sec1-ec", "client-C", "c1", keys[3], sec1},
		{"pkcs8-other", "client-A", "a1", keys[0], pem.EncodeToMemory(&pem.Block{Type: "PRIVATE KEY", Bytes: xder})},
		{"no-pem", "client-A", "a1", keys[0], []byte("this is not a PEM block")},
	}
	for i := 0; i < n; i++ {
		f := forms[r.Intn(len(forms))]
		if r.Chance(50) { // the well-formed ones more often
			f = forms[r.Intn(5)]
		}
		family := hx.Pick(r, "signed", "signed", "generate")
		expiration := time.Hour
		if family == "signed" {
			expiration = hx.Pick(r, time.Hour, time.Hour, 10*time.Second, 0, -5*time.Second)
			if r.Chance(12) { // (deep 5) lifetimes at the ends of what a Duration can say: +-146 years, +292.47 years (math.MaxInt64 ns)
				expiration = hx.Pick(r, time.Duration(1)<<62, -(time.Duration(1) << 62), time.Duration(1<<63-1))
				stats["mint-far-expiration"]++
			}
		}
		aud := hx.Pick(r, []string{issuer}, []string{issuer}, []string{issuer, "https://x"}, []string{"https://other"}, []string{})
		kid := f.kid
		if r.Chance(15) {
			kid = hx.Pick(r, "", "zz")
		}
		l := hx.NewLine("C14").I("case", int64(*caseNo)).S("kind", "mint").S("family", family).S("h.form", f.name).S("h.kty", f.k.Kty).I("h.no", int64(f.k.No)).
			S("h.kid", kid).S("h.client", f.client).L("h.aud", aud).I("h.exp", int64(expiration)).S("keytype", f.k.Kty)
		waitClearOfSecondEdge()
		var tok, errClass string
		m0 := time.Now()
		switch family {
		case "signed":
			signer, err := client.NewSignerFromPrivateKeyByte(f.pem, kid)
			switch {
			case errors.Is(err, crypto.ErrPEMDecode):
				errClass = "pem"
			case errors.Is(err, crypto.ErrUnsupportedFormat):
				errClass = "format"
			case errors.Is(err, crypto.ErrUnsupportedPrivateKey):
				errClass = "keytype"
			case err != nil:
				errClass = "signer"
			default:
				var serr error
				if tok, serr = client.SignedJWTProfileAssertion(f.client, aud, expiration, signer); serr != nil {
					errClass = "sign"
				}
			}
		default:
			var err error
			tok, err = oidc.GenerateJWTProfileToken(oidc.NewJWTProfileAssertion(f.client, kid, aud, f.pem))
			switch {
			case errors.Is(err, crypto.ErrPEMDecode):
				errClass = "pem"
			case errors.Is(err, crypto.ErrUnsupportedFormat):
				errClass = "format"
			case errors.Is(err, crypto.ErrUnsupportedPrivateKey):
				errClass = "keytype"
			case err != nil && strings.Contains(err.Error(), "bit key"):
				errClass = "sign"
			case err != nil:
				errClass = "signer"
			}
		}
		m1 := time.Now()
		l.I("m0", m0.UnixNano()).I("m1", m1.UnixNano())
		registryKV(l, reg)
		if errClass != "" {
			l.S("h.obs", "err:"+errClass).S("obs", "none")
			stats["mint-"+f.name+"-"+family+"-err-"+errClass]++
			fmt.Fprintln(w, l.String())
			*caseNo++
			continue
		}
		recordHelperSig(sy, tok, f.k, kid)
		sy.tokenKV(l, tok)
		l.S("h.obs", "ok")
		// shown to a verifier at once
		v := op.NewJWTProfileVerifier(reg, issuer, time.Hour, time.Second)
		t0 := time.Now()
		_, verr := op.VerifyJWTAssertion(context.Background(), tok, v)
		t1 := time.Now()
		l.I("now0", t0.UnixNano()).I("now1", t1.UnixNano()).S("v.iss", issuer).I("v.maxiat", int64(time.Hour)).I("v.off", int64(time.Second))
		// the helper was handed a registered key under its registered key id, the issuer as audience and a lifetime that covers the check
		helper := kid == f.kid && len(aud) > 0 && aud[0] == issuer && expiration >= 10*time.Second
		l.B("helper", helper)
		if verr != nil {
			l.S("obs", "err").S("o.err", hx.ErrName(verr))
		} else {
			l.S("obs", "ok")
		}
		stats["mint-"+f.name+"-"+family+"-ok"]++
		fmt.Fprintln(w, l.String())
		*caseNo++
	}
}
