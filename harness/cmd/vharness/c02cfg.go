package main

// C02, part 7 of the stream (round 4): WHICH key set / allowed list each derived verifier of a provider gets.
//
// A real op.Provider (both routers) is constructed with every subset - and several orders and repetitions - of the options that
// concern the two derived verifiers: op.WithAccessTokenKeySet, op.WithIDTokenHintKeySet, op.WithAccessTokenVerifierOpts(
// op.WithSupportedAccessTokenSigningAlgorithms(..)..), op.WithIDTokenHintVerifierOpts(..), interleaved with options that concern
// neither (op.WithAllowInsecure, op.WithCustomKeysEndpoint).  The key sets passed are storage-backed *op.OpenIDKeySet over OTHER keys
// than the provider's storage publishes (one of them overlaps it).  Every token-consuming endpoint (revocation, introspection,
// userinfo, token exchange subject / actor access_token and subject id_token, end_session, authorize) is then presented with a
// token signed by a key of EACH of the key sets in play.  The line carries the construction call itself (`cfg.*`: the options
// in the order they were passed, with the contents of the key sets handed over) and what the storage publishes (`ks.*`); the
// monitor reads the key set / allowed list configured for THIS verifier off that call (Spec/C02Config.lean: last option wins,
// default = the storage's keys / the library's list) - not off the provider's getters.

import (
	"fmt"
	"strings"

	"github.com/zitadel/oidc/v3/pkg/op"

	"verifharness/internal/hx"
)

type c02cfgOpt struct {
	kind  string     // atks, hintks, atalgs, hintalgs, other
	set   string     // atks / hintks: name of the key set passed
	lists [][]string // atalgs / hintalgs: one WithSupported…SigningAlgorithms(..) per element, in order
}

type c02cfg struct {
	opts []c02cfgOpt
	sets map[string][]pubKey
}

func (c *c02cfg) name() string {
	var parts []string
	for _, o := range c.opts {
		switch o.kind {
		case "atks", "hintks":
			parts = append(parts, o.kind+":"+o.set)
		case "atalgs", "hintalgs":
			var ls []string
			for _, l := range o.lists {
				ls = append(ls, strings.Join(l, "+"))
			}
			parts = append(parts, o.kind+":"+strings.Join(ls, "/"))
		default:
			parts = append(parts, o.kind)
		}
	}
	if len(parts) == 0 {
		return "none"
	}
	return strings.Join(parts, ",")
}

// the Go option list of the construction call
func (c *c02cfg) options() []op.Option {
	var out []op.Option
	for _, o := range c.opts {
		switch o.kind {
		case "atks":
			out = append(out, op.WithAccessTokenKeySet(&op.OpenIDKeySet{Storage: &keyStore{keys: c.sets[o.set]}}))
		case "hintks":
			out = append(out, op.WithIDTokenHintKeySet(&op.OpenIDKeySet{Storage: &keyStore{keys: c.sets[o.set]}}))
		case "atalgs":
			var vo []op.AccessTokenVerifierOpt
			for _, l := range o.lists {
				vo = append(vo, op.WithSupportedAccessTokenSigningAlgorithms(l...))
			}
			out = append(out, op.WithAccessTokenVerifierOpts(vo...))
		case "hintalgs":
			var vo []op.IDTokenHintVerifierOpt
			for _, l := range o.lists {
				vo = append(vo, op.WithSupportedIDTokenHintSigningAlgorithms(l...))
			}
			out = append(out, op.WithIDTokenHintVerifierOpts(vo...))
		default:
			out = append(out, op.WithAllowInsecure())
		}
	}
	return out
}

// the construction call on the line: cfg.n, cfg.<i>.opt, the key set handed over (cfg.<i>.ks.*) or the lists (cfg.<i>.m, cfg.<i>.l<j>)
func (c *c02cfg) line(l *hx.Line) {
	l.I("cfg.n", int64(len(c.opts))).S("g.cfg", c.name())
	for i, o := range c.opts {
		p := fmt.Sprintf("cfg.%d.", i)
		l.S(p+"opt", o.kind)
		switch o.kind {
		case "atks", "hintks":
			ksLinePrefix(l, p+"ks.", "published", c.sets[o.set])
		case "atalgs", "hintalgs":
			l.I(p+"m", int64(len(o.lists)))
			for j, ls := range o.lists {
				l.L(fmt.Sprintf("%sl%d", p, j), ls)
			}
		}
	}
}

// statistics only: where the signer's key sits relative to the key sets of the call (the harness' own reading, not the monitor's)
func (c *c02cfg) count(stats map[string]int, hint bool, signer *hx.Key, believed bool) {
	own, other := "S", "S"
	for _, o := range c.opts {
		if o.kind == "atks" {
			if hint {
				other = o.set
			} else {
				own = o.set
			}
		}
		if o.kind == "hintks" {
			if hint {
				own = o.set
			} else {
				other = o.set
			}
		}
	}
	in := func(name string) bool {
		for _, k := range c.sets[name] {
			if k.k.No == signer.No {
				return true
			}
		}
		return false
	}
	cls := "signer-in-no-configured-set"
	switch {
	case in(own):
		cls = "signer-in-this-verifiers-set"
	case in(other):
		cls = "signer-only-in-the-other-verifiers-set"
	case in("S"):
		cls = "signer-only-in-the-replaced-storage-set"
	}
	v := "at"
	if hint {
		v = "hint"
	}
	stats["p7-"+v+"-"+cls]++
	if believed {
		stats["p7-"+v+"-"+cls+"-believed"]++
	}
	stats["p7-cases"]++
}

func c02ConfigStream(r *hx.Rand, e *c02Env, n int) {
	keys := hx.Keys()
	storageExtra := []pubKey{{keys[2], "ec1", "sig"}}
	sets := map[string][]pubKey{
		"S": {{keys[0], "sig1", "sig"}, {keys[2], "ec1", "sig"}}, // what the provider's storage publishes
		"A": {{keys[1], "atk", "sig"}},                           // keys of the party that signs access tokens
		"H": {{keys[3], "hk", "sig"}},                            // keys trusted for id_token_hints only
		"B": {{keys[1], "atk", "sig"}, {keys[0], "sig1", "sig"}}, // overlaps the storage's set
	}
	type signing struct {
		k        *hx.Key
		alg, kid string
	}
	signings := []signing{{keys[0], "RS256", "sig1"}, {keys[2], "ES256", "ec1"}, {keys[1], "RS256", "atk"}, {keys[3], "ES256", "hk"}, {keys[1], "PS256", "atk"}}
	atks := func(s string) c02cfgOpt { return c02cfgOpt{kind: "atks", set: s} }
	hintks := func(s string) c02cfgOpt { return c02cfgOpt{kind: "hintks", set: s} }
	atalgs := func(l ...[]string) c02cfgOpt { return c02cfgOpt{kind: "atalgs", lists: l} }
	hintalgs := func(l ...[]string) c02cfgOpt { return c02cfgOpt{kind: "hintalgs", lists: l} }
	other := c02cfgOpt{kind: "other"}
	base := []c02cfgOpt{atks("A"), hintks("H"), atalgs([]string{"RS256"}, []string{"ES256", "RS256"}), hintalgs([]string{"ES256"})}
	var grid [][]c02cfgOpt
	// every subset of the four verifier-related options, in the order listed
	for m := 0; m < 16; m++ {
		var c []c02cfgOpt
		for i, o := range base {
			if m&(1<<i) != 0 {
				c = append(c, o)
			}
		}
		grid = append(grid, c)
	}
	// other orders, repetitions (the last one decides), the same set for both, sets handed to the OTHER verifier, unrelated options in between
	grid = append(grid,
		[]c02cfgOpt{hintalgs([]string{"ES256"}), atalgs([]string{"PS256"}), hintks("H"), atks("A")},
		[]c02cfgOpt{atks("A"), atks("B")},
		[]c02cfgOpt{atks("B"), other, atks("A")},
		[]c02cfgOpt{hintks("H"), hintks("S")},
		[]c02cfgOpt{hintks("A")},
		[]c02cfgOpt{atks("H"), hintks("A")},
		[]c02cfgOpt{atks("A"), hintks("A")},
		[]c02cfgOpt{other, atks("A"), other},
		[]c02cfgOpt{atalgs([]string{"ES256"}), atalgs()},
		[]c02cfgOpt{hintalgs([]string{"RS256"}), hintalgs([]string{"ES256"}), atks("B")},
	)
	beds := map[string]*c02epBed{}
	bed := func(router string, opts []c02cfgOpt) *c02epBed {
		cfg := &c02cfg{opts: opts, sets: sets}
		k := router + "/" + cfg.name()
		if b, ok := beds[k]; ok {
			return b
		}
		b := c02epNewBedOpts(router, cfg.options(), storageExtra)
		b.cfg = cfg
		beds[k] = b
		return b
	}
	for _, opts := range grid {
		for _, router := range []string{"provider", "legacy"} {
			cb := bed(router, opts)
			for _, ep := range c02Endpoints {
				for _, sg := range signings {
					e.endpointCase(r, cb, c02epCase{ep: ep, signer: sg.k, alg: sg.alg, kid: sg.kid})
				}
			}
		}
	}
	e.stats["p7-grid"] = len(grid) * 2 * len(c02Endpoints) * len(signings)
	// random construction calls: 0-6 options drawn with repetition, any order; key id placement, manipulations, expiry
	pickSet := func() string { return hx.Pick(r, "A", "H", "B", "S") }
	pickList := func() []string {
		return hx.Pick[[]string](r, []string{"RS256"}, []string{"ES256"}, []string{"PS256", "ES256"}, []string{"RS256", "ES256", "PS256"}, []string{"HS256"})
	}
	for i := 0; i < n; i++ {
		var opts []c02cfgOpt
		for j, m := 0, r.Intn(7); j < m; j++ {
			switch r.Intn(6) {
			case 0:
				opts = append(opts, atks(pickSet()))
			case 1:
				opts = append(opts, hintks(pickSet()))
			case 2:
				o := atalgs()
				for q, nq := 0, r.Intn(3); q < nq; q++ {
					o.lists = append(o.lists, pickList())
				}
				opts = append(opts, o)
			case 3:
				o := hintalgs()
				for q, nq := 0, r.Intn(3); q < nq; q++ {
					o.lists = append(o.lists, pickList())
				}
				opts = append(opts, o)
			default:
				opts = append(opts, other)
			}
		}
		cb := bed(hx.Pick(r, "provider", "legacy"), opts)
		for q := 0; q < 4; q++ {
			sg := signings[r.Intn(len(signings))]
			c := c02epCase{ep: c02Endpoints[r.Intn(len(c02Endpoints))], signer: sg.k, alg: sg.alg, kid: sg.kid}
			if r.Chance(20) {
				c.kid = hx.Pick(r, "", "sig1", "atk", "zz")
			}
			if r.Chance(15) {
				c.mut = hx.Pick(r, 1, 2, 3, 4, 5, 9)
			}
			if r.Chance(8) {
				c.expiry = "expired"
			}
			e.endpointCase(r, cb, c)
		}
	}
}
