package main

// C12, third part of the stream: the JSON wrapper methods (MarshalJSON / UnmarshalJSON) of the eight claims / response types,
// driven through multi-step HISTORIES on one value: literal or decoded value -> assign registered fields (different value / cleared)
// -> encode -> assign -> encode -> decode the output (into a fresh value or into the same one) ...
// Every encode step is one line `wenc`, every decode step one line `wdec`; each line is self-contained:
//
//	reg     what encoding/json writes for the value's exported fields through a METHOD-LESS copy of the type (struct tags only,
//	        the type's own MarshalJSON is not involved) immediately BEFORE the step
//	custom  the custom-claims map immediately before the step (JWTTokenRequest: its unexported `private` map)
//	o.*     what the real method produced / left behind
//
// The values are generated so that a registered field and a custom claim of the same name are both set and DIFFER (stale copies,
// as a decode leaves them), and for IntrospectionResponse so that `username` and `preferred_username` are both set and differ.

import (
	"encoding/json"
	"reflect"
	"sort"
	"strings"
	"unsafe"

	"github.com/zitadel/oidc/v3/pkg/oidc"
	"golang.org/x/text/language"

	"verifharness/internal/hx"
)

// method-less copies: encoding/json sees the struct tags only (what the library's alias types are for)
type (
	plainATC   oidc.AccessTokenClaims
	plainIDT   oidc.IDTokenClaims
	plainActor oidc.ActorClaims
	plainJPA   oidc.JWTProfileAssertionClaims
	plainLTC   oidc.LogoutTokenClaims
	plainUI    oidc.UserInfo
	plainIntro oidc.IntrospectionResponse
	plainJTR   oidc.JWTTokenRequest
)

type wAdapter struct {
	name  string
	zero  func() any
	plain func(v any) ([]byte, error)
	// custom-claims map of the value (a copy); set replaces it (nil for JWTTokenRequest: only decoding fills it)
	custom func(v any) map[string]any
	set    func(v any, m map[string]any)
}

func copyMap(m map[string]any) map[string]any {
	if m == nil {
		return nil
	}
	out := make(map[string]any, len(m))
	for k, v := range m {
		out[k] = v
	}
	return out
}

// jtrPrivate reads the unexported custom-claims map of a JWTTokenRequest
func jtrPrivate(j *oidc.JWTTokenRequest) map[string]any {
	f := reflect.ValueOf(j).Elem().FieldByName("private")
	if !f.IsValid() {
		return nil
	}
	m, _ := reflect.NewAt(f.Type(), unsafe.Pointer(f.UnsafeAddr())).Elem().Interface().(map[string]any)
	return copyMap(m)
}

var wAdapters = []wAdapter{
	{"AccessTokenClaims", func() any { return new(oidc.AccessTokenClaims) },
		func(v any) ([]byte, error) { return json.Marshal((*plainATC)(v.(*oidc.AccessTokenClaims))) },
		func(v any) map[string]any { return copyMap(v.(*oidc.AccessTokenClaims).Claims) },
		func(v any, m map[string]any) { v.(*oidc.AccessTokenClaims).Claims = m }},
	{"IDTokenClaims", func() any { return new(oidc.IDTokenClaims) },
		func(v any) ([]byte, error) { return json.Marshal((*plainIDT)(v.(*oidc.IDTokenClaims))) },
		func(v any) map[string]any { return copyMap(v.(*oidc.IDTokenClaims).Claims) },
		func(v any, m map[string]any) { v.(*oidc.IDTokenClaims).Claims = m }},
	{"ActorClaims", func() any { return new(oidc.ActorClaims) },
		func(v any) ([]byte, error) { return json.Marshal((*plainActor)(v.(*oidc.ActorClaims))) },
		func(v any) map[string]any { return copyMap(v.(*oidc.ActorClaims).Claims) },
		func(v any, m map[string]any) { v.(*oidc.ActorClaims).Claims = m }},
	{"JWTProfileAssertionClaims", func() any { return new(oidc.JWTProfileAssertionClaims) },
		func(v any) ([]byte, error) { return json.Marshal((*plainJPA)(v.(*oidc.JWTProfileAssertionClaims))) },
		func(v any) map[string]any { return copyMap(v.(*oidc.JWTProfileAssertionClaims).Claims) },
		func(v any, m map[string]any) { v.(*oidc.JWTProfileAssertionClaims).Claims = m }},
	{"LogoutTokenClaims", func() any { return new(oidc.LogoutTokenClaims) },
		func(v any) ([]byte, error) { return json.Marshal((*plainLTC)(v.(*oidc.LogoutTokenClaims))) },
		func(v any) map[string]any { return copyMap(v.(*oidc.LogoutTokenClaims).Claims) },
		func(v any, m map[string]any) { v.(*oidc.LogoutTokenClaims).Claims = m }},
	{"UserInfo", func() any { return new(oidc.UserInfo) },
		func(v any) ([]byte, error) { return json.Marshal((*plainUI)(v.(*oidc.UserInfo))) },
		func(v any) map[string]any { return copyMap(v.(*oidc.UserInfo).Claims) },
		func(v any, m map[string]any) { v.(*oidc.UserInfo).Claims = m }},
	{"IntrospectionResponse", func() any { return new(oidc.IntrospectionResponse) },
		func(v any) ([]byte, error) { return json.Marshal((*plainIntro)(v.(*oidc.IntrospectionResponse))) },
		func(v any) map[string]any { return copyMap(v.(*oidc.IntrospectionResponse).Claims) },
		func(v any, m map[string]any) { v.(*oidc.IntrospectionResponse).Claims = m }},
	{"JWTTokenRequest", func() any { return new(oidc.JWTTokenRequest) },
		func(v any) ([]byte, error) { return json.Marshal((*plainJTR)(v.(*oidc.JWTTokenRequest))) },
		func(v any) map[string]any { return jtrPrivate(v.(*oidc.JWTTokenRequest)) },
		nil},
}

// wFields: JSON name -> settable field of the struct v points to (embedded structs flattened, the shallower field wins)
func wFields(v any) (map[string]reflect.Value, []string) {
	out := map[string]reflect.Value{}
	var order []string
	type item struct {
		val reflect.Value
	}
	level := []item{{reflect.ValueOf(v).Elem()}}
	for len(level) > 0 {
		var next []item
		seenHere := map[string]int{}
		found := map[string]reflect.Value{}
		var foundOrder []string
		for _, it := range level {
			t := it.val.Type()
			for i := 0; i < t.NumField(); i++ {
				sf := t.Field(i)
				tag := sf.Tag.Get("json")
				if sf.Anonymous && tag == "" && sf.Type.Kind() == reflect.Struct {
					next = append(next, item{it.val.Field(i)})
					continue
				}
				if !sf.IsExported() || tag == "-" {
					continue
				}
				name := strings.Split(tag, ",")[0]
				if name == "" {
					name = sf.Name
				}
				if _, dominated := out[name]; dominated {
					continue
				}
				seenHere[name]++
				if seenHere[name] == 1 {
					foundOrder = append(foundOrder, name)
				}
				found[name] = it.val.Field(i)
			}
		}
		for _, name := range foundOrder {
			if seenHere[name] == 1 {
				out[name] = found[name]
				order = append(order, name)
			}
		}
		level = next
	}
	return out, order
}

var wStringPool = map[string][]string{
	"iss":                {"https://op", "https://other-op", "gateway"},
	"sub":                {"u1", "user:2", "svc-account"},
	"username":           {"svc-account-17", "login-name", "u\"q"},
	"preferred_username": {"alice", "Display Name", "bob"},
}

// wAssign gives the field a value of its type; `alt` selects among the values (so that an assignment can be made to DIFFER)
func wAssign(name string, f reflect.Value, alt int) {
	switch f.Kind() {
	case reflect.String:
		pool := wStringPool[name]
		if pool == nil {
			pool = []string{name + "-1", name + " two", "ü-" + name}
		}
		f.SetString(pool[alt%len(pool)])
	case reflect.Int64:
		f.SetInt([]int64{1700000000, 1800000123, 5, 1900000000}[alt%4])
	case reflect.Uint64:
		f.SetUint([]uint64{3600, 60, 1}[alt%3])
	case reflect.Bool:
		f.SetBool(true)
	case reflect.Slice:
		vals := [][]string{{"rp"}, {"rp", "api"}, {"x"}}[alt%3]
		s := reflect.MakeSlice(f.Type(), len(vals), len(vals))
		for i, x := range vals {
			s.Index(i).SetString(x)
		}
		f.Set(s)
	case reflect.Map:
		f.Set(reflect.ValueOf(map[string]any{"http://schemas.openid.net/event/backchannel-logout": map[string]any{}}))
	case reflect.Pointer:
		switch f.Type().Elem().Name() {
		case "Locale":
			f.Set(reflect.ValueOf(oidc.NewLocale([]language.Tag{language.German, language.AmericanEnglish, language.MustParse("sr-Cyrl-RS")}[alt%3])))
		case "UserInfoAddress":
			f.Set(reflect.ValueOf(&oidc.UserInfoAddress{Country: []string{"CH", "DE", "US"}[alt%3], Locality: "Z"}))
		case "ActorClaims":
			a := &oidc.ActorClaims{Subject: []string{"svc", "inner", "act3"}[alt%3]}
			if alt%2 == 1 {
				a.Issuer = "https://op"
				a.Claims = map[string]any{"sub": "evil", "k": "v"}
			}
			f.Set(reflect.ValueOf(a))
		}
	}
}

func wFill(r *hx.Rand, v any) {
	fs, order := wFields(v)
	for _, name := range order {
		p := 45
		switch name {
		case "iss", "sub", "aud", "exp", "iat":
			p = 80
		case "username", "preferred_username":
			p = 70
		}
		if r.Chance(p) {
			wAssign(name, fs[name], r.Intn(3))
		}
	}
}

// wMutate assigns 1..3 registered fields: a value that differs from the current one, or the zero value
func wMutate(r *hx.Rand, v any, prefer []string) []string {
	fs, order := wFields(v)
	var done []string
	n := 1 + r.Intn(3)
	for i := 0; i < n; i++ {
		name := order[r.Intn(len(order))]
		if len(prefer) > 0 && r.Chance(70) {
			name = prefer[r.Intn(len(prefer))]
		}
		f, ok := fs[name]
		if !ok {
			continue
		}
		if r.Chance(20) {
			f.Set(reflect.Zero(f.Type()))
			done = append(done, name+":clear")
			continue
		}
		before, _ := json.Marshal(f.Interface())
		for alt := r.Intn(3); alt < 6; alt++ {
			wAssign(name, f, alt)
			after, _ := json.Marshal(f.Interface())
			if string(after) != string(before) {
				break
			}
		}
		done = append(done, name+":set")
	}
	return done
}

func sortedKeys(m map[string]any) []string {
	ks := make([]string, 0, len(m))
	for k := range m {
		ks = append(ks, k)
	}
	sort.Strings(ks)
	return ks
}

// wCustom: a custom map as a decode would leave it (copies of registered names with OTHER values) plus free names
func wCustom(r *hx.Rand, names []string) map[string]any {
	n := hx.Pick(r, 0, 1, 2, 3, 4, 6)
	if n == 0 {
		return nil
	}
	m := map[string]any{}
	for i := 0; i < n; i++ {
		if r.Chance(60) {
			k := names[r.Intn(len(names))]
			m[k] = hx.Pick[any](r, "stale-"+k, "evil", 7.0, []any{"old"}, true, map[string]any{"a": "b"})
		} else {
			m[hx.Pick(r, "custom", "role", "tenant", "a b", "ключ", "x")] = hx.Pick[any](r, "v", 42.0, true, []any{"x", 1.0}, map[string]any{"z": 1.0}, 1.5, "")
		}
	}
	return m
}

func userPrefClass(u, p string) string {
	switch {
	case u == "" && p == "":
		return "none"
	case u == "":
		return "pref-only"
	case p == "":
		return "user-only"
	case u == p:
		return "both-same"
	}
	return "both-differ"
}

func jsonText(v any) string {
	b, _ := json.Marshal(v)
	return string(b)
}

func c12WrapStream(r *hx.Rand, tier string, n int, emit func(*hx.Line), caseNo func() int64, stats map[string]int) {
	target := n / 3
	emitted := 0
	for emitted < target {
		ad := wAdapters[r.Intn(len(wAdapters))]
		v := ad.zero()
		_, names := wFields(v)
		var hist []string
		// the registered encoding / custom map of the LAST encode step, for the round-trip clause of a following decode
		var srcReg, srcCustom []string
		var lastOut []byte

		regOf := func() []string {
			b, err := ad.plain(v)
			if err != nil {
				return nil
			}
			o, _ := topLevel(b)
			return o
		}
		decode := func(doc []byte, fresh bool, roundtrip bool) {
			if fresh {
				v = ad.zero()
			}
			docO, isObj := topLevel(doc)
			l := hx.NewLine("C12").I("case", caseNo()).S("kind", "wdec").S("type", ad.name).S("hist", strings.Join(hist, ".")).
				L("names", names).L("doc", docO).B("fresh", fresh).B("rt", roundtrip).L("reg0", regOf()).L("custom0", mapObj(ad.custom(v)))
			if roundtrip {
				l.L("src.reg", srcReg).L("src.custom", srcCustom)
				// a custom claim that took the place of an UNSET registered member may make the document undecodable for the typed fields
				collide := false
				for i := 0; i+1 < len(srcCustom); i += 2 {
					inReg := false
					for j := 0; j+1 < len(srcReg); j += 2 {
						if srcReg[j] == srcCustom[i] {
							inReg = true
						}
					}
					for _, nm := range names {
						if nm == srcCustom[i] && !inReg {
							collide = true
						}
					}
				}
				l.B("collide", collide)
			}
			p, err := safeDecode(func() error { return json.Unmarshal(doc, v) })
			switch {
			case p:
				l.S("obs", "panic")
			case err != nil || !isObj:
				l.S("obs", "err")
			default:
				l.S("obs", "ok").L("o.reg2", regOf()).L("o.custom2", mapObj(ad.custom(v)))
			}
			stats["wdec-"+ad.name]++
			if roundtrip {
				stats["wdec-roundtrip"]++
			}
			if !fresh {
				stats["wdec-into-used-value"]++
			}
			emit(l)
			emitted++
			if err != nil || p {
				v = ad.zero()
				hist = append(hist, "reset")
			}
		}
		encode := func() {
			reg := regOf()
			custom := ad.custom(v)
			customO := mapObj(custom)
			l := hx.NewLine("C12").I("case", caseNo()).S("kind", "wenc").S("type", ad.name).S("hist", strings.Join(hist, ".")).L("reg", reg).L("custom", customO)
			differ := 0
			for i := 0; i+1 < len(customO); i += 2 {
				for j := 0; j+1 < len(reg); j += 2 {
					if reg[j] == customO[i] && reg[j+1] != customO[i+1] {
						differ++
					}
				}
			}
			l.I("differ", int64(differ))
			if differ > 0 {
				stats["wenc-registered-and-custom-differ"]++
			}
			if ir, ok := v.(*oidc.IntrospectionResponse); ok {
				l.S("user", ir.Username).S("pref", ir.PreferredUsername).S("user.j", jsonText(ir.Username)).S("pref.j", jsonText(ir.PreferredUsername))
				stats["wenc-intro-"+userPrefClass(ir.Username, ir.PreferredUsername)]++
			}
			var out []byte
			var err error
			p, _ := safeDecode(func() error { out, err = json.Marshal(v); return nil })
			if m, isM := v.(json.Marshaler); isM && !p && err == nil && len(lastOut)%2 == 0 {
				// every second time the document is taken from the value's own MarshalJSON and HELD while another value of the same
				// type is encoded (as a caller collecting json.RawMessage does): the bytes handed out belong to the caller, a later
				// encoding must not reach them (a result that aliases a reused / pooled buffer shows up as a changed document)
				var held []byte
				p, _ = safeDecode(func() error { held, err = m.MarshalJSON(); return nil })
				if !p && err == nil {
					want := string(held)
					decoy := ad.zero()
					wFill(r, decoy)
					safeDecode(func() error {
						if dm, ok := decoy.(json.Marshaler); ok {
							dm.MarshalJSON()
						}
						json.Marshal(decoy)
						return nil
					})
					stats["wenc-held-across-another-encoding"]++
					if string(held) != want {
						stats["wenc-held-document-changed"]++
					}
					out = held
				}
			}
			switch {
			case p:
				l.S("obs", "panic")
			case err != nil:
				l.S("obs", "err")
			default:
				obsO, ok := topLevel(out)
				if !ok {
					l.S("obs", "err")
					break
				}
				l.S("obs", "ok").L("o.obj", obsO).L("o.custom2", mapObj(ad.custom(v))).L("o.reg2", regOf())
				if ir, ok := v.(*oidc.IntrospectionResponse); ok {
					l.S("o.user", ir.Username)
				}
				srcReg, srcCustom, lastOut = reg, customO, out
			}
			stats["wenc-"+ad.name]++
			stats["wenc-hist-"+histClass(hist)]++
			emit(l)
			emitted++
			hist = append(hist, "enc")
		}

		// ---- start of the history: a literal, or a decoded foreign document (canonical member forms)
		if ad.set != nil && r.Chance(45) {
			wFill(r, v)
			ad.set(v, wCustom(r, names))
			hist = append(hist, "lit")
		} else {
			src := ad.zero()
			wFill(r, src)
			b, _ := ad.plain(src)
			var m map[string]any
			json.Unmarshal(b, &m)
			if m == nil {
				m = map[string]any{}
			}
			for i, k := 0, hx.Pick(r, 0, 1, 2, 3); i < k; i++ {
				m[hx.Pick(r, "custom", "role", "tenant", "a b", "ключ", "x")] = hx.Pick[any](r, "v", 42.0, true, []any{"x", 1.0}, map[string]any{"z": 1.0}, 1.5)
			}
			doc, _ := json.Marshal(m)
			hist = append(hist, "dec")
			decode(doc, true, false)
		}
		// ---- steps
		encs := 0
		steps := 1 + r.Intn(5)
		for s := 0; s < steps || encs == 0; s++ {
			switch {
			case encs == 0 && s >= steps-1, r.Chance(45):
				encode()
				encs++
			case r.Chance(55):
				// assign registered fields; names that have a (stale) copy among the custom claims are preferred
				var prefer []string
				for _, k := range sortedKeys(ad.custom(v)) {
					for _, nm := range names {
						if nm == k {
							prefer = append(prefer, k)
						}
					}
				}
				if _, isIntro := v.(*oidc.IntrospectionResponse); isIntro {
					prefer = append(prefer, "username", "preferred_username")
				}
				for _, d := range wMutate(r, v, prefer) {
					hist = append(hist, "mod("+d+")")
				}
			case lastOut != nil && len(hist) > 0 && hist[len(hist)-1] == "enc":
				// decode what was just produced: into a fresh value (round trip) or into the same value
				fresh := r.Chance(70)
				hist = append(hist, map[bool]string{true: "dec-fresh", false: "dec-same"}[fresh])
				decode(lastOut, fresh, true)
			default:
				if ad.set != nil && r.Chance(30) {
					m := ad.custom(v)
					if m == nil {
						m = map[string]any{}
					}
					k := names[r.Intn(len(names))]
					m[k] = "late-" + k
					ad.set(v, m)
					hist = append(hist, "custom("+k+")")
				}
			}
			if s > 12 {
				break
			}
		}
	}
}

// histClass: the shape of a history without the field names
func histClass(hist []string) string {
	var out []string
	for _, h := range hist {
		if i := strings.Index(h, "("); i >= 0 {
			h = h[:i]
		}
		if len(out) > 0 && out[len(out)-1] == h {
			continue
		}
		out = append(out, h)
	}
	if len(out) > 4 {
		out = append(out[:4], "more")
	}
	return strings.Join(out, ".")
}
