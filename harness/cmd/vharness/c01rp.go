package main

// C01 (round 3): the verifier is not hand-built but obtained from a REAL relying party: rp.NewRelyingPartyOIDC against a fake
// provider (discovery document, JWKS, token endpoint served in-process), configured through lists of rp.Option / rp.VerifierOption
// in varying combination and order (duplicates: the last one wins; WithVerifierOpts given twice; WithSigningAlgsFromDiscovery
// before / after / without WithVerifierOpts; custom http client, custom discovery URL, PKCE, ...).  The token then reaches the
// verifier by one of four paths: rp.VerifyIDToken / rp.VerifyTokens with relyingParty.IDTokenVerifier(), rp.CodeExchange and
// rp.RefreshTokens (token endpoint of the fake provider).  The line carries (a) the configuration the application ASKED for in the
// harness's own reading (`v.*`, what the monitor judges the observed answer against) and (b) the option lists themselves
// (`rp.*`, `vo.*`, `disc.*`), from which the driver rebuilds the verifier with the regenerated constructors.

import (
	"context"
	"encoding/json"
	"fmt"
	"net/http"
	"net/http/httptest"
	"strings"
	"sync"
	"time"

	jose "github.com/go-jose/go-jose/v4"
	"github.com/zitadel/oidc/v3/pkg/client/rp"
	httphelper "github.com/zitadel/oidc/v3/pkg/http"
	"github.com/zitadel/oidc/v3/pkg/oidc"
	"golang.org/x/oauth2"

	"verifharness/internal/hx"
)

// one rp.VerifierOption, described
type c01VOpt struct {
	kind string        // off | maxiat | maxage | nonce | acr | algs
	dur  time.Duration // off, maxiat, maxage
	mode string        // nonce: set | nil ; acr: list | nil
	algs []string
}

func (o c01VOpt) option() rp.VerifierOption {
	switch o.kind {
	case "off":
		return rp.WithIssuedAtOffset(o.dur)
	case "maxiat":
		return rp.WithIssuedAtMaxAge(o.dur)
	case "maxage":
		return rp.WithAuthTimeMaxAge(o.dur)
	case "nonce":
		if o.mode == "nil" {
			return rp.WithNonce(nil)
		}
		return rp.WithNonce(func(context.Context) string { return "n-123" })
	case "acr":
		if o.mode == "nil" {
			return rp.WithACRVerifier(nil)
		}
		return rp.WithACRVerifier(oidc.DefaultACRVerifier([]string{"gold", "silver"}))
	default:
		return rp.WithSupportedSigningAlgorithms(o.algs...)
	}
}

// the configuration a list of verifier options asks for (the harness's own reading: defaults, then every option in order)
type c01Config struct {
	offset, maxIAT, maxAge time.Duration
	nonce                  string // "default" | "set" | "nil"
	acr                    bool
	algs                   []string
}

func c01Effective(opts []c01VOpt) c01Config {
	c := c01Config{offset: time.Second, nonce: "default"}
	for _, o := range opts {
		switch o.kind {
		case "off":
			c.offset = o.dur
		case "maxiat":
			c.maxIAT = o.dur
		case "maxage":
			c.maxAge = o.dur
		case "nonce":
			c.nonce = o.mode
		case "acr":
			c.acr = o.mode == "list"
		case "algs":
			c.algs = o.algs
		}
	}
	return c
}

func c01VOptLine(l *hx.Line, prefix string, opts []c01VOpt) {
	l.I(prefix+"n", int64(len(opts)))
	for j, o := range opts {
		p := fmt.Sprintf("%s%d", prefix, j)
		l.S(p, o.kind)
		switch o.kind {
		case "off", "maxiat", "maxage":
			l.I(p+".v", int64(o.dur))
		case "nonce", "acr":
			l.S(p+".v", o.mode)
		case "algs":
			l.L(p+".v", o.algs)
		}
	}
}

// the fake provider
type c01OP struct {
	srv    *httptest.Server
	mu     sync.Mutex
	algs   []string             // id_token_signing_alg_values_supported of the discovery document
	marked bool                 // only requests of the application's own http client are answered
	tokens map[string][2]string // code / refresh token -> (access token, id token; "" = none in the response)
	ring   []pubKey
}

func newC01OP(ring []pubKey) *c01OP {
	o := &c01OP{tokens: map[string][2]string{}, ring: ring}
	mux := http.NewServeMux()
	writeJSON := func(w http.ResponseWriter, v any) {
		w.Header().Set("Content-Type", "application/json")
		json.NewEncoder(w).Encode(v)
	}
	disc := func(w http.ResponseWriter, r *http.Request) {
		o.mu.Lock()
		algs := append([]string(nil), o.algs...)
		o.mu.Unlock()
		writeJSON(w, map[string]any{
			"issuer": o.srv.URL, "authorization_endpoint": o.srv.URL + "/authorize", "token_endpoint": o.srv.URL + "/token",
			"jwks_uri": o.srv.URL + "/keys", "response_types_supported": []string{"code"}, "subject_types_supported": []string{"public"},
			"id_token_signing_alg_values_supported": algs,
		})
	}
	mux.HandleFunc("/.well-known/openid-configuration", disc)
	mux.HandleFunc("/custom/discovery", disc)
	mux.HandleFunc("/keys", func(w http.ResponseWriter, r *http.Request) {
		set := jose.JSONWebKeySet{}
		for _, k := range o.ring {
			set.Keys = append(set.Keys, jose.JSONWebKey{Key: k.k.Pub, KeyID: k.kid, Use: k.use})
		}
		writeJSON(w, set)
	})
	mux.HandleFunc("/token", func(w http.ResponseWriter, r *http.Request) {
		r.ParseForm()
		key := r.Form.Get("code")
		if key == "" {
			key = r.Form.Get("refresh_token")
		}
		o.mu.Lock()
		t := o.tokens[key]
		delete(o.tokens, key)
		o.mu.Unlock()
		res := map[string]any{"access_token": t[0], "token_type": "Bearer", "expires_in": 300}
		if t[1] != "" {
			res["id_token"] = t[1]
		}
		writeJSON(w, res)
	})
	o.srv = httptest.NewServer(http.HandlerFunc(func(w http.ResponseWriter, r *http.Request) {
		o.mu.Lock()
		marked := o.marked
		o.mu.Unlock()
		if marked && r.Header.Get("X-Verif-Client") != "custom" {
			http.Error(w, "client not admitted", http.StatusForbidden)
			return
		}
		mux.ServeHTTP(w, r)
	}))
	return o
}

// one rp.Option, described
type c01ROpt struct {
	kind  string // vopts | algsdisc | http | discurl | pkce | cookie | authstyle | errh | unauth | logger | jwtok | jwterr
	vopts []c01VOpt
}

type c01RPPlan struct {
	opts      []c01ROpt
	discAlgs  []string
	eff       c01Config // what the application asked for, all in all
	fails     bool      // an option returns an error: no relying party
	oauthOnly bool      // rp.NewRelyingPartyOAuth instead of rp.NewRelyingPartyOIDC
}

// the application's own http client (WithHTTPClient): its transport marks every request; when it is configured the fake provider
// answers ONLY marked requests (as a provider behind mutual TLS / a gateway would), so a component of the relying party that
// talks through another client than the configured one gets nothing
type c01MarkingTransport struct{}

func (c01MarkingTransport) RoundTrip(r *http.Request) (*http.Response, error) {
	r = r.Clone(r.Context())
	r.Header.Set("X-Verif-Client", "custom")
	return http.DefaultTransport.RoundTrip(r)
}

var c01CustomClient = &http.Client{Timeout: 10 * time.Second, Transport: c01MarkingTransport{}}

// c01PlanRP wraps the verifier options `want` (the ones the case is about) into a list of relying-party options
func c01PlanRP(r *hx.Rand, want []c01VOpt, tokenAlg string, oauthOnly bool, stats map[string]int) c01RPPlan {
	p := c01RPPlan{oauthOnly: oauthOnly}
	// order of the verifier options; sometimes an overridden duplicate in front
	vo := append([]c01VOpt(nil), want...)
	for i := len(vo) - 1; i > 0; i-- {
		j := r.Intn(i + 1)
		vo[i], vo[j] = vo[j], vo[i]
	}
	if r.Chance(30) {
		decoy := hx.Pick(r,
			c01VOpt{kind: "off", dur: 300 * time.Second}, c01VOpt{kind: "maxage", dur: time.Second}, c01VOpt{kind: "maxiat", dur: time.Second},
			c01VOpt{kind: "acr", mode: "list"}, c01VOpt{kind: "nonce", mode: "set"}, c01VOpt{kind: "algs", algs: []string{"HS256"}})
		overridden := false
		for _, o := range vo {
			if o.kind == decoy.kind {
				overridden = true
			}
		}
		if overridden { // only when a later option of the same kind takes it back: the configuration asked for is unchanged
			vo = append([]c01VOpt{decoy}, vo...)
			stats["rp-vopt-overridden-duplicate"]++
		}
	}
	withVOpts := len(vo) > 0 || r.Chance(50)
	fromDisc := r.Chance(55)
	var main []c01ROpt
	if withVOpts {
		if r.Chance(15) { // WithVerifierOpts given twice: the second list replaces the first
			main = append(main, c01ROpt{kind: "vopts", vopts: []c01VOpt{{kind: "acr", mode: "list"}, {kind: "maxage", dur: time.Second}, {kind: "off", dur: 500 * time.Second}}})
			stats["rp-vopts-twice"]++
		}
		main = append(main, c01ROpt{kind: "vopts", vopts: vo})
	} else {
		stats["rp-no-vopts"]++
	}
	if fromDisc {
		at := r.Intn(len(main) + 1) // before, between or after
		main = append(main[:at], append([]c01ROpt{{kind: "algsdisc"}}, main[at:]...)...)
		stats[fmt.Sprintf("rp-algsdisc-at-%d-of-%d", at, len(main)-1)]++
	}
	// bystanders
	for _, k := range []string{"http", "discurl", "pkce", "cookie", "authstyle", "errh", "unauth", "logger", "jwtok"} {
		if r.Chance(20) {
			at := r.Intn(len(main) + 1)
			main = append(main[:at], append([]c01ROpt{{kind: k}}, main[at:]...)...)
			stats["rp-opt-"+k]++
		}
	}
	if r.Chance(2) {
		at := r.Intn(len(main) + 1)
		main = append(main[:at], append([]c01ROpt{{kind: "jwterr"}}, main[at:]...)...)
		p.fails = true
	}
	p.opts = main
	if withVOpts {
		p.eff = c01Effective(vo)
	} else {
		p.eff = c01Effective(nil)
	}
	if fromDisc {
		// what the provider announces: mostly a list that admits the token's algorithm
		switch r.Intn(6) {
		case 0:
			p.discAlgs = []string{"RS256"}
		case 1:
			p.discAlgs = hx.Pick(r, []string{"ES256"}, []string{"RS384", "PS256"}, []string{"EdDSA", "ES384"})
		default:
			p.discAlgs = []string{"RS512", tokenAlg, "ES384"}
		}
		if !oauthOnly { // NewRelyingPartyOAuth runs no discovery: the option is accepted and has no effect
			p.eff.algs = p.discAlgs
		}
	}
	return p
}

func (p c01RPPlan) build(ctx context.Context, op *c01OP, cid string) (rp.RelyingParty, error) {
	op.mu.Lock()
	op.algs = p.discAlgs
	op.marked = false
	for _, o := range p.opts {
		if o.kind == "http" {
			op.marked = true
		}
	}
	op.mu.Unlock()
	var opts []rp.Option
	for _, o := range p.opts {
		switch o.kind {
		case "vopts":
			var vs []rp.VerifierOption
			for _, v := range o.vopts {
				vs = append(vs, v.option())
			}
			opts = append(opts, rp.WithVerifierOpts(vs...))
		case "algsdisc":
			opts = append(opts, rp.WithSigningAlgsFromDiscovery())
		case "http":
			opts = append(opts, rp.WithHTTPClient(c01CustomClient))
		case "discurl":
			opts = append(opts, rp.WithCustomDiscoveryUrl(op.srv.URL+"/custom/discovery"))
		case "pkce":
			opts = append(opts, rp.WithPKCE(httphelper.NewCookieHandler([]byte("0123456789abcdef"), []byte("0123456789abcdef"))))
		case "cookie":
			opts = append(opts, rp.WithCookieHandler(httphelper.NewCookieHandler([]byte("0123456789abcdef"), []byte("0123456789abcdef"))))
		case "authstyle":
			opts = append(opts, rp.WithAuthStyle(oauth2.AuthStyleInParams))
		case "errh":
			opts = append(opts, rp.WithErrorHandler(func(http.ResponseWriter, *http.Request, string, string, string) {}))
		case "unauth":
			opts = append(opts, rp.WithUnauthorizedHandler(func(http.ResponseWriter, *http.Request, string, string) {}))
		case "logger":
			opts = append(opts, rp.WithLogger(nil))
		case "jwtok":
			opts = append(opts, rp.WithJWTProfile(func() (jose.Signer, error) { return nil, nil }))
		case "jwterr":
			opts = append(opts, rp.WithJWTProfile(func() (jose.Signer, error) { return nil, fmt.Errorf("no key") }))
		}
	}
	if p.oauthOnly {
		return rp.NewRelyingPartyOAuth(&oauth2.Config{ClientID: cid, ClientSecret: "secret", RedirectURL: "http://rp.local/callback", Scopes: []string{"openid"},
			Endpoint: oauth2.Endpoint{AuthURL: op.srv.URL + "/authorize", TokenURL: op.srv.URL + "/token"}}, opts...)
	}
	return rp.NewRelyingPartyOIDC(ctx, op.srv.URL, cid, "secret", "http://rp.local/callback", []string{"openid"}, opts...)
}

func (p c01RPPlan) line(l *hx.Line, op *c01OP, path string) {
	kind := "oidc"
	if p.oauthOnly {
		kind = "oauth"
	}
	l.S("rp", kind).S("rp.path", path).I("rp.n", int64(len(p.opts)))
	nv := 0
	for i, o := range p.opts {
		k := fmt.Sprintf("rp.%d", i)
		l.S(k, o.kind)
		if o.kind == "vopts" {
			l.I(k+".v", int64(nv))
			c01VOptLine(l, fmt.Sprintf("vo.%d.", nv), o.vopts)
			nv++
		}
	}
	l.S("disc.iss", op.srv.URL).S("disc.jwks", op.srv.URL+"/keys").L("disc.algs", p.discAlgs)
	for _, o := range p.opts {
		if o.kind == "http" {
			l.B("disc.marked", true) // the provider answers the application's own http client only
			break
		}
	}
}

// c01RunRP sends the token down one of the four paths; returns the claims / error observed
func c01RunRP(ctx context.Context, r rp.RelyingParty, op *c01OP, path, at, tok string, seq int) (*oidc.IDTokenClaims, error) {
	switch path {
	case "vid":
		return rp.VerifyIDToken[*oidc.IDTokenClaims](ctx, tok, r.IDTokenVerifier())
	case "vtok":
		return rp.VerifyTokens[*oidc.IDTokenClaims](ctx, at, tok, r.IDTokenVerifier())
	case "code":
		code := fmt.Sprintf("code-%d", seq)
		op.mu.Lock()
		op.tokens[code] = [2]string{at, tok}
		op.mu.Unlock()
		tokens, err := rp.CodeExchange[*oidc.IDTokenClaims](ctx, code, r)
		if err != nil {
			return nil, err
		}
		if tokens.IDTokenClaims == nil {
			return nil, rp.ErrMissingIDToken // tokens without ID Token claims (an OAuth-only relying party)
		}
		return tokens.IDTokenClaims, nil
	default: // refresh
		rt := fmt.Sprintf("rt-%d", seq)
		op.mu.Lock()
		op.tokens[rt] = [2]string{at, tok}
		op.mu.Unlock()
		tokens, err := rp.RefreshTokens[*oidc.IDTokenClaims](ctx, r, rt, "", "")
		if err != nil {
			return nil, err
		}
		if tokens.IDTokenClaims == nil {
			return nil, rp.ErrMissingIDToken
		}
		return tokens.IDTokenClaims, nil
	}
}

func c01ErrName(err error) string {
	if err == rp.ErrMissingIDToken || strings.Contains(err.Error(), rp.ErrMissingIDToken.Error()) {
		return "ErrMissingIDToken"
	}
	return hx.ErrName(err)
}
