package main

// C11, source-traced flows ("src" kind of the C11 stream).
//
// One case = one authorization request through the REAL handlers of one router (GET /authorize -> login UI ->
// GET /authorize/callback, or an error redirect on the way), with the response parameters traced from their SOURCE:
//   - the `state` the client sent: as plain parameter, inside a signed request object, by both channels, by none
//     (and the two shapes in which a request object is present but carries no state);
//   - the error the provider's storage produced (a plain Go error, a wrapped one, an *oidc.Error, a wrapped
//     *oidc.Error) whose text / description is drawn from classes with and without `%`.
// The line carries the source values (`src.*`); the monitor computes from them what has to arrive at the redirect
// URI (precedence for state: a request object the provider honours wins when it carries one) and compares with
// what a user agent decodes from the Location value / the form.  What the provider handed to the transport code is
// still recorded at the schema-encoder boundary (`p`), through a wrapper around the provider that replaces nothing
// but Encoder(); the Lean driver recomputes Location / page from it byte for byte as for every other kind.

import (
	"encoding/json"
	"errors"
	"fmt"
	"net/http"
	"net/url"
	"strings"

	httphelper "github.com/zitadel/oidc/v3/pkg/http"
	"github.com/zitadel/oidc/v3/pkg/oidc"
	"github.com/zitadel/oidc/v3/pkg/op"

	"verifharness/internal/hx"
	"verifharness/internal/opbed"
	"verifharness/internal/refstore"
)

// c11Prov is the real provider; only Encoder() is replaced (by the real encoder with a recorder in front).
type c11Prov struct {
	*op.Provider
	enc *recEncoder
}

func (p *c11Prov) Encoder() httphelper.Encoder { return p.enc }

type c11SrcBed struct {
	bed    *opbed.Bed
	enc    *recEncoder
	router string
	ro     bool
}

func c11NewSrcBed(router string, ro bool) *c11SrcBed {
	bed, err := opbed.New(opbed.Config{Router: "provider", S256: true, RequestObject: ro})
	if err != nil {
		panic(err)
	}
	enc := &recEncoder{real: oidc.NewEncoder()}
	prov := &c11Prov{Provider: bed.Provider, enc: enc}
	switch router {
	case "legacy":
		bed.Handler = op.RegisterLegacyServer(op.NewLegacyServer(prov, *op.DefaultEndpoints), op.AuthorizeCallbackHandler(prov), op.WithFallbackLogger(c11Discard))
	default:
		bed.Handler = op.CreateRouter(prov)
	}
	web := opbed.WebClient("web", "secret", c11FlowWebURIs...)
	web.RespTypes = []oidc.ResponseType{oidc.ResponseTypeCode, oidc.ResponseTypeIDToken, oidc.ResponseTypeIDTokenOnly}
	web.Keys = []refstore.ClientKey{{Kid: "k-web", Pub: hx.Keys()[1].Pub}}
	native := opbed.NativeClient("native", c11FlowNativeURIs...)
	native.Keys = []refstore.ClientKey{{Kid: "k-native", Pub: hx.Keys()[1].Pub}}
	bed.Store.AddClient(web)
	bed.Store.AddClient(native)
	bed.Store.AddUser("user1", nil)
	return &c11SrcBed{bed: bed, enc: enc, router: router, ro: ro}
}

// error texts by class: what a storage / crypto error message may look like
var c11ErrTexts = map[string][]string{
	"nopct":    {"injected storage failure", "connection refused", "context deadline exceeded", "pq: duplicate key value violates unique constraint \"codes_pkey\""},
	"pct-verb": {"disk is 100% full", "progress 7%done", "%s", "%v%v", "%d rows affected, %d expected", "key a%2Fb not found", "invalid URL escape \"%C3%28\"", "%+v", "%#x", "%08.3f", "%[2]d", "%*d"},
	"pct-bang": {"%!", "%!s(MISSING)", "100%!", "%!(EXTRA string=x)"},
	"pct-pct":  {"%%", "100%% sure", "a%%b%%c", "%%s"},
	"pct-tail": {"%", "usage at 93%", "50% + 50%"},
	"utf8":     {"Speicher zu 100% belegt — bitte später", "容量 %d％ 超過", "défaut %s é", "😀 %😀"},
	"wire":     {"a+b&error=x#frag?q=1", "state=evil&code=1", "\"quoted\" <b>&amp;</b>", "line1 / line2 = 3"},
}

var c11ErrClasses = []string{"nopct", "pct-verb", "pct-verb", "pct-bang", "pct-pct", "pct-tail", "utf8", "wire", "long", "long"}

type c11SrcErr struct {
	kind, class string // kind: plain | wrapf | oidc | wrap-oidc
	text        string // the text drawn
	err         error
	code        string // the `error` parameter the provider has to answer with
	errText     string // err.Error()
	desc        string // the description the failing component reported: the *oidc.Error's, for plain errors the error text
}

func c11DrawErr(r *hx.Rand) c11SrcErr {
	class := c11ErrClasses[r.Intn(len(c11ErrClasses))]
	text := ""
	if class == "long" {
		// a long message (a driver error with the statement in it, a wrapped chain): lengths at the boundaries of c11len.go,
		// multi-byte characters straddling them
		B := c11LenBounds[r.Intn(5)]
		fill := hx.Pick(r, "ascii", "mb2", "mb3", "mb4", "html", "space")
		switch r.Intn(3) {
		case 0:
			text = c11LenBuild(r, B+r.Intn(3)-1, c11LenRaw, fill)
		case 1:
			text = c11LenBuild(r, B+r.Intn(3)-1, c11LenEnc, fill)
		default:
			text, _ = c11LenStraddle(r, B, fill)
		}
	} else {
		text = c11ErrTexts[class][r.Intn(len(c11ErrTexts[class]))]
	}
	e := c11SrcErr{class: class, text: text}
	oauth := func(d string) *oidc.Error {
		// a storage that answers with an OAuth error of its own (fields set directly: the builders are printf-like)
		t := hx.Pick(r, oidc.ErrServerError, oidc.ErrAccessDenied, oidc.ErrLoginRequired, oidc.ErrInteractionRequired)()
		t.Description = d
		return t
	}
	switch r.Intn(8) {
	case 0, 1, 2, 3:
		e.kind, e.err, e.code, e.desc = "plain", errors.New(text), "server_error", text
	case 4:
		e.kind, e.err, e.code = "wrapf", fmt.Errorf("storage: %w", errors.New(text)), "server_error"
		e.desc = "storage: " + text
	case 5, 6:
		o := oauth(text)
		e.kind, e.err, e.code, e.desc = "oidc", o, string(o.ErrorType), text
	default:
		o := oauth(text)
		e.kind, e.err, e.code, e.desc = "wrap-oidc", fmt.Errorf("while saving (%s): %w", "ctx", o), string(o.ErrorType), text
	}
	e.errText = e.err.Error()
	return e
}

// c11SrcResult is what one source-traced case hands back to the stream
type c11SrcResult struct {
	u                      c11URI
	mode                   oidc.ResponseMode
	rtype                  oidc.ResponseType
	isErr                  bool
	sub                    string
	produced               map[string][]string
	obs                    c11Obs
	src                    func(l *hx.Line) // writes the src.* fields
	stChannel, outcome     string
	errClass, errKind, who string
}

func c11SrcCase(r *hx.Rand, beds []*c11SrcBed, tier string, stats map[string]int) (res c11SrcResult, ok bool) {
	sb := beds[0]
	switch k := r.Intn(20); {
	case k < 9:
		sb = beds[0] // provider, request objects supported
	case k < 18:
		sb = beds[1] // legacy
	case k < 19:
		sb = beds[2] // provider, request objects NOT supported
	default:
		sb = beds[3]
	}
	bed := sb.bed
	client, uris := "web", c11FlowWebURIs
	rtype := hx.Pick(r, oidc.ResponseTypeCode, oidc.ResponseTypeCode, oidc.ResponseTypeIDToken, oidc.ResponseTypeIDTokenOnly)
	if r.Chance(20) {
		client, uris, rtype = "native", c11FlowNativeURIs, oidc.ResponseTypeCode
	}
	mode := hx.Pick(r, oidc.ResponseMode(""), oidc.ResponseModeQuery, oidc.ResponseModeFragment, oidc.ResponseModeFormPost)
	u := c11URI{uris[r.Intn(len(uris))], "src-" + client}
	htmlSafe := mode == oidc.ResponseModeFormPost
	val := func() string {
		for {
			v := c11Value(r, htmlSafe, tier)
			if v.s == "" || (htmlSafe && !c11HTMLSafe(v.s)) {
				continue
			}
			// a state travels in a query parameter / a JSON string: valid UTF-8 on the way in (the wire encoders are exercised on raw bytes by the other kinds)
			if !c11HTMLSafe(v.s) {
				continue
			}
			return v.s
		}
	}
	// ---- the state channel
	channel := hx.Pick(r, "plain", "plain", "ro", "both", "both", "plain+ro-nonce", "plain+ro-nonce", "plain+ro-bare", "none", "none+ro-nonce")
	stPlain, stRO, withRO, roNonce := "", "", false, ""
	switch channel {
	case "plain":
		stPlain = val()
	case "ro":
		stRO, withRO = val(), true
	case "both":
		stPlain, stRO, withRO = val(), val(), true
		if r.Chance(15) {
			stRO = stPlain
		}
	case "plain+ro-nonce":
		stPlain, withRO, roNonce = val(), true, "n-ro"
	case "plain+ro-bare":
		stPlain, withRO = val(), true
	case "none+ro-nonce":
		withRO, roNonce = true, "n-ro"
	}
	q := url.Values{"client_id": {client}, "redirect_uri": {u.s}, "response_type": {string(rtype)}, "scope": {"openid"},
		"code_challenge": {oidc.NewSHACodeChallenge("verifier-AAAAAAAAAAAAAAAAAAAAAAAAAAAAAAAAAAAAAAAAAAA")}, "code_challenge_method": {"S256"}}
	if stPlain != "" {
		q.Set("state", stPlain)
	}
	if mode != "" {
		q.Set("response_mode", string(mode))
	}
	if !withRO || r.Chance(50) {
		q.Set("nonce", "n-plain")
	}
	if withRO {
		claims := map[string]any{"iss": client, "aud": []string{opbed.Issuer}, "client_id": client, "response_type": string(rtype)}
		if stRO != "" {
			claims["state"] = stRO
		}
		if roNonce != "" {
			claims["nonce"] = roNonce
		}
		if r.Chance(30) {
			claims["login_hint"] = "someone"
		}
		payload, _ := json.Marshal(claims)
		tok, err := hx.Sign(hx.Keys()[1], "RS256", "k-"+client, payload)
		if err != nil {
			panic(err)
		}
		q.Set("request", tok)
	}
	roHonoured := withRO && sb.ro

	// ---- what happens to the request
	outcome := hx.Pick(r, "success", "success", "not-done", "fault-create", "fault-callback", "fault-callback", "fault-callback")
	if withRO && !sb.ro {
		outcome = "ro-unsupported" // the provider answers request_not_supported (Provider router: as a redirect)
	}
	var se c11SrcErr
	site := ""
	post := r.Chance(25)
	do := func(path string, v url.Values) *opbed.Resp {
		if post {
			req := bed.Form(path, v, opbed.Auth{Kind: "none"})
			return bed.Do(req)
		}
		return bed.Do(bed.Get(path, v, ""))
	}
	sb.enc.last = nil
	if outcome == "fault-create" {
		se, site = c11DrawErr(r), "CreateAuthRequest"
		bed.Store.FailMethod(site, se.err)
	}
	resp := do("/authorize", q)
	bed.Store.ClearFaults()
	final := resp
	id := ""
	if resp.Loc != nil && strings.HasPrefix(resp.Loc.Path, "/login") && resp.Status == http.StatusFound {
		id = resp.Loc.Query().Get("authRequestID")
	}
	isErr := false
	sub := "code"
	if rtype != oidc.ResponseTypeCode {
		sub = "token"
	}
	wantDesc, wantCode, traced := "", "", false
	switch {
	case id != "":
		if outcome == "fault-create" || outcome == "ro-unsupported" {
			stats["src-unexpected-login-redirect"]++
			return res, false
		}
		if outcome != "not-done" {
			if err := bed.Store.CompleteAuthRequest(id, "user1"); err != nil {
				panic(err)
			}
		}
		if outcome == "fault-callback" {
			sites := []string{"GetClientByClientID", "SaveAuthCode"}
			if rtype == oidc.ResponseTypeIDToken {
				sites = []string{"GetClientByClientID", "CreateAccessToken", "SigningKey", "DeleteAuthRequest", "SetUserinfoFromScopes"}
			} else if rtype == oidc.ResponseTypeIDTokenOnly {
				sites = []string{"GetClientByClientID", "SigningKey", "DeleteAuthRequest", "SetUserinfoFromScopes"}
			}
			se, site = c11DrawErr(r), sites[r.Intn(len(sites))]
			bed.Store.FailMethod(site, se.err)
		}
		sb.enc.last = nil
		final = bed.Do(bed.Get("/authorize/callback", url.Values{"id": {id}}, ""))
		bed.Store.ClearFaults()
		switch outcome {
		case "not-done":
			isErr, sub = true, "error"
			wantCode, wantDesc, traced = "interaction_required", "Unfortunately, the user may be not logged in and/or additional interaction is required.", true
		case "fault-callback":
			isErr, sub = true, "error"
			// the callback hands the storage's error to AuthRequestError: an *oidc.Error as it is, anything else as
			// server_error with the error's text as description
			wantCode, wantDesc, traced = se.code, se.desc, true
		}
	default:
		// answered at the authorization endpoint itself
		isErr, sub = true, "error"
		switch outcome {
		case "fault-create":
			// CreateAuthRequest failed: an *oidc.Error of the storage as it is, anything else as server_error with the
			// provider's own wording (the call site passes "unable to save auth request")
			wantCode, wantDesc, traced = se.code, se.desc, true
			if se.kind == "plain" || se.kind == "wrapf" {
				wantDesc = "unable to save auth request"
			}
		case "ro-unsupported":
			wantCode = "request_not_supported"
		default:
			stats["src-authorize-refused"]++
		}
	}
	obs := c11Obs{status: final.Status, loc: final.Header.Get("Location"), body: final.Body}
	switch {
	case final.Panicked:
		obs.kind = "panic"
	case final.Status == http.StatusFound && obs.loc != "":
		obs.kind = "redirect"
	case final.Status == http.StatusOK:
		obs.kind = "form"
	default:
		obs.kind = "refused"
	}
	if outcome == "ro-unsupported" && sb.router == "legacy" {
		// the Server router answers request_not_supported as a JSON document: not an authorization response
		stats["src-ro-unsupported-json"]++
		return res, false
	}
	produced := map[string][]string{}
	for k, v := range sb.enc.last {
		produced[k] = v
	}
	res = c11SrcResult{u: u, mode: mode, rtype: rtype, isErr: isErr, sub: sub, produced: produced, obs: obs,
		stChannel: channel, outcome: outcome, errClass: se.class, errKind: se.kind, who: sb.router}
	res.src = func(l *hx.Line) {
		l.B("src", true).S("src.router", sb.router).S("src.channel", channel).S("src.outcome", outcome).B("src.post", post).
			S("src.st.plain", c11Hex(stPlain)).S("src.st.ro", c11Hex(stRO)).B("src.ro", withRO).B("src.ro.honoured", roHonoured).S("src.ro.nonce", roNonce)
		if traced {
			l.B("src.desc.traced", true).S("src.desc", c11Hex(wantDesc)).S("src.code", wantCode)
		}
		if se.kind != "" {
			// oracle for the model of fmt.Sprintf without operands: what the real fmt makes of the drawn text used as a FORMAT
			l.S("src.err.sprintf", c11Hex(c11SprintfNoArgs(se.text))).S("src.err.rawtext", c11Hex(se.text))
			l.S("src.err.kind", se.kind).S("src.err.class", se.class).S("src.err.site", site).S("src.err.text", c11Hex(se.errText)).S("src.err.desc", c11Hex(se.desc)).S("src.err.code", se.code)
		}
	}
	return res, true
}

// c11SprintfNoArgs: fmt.Sprintf(text) - the text as format string, no operands (what a printf-style builder does to it)
func c11SprintfNoArgs(text string) string {
	format := text
	return fmt.Sprintf(format)
}
