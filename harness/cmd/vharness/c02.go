package main

import (
	"bufio"
	"bytes"
	"context"
	"crypto/x509"
	"encoding/base64"
	"encoding/json"
	"errors"
	"fmt"
	"net/http"
	"net/http/httptest"
	"reflect"
	"strconv"
	"strings"
	"sync/atomic"
	"time"

	jose "github.com/go-jose/go-jose/v4"
	"github.com/zitadel/oidc/v3/pkg/client/rp"
	"github.com/zitadel/oidc/v3/pkg/oidc"
	"github.com/zitadel/oidc/v3/pkg/op"

	"verifharness/internal/hx"
)

func init() { streams["C02"] = c02Stream }

// ---- symbolic bookkeeping: every genuine signature the harness ever made

type sigRecord struct {
	signer   int
	alg, kid string // algorithm used; kid of the protected header that was signed
	payload  int
	// filled in by the C02 token builders only (zero values: protected header = {alg, kid}, raw segment not tracked)
	hdrSet  bool   // the protected header named `halg` (possibly none) instead of `alg`
	halg    string // alg member of the PROTECTED header the signer signed ("" = absent)
	hasRaw  bool   // `rawProt` is the protected segment (base64url) the signature covers
	rawProt string
}

func (r sigRecord) protAlg() string {
	if r.hdrSet {
		return r.halg
	}
	return r.alg
}

type symbols struct {
	payloadID map[string]int
	sigs      map[string]sigRecord // raw signature bytes -> provenance
}

func newSymbols() *symbols {
	return &symbols{payloadID: map[string]int{}, sigs: map[string]sigRecord{}}
}
func (s *symbols) pid(b []byte) int {
	if id, ok := s.payloadID[string(b)]; ok {
		return id
	}
	id := len(s.payloadID) + 1
	s.payloadID[string(b)] = id
	return id
}

var allAlgs = []jose.SignatureAlgorithm{jose.RS256, jose.RS384, jose.RS512, jose.PS256, jose.PS384, jose.PS512,
	jose.ES256, jose.ES384, jose.ES512, jose.EdDSA, jose.HS256, jose.HS384, jose.HS512, "none"}

// sign makes a genuine compact JWS and records its provenance
func (s *symbols) sign(k *hx.Key, alg, kid string, payload []byte) (string, error) {
	tok, err := hx.Sign(k, alg, kid, payload)
	if err != nil {
		return "", err
	}
	parts := strings.Split(tok, ".")
	raw, _ := base64.RawURLEncoding.DecodeString(parts[2])
	s.sigs[string(raw)] = sigRecord{signer: k.No, alg: alg, kid: kid, payload: s.pid(payload), hasRaw: true, rawProt: parts[0]}
	return tok, nil
}

// tokenKV describes a serialized token exactly as the two parsers see it.
func (s *symbols) tokenKV(l *hx.Line, tok string) {
	parts := strings.Split(tok, ".")
	l.I("t.segs", int64(len(parts)))
	if len(parts) == 3 {
		if mid, err := base64.RawURLEncoding.DecodeString(parts[1]); err == nil {
			l.I("t.mid", int64(s.pid(mid)))
			dec, ok := hx.DecodeIDClaims(mid)
			l.B("t.json", ok)
			if ok {
				hx.ClaimsKV(l, "c.", dec)
			}
		}
	}
	jws, err := jose.ParseSigned(tok, allAlgs)
	for try := 0; err != nil && try < 3; try++ {
		// go-jose refuses a header algorithm outside the list it is given (also the empty one of a signature whose
		// protected header names none); the oracle wants the structure, the allow-list is the model's business
		const pre = "go-jose/go-jose: unexpected signature algorithm \""
		msg := err.Error()
		if !strings.HasPrefix(msg, pre) {
			break
		}
		rest := msg[len(pre)-1:]
		end := strings.Index(rest, "; expected")
		if end < 0 {
			break
		}
		name, uerr := strconv.Unquote(rest[:end])
		if uerr != nil {
			break
		}
		jws, err = jose.ParseSigned(tok, append(append([]jose.SignatureAlgorithm{}, allAlgs...), jose.SignatureAlgorithm(name)))
	}
	if err != nil {
		l.B("t.jws", false)
		return
	}
	l.B("t.jws", true).I("j.bytes", int64(s.pid(jws.UnsafePayloadWithoutVerification()))).I("j.n", int64(len(jws.Signatures)))
	raws, rawUnprotKid := c02RawProtected(jws)
	for i, sg := range jws.Signatures {
		p := fmt.Sprintf("s%d.", i)
		// go-jose's three views of the header: merged (protected wins, unprotected fills in), protected, unprotected
		l.S(p+"alg", sg.Header.Algorithm).S(p+"kid", sg.Header.KeyID)
		l.S(p+"palg", sg.Protected.Algorithm).S(p+"pkid", sg.Protected.KeyID)
		l.S(p+"ualg", sg.Unprotected.Algorithm).S(p+"ukid", sg.Unprotected.KeyID)
		if i < len(rawUnprotKid) && rawUnprotKid[i] != sg.Unprotected.KeyID {
			// go-jose v4.0.5 does not show (nor merge) the per-signature unprotected header of the GENERAL serialisation
			l.S(p+"rukid", rawUnprotKid[i])
		}
		// a signature term is known only together with the protected segment it was made over
		if rec, ok := s.sigs[string(sg.Signature)]; ok && (!rec.hasRaw || (i < len(raws) && raws[i] == rec.rawProt)) {
			l.I(p+"signer", int64(rec.signer)).S(p+"salg", rec.alg).I(p+"sbytes", int64(rec.payload)).S(p+"shalg", rec.protAlg()).S(p+"shkid", rec.kid)
		}
	}
}

// ---- key sets

type pubKey struct {
	k        *hx.Key
	kid, use string
}

func (p pubKey) ID() string                         { return p.kid }
func (p pubKey) Algorithm() jose.SignatureAlgorithm { return jose.SignatureAlgorithm(p.k.Algs[0]) }
func (p pubKey) Use() string                        { return p.use }
func (p pubKey) Key() any                           { return p.k.Pub }

type keyStore struct {
	op.Storage
	keys []pubKey
}

func (s *keyStore) KeySet(context.Context) ([]op.Key, error) {
	out := make([]op.Key, len(s.keys))
	for i, k := range s.keys {
		out[i] = k
	}
	return out, nil
}

// clientKeyStore: per-client key registry behind GetKeyByIDAndClientID (exact client id and key id)
type clientKeyStore struct {
	clients []string
	keys    []pubKey
}

func (s *clientKeyStore) GetKeyByIDAndClientID(_ context.Context, keyID, clientID string) (*jose.JSONWebKey, error) {
	for i, c := range s.clients {
		if c == clientID && s.keys[i].kid == keyID {
			return &jose.JSONWebKey{Key: s.keys[i].k.Pub, KeyID: keyID, Use: "sig"}, nil
		}
	}
	return nil, errors.New("key not found")
}

func ksLinePub(l *hx.Line, kind string, keys []pubKey) { ksLinePrefix(l, "ks.", kind, keys) }

func ksLinePrefix(l *hx.Line, pre, kind string, keys []pubKey) {
	l.S(pre+"kind", kind).I(pre+"n", int64(len(keys)))
	for i, k := range keys {
		p := fmt.Sprintf("%s%d.", pre, i)
		l.S(p+"kid", k.kid).S(p+"use", k.use).S(p+"kty", k.k.Kty).I(p+"no", int64(k.k.No))
	}
}

// JWKS endpoint whose content is swapped per case; it records what it served (the history the statement's
// "key set the verifier trusts" refers to for a remote key set: what the endpoint last served)
type jwksServed struct {
	body []byte
	keys []pubKey
}

type jwksServer struct {
	srv     *httptest.Server
	body    atomic.Value // jwksServed: what is published now
	fetches atomic.Int64 // number of requests answered
	last    atomic.Value // jwksServed: what the last request was answered with
}

func newJWKSServer() *jwksServer {
	j := &jwksServer{}
	j.body.Store(jwksServed{body: []byte(`{"keys":[]}`)})
	j.srv = httptest.NewServer(http.HandlerFunc(func(w http.ResponseWriter, r *http.Request) {
		cur := j.body.Load().(jwksServed)
		j.last.Store(cur)
		j.fetches.Add(1)
		w.Header().Set("content-type", "application/json")
		w.Write(cur.body)
	}))
	return j
}
func (j *jwksServer) set(keys []pubKey) {
	set := jose.JSONWebKeySet{}
	for _, k := range keys {
		set.Keys = append(set.Keys, jose.JSONWebKey{Key: k.k.Pub, KeyID: k.kid, Use: k.use})
	}
	b, _ := json.Marshal(set)
	j.body.Store(jwksServed{body: b, keys: append([]pubKey(nil), keys...)})
}

// setRaw publishes a document byte for byte (part 8: documents that no JWK library marshalled)
func (j *jwksServer) setRaw(body []byte) {
	j.body.Store(jwksServed{body: append([]byte(nil), body...)})
}

func b64(b []byte) string { return base64.RawURLEncoding.EncodeToString(b) }

// mutate applies one serialisation-level manipulation to a genuine token
func c02Mutate(r *hx.Rand, sy *symbols, kind int, tok string, payload, evil []byte, signer *hx.Key, other *hx.Key, alg, kid string) string {
	parts := strings.Split(tok, ".")
	switch kind {
	case 1: // header alg swapped, signature kept
		newAlg := hx.Pick(r, "PS256", "RS256", "HS256", "none", "ES256", "RS384")
		h := map[string]any{"alg": newAlg}
		if kid != "" {
			h["kid"] = kid
		}
		hb, _ := json.Marshal(h)
		return b64(hb) + "." + parts[1] + "." + parts[2]
	case 2: // HMAC with the public key as secret
		var secret []byte
		if der, err := x509.MarshalPKIXPublicKey(signer.Pub); err == nil {
			secret = der
		} else {
			secret = []byte("public")
		}
		hk := &hx.Key{No: 99, Kty: "oct", Priv: secret, Pub: secret, Algs: []string{"HS256"}}
		t, err := hx.Sign(hk, "HS256", kid, payload)
		if err != nil {
			return tok
		}
		return t
	case 3: // signed by another key pair, same kid
		t, err := sy.sign(other, other.Algs[0], kid, payload)
		if err != nil {
			return tok
		}
		return t
	case 4: // truncated / altered signature
		if len(parts[2]) > 4 {
			return parts[0] + "." + parts[1] + "." + parts[2][:len(parts[2])-3] + hx.Pick(r, "AAA", "_-_")
		}
		return tok
	case 5: // payload replaced under the old signature
		return parts[0] + "." + b64(evil) + "." + parts[2]
	case 6: // extra / missing segments
		return hx.Pick(r, tok+".x", parts[0]+"."+parts[1], tok+".", "."+tok)
	case 7: // flattened JSON serialisation of the genuine token
		return fmt.Sprintf(`{"payload":"%s","protected":"%s","signature":"%s"}`, parts[1], parts[0], parts[2])
	case 8: // general JSON serialisation with two genuine signatures
		t2, err := sy.sign(other, other.Algs[0], "", payload)
		if err != nil {
			return tok
		}
		p2 := strings.Split(t2, ".")
		return fmt.Sprintf(`{"payload":"%s","signatures":[{"protected":"%s","signature":"%s"},{"protected":"%s","signature":"%s"}]}`,
			parts[1], parts[0], parts[2], p2[0], p2[2])
	case 9: // JSON smuggling: go-jose sees the signed payload, a dot-splitter sees another middle segment
		return fmt.Sprintf(`{"payload":"%s","protected":"%s","signature":"%s","header":{"x":"a.%s.b"}}`, parts[1], parts[0], parts[2], b64(evil))
	case 10: // re-encoded: padding added to the payload segment
		return parts[0] + "." + parts[1] + "=" + "." + parts[2]
	}
	return tok
}

func c02Stream(r *hx.Rand, tier string, n int, w *bufio.Writer) map[string]int {
	if n == 0 {
		n = 4000
		if tier == "thorough" {
			n = 60000
		}
	}
	stats := map[string]int{}
	keys := hx.Keys()
	sy := newSymbols()
	jwks := newJWKSServer()
	defer jwks.srv.Close()
	const issuer, cid = "https://op.example", "rp-client"
	kids := []string{"", "a", "b"}
	uses := []string{"", "sig", "enc"}
	caseNo := 0
	env := &c02Env{w: w, sy: sy, jwks: jwks, stats: stats, caseNo: &caseNo}

	// ---------- part 1: oidc.FindMatchingKey directly (exhaustive over small key sets in thorough)
	shapes := []pubKey{}
	for _, k := range []*hx.Key{keys[0], keys[2], keys[5]} {
		for _, kid := range kids {
			for _, use := range uses {
				shapes = append(shapes, pubKey{k, kid, use})
			}
		}
	}
	fmk := func(set []pubKey, hkid, alg string) {
		jw := make([]jose.JSONWebKey, len(set))
		for i, k := range set {
			jw[i] = jose.JSONWebKey{Key: k.k.Pub, KeyID: k.kid, Use: k.use}
		}
		got, err := oidc.FindMatchingKey(hkid, oidc.KeyUseSignature, alg, jw...)
		l := hx.NewLine("C02").I("case", int64(caseNo)).S("verifier", "fmk").S("kid", hkid).S("alg", alg)
		caseNo++
		ksLinePub(l, "published", set)
		if err != nil {
			l.S("obs", "err").S("o.err", hx.ErrName(err))
			stats["fmk-"+hx.ErrName(err)]++
		} else {
			idx := -1
			for i := range jw {
				if reflect.DeepEqual(jw[i].Key, got.Key) && jw[i].KeyID == got.KeyID && jw[i].Use == got.Use {
					idx = i
					break
				}
			}
			l.S("obs", "ok").I("o.idx", int64(idx))
			stats["fmk-ok"]++
		}
		fmt.Fprintln(w, l.String())
	}
	hkids := []string{"", "a", "b", "c"}
	fmkAlgs := []string{"RS256", "PS384", "ES256", "EdDSA", "HS256", "none"}
	if tier == "thorough" {
		for _, a := range shapes {
			for _, hk := range hkids {
				for _, alg := range fmkAlgs {
					fmk([]pubKey{a}, hk, alg)
					for _, b := range shapes {
						fmk([]pubKey{a, b}, hk, alg)
					}
				}
			}
		}
		stats["fmk-exhaustive-upto-2-keys"] = 1
	}
	for i := 0; i < n/2; i++ {
		m := 1 + r.Intn(4)
		set := make([]pubKey, m)
		for j := range set {
			set[j] = shapes[r.Intn(len(shapes))]
		}
		fmk(set, hx.Pick(r, hkids...), hx.Pick(r, fmkAlgs...))
	}

	// ---------- part 2: the verifiers on manipulated tokens
	for i := 0; i < n; i++ {
		waitClearOfSecondEdge()
		sec := time.Now().Unix()
		verifier := hx.Pick(r, "rp", "at", "hint", "assertion")
		// key set: 1..3 keys
		m := 1 + r.Intn(3)
		pool := []*hx.Key{keys[0], keys[1], keys[2], keys[3], keys[5], keys[6]}
		set := make([]pubKey, 0, m)
		for j := 0; j < m; j++ {
			use := hx.Pick(r, "sig", "sig", "", "enc")
			set = append(set, pubKey{pool[r.Intn(len(pool))], hx.Pick(r, kids...), use})
		}
		// signer: usually a key of the set
		var signer *hx.Key
		kid := ""
		if r.Chance(80) {
			pk := set[r.Intn(len(set))]
			signer, kid = pk.k, pk.kid
			if r.Chance(20) {
				kid = hx.Pick(r, kids...)
			}
		} else {
			signer, kid = pool[r.Intn(len(pool))], hx.Pick(r, kids...)
		}
		alg := signer.Algs[0]
		if signer.Kty == "RSA" {
			alg = hx.Pick(r, "RS256", "RS256", "PS256", "RS384")
		}
		other := pool[r.Intn(len(pool))]
		var algs []string
		switch r.Intn(8) {
		case 0, 1, 2:
			algs = []string{alg, "ES384"}
		case 3:
			algs = []string{"RS256", "HS256", "none", "PS256", "ES256", "EdDSA"}
		case 4:
			algs = []string{"ES512"}
		case 5:
			// an explicit allow-list that admits no asymmetric algorithm at all: nothing signed with a
			// published key may be believed (and the list must not silently fall back to the defaults)
			algs = hx.Pick(r, []string{"HS256"}, []string{"none"}, []string{"HS384", "none", "HS512"})
		}
		sub := "user-1"
		issClaim := issuer
		anySubject := false
		if verifier == "assertion" {
			issClaim, sub = "client-A", "client-A"
			algs = nil
			if r.Chance(40) {
				anySubject = true // custom subject check that permits delegation (iss != sub)
				issClaim, sub = hx.Pick(r, "client-A", "client-B"), hx.Pick(r, "client-A", "client-B")
				if r.Chance(50) {
					signer, kid = other, kid // the key registered for client-B
					alg = signer.Algs[0]
				}
			}
		}
		claims := map[string]any{"iss": issClaim, "sub": sub, "aud": []string{cid, issuer}, "azp": cid, "exp": sec + 600, "iat": sec - 5}
		payload, _ := json.Marshal(claims)
		claims["sub"] = "admin"
		evil, _ := json.Marshal(claims)
		if r.Chance(4) {
			payload = hx.Pick(r, []byte("[1]"), []byte("{\"iss\":1}"), []byte("not json"))
		}
		tok, err := sy.sign(signer, alg, kid, payload)
		if err != nil {
			stats["sign-error"]++
			continue
		}
		mut := 0
		if r.Chance(55) {
			mut = 1 + r.Intn(10)
			tok = c02Mutate(r, sy, mut, tok, payload, evil, signer, other, alg, kid)
		}
		stats[fmt.Sprintf("mutation-%02d", mut)]++

		env.verify(c02Case{verifier: verifier, set: set, algs: algs, tok: tok, anySubject: anySubject, other: other, otherKid: kid})
	}
	c02SerialisationStream(r, env, n/2)
	c02RotationStream(r, env, n/16)
	c02EndpointStream(r, env, n/8)
	c02ReuseStream(r, env, n/16)
	c02ConfigStream(r, env, n/16)
	c02DocStream(r, env, n/8)
	c02DocHistoryStream(r, env, n/32)
	return stats
}

// ---- one verifier call on one serialized token

type c02Env struct {
	w      *bufio.Writer
	sy     *symbols
	jwks   *jwksServer
	stats  map[string]int
	caseNo *int
}

type c02Case struct {
	verifier   string // rp | at | hint | assertion
	set        []pubKey
	algs       []string
	tok        string
	anySubject bool    // assertion: custom subject check that permits delegation
	other      *hx.Key // assertion: the key registered for client-B
	otherKid   string
	remote     *c02Remote // rp: a long-lived remote key set (stateful histories); nil = a fresh one per case
	part       string     // prefix of the statistics keys
	tags       []string   // extra key/value pairs describing how the case was generated (not read by the driver)
	reuse      *c02Reuse  // at | hint | assertion: ONE verifier object (and key-set object) that lives across the steps of a history
	doc        *c02Doc    // rp (part 8): the JWKS document the endpoint serves, byte for byte, instead of a marshalled key list
}

// c02Reuse: the verifier objects of a reuse history (c02ep.go); built once, handed to every step
type c02Reuse struct {
	at       *op.AccessTokenVerifier
	hint     *op.IDTokenHintVerifier
	jv       *op.JWTProfileVerifier
	store    *keyStore       // behind the ONE *op.OpenIDKeySet of at / hint / an explicit assertion key set; its keys may change between steps
	cstore   *clientKeyStore // behind the JWT-profile verifier's per-assertion key set
	explicit bool            // assertion: the verifier was built with NewJWTProfileVerifierKeySet(<the OpenIDKeySet over store>)
}

// c02Remote: one rp.NewRemoteKeySet that lives across the steps of a history
type c02Remote struct {
	ks         oidc.KeySet
	lastServed []pubKey // what the JWKS endpoint answered its last request with (nil: never asked)
	lastDoc    *c02Doc  // part 8 histories: the DOCUMENT the endpoint answered its last request with (nil: never asked)
}

const c02Issuer, c02ClientID = "https://op.example", "rp-client"

func (e *c02Env) verify(c c02Case) {
	const issuer, cid = c02Issuer, c02ClientID
	verifier, set, algs, tok, anySubject := c.verifier, c.set, c.algs, c.tok, c.anySubject
	l := hx.NewLine("C02").I("case", int64(*e.caseNo)).S("verifier", verifier)
	*e.caseNo++
	for i := 0; i+1 < len(c.tags); i += 2 {
		l.S(c.tags[i], c.tags[i+1])
	}
	var gotC *oidc.IDTokenClaims
	var verr error
	panicked := false
	var t0, t1 time.Time
	call := func(f func()) {
		t0 = time.Now()
		func() {
			defer func() {
				if p := recover(); p != nil {
					panicked = true
				}
			}()
			f()
		}()
		t1 = time.Now()
	}
	switch verifier {
	case "rp":
		if c.doc != nil {
			e.jwks.setRaw(c.doc.body)
		} else {
			e.jwks.set(set)
		}
		var ks oidc.KeySet
		if c.remote != nil {
			// a long-lived remote key set: the line carries what the endpoint served it last BEFORE the call (`pre.`),
			// what is published now (`cur.`) and, as THE key set of the statement, what it was served last (`ks.`)
			ks = c.remote.ks
			if c.doc != nil {
				// part 8 histories: `pre.` / `cur.` are the harness's own reading of the document served last / published now
				c.remote.lastDoc.readingKV(l, "pre.")
				c.doc.readingKV(l, "cur.")
			} else {
				ksLinePrefix(l, "pre.", "published", c.remote.lastServed)
				ksLinePrefix(l, "cur.", "published", set)
			}
			l.S("stateful", "1")
		} else {
			ks = rp.NewRemoteKeySet(http.DefaultClient, e.jwks.srv.URL)
		}
		opts := []rp.VerifierOption{rp.WithNonce(nil)}
		if algs != nil {
			opts = append(opts, rp.WithSupportedSigningAlgorithms(algs...))
		}
		v := rp.NewIDTokenVerifier(issuer, cid, ks, opts...)
		f0 := e.jwks.fetches.Load()
		call(func() { gotC, verr = rp.VerifyIDToken[*oidc.IDTokenClaims](context.Background(), tok, v) })
		l.S("v.iss", issuer).S("v.cid", cid).I("v.off", int64(time.Second))
		if c.remote != nil {
			fetched := e.jwks.fetches.Load() - f0
			if fetched > 0 {
				c.remote.lastServed = e.jwks.last.Load().(jwksServed).keys
				if c.doc != nil && bytes.Equal(e.jwks.last.Load().(jwksServed).body, c.doc.body) {
					c.remote.lastDoc = c.doc
				}
			}
			l.I("o.fetches", fetched)
			if c.doc != nil {
				// the oracle lines describe the document published NOW (what a download in this call parses); the statement's key
				// sets are the reading of the document served LAST
				c.doc.oracleKV(l, e.stats, c.part)
				c.remote.lastDoc.readingKV(l, "ks.")
				c.remote.lastDoc.readingAllKV(l, "ksall.")
			} else {
				ksLinePub(l, "published", c.remote.lastServed)
			}
		} else if c.doc != nil {
			c.doc.docKV(l, e.stats, c.part)
		} else {
			ksLinePub(l, "published", set)
		}
	case "at":
		var o []op.AccessTokenVerifierOpt
		if algs != nil {
			o = append(o, op.WithSupportedAccessTokenSigningAlgorithms(algs...))
		}
		v := op.NewAccessTokenVerifier(issuer, &op.OpenIDKeySet{Storage: &keyStore{keys: set}}, o...)
		if c.reuse != nil {
			c.reuse.store.keys = set // what the storage publishes now; verifier and key-set OBJECT are the history's
			v = c.reuse.at
		}
		call(func() { gotC, verr = op.VerifyAccessToken[*oidc.IDTokenClaims](context.Background(), tok, v) })
		l.S("v.iss", issuer)
		ksLinePub(l, "published", set)
	case "hint":
		var o []op.IDTokenHintVerifierOpt
		if algs != nil {
			o = append(o, op.WithSupportedIDTokenHintSigningAlgorithms(algs...))
		}
		v := op.NewIDTokenHintVerifier(issuer, &op.OpenIDKeySet{Storage: &keyStore{keys: set}}, o...)
		if c.reuse != nil {
			c.reuse.store.keys = set
			v = c.reuse.hint
		}
		call(func() {
			gotC, verr = op.VerifyIDTokenHint[*oidc.IDTokenClaims](context.Background(), tok, v)
			var exp op.IDTokenHintExpiredError
			if verr != nil && errors.As(verr, &exp) && gotC != nil {
				verr = nil // claims were handed back together with an expiry error
			}
		})
		l.S("v.iss", issuer)
		ksLinePub(l, "published", set)
	case "assertion":
		// registry: the key set belongs to client-A, one more key to client-B
		st := &clientKeyStore{}
		for _, k := range set {
			st.clients = append(st.clients, "client-A")
			st.keys = append(st.keys, k)
		}
		st.clients = append(st.clients, "client-B")
		st.keys = append(st.keys, pubKey{c.other, c.otherKid, "sig"})
		var jo []op.JWTProfileVerifierOption
		if anySubject {
			jo = append(jo, op.SubjectCheck(func(*oidc.JWTTokenRequest) error { return nil }))
			l.S("v.subjcheck", "any")
		}
		v := op.NewJWTProfileVerifier(st, issuer, time.Hour, time.Second, jo...)
		if c.reuse != nil {
			// the registry is the history's (handed over in c.reuse.cstore); `set` is the explicit key set, if any
			st = c.reuse.cstore
			v = c.reuse.jv
			if c.reuse.explicit {
				c.reuse.store.keys = set
				l.S("v.ks", "explicit")
				ksLinePub(l, "published", set)
			}
		}
		var req *oidc.JWTTokenRequest
		call(func() { req, verr = op.VerifyJWTAssertion(context.Background(), tok, v) })
		if verr == nil && req != nil {
			gotC = &oidc.IDTokenClaims{TokenClaims: oidc.TokenClaims{Issuer: req.Issuer, Subject: req.Subject, Audience: req.Audience,
				Expiration: req.ExpiresAt, IssuedAt: req.IssuedAt}}
			gotC.AuthorizedParty = cid // not part of JWTTokenRequest: compare as in payload
		}
		l.S("v.iss", issuer).I("v.maxiat", int64(time.Hour)).I("v.off", int64(time.Second))
		l.I("st.n", int64(len(st.keys)))
		for i := range st.keys {
			p := fmt.Sprintf("st.%d.", i)
			l.S(p+"client", st.clients[i]).S(p+"kid", st.keys[i].kid).S(p+"use", st.keys[i].use).S(p+"kty", st.keys[i].k.Kty).I(p+"no", int64(st.keys[i].k.No))
		}
	}
	l.I("now0", t0.UnixNano()).I("now1", t1.UnixNano()).L("v.algs", algs)
	e.sy.tokenKV(l, tok)
	switch {
	case panicked:
		l.S("obs", "panic")
		e.stats[c.part+"obs-panic"]++
	case verr != nil:
		l.S("obs", "err").S("o.err", hx.ErrName(verr))
		e.stats[c.part+"obs-"+verifier+"-"+hx.ErrName(verr)]++
	default:
		l.S("obs", "ok")
		hx.ClaimsKV(l, "o.", gotC)
		e.stats[c.part+"obs-"+verifier+"-ok"]++
	}
	ls := l.String()
	if strings.Contains(ls, ".rukid=") {
		// a general-JSON JWS whose unprotected header names a key id go-jose's Signature.Header does not show
		e.stats[c.part+"gojose-hides-unprotected-kid"]++
		if !panicked && verr == nil {
			e.stats[c.part+"gojose-hides-unprotected-kid-accepted"]++
		}
	}
	fmt.Fprintln(e.w, ls)
}
