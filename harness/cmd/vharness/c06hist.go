package main

// C06 (deep3): issuance HISTORIES with key-change events.
//
// A history is a sequence of token issuances against one or two providers that live in the SAME process (same key id
// "sig1" in both storages, different key material), between (or in the middle of) which the storage of a provider starts
// to answer SigningKey / KeySet differently:
//
//	rekey-inplace   other key material under the unchanged key id and algorithm (a key replaced behind a stable name)
//	rekey-back      the material the provider used before the last in-place change, again under the unchanged id
//	rotate          other material under a NEW key id; the previous public key stays published under its old id
//	newkid-samekey  the same material under a new key id (the previous id is no longer published)
//	alg-change      the unchanged key id with another algorithm (RSA: same material, RS256 -> PS256 ...; otherwise material of
//	                another key type)
//
// The event is applied either before the flow of the step starts or right before its token-issuing request (after the
// requests that prepare it: for refresh / token exchange AFTER tokens were already signed with the previous key).
// For every issued JWT the observer establishes WHICH key pair of the ring made the signature (go-jose Verify against
// every public key of the ring) and which `kid` / `alg` the header names; the reference for "the provider's current
// signing key" is what the reference storage was told to return at that moment.

import (
	"crypto/ecdsa"
	"crypto/ed25519"
	"crypto/elliptic"
	"crypto/rand"
	"crypto/rsa"
	"fmt"
	"net/http/httptest"
	"strings"

	jose "github.com/go-jose/go-jose/v4"

	"verifharness/internal/hx"
	"verifharness/internal/opbed"
	"verifharness/internal/refstore"
)

var c06RingCache []*hx.Key

// c06Ring: the fixed ring of hx.Keys plus further key pairs per key type (numbered from 100), so that a provider can be
// re-keyed several times and two providers can hold different material of the same type.
func c06Ring() []*hx.Key {
	if c06RingCache != nil {
		return c06RingCache
	}
	ring := append([]*hx.Key{}, hx.Keys()[:7]...) // without the HMAC key
	add := func(kty string, priv, pub any, algs ...string) {
		ring = append(ring, &hx.Key{No: 100 + len(ring), Kty: kty, Priv: priv, Pub: pub, Algs: algs})
	}
	k, err := rsa.GenerateKey(rand.Reader, 2048)
	if err != nil {
		panic(err)
	}
	add("RSA", k, &k.PublicKey, "RS256", "RS384", "RS512", "PS256", "PS384", "PS512")
	e, _ := ecdsa.GenerateKey(elliptic.P256(), rand.Reader)
	add("EC", e, &e.PublicKey, "ES256")
	for i := 0; i < 2; i++ {
		e384, _ := ecdsa.GenerateKey(elliptic.P384(), rand.Reader)
		add("EC", e384, &e384.PublicKey, "ES384")
	}
	// P-521 (ES512): not in the fixed ring of hx.Keys; three pairs, generated once per harness run
	for i := 0; i < 3; i++ {
		e521, _ := ecdsa.GenerateKey(elliptic.P521(), rand.Reader)
		add("EC", e521, &e521.PublicKey, "ES512")
	}
	pub, priv, _ := ed25519.GenerateKey(rand.Reader)
	add("OKP", priv, pub, "EdDSA")
	c06RingCache = ring
	return ring
}

// c06KeysFor: the key pairs of the ring that can sign with alg
func c06KeysFor(alg string) []*hx.Key {
	var out []*hx.Key
	for _, k := range c06Ring() {
		for _, a := range k.Algs {
			if a == alg {
				out = append(out, k)
				break
			}
		}
	}
	return out
}

// c06Cur: what the reference storage of one provider returns as its signing key right now
type c06Cur struct {
	k    *hx.Key
	alg  string
	kid  string
	prev *hx.Key // material before the last in-place change (rekey-back)
}

type c06Hist struct {
	id, step, steps int
	beds            []*opbed.Bed
	srvs            []*httptest.Server
	cur             []*c06Cur
	kidSeq          int
}

func (h *c06Hist) close() {
	for _, s := range h.srvs {
		s.Close()
	}
}

// every algorithm the library supports for signing (crypto.GetHashAlgorithm knows exactly these)
var c06Algs = []string{"RS256", "RS384", "RS512", "PS256", "PS384", "PS512", "ES256", "ES384", "ES512", "EdDSA"}

// c06NewHist starts a history of `steps` issuances over `nprov` providers (one process, every storage uses key id "sig1")
func c06NewHist(r *hx.Rand, id, steps, nprov int) *c06Hist {
	h := &c06Hist{id: id, steps: steps}
	for p := 0; p < nprov; p++ {
		alg := c06Algs[r.Intn(len(c06Algs))]
		if p > 0 && r.Chance(70) {
			alg = h.cur[0].alg // the same key id AND algorithm as the first provider, other material
		}
		cands := c06KeysFor(alg)
		k := cands[0]
		if p > 0 {
			for _, c := range cands {
				if c != h.cur[0].k {
					k = c
					break
				}
			}
		}
		router := hx.Pick(r, "provider", "legacy")
		bed, err := opbed.New(opbed.Config{Router: router, S256: true, Post: true, PrivateKeyJWT: true, Refresh: true, SignKey: k, SignAlg: alg,
			Caps: refstore.Caps{CC: true, TE: true, Device: true, UserinfoFromReq: r.Chance(50)}})
		if err != nil {
			panic(err)
		}
		bed.Store.UserinfoInIDToken = r.Chance(50)
		h.beds = append(h.beds, bed)
		h.srvs = append(h.srvs, httptest.NewServer(bed.Handler))
		h.cur = append(h.cur, &c06Cur{k: k, alg: alg, kid: "sig1"})
	}
	return h
}

// c06Event changes what the storage of provider p returns from now on; returns the name of the event
func (h *c06Hist) event(r *hx.Rand, p int) string {
	cur, st := h.cur[p], h.beds[p].Store
	other := func(alg string, not *hx.Key) *hx.Key {
		cands := c06KeysFor(alg)
		var pool []*hx.Key
		for _, c := range cands {
			if c != not {
				pool = append(pool, c)
			}
		}
		if len(pool) == 0 {
			return not
		}
		return pool[r.Intn(len(pool))]
	}
	ev := hx.Pick(r, "rekey-inplace", "rekey-inplace", "rekey-back", "rotate", "newkid-samekey", "alg-change")
	if ev == "rekey-back" && cur.prev == nil {
		ev = "rekey-inplace"
	}
	switch ev {
	case "rekey-inplace":
		cur.prev, cur.k = cur.k, other(cur.alg, cur.k)
	case "rekey-back":
		cur.prev, cur.k = cur.k, cur.prev
	case "rotate":
		st.AddPublishedKey(cur.kid, jose.SignatureAlgorithm(cur.alg), cur.k.Pub, "sig")
		h.kidSeq++
		cur.prev, cur.k, cur.kid = nil, other(cur.alg, cur.k), fmt.Sprintf("sig%d", 1+h.kidSeq)
	case "newkid-samekey":
		h.kidSeq++
		cur.kid = fmt.Sprintf("sig%d", 1+h.kidSeq)
	case "alg-change":
		var algs []string
		for _, a := range c06Algs {
			if a != cur.alg {
				algs = append(algs, a)
			}
		}
		alg := algs[r.Intn(len(algs))]
		fits := false
		for _, a := range cur.k.Algs {
			fits = fits || a == alg
		}
		if !fits {
			cur.prev, cur.k = nil, c06KeysFor(alg)[r.Intn(len(c06KeysFor(alg)))]
		}
		cur.alg = alg
	}
	st.SetSigningKey(refstore.SigningKeySpec{Kid: cur.kid, Alg: jose.SignatureAlgorithm(cur.alg), Priv: cur.k.Priv, Pub: cur.k.Pub})
	return ev
}

// ---- (deep4) key rotation INSIDE the token-issuing request
//
// The reference storage's SigningKey is a journalled storage call like any other, so the environment can rotate the key
// "right before the k-th storage call of this request is answered" (refstore.AtCall, the counting of the fault streams) or
// "right before the n-th call of method M" (refstore.AtMethodCall: SigningKey itself, the userinfo setters, the private-claims
// getter, token creation ...). Only ROTATIONS are scheduled inside a request - a new key id, the previous public key stays
// published, the discovery document names both algorithms: the one kind of key change under which a token signed with the key
// of either moment still verifies against the key set published when the answer arrives (a storage that withdraws the old key
// in the middle of a request makes every implementation fail):
//
//	rotate      other material of the same algorithm under a new key id
//	rotate-alg  a key of ANOTHER algorithm (mostly another hash size: RS256 -> ES384 ...) under a new key id
type c06Inside struct {
	spec      string // how it was scheduled: "call#k" / "M#n"
	ev        string
	fired     bool
	method    string // the storage call before which it fired
	at        int    // ... its 1-based number among the storage calls of the request
	seq0      int
	prev      c06Cur // the signing key at the start of the request
	sigBefore int    // SigningKey calls of the request answered before the rotation
	calls     []string
}

var c06InsideMethods = []string{"SigningKey", "SigningKey", "SigningKey", "SetUserinfoFromScopes", "SetUserinfoFromScopes", "SetUserinfoFromRequest",
	"GetPrivateClaimsFromScopes", "SetUserinfoFromTokenExchangeRequest", "CreateAccessToken", "CreateAccessAndRefreshTokens", "DeleteAuthRequest"}

// scheduleInside draws a rotation of provider p's signing key and schedules it inside the next request
func (h *c06Hist) scheduleInside(r *hx.Rand, p int) *c06Inside {
	cur, st := h.cur[p], h.beds[p].Store
	in := &c06Inside{prev: *cur, ev: hx.Pick(r, "rotate", "rotate-alg", "rotate-alg")}
	alg := cur.alg
	if in.ev == "rotate-alg" {
		var algs []string
		for _, a := range c06Algs {
			if a != cur.alg {
				algs = append(algs, a)
			}
		}
		alg = algs[r.Intn(len(algs))]
	}
	var pool []*hx.Key
	for _, c := range c06KeysFor(alg) {
		if c != cur.k {
			pool = append(pool, c)
		}
	}
	nk := cur.k
	if len(pool) > 0 {
		nk = pool[r.Intn(len(pool))]
	}
	h.kidSeq++
	kid := fmt.Sprintf("sig%d", 1+h.kidSeq)
	st.AdvertisePublishedAlgs = true
	in.seq0 = st.Calls()
	fn := func(method string, seq int) {
		in.fired, in.method, in.at = true, method, seq-in.seq0
		st.AddPublishedKey(cur.kid, jose.SignatureAlgorithm(cur.alg), cur.k.Pub, "sig")
		cur.prev, cur.k, cur.kid, cur.alg = nil, nk, kid, alg
		st.SetSigningKey(refstore.SigningKeySpec{Kid: cur.kid, Alg: jose.SignatureAlgorithm(cur.alg), Priv: cur.k.Priv, Pub: cur.k.Pub})
	}
	if r.Chance(45) {
		k := 1 + r.Intn(12)
		in.spec = fmt.Sprintf("call#%d", k)
		st.AtCall(k, fn)
	} else {
		m := c06InsideMethods[r.Intn(len(c06InsideMethods))]
		n := 1
		if m == "SigningKey" && r.Chance(40) {
			n = 2
		}
		in.spec = fmt.Sprintf("%s#%d", m, n)
		st.AtMethodCall(m, n, fn)
	}
	return in
}

// finish: after the request - drops the hook if it did not fire, and reads the storage calls of the request off the journal
func (in *c06Inside) finish(st *refstore.Store) {
	st.ClearCallHooks()
	j := st.Journal()
	n := st.Calls() - in.seq0
	if n > len(j) {
		n = len(j)
	}
	for i, c := range j[len(j)-n:] {
		name := c
		if k := strings.Index(c, "("); k >= 0 {
			name = c[:k]
		}
		in.calls = append(in.calls, name)
		if in.fired && i+1 < in.at && name == "SigningKey" {
			in.sigBefore++
		}
	}
}

var c06AllAlgs = []jose.SignatureAlgorithm{jose.RS256, jose.RS384, jose.RS512, jose.PS256, jose.PS384, jose.PS512, jose.ES256, jose.ES384, jose.ES512, jose.EdDSA}

// c06SignedBy: which key pair of the ring made the signature of the compact JWS (-1: none of them / not a JWS), and the
// `kid` and `alg` of its protected header
func c06SignedBy(token string) (no int64, kid, alg string) {
	if strings.Count(token, ".") != 2 {
		return -1, "", ""
	}
	jws, err := jose.ParseSigned(token, c06AllAlgs)
	if err != nil || len(jws.Signatures) != 1 {
		return -1, "", ""
	}
	hd := jws.Signatures[0].Protected
	kid, alg = hd.KeyID, hd.Algorithm
	for _, k := range c06Ring() {
		if _, err := jws.Verify(k.Pub); err == nil {
			return int64(k.No), kid, alg
		}
	}
	return -1, kid, alg
}
