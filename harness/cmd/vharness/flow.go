package main

import (
	"bufio"
	"encoding/json"
	"errors"
	"fmt"
	"net/url"
	"strings"
	"time"

	"github.com/zitadel/oidc/v3/pkg/oidc"
	"github.com/zitadel/oidc/v3/pkg/op"

	"verifharness/internal/hx"
	"verifharness/internal/opbed"
	"verifharness/internal/refstore"
)

func init() {
	streams["C04"] = func(r *hx.Rand, tier string, n int, w *bufio.Writer) map[string]int {
		return flowStream("C04", r, tier, n, w)
	}
	streams["C07"] = func(r *hx.Rand, tier string, n int, w *bufio.Writer) map[string]int {
		return flowStream("C07", r, tier, n, w)
	}
}

type flowClient struct {
	c   *refstore.Client
	key *hx.Key // private_key_jwt
	kid string
}

func appNo(a op.ApplicationType) int64 {
	switch a {
	case op.ApplicationTypeUserAgent:
		return 1
	case op.ApplicationTypeNative:
		return 2
	}
	return 0
}

func grantStrings(gs []oidc.GrantType) []string {
	out := make([]string, len(gs))
	for i, g := range gs {
		out[i] = string(g)
	}
	return out
}

func respTypeStrings(rs []oidc.ResponseType) []string {
	out := make([]string, len(rs))
	for i, g := range rs {
		out[i] = string(g)
	}
	return out
}

// clientsKV describes the registrations for the model (reset line)
func clientsKV(l *hx.Line, cs []*flowClient) {
	l.I("cl.n", int64(len(cs)))
	for i, fc := range cs {
		p := fmt.Sprintf("cl.%d.", i)
		c := fc.c
		l.S(p+"id", c.ID).S(p+"secret", c.Secret).I(p+"app", appNo(c.App)).S(p+"auth", string(c.Auth)).L(p+"grants", grantStrings(c.Grants))
		l.L(p+"redirects", c.Redirects).B(p+"dev", c.Dev).L(p+"resptypes", respTypeStrings(c.RespTypes))
		if c.UseGlobs {
			l.L(p+"globs", c.Globs)
		}
		l.L(p+"postlogout", c.PostLogout)
		if c.UseGlobs {
			l.L(p+"plglobs", c.PostLogoutGlobs)
		}
		if fc.key != nil {
			l.S(p+"k.kid", fc.kid).S(p+"k.kty", fc.key.Kty).I(p+"k.no", int64(fc.key.No))
		}
	}
}

func flowClients() []*flowClient {
	keys := hx.Keys()
	web := opbed.WebClient("web", "secret-web", "https://rp.example/cb", "https://rp.example/cb2")
	web2 := opbed.WebClient("web2", "secret-web2", "https://rp.example/cb", "https://other.example/cb")
	pub := opbed.NativeClient("pub", "https://rp.example/cb", "myapp://cb")
	post := opbed.WebClient("post", "secret-post", "https://rp.example/cb")
	post.Auth = oidc.AuthMethodPost
	pk := opbed.WebClient("pk", "", "https://rp.example/cb")
	pk.Auth = oidc.AuthMethodPrivateKeyJWT
	pk.Keys = []refstore.ClientKey{{Kid: "pk1", Pub: keys[1].Pub}}
	norefresh := opbed.WebClient("norefresh", "secret-nr", "https://rp.example/cb")
	norefresh.Grants = []oidc.GrantType{oidc.GrantTypeCode}
	nocode := opbed.WebClient("nocode", "secret-nc", "https://rp.example/cb")
	nocode.Grants = []oidc.GrantType{oidc.GrantTypeRefreshToken}
	return []*flowClient{{c: web}, {c: web2}, {c: pub}, {c: post}, {c: pk, key: keys[1], kid: "pk1"}, {c: norefresh}, {c: nocode}}
}

// flowClientsCross: the pool of the C04 / C07 histories - flowClients plus registrations crossing application type
// {web, user_agent, native} with auth method {basic, post, none, private_key_jwt} (legal, partly unusual: web+none,
// native+secret, ...), so that every combination occurs
func flowClientsCross() []*flowClient {
	keys := hx.Keys()
	out := flowClients()
	mk := func(id string, app op.ApplicationType, auth oidc.AuthMethod) *flowClient {
		c := opbed.WebClient(id, "secret-"+id, "https://rp.example/cb")
		c.App, c.Auth = app, auth
		c.Grants = []oidc.GrantType{oidc.GrantTypeCode, oidc.GrantTypeRefreshToken}
		fc := &flowClient{c: c}
		switch auth {
		case oidc.AuthMethodNone:
			c.Secret = ""
		case oidc.AuthMethodPrivateKeyJWT:
			c.Secret = ""
			c.Keys = []refstore.ClientKey{{Kid: id + "-k", Pub: keys[1].Pub}}
			fc.key, fc.kid = keys[1], id+"-k"
		}
		return fc
	}
	return append(out,
		mk("webnone", op.ApplicationTypeWeb, oidc.AuthMethodNone),
		mk("uanone", op.ApplicationTypeUserAgent, oidc.AuthMethodNone),
		mk("uasec", op.ApplicationTypeUserAgent, oidc.AuthMethodBasic),
		mk("uapost", op.ApplicationTypeUserAgent, oidc.AuthMethodPost),
		mk("uapk", op.ApplicationTypeUserAgent, oidc.AuthMethodPrivateKeyJWT),
		mk("natsec", op.ApplicationTypeNative, oidc.AuthMethodBasic),
		mk("natpost", op.ApplicationTypeNative, oidc.AuthMethodPost),
		mk("natpk", op.ApplicationTypeNative, oidc.AuthMethodPrivateKeyJWT))
}

func regName(c *refstore.Client) string {
	app := map[int64]string{0: "web", 1: "user_agent", 2: "native"}[appNo(c.App)]
	return app + "+" + string(c.Auth)
}

type issuedCode struct {
	label, real, id, client, redirect, verifier string
	used                                        bool // the request it stood for was consumed by a successful exchange
}

type issuedRT struct {
	token, client string
	scopes        []string // scopes of the grant as the storage recorded them with this token
	dead          bool     // rotated away: a later refresh succeeded with it
	orphan        bool     // created by the storage during a request that ended in an error (never delivered)
}

// assertion mints a private_key_jwt client assertion and describes it symbolically
func assertion(sy *symbols, l *hx.Line, key *hx.Key, kid, iss, sub string, aud []string, iat, exp int64) string {
	claims := map[string]any{"iss": iss, "sub": sub, "aud": aud, "iat": iat, "exp": exp}
	payload, _ := json.Marshal(claims)
	tok, err := sy.sign(key, key.Algs[0], kid, payload)
	if err != nil {
		return ""
	}
	sy.tokenKV(l, tok)
	return tok
}

func without(xs []string, x string) []string {
	var out []string
	for _, y := range xs {
		if y != x {
			out = append(out, y)
		}
	}
	return out
}

func containsStr(xs []string, x string) bool {
	for _, y := range xs {
		if y == x {
			return true
		}
	}
	return false
}

func subsetStr(a, b []string) bool {
	for _, x := range a {
		if !containsStr(b, x) {
			return false
		}
	}
	return true
}

func flowStream(prop string, r *hx.Rand, tier string, n int, w *bufio.Writer) map[string]int {
	if n == 0 {
		n = 400
		if tier == "thorough" {
			n = 6000
		}
	}
	stats := map[string]int{}
	sy := newSymbols()
	caseNo := 0
	h0 := 0 // case id of the reset line of the current history: a case is replayed with its history prefix (-only)
	emit := func(l *hx.Line) {
		fmt.Fprintln(w, l.I("h0", int64(h0)).S("end", "").String())
		caseNo++
	}
	maxOps, maxChain := 14, 5
	if tier == "thorough" {
		maxOps, maxChain = 40, 12
	}
	for h := 0; h < n; h++ {
		router := hx.Pick(r, "provider", "legacy")
		cfg := opbed.Config{Router: router, S256: true, Post: r.Chance(70), PrivateKeyJWT: r.Chance(80), Refresh: r.Chance(85),
			Caps: refstore.Caps{CC: true, TE: true, Device: true}}
		var gate *c04xGate // deep3-C04: a gate around single storage calls (concurrent schedules, strict DeleteAuthRequest; c04x.go)
		if prop == "C04" {
			gate = newC04xGate()
			cfg.WrapStorage = gate.wrap
			cfg.RequestObject = r.Chance(85) // round 4c (C04): request objects are a dimension of the history (c04ro.go)
		}
		var c7 *c07fState // deep4-C07: storage faults / concurrent refreshes inside the refresh chains (c07fault.go)
		var gate7 *c07Gate
		if prop == "C07" {
			c7 = &c07fState{prop: prop, stats: stats}
			if r.Chance(35) {
				gate7 = newC07Gate()
				cfg.WrapStorage = gate7.wrap
			}
		}
		bed, err := opbed.New(cfg)
		if err != nil {
			panic(err)
		}
		var c7a *c07aState // deep5-C07: granted audiences that are not the client, a storage that hands out its own slices (c07aud.go)
		if prop == "C07" {
			c7a = c07aSetup(r, bed, stats)
		}
		cls := flowClientsCross()
		if prop == "C04" || (prop == "C07" && r.Chance(40)) { // deep3-C04: access-token type per registration (c04x.go)
			c04xPrepare(r, cls, stats)
		}
		var sc *c04scPolicy // round 4b (C04): a provider whose JWTProfileVerifier carries a custom subject check (c04sc.go)
		if prop == "C04" {
			sc = c04scSetup(r, bed, cls, stats)
		}
		var ro *c04roState // round 4c (C04): every registration gets a request-object key; authorization requests may carry a signed object (c04ro.go)
		if prop == "C04" && cfg.RequestObject {
			ro = c04roSetup(r, cls, stats)
		}
		for _, fc := range cls {
			bed.Store.AddClient(fc.c)
		}
		bed.Store.AddUser("user1", nil)
		bed.Store.AddUser("user2", nil)
		byID := map[string]*flowClient{}
		for _, fc := range cls {
			byID[fc.c.ID] = fc
		}
		h0 = caseNo
		l := hx.NewLine(prop).I("case", int64(caseNo)).S("op", "reset").S("router", router).B("post", cfg.Post).B("pkjwt", cfg.PrivateKeyJWT).
			B("refresh", cfg.Refresh).S("issuer", opbed.Issuer)
		clientsKV(l, cls)
		ksLine(l, "published", []*hx.Key{bed.SignKey}, []string{"sig1"}, []string{"sig"}) // what an id_token_hint is verified against
		if sc != nil {
			sc.describe(l)
		}
		if c7a != nil {
			c7a.describe(l)
		}
		if prop == "C04" {
			l.B("reqobj", cfg.RequestObject)
		}
		emit(l)

		var pending []string // auth request ids not yet called back
		var codes []issuedCode
		var rts []*issuedRT
		codeNo := 0
		verifiers := map[string]string{} // auth req id -> verifier

		// ---- the operations (each emits one line = one request against the real handlers)
		hinted := map[string]string{} // auth req id -> kind of the id_token_hint it was made with
		loggedIn := map[string]bool{}
		doAuthorize := func(fc *flowClient, scopes string, dropChallenge, forcePKCE bool, hintKind string) string {
			redirect := fc.c.Redirects[r.Intn(len(fc.c.Redirects))]
			nonce := hx.Pick(r, "", "n-1", "n-2")
			q := url.Values{"client_id": {fc.c.ID}, "redirect_uri": {redirect}, "response_type": {"code"}, "scope": {scopes}, "state": {"st"}}
			if nonce != "" {
				q.Set("nonce", nonce)
			}
			verifier, method := "", ""
			if fc.c.Auth == oidc.AuthMethodNone || forcePKCE || r.Chance(45) {
				verifier = hx.Pick(r, "verifier-AAAAAAAAAAAAAAAAAAAAAAAAAAAAAAAAAAAAAAAAAAA", "verifier-BBBBBBBBBBBBBBBBBBBBBBBBBBBBBBBBBBBBBBBBBBB")
				method = hx.Pick(r, "S256", "S256", "plain")
				ch := verifier
				if method == "S256" {
					ch = oidc.NewSHACodeChallenge(verifier)
				}
				q.Set("code_challenge", ch)
				q.Set("code_challenge_method", method)
			}
			if fc.c.Auth == oidc.AuthMethodNone && dropChallenge {
				q.Del("code_challenge")
				q.Del("code_challenge_method")
				verifier, method = "", ""
			}
			// the id_token_hint: an ID token of this provider for some user - valid, expired (both are accepted and put their
			// subject on the pending request), of another user / issued to another client, or one the provider must refuse
			hint := ""
			if hintKind != "" {
				now := time.Now().Unix()
				claims := map[string]any{"iss": opbed.Issuer, "sub": hx.Pick(r, "user1", "user2"), "aud": []string{fc.c.ID}, "azp": fc.c.ID,
					"exp": now + 3600, "iat": now - 60, "auth_time": now - 120}
				key := bed.SignKey
				switch hintKind {
				case "expired":
					claims["exp"], claims["iat"] = now-3600, now-7200
				case "other-user":
					claims["sub"] = "victim"
				case "other-client":
					claims["aud"], claims["azp"] = []string{"web2"}, "web2"
				case "foreign-issuer":
					claims["iss"] = "https://other.example"
				case "wrong-key":
					key = hx.Keys()[1] // an RSA key that is not the provider's
				}
				if hintKind == "garbage" {
					hint = hx.Pick(r, "not.a.jwt", "abc", "e30.e30.e30")
				} else {
					payload, _ := json.Marshal(claims)
					hint, _ = sy.sign(key, "RS256", "sig1", payload)
				}
				q.Set("id_token_hint", hint)
			}
			var sent *c04roSent // round 4c (C04): the PKCE parameters split between the query and a signed request object
			if ro != nil && !dropChallenge && (ro.next != nil || r.Chance(40)) {
				sent = ro.apply(q, fc, verifier, method)
				verifier = sent.effVerifer
			}
			resp := bed.Do(bed.Get("/authorize", q, ""))
			l := hx.NewLine(prop).I("case", int64(caseNo)).S("op", "authorize").S("client", fc.c.ID).S("redirect", redirect).
				L("scopes", strings.Split(scopes, " ")).S("nonce", nonce).S("state", "st")
			if hint != "" {
				l.S("hint", hintKind)
				sy.tokenKV(l, hint)
				l.I("now0", time.Now().UnixNano())
			}
			if sent != nil {
				sent.describe(l)
			} else if verifier != "" {
				sym := verifier
				if method == "S256" {
					sym = "S256(" + verifier + ")"
				}
				l.S("chal.m", method).S("chal.c", sym)
			}
			id := ""
			if resp.Loc != nil && strings.HasPrefix(resp.Loc.Path, "/login") {
				id = resp.Loc.Query().Get("authRequestID")
			}
			if id != "" {
				l.S("obs", "login").S("o.id", id)
				if ar := bed.Store.GetAuthRequest(id); ar != nil {
					l.S("o.presub", ar.Subject) // the subject the pending request carries before anybody logged in
				}
				pending = append(pending, id)
				verifiers[id] = verifier
				hinted[id] = hintKind
			} else {
				l.S("obs", "err").I("o.status", int64(resp.Status))
				if resp.Loc != nil {
					l.S("o.error", resp.Loc.Query().Get("error"))
				} else if sent != nil && resp.Status == 400 && resp.OAuthError() == "" {
					// round 4c: the Provider router answers an error that precedes the validation of client and redirect URI (here: the request
					// object) with a plain-text 400 (AuthRequestError without an authorization request), the Server router with a JSON body
					l.S("o.error", "invalid_request").S("o.body", "plain")
				} else {
					l.S("o.error", resp.OAuthError())
				}
			}
			stats["op-authorize"]++
			stats["authorize-by-"+regName(fc.c)]++
			if hintKind != "" {
				stats["authorize-with-hint"]++
				if id != "" {
					stats["authorize-with-hint-"+hintKind+"-accepted"]++
				} else {
					stats["authorize-with-hint-"+hintKind+"-refused"]++
				}
			}
			emit(l)
			return id
		}
		doLogin := func(id string) {
			sub := hx.Pick(r, "user1", "user2")
			bed.Store.CompleteAuthRequest(id, sub)
			loggedIn[id] = true
			ar := bed.Store.GetAuthRequest(id)
			l := hx.NewLine(prop).I("case", int64(caseNo)).S("op", "login").S("id", id).S("sub", sub)
			if ar != nil {
				l.I("authtime", ar.AuthTime.Unix())
			}
			stats["op-login"]++
			emit(l)
		}
		doCallback := func(id string, keepPending bool) *issuedCode {
			resp := bed.Do(bed.Get("/authorize/callback", url.Values{"id": {id}}, ""))
			l := hx.NewLine(prop).I("case", int64(caseNo)).S("op", "callback").S("id", id)
			code := ""
			if resp.Loc != nil {
				code = resp.Loc.Query().Get("code")
			}
			var out *issuedCode
			if code != "" {
				codeNo++
				label := fmt.Sprintf("c%d", codeNo)
				ar := bed.Store.GetAuthRequest(id)
				ic := issuedCode{label: label, real: code, id: id, verifier: verifiers[id]}
				if ar != nil {
					ic.client, ic.redirect = ar.ClientID, ar.RedirectURI
				}
				codes = append(codes, ic)
				out = &ic
				l.S("obs", "code").S("o.code", label)
				if !keepPending { // usually a request is called back once
					for pi, pid := range pending {
						if pid == id {
							pending = append(pending[:pi], pending[pi+1:]...)
							break
						}
					}
				}
			} else {
				l.S("obs", "err").I("o.status", int64(resp.Status))
				if resp.Loc != nil {
					l.S("o.error", resp.Loc.Query().Get("error"))
				}
			}
			stats["op-callback"]++
			if !loggedIn[id] {
				stats["callback-without-login"]++
				if hinted[id] != "" {
					stats["callback-without-login-hinted"]++
				}
				if out != nil {
					stats["callback-without-login-GOT-A-CODE"]++
				}
			}
			emit(l)
			return out
		}
		// registrations change in the middle of a history: grant types are removed (or given back), the authentication
		// method is replaced; a client occasionally keeps presenting itself the way its EARLIER registration asked for
		prevAuth := map[string]oidc.AuthMethod{}
		staleAuth := func(fc *flowClient) oidc.AuthMethod {
			if m, ok := prevAuth[fc.c.ID]; ok && m != oidc.AuthMethodPrivateKeyJWT && r.Chance(12) {
				return m
			}
			return ""
		}
		doReregister := func(fc *flowClient, change string) {
			was := fc.c.Auth
			methods := []oidc.AuthMethod{oidc.AuthMethodBasic, oidc.AuthMethodNone}
			if cfg.Post {
				methods = append(methods, oidc.AuthMethodPost)
			}
			if cfg.PrivateKeyJWT {
				methods = append(methods, oidc.AuthMethodPrivateKeyJWT)
			}
			change = reregister(r, fc, change, methods)
			if ro != nil {
				ro.rekey(fc) // round 4c (C04): a changed registration keeps its request-object key
			}
			if fc.c.Auth != was {
				prevAuth[fc.c.ID] = was
			}
			stats["op-reregister"]++
			stats["reregister-"+strings.SplitN(change, ":", 2)[0]]++
			emit(reregisterLine(prop, caseNo, fc, change))
		}
		// doExchange returns the refresh token delivered with a successful response (nil otherwise)
		doExchange := func(ic issuedCode, caller *flowClient, redirect, verifier, codeStr, codeLabel string, fault bool) *issuedRT {
			params := []wkv{{k: "grant_type", v: "authorization_code"}, {k: "code", v: codeStr, sym: codeLabel}, {k: "redirect_uri", v: redirect}}
			if verifier != "" {
				params = append(params, wkv{k: "code_verifier", v: verifier})
			}
			if len(rts) > 0 && r.Chance(8) { // a stray parameter of the OTHER grant
				params = append(params, wkv{k: "refresh_token", v: rts[r.Intn(len(rts))].token})
			}
			l := hx.NewLine(prop).I("case", int64(caseNo)).S("op", "exchange").S("code", codeLabel).S("redirect", redirect).S("verifier", verifier)
			if c7a != nil && ic.client != "" { // deep5-C07: the audience the storage grants to the code's client
				c7a.grantLine(l, ic.client)
			}
			authParams, basic := flowAuthWire(r, sy, l, caller, cls, staleAuth(caller))
			params = append(params, authParams...)
			// other values a request may carry next to the intended ones (never a second code that could still be redeemed:
			// an onlooker could not tell which of two redeemable codes a response consumed)
			alts := map[string][]wkv{
				"grant_type":    {{v: "refresh_token"}, {v: "bogus"}, {v: ""}},
				"code":          {{v: "garbage", sym: "garbage"}},
				"redirect_uri":  {{v: "https://other.example/cb"}, {v: "https://rp.example/cb2"}},
				"code_verifier": {{v: "wrong"}},
				"client_id":     {{v: cls[r.Intn(len(cls))].c.ID}},
				"client_secret": {{v: "wrong"}, {v: cls[0].c.Secret}},
			}
			for _, u := range codes {
				if u.used {
					alts["code"] = append(alts["code"], wkv{v: u.real, sym: u.label})
					break
				}
			}
			wr := placeWire(r, params, alts)
			wr.basic = basic
			wr.describe(l)
			before := bed.Store.RefreshTokens()
			if fault {
				// storage hiccup: consuming the code fails for this one request
				bed.Store.FailMethod("DeleteAuthRequest", errors.New("injected storage failure"))
				l.B("fault.delete", true)
			}
			waitClearOfSecondEdge()
			t0 := time.Now()
			resp := bed.Do(wr.request("/oauth/token"))
			t1 := time.Now()
			if fault {
				bed.Store.ClearFaults()
				stats["exchange-with-delete-fault"]++
			}
			l.I("now0", t0.UnixNano()).I("now1", t1.UnixNano())
			nrt := flowTokenObs(bed, l, resp, &rts)
			if nrt == nil && !resp.Panicked {
				// a refresh token the storage created although the request ended in an error: never delivered,
				// but it exists (the observer learns it from the storage, as it learns the journal)
				for _, tok := range bed.Store.RefreshTokens() {
					if !containsStr(before, tok) {
						if rec := bed.Store.Refresh(tok); rec != nil {
							l.S("o.minted", tok).L("o.rtscopes", rec.Scopes).S("o.rtclient", rec.ClientID).S("o.rtsub", rec.Subject).
								I("o.rtauthtime", rec.AuthTime.Unix()).L("o.rtaud", rec.Audience)
							rts = append(rts, &issuedRT{token: tok, client: rec.ClientID, scopes: rec.Scopes, orphan: true})
							stats["exchange-left-orphan-refresh-token"]++
						}
						break
					}
				}
			}
			if resp.Status == 200 && !resp.Panicked {
				for ci := range codes {
					if bed.Store.GetAuthRequest(codes[ci].id) == nil {
						codes[ci].used = true
					}
				}
			}
			stats["op-exchange"]++
			stats["wire-"+shapeClass(wr.shape)]++
			stats["exchange-wire-"+shapeBase(wr.shape)+"-"+obsClass(resp)]++
			stats["exchange-"+obsClass(resp)]++
			stats["exchange-by-"+regName(caller.c)+"-"+obsClass(resp)]++
			emit(l)
			return nrt
		}
		// doRefresh presents token string tok (rt = the record it stands for, nil for garbage) as caller
		doRefresh := func(rt *issuedRT, tok string, caller *flowClient, scopes []string) *issuedRT {
			params := []wkv{{k: "grant_type", v: "refresh_token"}, {k: "refresh_token", v: tok}}
			if len(scopes) > 0 {
				params = append(params, wkv{k: "scope", v: strings.Join(scopes, " ")})
			}
			strayClient := ""
			if len(codes) > 0 && r.Chance(8) { // stray parameters of the OTHER grant
				oc := codes[r.Intn(len(codes))]
				strayClient = oc.client
				params = append(params, wkv{k: "code", v: oc.real, sym: oc.label}, wkv{k: "redirect_uri", v: oc.redirect})
				if oc.verifier != "" {
					params = append(params, wkv{k: "code_verifier", v: oc.verifier})
				}
			}
			// shape of the request (for the distribution only)
			shape := "unknown-token"
			if rt != nil && tok == rt.token {
				switch {
				case rt.dead:
					shape = "replay"
				case caller.c.ID != rt.client:
					shape = "foreign"
				case rt.orphan:
					shape = "orphan"
				case len(scopes) == 0:
					shape = "empty"
				case !subsetStr(scopes, rt.scopes) && subsetStr(rt.scopes, scopes):
					shape = "widen"
				case !subsetStr(scopes, rt.scopes):
					shape = "disjoint"
				case len(scopes) == len(rt.scopes):
					shape = "same"
				case containsStr(rt.scopes, "offline_access") && !containsStr(scopes, "offline_access"):
					shape = "narrow-drop-offline"
				default:
					shape = "narrow"
				}
			}
			l := hx.NewLine(prop).I("case", int64(caseNo)).S("op", "refresh").S("rt", tok).L("scopes", scopes).S("shape", shape)
			if c7a != nil && strayClient != "" { // deep5-C07: should the request be served as a code exchange: the audience granted to the code's client
				c7a.grantLine(l, strayClient)
			}
			authParams, basic := flowAuthWire(r, sy, l, caller, cls, staleAuth(caller))
			params = append(params, authParams...)
			alts := map[string][]wkv{
				"grant_type":    {{v: "authorization_code"}, {v: "bogus"}, {v: ""}},
				"refresh_token": {{v: "garbage"}},
				"client_id":     {{v: cls[r.Intn(len(cls))].c.ID}},
				"client_secret": {{v: "wrong"}, {v: cls[0].c.Secret}},
			}
			if len(rts) > 0 {
				alts["refresh_token"] = append(alts["refresh_token"], wkv{v: rts[r.Intn(len(rts))].token}, wkv{v: rts[r.Intn(len(rts))].token})
			}
			if len(scopes) > 0 {
				alts["scope"] = []wkv{{v: strings.Join(append(append([]string{}, scopes...), "admin"), " ")}, {v: scopes[0]}, {v: "admin"}}
			}
			wr := placeWire(r, params, alts)
			wr.basic = basic
			wr.describe(l)
			granted := byID[caller.c.ID] != nil && containsStr(grantStrings(caller.c.Grants), "refresh_token")
			if c7 != nil { // deep4-C07
				c7.arm(bed, r, wr.shape, len(scopes) == 0 || (rt != nil && tok == rt.token && len(scopes) == len(rt.scopes) && subsetStr(scopes, rt.scopes)))
			}
			waitClearOfSecondEdge()
			t0 := time.Now()
			resp := bed.Do(wr.request("/oauth/token"))
			t1 := time.Now()
			l.I("now0", t0.UnixNano()).I("now1", t1.UnixNano())
			nrt := flowTokenObs(bed, l, resp, &rts)
			if c7 != nil { // deep4-C07: where the fault hit, what the body carried, what the storage did
				c7.observe(bed, l, resp, &rts, func(id string) bool { return byID[id] != nil && byID[id].c.TokenType == op.AccessTokenTypeJWT })
			}
			if c7a != nil { // deep5-C07: the audiences of the new tokens
				c7a.observe(l, resp)
			}
			for _, x := range rts { // whatever token the request ended up rotating is gone now
				if !x.dead && bed.Store.Refresh(x.token) == nil {
					x.dead = true
				}
			}
			if !granted {
				stats["refresh-by-client-without-refresh-grant"]++
				stats["refresh-by-client-without-refresh-grant-"+shapeBase(wr.shape)+"-"+obsClass(resp)]++
				if nrt != nil {
					stats["refresh-by-client-without-refresh-grant-GOT-TOKENS"]++
				}
			}
			stats["wire-"+shapeClass(wr.shape)]++
			stats["refresh-wire-"+shapeBase(wr.shape)+"-"+obsClass(resp)]++
			stats["op-refresh"]++
			stats["refresh-"+obsClass(resp)]++
			stats["refresh-"+shape+"-"+obsClass(resp)]++
			emit(l)
			return nrt
		}
		// a chain of refreshes on the newest token of one grant: narrowing step by step (offline_access dropped
		// first / last / never), with replays of rotated tokens, foreign callers, widening and re-widening in between
		refreshChain := func(cur *issuedRT) {
			owner := byID[cur.client]
			if owner == nil {
				return
			}
			steps := 2 + r.Intn(maxChain)
			plan := r.Intn(3)
			var rotated []*issuedRT
			dropped := []string{}
			stats["refresh-chains"]++
			for i := 0; i < steps && cur != nil; i++ {
				stats["refresh-chain-steps"]++
				switch k := r.Intn(14); {
				case k == 4: // the owner's registration changes in the middle of the chain
					doReregister(owner, hx.Pick(r, "drop-refresh", "drop-refresh", "auth", "auth", "restore", "drop-code"))
				case k == 5 && !containsStr(grantStrings(owner.c.Grants), "refresh_token"): // ... and is repaired
					doReregister(owner, "restore")
				case k == 0 && len(rotated) > 0: // replay of a token that was rotated away
					old := rotated[r.Intn(len(rotated))]
					doRefresh(old, old.token, owner, nil)
				case k == 1: // another client presents the token
					doRefresh(cur, cur.token, cls[r.Intn(len(cls))], nil)
				case k == 2: // widening: a scope that was never granted, or one that was dropped earlier in the chain
					extra := "admin"
					if len(dropped) > 0 && r.Bool() {
						extra = dropped[r.Intn(len(dropped))]
					}
					doRefresh(cur, cur.token, owner, append(append([]string{}, cur.scopes...), extra))
				case k == 3: // no scope parameter: the grant as it is
					if nrt := doRefresh(cur, cur.token, owner, nil); nrt != nil {
						rotated = append(rotated, cur)
						cur = nrt
					}
				default: // one narrowing step according to the plan
					next := append([]string{}, cur.scopes...)
					hasOff := containsStr(next, "offline_access")
					others := without(without(next, "offline_access"), "openid")
					switch {
					case plan == 0 && hasOff:
						next = without(next, "offline_access")
						dropped = append(dropped, "offline_access")
					case len(others) > 0:
						d := others[r.Intn(len(others))]
						next = without(next, d)
						dropped = append(dropped, d)
					case plan == 1 && hasOff:
						next = without(next, "offline_access")
						dropped = append(dropped, "offline_access")
					}
					if nrt := doRefresh(cur, cur.token, owner, next); nrt != nil {
						rotated = append(rotated, cur)
						cur = nrt
					} else if rec := bed.Store.Refresh(cur.token); rec == nil {
						cur = nil // the token is gone although no new one was delivered
					}
				}
			}
		}
		pChain, pScript := 30, 12
		if prop == "C07" {
			pChain, pScript = 85, 55
		}
		// a scripted happy path first (authorize with offline_access, login, callback, correct exchange), so that refresh
		// chains are a substantial part of the stream
		if r.Chance(pScript) {
			var elig []*flowClient
			for _, fc := range cls {
				if containsStr(grantStrings(fc.c.Grants), "refresh_token") && containsStr(grantStrings(fc.c.Grants), "authorization_code") {
					elig = append(elig, fc)
				}
			}
			fc := elig[r.Intn(len(elig))]
			scopes := hx.Pick(r, "openid offline_access", "openid email offline_access profile", "openid profile offline_access")
			if id := doAuthorize(fc, scopes, false, false, ""); id != "" {
				doLogin(id)
				if ic := doCallback(id, false); ic != nil {
					if nrt := doExchange(*ic, fc, ic.redirect, ic.verifier, ic.real, ic.label, false); nrt != nil {
						stats["scripted-grants"]++
						refreshChain(nrt)
					}
				}
			}
		}
		// a scripted registration change: a client obtains a refresh token, then its registration loses the refresh grant (or
		// gets another authentication method); it keeps refreshing - every request shaped differently; finally the grant
		// is given back
		if prop == "C07" && r.Chance(30) {
			var elig []*flowClient
			for _, fc := range cls {
				if containsStr(grantStrings(fc.c.Grants), "refresh_token") && containsStr(grantStrings(fc.c.Grants), "authorization_code") {
					elig = append(elig, fc)
				}
			}
			fc := elig[r.Intn(len(elig))]
			if id := doAuthorize(fc, hx.Pick(r, "openid offline_access", "openid email offline_access"), false, false, ""); id != "" {
				doLogin(id)
				if ic := doCallback(id, false); ic != nil {
					if cur := doExchange(*ic, fc, ic.redirect, ic.verifier, ic.real, ic.label, false); cur != nil {
						stats["scripted-registration-change"]++
						doReregister(fc, hx.Pick(r, "drop-refresh", "drop-refresh", "drop-refresh", "auth"))
						for i := 0; i < 3 && cur != nil; i++ {
							var sc []string
							if r.Chance(40) {
								sc = cur.scopes
							}
							if nrt := doRefresh(cur, cur.token, fc, sc); nrt != nil {
								cur = nrt
							}
						}
						doReregister(fc, "restore")
						doRefresh(cur, cur.token, fc, nil)
					}
				}
			}
		}
		// a scripted storage hiccup: the owner's correct exchange meets a failing DeleteAuthRequest, then the client retries
		// with the same code (twice): tokens must be handed out exactly once
		if r.Chance(10) {
			var elig []*flowClient
			for _, fc := range cls {
				if containsStr(grantStrings(fc.c.Grants), "authorization_code") {
					elig = append(elig, fc)
				}
			}
			fc := elig[r.Intn(len(elig))]
			if id := doAuthorize(fc, hx.Pick(r, "openid", "openid offline_access", "openid email offline_access"), false, false, ""); id != "" {
				doLogin(id)
				if ic := doCallback(id, false); ic != nil {
					stats["scripted-delete-fault-and-retry"]++
					doExchange(*ic, fc, ic.redirect, ic.verifier, ic.real, ic.label, true)
					doExchange(*ic, fc, ic.redirect, ic.verifier, ic.real, ic.label, false)
					doExchange(*ic, fc, ic.redirect, ic.verifier, ic.real, ic.label, false)
				}
			}
		}
		// a scripted cross-client redemption: a code of one client is presented, with everything else right, by other clients
		// that authenticate correctly as themselves (twice by the private_key_jwt client: half of its assertions are
		// deliberately broken), and finally by its owner
		if prop == "C04" && r.Chance(15) {
			owner := byID[hx.Pick(r, "web", "web2", "post")]
			if id := doAuthorize(owner, hx.Pick(r, "openid", "openid offline_access"), false, false, ""); id != "" {
				doLogin(id)
				if ic := doCallback(id, false); ic != nil {
					stats["scripted-cross-client"]++
					for _, other := range []string{"pk", "pk", hx.Pick(r, "web", "web2", "pub", "post")} {
						if other != owner.c.ID {
							doExchange(*ic, byID[other], ic.redirect, ic.verifier, ic.real, ic.label, false)
						}
					}
					doExchange(*ic, owner, ic.redirect, ic.verifier, ic.real, ic.label, false)
				}
			}
		}
		// a scripted hinted request: /authorize with the id_token_hint of some user (valid / expired / somebody else's), NO login,
		// the callback is fetched directly (must be refused: interaction_required), then the login happens after all and
		// the flow completes - or the client tries the exchange with whatever the callback gave
		if prop == "C04" && r.Chance(18) {
			var elig []*flowClient
			for _, fc := range cls {
				if containsStr(grantStrings(fc.c.Grants), "authorization_code") {
					elig = append(elig, fc)
				}
			}
			fc := elig[r.Intn(len(elig))]
			if id := doAuthorize(fc, hx.Pick(r, "openid", "openid offline_access"), false, false, hx.Pick(r, "valid", "expired", "other-user", "other-client")); id != "" {
				stats["scripted-hint-callback-without-login"]++
				ic := doCallback(id, true)
				if ic == nil && r.Chance(50) {
					doLogin(id)
					ic = doCallback(id, false)
				}
				if ic != nil {
					doExchange(*ic, fc, ic.redirect, ic.verifier, ic.real, ic.label, false)
				}
			}
		}
		// a scripted public client without PKCE: a client with auth method none - of ANY application type - makes a request
		// without code_challenge and redeems the code with nothing but its client_id (must be refused on both routers)
		if prop == "C04" && r.Chance(15) {
			var elig []*flowClient
			for _, fc := range cls {
				if fc.c.Auth == oidc.AuthMethodNone {
					elig = append(elig, fc)
				}
			}
			fc := elig[r.Intn(len(elig))]
			if id := doAuthorize(fc, hx.Pick(r, "openid", "openid offline_access"), true, false, ""); id != "" {
				doLogin(id)
				if ic := doCallback(id, false); ic != nil {
					stats["scripted-public-client-without-pkce"]++
					doExchange(*ic, fc, ic.redirect, "", ic.real, ic.label, false)
				}
			}
		}
		// a scripted PKCE near-miss: a client that authenticates (secret / assertion) redeems a code whose request carried
		// a challenge with a wrong or without a code_verifier (everything else correct)
		if prop == "C04" && r.Chance(25) {
			var elig []*flowClient
			for _, fc := range cls {
				if fc.c.Auth != oidc.AuthMethodNone && containsStr(grantStrings(fc.c.Grants), "authorization_code") {
					elig = append(elig, fc)
				}
			}
			fc := elig[r.Intn(len(elig))]
			if id := doAuthorize(fc, hx.Pick(r, "openid", "openid offline_access"), false, true, ""); id != "" {
				doLogin(id)
				if ic := doCallback(id, false); ic != nil {
					stats["scripted-pkce-near-miss"]++
					doExchange(*ic, fc, ic.redirect, hx.Pick(r, "", "wrong", "verifier-CCCCCCCCCCCCCCCCCCCCCCCCCCCCCCCCCCCCCCCCCCC"), ic.real, ic.label, false)
					if r.Chance(50) {
						doExchange(*ic, fc, ic.redirect, ic.verifier, ic.real, ic.label, false)
					}
				}
			}
		}
		if prop == "C04" { // deep3-C04: scripted openings of c04x.go (faults at the k-th storage call, races, redirect_uri / PKCE near-misses)
			xc := &c04xCtx{prop: prop, tier: tier, r: r, bed: bed, sy: sy, cls: cls, byID: byID, stats: stats, gate: gate,
				emit: emit, caseNo: &caseNo, doLogin: doLogin, doCallback: doCallback}
			c04xScenarios(xc)
			c04scScenarios(xc, sc)              // round 4b: assertions of one private_key_jwt client for another's code under a custom subject check
			c04roScenarios(xc, ro, doAuthorize) // round 4c: PKCE parameters split between the query and a signed request object
		}
		if prop == "C07" { // deep4-C07: scripted openings of c07fault.go (fault sweep over every storage call of a refresh, concurrent refreshes)
			x7 := &c07fCtx{prop: prop, tier: tier, r: r, bed: bed, sy: sy, cls: cls, byID: byID, stats: stats, f: c7, gate: gate7,
				emit: emit, caseNo: &caseNo, rts: &rts, doRefresh: doRefresh,
				grant: func(scopes string) (*flowClient, *issuedRT) {
					var elig []*flowClient
					for _, fc := range cls {
						if containsStr(grantStrings(fc.c.Grants), "refresh_token") && containsStr(grantStrings(fc.c.Grants), "authorization_code") {
							elig = append(elig, fc)
						}
					}
					fc := elig[r.Intn(len(elig))]
					if id := doAuthorize(fc, scopes, false, false, ""); id != "" {
						doLogin(id)
						if ic := doCallback(id, false); ic != nil {
							return fc, doExchange(*ic, fc, ic.redirect, ic.verifier, ic.real, ic.label, false)
						}
					}
					return fc, nil
				}}
			c07fScenarios(x7)
			c07aScenarios(x7, c7a) // deep5-C07: a chain of at least three plain refreshes on one grant (c07aud.go)
		}
		nops := 4 + r.Intn(maxOps)
		for o := 0; o < nops; o++ {
			// weighted choice among the operations that are possible now
			var cand []int
			add := func(k, wgt int) {
				for i := 0; i < wgt; i++ {
					cand = append(cand, k)
				}
			}
			add(0, 2)
			if len(pending) > 0 {
				add(3, 3)
				add(4, 3)
			}
			if len(codes) > 0 {
				add(6, 6)
			}
			if len(rts) > 0 {
				if prop == "C07" {
					add(9, 10)
				} else {
					add(9, 2)
				}
			}
			if prop == "C07" {
				add(10, 2)
			} else {
				add(10, 1)
			}
			kind := cand[r.Intn(len(cand))]
			switch {
			case kind == 10: // a registration changes
				fc := cls[r.Intn(len(cls))]
				if len(rts) > 0 && r.Chance(70) {
					if o := byID[rts[r.Intn(len(rts))].client]; o != nil {
						fc = o
					}
				}
				doReregister(fc, hx.Pick(r, "drop-refresh", "drop-refresh", "drop-code", "restore", "auth", "auth"))
			case kind <= 2: // authorize
				fc := cls[r.Intn(len(cls))]
				scopes := hx.Pick(r, "openid", "openid profile", "openid offline_access", "openid email offline_access profile")
				hk := ""
				if r.Chance(22) {
					hk = hx.Pick(r, "valid", "valid", "expired", "other-user", "other-client", "foreign-issuer", "wrong-key", "garbage")
				}
				doAuthorize(fc, scopes, r.Chance(15), false, hk)
			case kind == 3 && len(pending) > 0: // login
				id := pending[r.Intn(len(pending))]
				hasCode := false
				for _, ic := range codes {
					if ic.id == id {
						hasCode = true
					}
				}
				if hasCode {
					// the user rarely logs in again (possibly as somebody else) on a request that was already called back:
					// the tokens then carry the later subject
					if !r.Chance(30) {
						continue
					}
					stats["login-after-callback"]++
				}
				doLogin(id)
			case kind <= 5 && len(pending) > 0: // callback
				doCallback(pending[r.Intn(len(pending))], !r.Chance(85))
			case kind <= 8 && len(codes) > 0: // exchange
				ic := codes[r.Intn(len(codes))]
				owner := byID[ic.client]
				caller := owner
				if caller == nil || r.Chance(25) {
					caller = cls[r.Intn(len(cls))]
				}
				redirect := ic.redirect
				if r.Chance(15) {
					redirect = hx.Pick(r, "https://rp.example/cb2", "https://other.example/cb", "", "https://rp.example/cb")
				}
				verifier := ic.verifier
				if r.Chance(25) {
					verifier = hx.Pick(r, "", "verifier-BBBBBBBBBBBBBBBBBBBBBBBBBBBBBBBBBBBBBBBBBBB", "verifier-AAAAAAAAAAAAAAAAAAAAAAAAAAAAAAAAAAAAAAAAAAA", "wrong")
				}
				codeStr, codeLabel := ic.real, ic.label
				if r.Chance(8) {
					codeStr, codeLabel = hx.Pick(r, "garbage", ic.real+"x", ""), "garbage"
					if codeStr == "" {
						codeLabel = ""
					}
				}
				if nrt := doExchange(ic, caller, redirect, verifier, codeStr, codeLabel, r.Chance(6)); nrt != nil && r.Chance(pChain) {
					refreshChain(nrt)
				}
			default: // refresh
				if len(rts) == 0 {
					continue
				}
				rt := rts[r.Intn(len(rts))]
				owner := byID[rt.client]
				caller := owner
				if caller == nil || r.Chance(25) {
					caller = cls[r.Intn(len(cls))]
				}
				tok := rt.token
				if r.Chance(8) {
					tok = hx.Pick(r, "rt999", "garbage", "")
				}
				var scopes []string
				switch r.Intn(6) {
				case 0:
					scopes = rt.scopes
				case 1:
					if len(rt.scopes) > 1 {
						scopes = rt.scopes[:len(rt.scopes)-1]
					}
				case 2:
					scopes = append(append([]string{}, rt.scopes...), "admin")
				case 3:
					scopes = []string{"admin"}
				}
				doRefresh(rt, tok, caller, scopes)
			}
		}
	}
	return stats
}

func obsClass(resp *opbed.Resp) string {
	if resp.Panicked {
		return "panic"
	}
	if resp.Status == 200 {
		return "ok"
	}
	return resp.OAuthError()
}

// flowAuth picks how the caller presents itself and describes it on the line
func flowAuth(r *hx.Rand, sy *symbols, l *hx.Line, caller *flowClient, cls []*flowClient) opbed.Auth {
	c := caller.c
	l.S("caller", c.ID)
	switch c.Auth {
	case oidc.AuthMethodNone:
		l.S("auth", "id-only").S("cid", c.ID)
		return opbed.Auth{Kind: "id-only", ID: c.ID}
	case oidc.AuthMethodPrivateKeyJWT:
		now := time.Now().Unix()
		key, kid, iss := caller.key, caller.kid, c.ID
		aud := []string{opbed.Issuer}
		iat, exp := now-5, now+300
		switch r.Intn(8) {
		case 0:
			key = hx.Keys()[3] // not the registered key
		case 1:
			aud = []string{"https://other.example"}
		case 2:
			exp = now - 10
		case 3:
			iss = "web" // claims to be another client
		}
		tok := assertion(sy, l, key, kid, iss, iss, aud, iat, exp)
		l.S("auth", "assertion")
		return opbed.Auth{Kind: "assertion", Assertion: tok}
	default:
		secret := c.Secret
		if r.Chance(15) {
			secret = hx.Pick(r, "wrong", "", cls[0].c.Secret)
		}
		kind := "basic"
		if c.Auth == oidc.AuthMethodPost || r.Chance(15) {
			kind = "post"
		}
		l.S("auth", kind).S("cid", c.ID).S("secret", secret)
		return opbed.Auth{Kind: kind, ID: c.ID, Secret: secret}
	}
}

// flowTokenObs writes what the token endpoint answered; on success the issued tokens are read back
func flowTokenObs(bed *opbed.Bed, l *hx.Line, resp *opbed.Resp, rts *[]*issuedRT) *issuedRT {
	var out *issuedRT
	switch {
	case resp.Panicked:
		l.S("obs", "panic")
	case resp.Status == 200 && resp.Str("access_token") != "":
		l.S("obs", "ok")
		// the access token record created by this request is the newest one in the reference storage
		ids := bed.Store.TokenIDs()
		if len(ids) > 0 {
			at := bed.Store.Token(ids[len(ids)-1])
			if at != nil {
				l.S("o.sub", at.Subject).S("o.client", at.ClientID).L("o.scopes", at.Scopes).L("o.aud", at.Audience)
			}
		}
		if idt := resp.Str("id_token"); idt != "" {
			if m, ok := opbed.DecodeJWT(idt); ok {
				if s, _ := m["nonce"].(string); s != "" {
					l.S("o.nonce", s)
				}
				if s, _ := m["sub"].(string); s != "" {
					l.S("o.idsub", s)
				}
				if s, _ := m["azp"].(string); s != "" {
					l.S("o.azp", s)
				}
				if f, ok := m["auth_time"].(float64); ok {
					l.I("o.authtime", int64(f))
				}
			}
		}
		if rt := resp.Str("refresh_token"); rt != "" {
			l.S("o.rt", rt)
			if rec := bed.Store.Refresh(rt); rec != nil {
				out = &issuedRT{token: rt, client: rec.ClientID, scopes: rec.Scopes}
				*rts = append(*rts, out)
				l.L("o.rtscopes", rec.Scopes).S("o.rtclient", rec.ClientID).S("o.rtsub", rec.Subject).I("o.rtauthtime", rec.AuthTime.Unix()).L("o.rtaud", rec.Audience)
			}
		}
		if sc, ok := resp.JSON["scope"].(string); ok {
			l.L("o.respscope", strings.Split(sc, " "))
		}
		c04xTokenObs(bed, l, resp) // deep3-C04: every single token of the response, decoded (c04x.go)
	default:
		l.S("obs", "err").S("o.err", resp.OAuthError()).I("o.status", int64(resp.Status))
	}
	l.L("journal", resp.Journal)
	if h, ok := handedToStorage(resp.Journal); ok {
		l.S("o.handed", h) // the refresh token the storage was handed for rotation
	}
	return out
}
