package main

import (
	"bufio"
	"encoding/json"
	"errors"
	"fmt"
	"net/url"
	"strings"
	"time"

	"github.com/zitadel/oidc/v3/pkg/oidc"
	"github.com/zitadel/oidc/v3/pkg/op"

	"verifharness/internal/hx"
	"verifharness/internal/opbed"
	"verifharness/internal/refstore"
)

func init() {
	streams["C04"] = func(r *hx.Rand, tier string, n int, w *bufio.Writer) map[string]int {
		return flowStream("C04", r, tier, n, w)
	}
	streams["C07"] = func(r *hx.Rand, tier string, n int, w *bufio.Writer) map[string]int {
		return flowStream("C07", r, tier, n, w)
	}
}

type flowClient struct {
	c   *refstore.Client
	key *hx.Key // private_key_jwt
	kid string
}

func appNo(a op.ApplicationType) int64 {
	switch a {
	case op.ApplicationTypeUserAgent:
		return 1
	case op.ApplicationTypeNative:
		return 2
	}
	return 0
}

func grantStrings(gs []oidc.GrantType) []string {
	out := make([]string, len(gs))
	for i, g := range gs {
		out[i] = string(g)
	}
	return out
}

func respTypeStrings(rs []oidc.ResponseType) []string {
	out := make([]string, len(rs))
	for i, g := range rs {
		out[i] = string(g)
	}
	return out
}

// clientsKV describes the registrations for the model (reset line)
func clientsKV(l *hx.Line, cs []*flowClient) {
	l.I("cl.n", int64(len(cs)))
	for i, fc := range cs {
		p := fmt.Sprintf("cl.%d.", i)
		c := fc.c
		l.S(p+"id", c.ID).S(p+"secret", c.Secret).I(p+"app", appNo(c.App)).S(p+"auth", string(c.Auth)).L(p+"grants", grantStrings(c.Grants))
		l.L(p+"redirects", c.Redirects).B(p+"dev", c.Dev).L(p+"resptypes", respTypeStrings(c.RespTypes))
		if c.UseGlobs {
			l.L(p+"globs", c.Globs)
		}
		l.L(p+"postlogout", c.PostLogout)
		if c.UseGlobs {
			l.L(p+"plglobs", c.PostLogoutGlobs)
		}
		if fc.key != nil {
			l.S(p+"k.kid", fc.kid).S(p+"k.kty", fc.key.Kty).I(p+"k.no", int64(fc.key.No))
		}
	}
}

func flowClients() []*flowClient {
	keys := hx.Keys()
	web := opbed.WebClient("web", "secret-web", "https://rp.example/cb", "https://rp.example/cb2")
	web2 := opbed.WebClient("web2", "secret-web2", "https://rp.example/cb", "https://other.example/cb")
	pub := opbed.NativeClient("pub", "https://rp.example/cb", "myapp://cb")
	post := opbed.WebClient("post", "secret-post", "https://rp.example/cb")
	post.Auth = oidc.AuthMethodPost
	pk := opbed.WebClient("pk", "", "https://rp.example/cb")
	pk.Auth = oidc.AuthMethodPrivateKeyJWT
	pk.Keys = []refstore.ClientKey{{Kid: "pk1", Pub: keys[1].Pub}}
	norefresh := opbed.WebClient("norefresh", "secret-nr", "https://rp.example/cb")
	norefresh.Grants = []oidc.GrantType{oidc.GrantTypeCode}
	nocode := opbed.WebClient("nocode", "secret-nc", "https://rp.example/cb")
	nocode.Grants = []oidc.GrantType{oidc.GrantTypeRefreshToken}
	return []*flowClient{{c: web}, {c: web2}, {c: pub}, {c: post}, {c: pk, key: keys[1], kid: "pk1"}, {c: norefresh}, {c: nocode}}
}

type issuedCode struct {
	label, real, id, client, redirect, verifier string
}

type issuedRT struct {
	token, client string
	scopes        []string
}

// assertion mints a private_key_jwt client assertion and describes it symbolically
func assertion(sy *symbols, l *hx.Line, key *hx.Key, kid, iss, sub string, aud []string, iat, exp int64) string {
	claims := map[string]any{"iss": iss, "sub": sub, "aud": aud, "iat": iat, "exp": exp}
	payload, _ := json.Marshal(claims)
	tok, err := sy.sign(key, key.Algs[0], kid, payload)
	if err != nil {
		return ""
	}
	sy.tokenKV(l, tok)
	return tok
}

func flowStream(prop string, r *hx.Rand, tier string, n int, w *bufio.Writer) map[string]int {
	if n == 0 {
		n = 400
		if tier == "thorough" {
			n = 6000
		}
	}
	stats := map[string]int{}
	sy := newSymbols()
	caseNo := 0
	emit := func(l *hx.Line) {
		fmt.Fprintln(w, l.String())
		caseNo++
	}
	maxOps := 14
	if tier == "thorough" {
		maxOps = 40
	}
	for h := 0; h < n; h++ {
		router := hx.Pick(r, "provider", "legacy")
		cfg := opbed.Config{Router: router, S256: true, Post: r.Chance(70), PrivateKeyJWT: r.Chance(80), Refresh: r.Chance(85),
			Caps: refstore.Caps{CC: true, TE: true, Device: true}}
		bed, err := opbed.New(cfg)
		if err != nil {
			panic(err)
		}
		cls := flowClients()
		for _, fc := range cls {
			bed.Store.AddClient(fc.c)
		}
		bed.Store.AddUser("user1", nil)
		bed.Store.AddUser("user2", nil)
		byID := map[string]*flowClient{}
		for _, fc := range cls {
			byID[fc.c.ID] = fc
		}
		l := hx.NewLine(prop).I("case", int64(caseNo)).S("op", "reset").S("router", router).B("post", cfg.Post).B("pkjwt", cfg.PrivateKeyJWT).
			B("refresh", cfg.Refresh).S("issuer", opbed.Issuer)
		clientsKV(l, cls)
		emit(l)

		var pending []string // auth request ids not yet called back
		var codes []issuedCode
		var rts []issuedRT
		codeNo := 0
		verifiers := map[string]string{} // auth req id -> verifier
		nops := 4 + r.Intn(maxOps)
		for o := 0; o < nops; o++ {
			// weighted choice among the operations that are possible now
			var cand []int
			add := func(k, wgt int) {
				for i := 0; i < wgt; i++ {
					cand = append(cand, k)
				}
			}
			add(0, 2)
			if len(pending) > 0 {
				add(3, 3)
				add(4, 3)
			}
			if len(codes) > 0 {
				add(6, 6)
			}
			if len(rts) > 0 {
				if prop == "C07" {
					add(9, 10)
				} else {
					add(9, 2)
				}
			}
			kind := cand[r.Intn(len(cand))]
			switch {
			case kind <= 2: // authorize
				fc := cls[r.Intn(len(cls))]
				redirect := fc.c.Redirects[r.Intn(len(fc.c.Redirects))]
				scopes := hx.Pick(r, "openid", "openid profile", "openid offline_access", "openid email offline_access profile")
				nonce := hx.Pick(r, "", "n-1", "n-2")
				q := url.Values{"client_id": {fc.c.ID}, "redirect_uri": {redirect}, "response_type": {"code"}, "scope": {scopes}, "state": {"st"}}
				if nonce != "" {
					q.Set("nonce", nonce)
				}
				verifier, method := "", ""
				if fc.c.Auth == oidc.AuthMethodNone || r.Chance(45) {
					verifier = hx.Pick(r, "verifier-AAAAAAAAAAAAAAAAAAAAAAAAAAAAAAAAAAAAAAAAAAA", "verifier-BBBBBBBBBBBBBBBBBBBBBBBBBBBBBBBBBBBBBBBBBBB")
					method = hx.Pick(r, "S256", "S256", "plain")
					ch := verifier
					if method == "S256" {
						ch = oidc.NewSHACodeChallenge(verifier)
					}
					q.Set("code_challenge", ch)
					q.Set("code_challenge_method", method)
				}
				if fc.c.Auth == oidc.AuthMethodNone && r.Chance(15) {
					q.Del("code_challenge")
					q.Del("code_challenge_method")
					verifier, method = "", ""
				}
				resp := bed.Do(bed.Get("/authorize", q, ""))
				l := hx.NewLine(prop).I("case", int64(caseNo)).S("op", "authorize").S("client", fc.c.ID).S("redirect", redirect).
					L("scopes", strings.Split(scopes, " ")).S("nonce", nonce).S("state", "st")
				if verifier != "" {
					sym := verifier
					if method == "S256" {
						sym = "S256(" + verifier + ")"
					}
					l.S("chal.m", method).S("chal.c", sym)
				}
				id := ""
				if resp.Loc != nil && strings.HasPrefix(resp.Loc.Path, "/login") {
					id = resp.Loc.Query().Get("authRequestID")
				}
				if id != "" {
					l.S("obs", "login").S("o.id", id)
					pending = append(pending, id)
					verifiers[id] = verifier
				} else {
					l.S("obs", "err").I("o.status", int64(resp.Status))
				}
				stats["op-authorize"]++
				emit(l)
			case kind == 3 && len(pending) > 0: // login
				id := pending[r.Intn(len(pending))]
				hasCode := false
				for _, ic := range codes {
					if ic.id == id {
						hasCode = true
					}
				}
				if hasCode {
					continue // the user does not log in again on a request that was already called back
				}
				sub := hx.Pick(r, "user1", "user2")
				bed.Store.CompleteAuthRequest(id, sub)
				ar := bed.Store.GetAuthRequest(id)
				l := hx.NewLine(prop).I("case", int64(caseNo)).S("op", "login").S("id", id).S("sub", sub)
				if ar != nil {
					l.I("authtime", ar.AuthTime.Unix())
				}
				stats["op-login"]++
				emit(l)
			case kind <= 5 && len(pending) > 0: // callback
				id := pending[r.Intn(len(pending))]
				resp := bed.Do(bed.Get("/authorize/callback", url.Values{"id": {id}}, ""))
				l := hx.NewLine(prop).I("case", int64(caseNo)).S("op", "callback").S("id", id)
				code := ""
				if resp.Loc != nil {
					code = resp.Loc.Query().Get("code")
				}
				if code != "" {
					codeNo++
					label := fmt.Sprintf("c%d", codeNo)
					ar := bed.Store.GetAuthRequest(id)
					ic := issuedCode{label: label, real: code, id: id, verifier: verifiers[id]}
					if ar != nil {
						ic.client, ic.redirect = ar.ClientID, ar.RedirectURI
					}
					codes = append(codes, ic)
					l.S("obs", "code").S("o.code", label)
					if r.Chance(85) { // usually a request is called back once
						for pi, pid := range pending {
							if pid == id {
								pending = append(pending[:pi], pending[pi+1:]...)
								break
							}
						}
					}
				} else {
					l.S("obs", "err").I("o.status", int64(resp.Status))
					if resp.Loc != nil {
						l.S("o.error", resp.Loc.Query().Get("error"))
					}
				}
				stats["op-callback"]++
				emit(l)
			case kind <= 8 && len(codes) > 0: // exchange
				ic := codes[r.Intn(len(codes))]
				owner := byID[ic.client]
				caller := owner
				if caller == nil || r.Chance(25) {
					caller = cls[r.Intn(len(cls))]
				}
				redirect := ic.redirect
				if r.Chance(15) {
					redirect = hx.Pick(r, "https://rp.example/cb2", "https://other.example/cb", "", "https://rp.example/cb")
				}
				verifier := ic.verifier
				if r.Chance(25) {
					verifier = hx.Pick(r, "", "verifier-BBBBBBBBBBBBBBBBBBBBBBBBBBBBBBBBBBBBBBBBBBB", "verifier-AAAAAAAAAAAAAAAAAAAAAAAAAAAAAAAAAAAAAAAAAAA", "wrong")
				}
				codeStr, codeLabel := ic.real, ic.label
				if r.Chance(8) {
					codeStr, codeLabel = hx.Pick(r, "garbage", ic.real+"x", ""), "garbage"
					if codeStr == "" {
						codeLabel = ""
					}
				}
				form := url.Values{"grant_type": {"authorization_code"}, "code": {codeStr}, "redirect_uri": {redirect}}
				if verifier != "" {
					form.Set("code_verifier", verifier)
				}
				l := hx.NewLine(prop).I("case", int64(caseNo)).S("op", "exchange").S("code", codeLabel).S("redirect", redirect).S("verifier", verifier)
				auth := flowAuth(r, sy, l, caller, cls)
				fault := r.Chance(6)
				if fault {
					// storage hiccup: consuming the code fails for this one request
					bed.Store.FailMethod("DeleteAuthRequest", errors.New("injected storage failure"))
					l.B("fault.delete", true)
				}
				waitClearOfSecondEdge()
				t0 := time.Now()
				resp := bed.Do(bed.Form("/oauth/token", form, auth))
				t1 := time.Now()
				if fault {
					bed.Store.ClearFaults()
					stats["exchange-with-delete-fault"]++
				}
				l.I("now0", t0.UnixNano()).I("now1", t1.UnixNano())
				flowTokenObs(bed, l, resp, &rts)
				stats["op-exchange"]++
				stats["exchange-"+obsClass(resp)]++
				emit(l)
			default: // refresh
				if len(rts) == 0 {
					continue
				}
				rt := rts[r.Intn(len(rts))]
				owner := byID[rt.client]
				caller := owner
				if caller == nil || r.Chance(25) {
					caller = cls[r.Intn(len(cls))]
				}
				tok := rt.token
				if r.Chance(8) {
					tok = hx.Pick(r, "rt999", "garbage", "")
				}
				var scopes []string
				switch r.Intn(6) {
				case 0:
					scopes = rt.scopes
				case 1:
					if len(rt.scopes) > 1 {
						scopes = rt.scopes[:len(rt.scopes)-1]
					}
				case 2:
					scopes = append(append([]string{}, rt.scopes...), "admin")
				case 3:
					scopes = []string{"admin"}
				}
				form := url.Values{"grant_type": {"refresh_token"}, "refresh_token": {tok}}
				if len(scopes) > 0 {
					form.Set("scope", strings.Join(scopes, " "))
				}
				l := hx.NewLine(prop).I("case", int64(caseNo)).S("op", "refresh").S("rt", tok).L("scopes", scopes)
				auth := flowAuth(r, sy, l, caller, cls)
				waitClearOfSecondEdge()
				t0 := time.Now()
				resp := bed.Do(bed.Form("/oauth/token", form, auth))
				t1 := time.Now()
				l.I("now0", t0.UnixNano()).I("now1", t1.UnixNano())
				flowTokenObs(bed, l, resp, &rts)
				stats["op-refresh"]++
				stats["refresh-"+obsClass(resp)]++
				emit(l)
			}
		}
	}
	return stats
}

func obsClass(resp *opbed.Resp) string {
	if resp.Panicked {
		return "panic"
	}
	if resp.Status == 200 {
		return "ok"
	}
	return resp.OAuthError()
}

// flowAuth picks how the caller presents itself and describes it on the line
func flowAuth(r *hx.Rand, sy *symbols, l *hx.Line, caller *flowClient, cls []*flowClient) opbed.Auth {
	c := caller.c
	l.S("caller", c.ID)
	switch c.Auth {
	case oidc.AuthMethodNone:
		l.S("auth", "id-only").S("cid", c.ID)
		return opbed.Auth{Kind: "id-only", ID: c.ID}
	case oidc.AuthMethodPrivateKeyJWT:
		now := time.Now().Unix()
		key, kid, iss := caller.key, caller.kid, c.ID
		aud := []string{opbed.Issuer}
		iat, exp := now-5, now+300
		switch r.Intn(8) {
		case 0:
			key = hx.Keys()[3] // not the registered key
		case 1:
			aud = []string{"https://other.example"}
		case 2:
			exp = now - 10
		case 3:
			iss = "web" // claims to be another client
		}
		tok := assertion(sy, l, key, kid, iss, iss, aud, iat, exp)
		l.S("auth", "assertion")
		return opbed.Auth{Kind: "assertion", Assertion: tok}
	default:
		secret := c.Secret
		if r.Chance(15) {
			secret = hx.Pick(r, "wrong", "", cls[0].c.Secret)
		}
		kind := "basic"
		if c.Auth == oidc.AuthMethodPost || r.Chance(15) {
			kind = "post"
		}
		l.S("auth", kind).S("cid", c.ID).S("secret", secret)
		return opbed.Auth{Kind: kind, ID: c.ID, Secret: secret}
	}
}

// flowTokenObs writes what the token endpoint answered; on success the issued tokens are read back
func flowTokenObs(bed *opbed.Bed, l *hx.Line, resp *opbed.Resp, rts *[]issuedRT) {
	switch {
	case resp.Panicked:
		l.S("obs", "panic")
	case resp.Status == 200 && resp.Str("access_token") != "":
		l.S("obs", "ok")
		// the access token record created by this request is the newest one in the reference storage
		ids := bed.Store.TokenIDs()
		if len(ids) > 0 {
			at := bed.Store.Token(ids[len(ids)-1])
			if at != nil {
				l.S("o.sub", at.Subject).S("o.client", at.ClientID).L("o.scopes", at.Scopes).L("o.aud", at.Audience)
			}
		}
		if idt := resp.Str("id_token"); idt != "" {
			if m, ok := opbed.DecodeJWT(idt); ok {
				if s, _ := m["nonce"].(string); s != "" {
					l.S("o.nonce", s)
				}
				if s, _ := m["sub"].(string); s != "" {
					l.S("o.idsub", s)
				}
				if s, _ := m["azp"].(string); s != "" {
					l.S("o.azp", s)
				}
				if f, ok := m["auth_time"].(float64); ok {
					l.I("o.authtime", int64(f))
				}
			}
		}
		if rt := resp.Str("refresh_token"); rt != "" {
			l.S("o.rt", rt)
			if rec := bed.Store.Refresh(rt); rec != nil {
				*rts = append(*rts, issuedRT{token: rt, client: rec.ClientID, scopes: rec.Scopes})
				l.L("o.rtscopes", rec.Scopes).S("o.rtclient", rec.ClientID).S("o.rtsub", rec.Subject).I("o.rtauthtime", rec.AuthTime.Unix()).L("o.rtaud", rec.Audience)
			}
		}
		if sc, ok := resp.JSON["scope"].(string); ok {
			l.L("o.respscope", strings.Split(sc, " "))
		}
	default:
		l.S("obs", "err").S("o.err", resp.OAuthError()).I("o.status", int64(resp.Status))
	}
	l.L("journal", resp.Journal)
}
