package main

// C02, second half of the stream: the three JWS serialisations with the key id / algorithm placed in the
// protected header, the unprotected header, both (equal / different), through every verifier that selects its
// key by oidc.GetKeyIDAndAlg; and histories on ONE long-lived remote key set whose endpoint rotates its keys.
//
// go-jose's signer always writes `alg` (and `kid`) into the protected header, so these tokens are assembled by
// hand: signing input = base64url(protected) "." base64url(payload) (RFC 7515 §5.1), signed with the primitive
// go-jose itself would use for the algorithm.  A JSON serialisation has no dots; to get past oidc.ParseToken
// (exactly three dot-separated parts, the middle one the payload) it carries `a.<payload>.b` inside an extra
// member of the unprotected header (or of the top-level object): the genuine payload (such a token is a
// perfectly valid JWS and must be judged on its signature) or another one (must be rejected).

import (
	"crypto"
	"crypto/ecdsa"
	"crypto/ed25519"
	"crypto/hmac"
	"crypto/rand"
	"crypto/rsa"
	"crypto/sha256"
	"crypto/sha512"
	"encoding/json"
	"errors"
	"fmt"
	"hash"
	"net/http"
	"strings"
	"time"

	jose "github.com/go-jose/go-jose/v4"
	"github.com/zitadel/oidc/v3/pkg/client/rp"

	"verifharness/internal/hx"
)

// c02RawSign: the signature primitive of `alg` over `input` with k's private key
func c02RawSign(k *hx.Key, alg string, input []byte) ([]byte, error) {
	var h crypto.Hash
	var nh func() hash.Hash
	switch {
	case strings.HasSuffix(alg, "256"):
		h, nh = crypto.SHA256, sha256.New
	case strings.HasSuffix(alg, "384"):
		h, nh = crypto.SHA384, sha512.New384
	case strings.HasSuffix(alg, "512"):
		h, nh = crypto.SHA512, sha512.New
	}
	digest := func() []byte {
		d := nh()
		d.Write(input)
		return d.Sum(nil)
	}
	switch {
	case strings.HasPrefix(alg, "RS") && nh != nil:
		priv, ok := k.Priv.(*rsa.PrivateKey)
		if !ok {
			return nil, errors.New("key type")
		}
		return rsa.SignPKCS1v15(rand.Reader, priv, h, digest())
	case strings.HasPrefix(alg, "PS") && nh != nil:
		priv, ok := k.Priv.(*rsa.PrivateKey)
		if !ok {
			return nil, errors.New("key type")
		}
		return rsa.SignPSS(rand.Reader, priv, h, digest(), &rsa.PSSOptions{SaltLength: rsa.PSSSaltLengthEqualsHash})
	case strings.HasPrefix(alg, "ES") && nh != nil:
		priv, ok := k.Priv.(*ecdsa.PrivateKey)
		if !ok {
			return nil, errors.New("key type")
		}
		r, s, err := ecdsa.Sign(rand.Reader, priv, digest())
		if err != nil {
			return nil, err
		}
		size := (priv.Curve.Params().BitSize + 7) / 8
		out := make([]byte, 2*size)
		r.FillBytes(out[:size])
		s.FillBytes(out[size:])
		return out, nil
	case alg == "EdDSA":
		priv, ok := k.Priv.(ed25519.PrivateKey)
		if !ok {
			return nil, errors.New("key type")
		}
		return ed25519.Sign(priv, input), nil
	case strings.HasPrefix(alg, "HS") && nh != nil:
		secret, ok := k.Priv.([]byte)
		if !ok {
			return nil, errors.New("key type")
		}
		m := hmac.New(nh, secret)
		m.Write(input)
		return m.Sum(nil), nil
	}
	return nil, errors.New("unknown algorithm " + alg)
}

// c02Hdr: the alg / kid members of one header ("" = member absent)
type c02Hdr struct{ alg, kid string }

func (h c02Hdr) members() []string {
	var m []string
	if h.alg != "" {
		a, _ := json.Marshal(h.alg)
		m = append(m, `"alg":`+string(a))
	}
	if h.kid != "" {
		k, _ := json.Marshal(h.kid)
		m = append(m, `"kid":`+string(k))
	}
	return m
}

type c02Sig struct {
	prot, unprot c02Hdr
	noProt       bool // no protected header at all when `prot` is empty (otherwise {"typ":"JWT"})
	signer       *hx.Key
	signAlg      string // the primitive really used
}

type c02Spec struct {
	ser     string // compact | flat | general
	sigs    []c02Sig
	smuggle string // "" (none) | hdr-genuine | hdr-evil | top-genuine  : where `a.<payload>.b` is put and which payload
}

// build assembles and signs the token; every signature's provenance is recorded
func (sy *symbols) build(sp c02Spec, payload, evil []byte) (string, error) {
	p64 := b64(payload)
	type piece struct{ prot, hdr, sig string }
	var ps []piece
	for i, sg := range sp.sigs {
		raw := ""
		if m := sg.prot.members(); len(m) > 0 {
			raw = b64([]byte("{" + strings.Join(m, ",") + "}"))
		} else if !sg.noProt {
			raw = b64([]byte(`{"typ":"JWT"}`))
		}
		sig, err := c02RawSign(sg.signer, sg.signAlg, []byte(raw+"."+p64))
		if err != nil {
			return "", err
		}
		sy.sigs[string(sig)] = sigRecord{signer: sg.signer.No, alg: sg.signAlg, kid: sg.prot.kid, payload: sy.pid(payload), hdrSet: true, halg: sg.prot.alg, hasRaw: true, rawProt: raw}
		hm := sg.unprot.members()
		if i == 0 {
			switch sp.smuggle {
			case "hdr-genuine":
				hm = append(hm, `"x":"a.`+p64+`.b"`)
			case "hdr-evil":
				hm = append(hm, `"x":"a.`+b64(evil)+`.b"`)
			}
		}
		hdr := ""
		if len(hm) > 0 {
			hdr = "{" + strings.Join(hm, ",") + "}"
		}
		ps = append(ps, piece{raw, hdr, b64(sig)})
	}
	obj := func(p piece) string {
		var m []string
		if p.prot != "" {
			m = append(m, `"protected":"`+p.prot+`"`)
		}
		if p.hdr != "" {
			m = append(m, `"header":`+p.hdr)
		}
		m = append(m, `"signature":"`+p.sig+`"`)
		return strings.Join(m, ",")
	}
	top := ""
	if sp.smuggle == "top-genuine" {
		top = `,"x":"a.` + p64 + `.b"`
	}
	switch sp.ser {
	case "compact":
		if len(ps) != 1 || ps[0].hdr != "" {
			return "", errors.New("compact serialisation has one signature and no unprotected header")
		}
		return ps[0].prot + "." + p64 + "." + ps[0].sig, nil
	case "flat":
		if len(ps) != 1 {
			return "", errors.New("flattened serialisation has one signature")
		}
		return `{"payload":"` + p64 + `",` + obj(ps[0]) + top + `}`, nil
	default:
		var os []string
		for _, p := range ps {
			os = append(os, "{"+obj(p)+"}")
		}
		return `{"payload":"` + p64 + `","signatures":[` + strings.Join(os, ",") + `]` + top + `}`, nil
	}
}

// c02RawProtected: the protected segment of every signature as go-jose itself re-serialises the parsed object
// (it keeps the original bytes of the protected header), and the `kid` member of the signature's unprotected header
// as it stands in the serialisation
func c02RawProtected(jws *jose.JSONWebSignature) (out []string, rawUnprotKid []string) {
	defer func() {
		if recover() != nil {
			out, rawUnprotKid = nil, nil
		}
	}()
	type hdr struct {
		Kid string `json:"kid"`
	}
	var full struct {
		Protected  string `json:"protected"`
		Header     *hdr   `json:"header"`
		Signatures []struct {
			Protected string `json:"protected"`
			Header    *hdr   `json:"header"`
		} `json:"signatures"`
	}
	if err := json.Unmarshal([]byte(jws.FullSerialize()), &full); err != nil {
		return nil, nil
	}
	kid := func(h *hdr) string {
		if h == nil {
			return ""
		}
		return h.Kid
	}
	if len(full.Signatures) == 0 {
		return []string{full.Protected}, []string{kid(full.Header)}
	}
	for _, s := range full.Signatures {
		out = append(out, s.Protected)
		rawUnprotKid = append(rawUnprotKid, kid(s.Header))
	}
	return out, rawUnprotKid
}

var c02Places = []string{"none", "prot", "unprot", "both-eq", "both-diff"}

// place distributes a header member over the protected / unprotected header
func c02Place(place, val, otherVal string) (prot, unprot string) {
	switch place {
	case "prot":
		return val, ""
	case "unprot":
		return "", val
	case "both-eq":
		return val, val
	case "both-diff":
		return val, otherVal
	}
	return "", ""
}

func c02AllowList(r *hx.Rand, alg string) []string {
	switch r.Intn(10) {
	case 0, 1, 2, 3:
		return []string{alg, "ES384"}
	case 4, 5:
		return []string{"RS256", "PS256", "ES256", "EdDSA", "RS384"}
	case 6:
		return []string{"ES512"}
	case 7:
		return hx.Pick(r, []string{"HS256"}, []string{"none"})
	}
	return nil // the library default
}

// p3Params: the enumerable dimensions of a part-3 case
type p3Params struct {
	verifier, ser, kidPlace, kidRel, algPlace, smuggle string
	m                                                  int // keys in the set
}

// part 3: serialisation x placement of kid / alg x verifier x key-set size; first the full grid of the finite dimensions
// (with the genuine payload smuggled in, signer in the set), then `n` random cases that also vary the rest
func c02SerialisationStream(r *hx.Rand, e *c02Env, n int) {
	for _, verifier := range []string{"rp", "at", "hint", "assertion"} {
		for _, ser := range []string{"compact", "flat", "general"} {
			for _, kidPlace := range c02Places {
				for _, algPlace := range []string{"prot", "unprot", "both-eq", "both-diff", "both-diff-rev"} {
					if ser == "compact" && (algPlace != "prot" || (kidPlace != "none" && kidPlace != "prot")) {
						continue
					}
					for _, kidRel := range []string{"own", "of-set", "unknown"} {
						if kidPlace == "none" && kidRel != "own" {
							continue
						}
						for _, m := range []int{1, 2} {
							sm := "hdr-genuine"
							if ser == "compact" {
								sm = ""
							}
							c02P3Case(r, e, &p3Params{verifier, ser, kidPlace, kidRel, algPlace, sm, m})
							e.stats["p3-grid"]++
						}
					}
				}
			}
		}
	}
	for i := 0; i < n; i++ {
		c02P3Case(r, e, nil)
	}
}

func c02P3Case(r *hx.Rand, e *c02Env, fix *p3Params) {
	keys := hx.Keys()
	pool := []*hx.Key{keys[0], keys[1], keys[2], keys[3], keys[5], keys[6]}
	const issuer, cid = c02Issuer, c02ClientID
	{
		waitClearOfSecondEdge()
		sec := time.Now().Unix()
		verifier := hx.Pick(r, "rp", "at", "hint", "assertion")
		// key set: one key (the unique-candidate situation) or several; distinct key ids, some keys without
		m := hx.Pick(r, 1, 1, 2, 2, 3)
		if fix != nil {
			verifier, m = fix.verifier, fix.m
		}
		kidPool := []string{"a", "b", ""}
		if r.Chance(30) {
			kidPool = []string{"a", "b", "d"}
		}
		set := make([]pubKey, 0, m)
		for j := 0; j < m; j++ {
			use := hx.Pick(r, "sig", "sig", "sig", "", "enc")
			if fix != nil {
				use = hx.Pick(r, "sig", "sig", "")
			}
			set = append(set, pubKey{pool[r.Intn(len(pool))], kidPool[(j+r.Intn(2))%len(kidPool)], use})
		}
		inSet := r.Chance(85) || fix != nil
		var signer *hx.Key
		ownKid := ""
		if inSet {
			pk := set[r.Intn(len(set))]
			signer, ownKid = pk.k, pk.kid
		} else {
			signer = pool[r.Intn(len(pool))]
		}
		alg := signer.Algs[0]
		if signer.Kty == "RSA" {
			alg = hx.Pick(r, "RS256", "RS256", "PS256", "RS384")
		}
		otherAlg := hx.Pick(r, "RS256", "PS256", "ES256", "EdDSA", "HS256", "none")
		other := pool[r.Intn(len(pool))]
		ser := hx.Pick(r, "compact", "flat", "flat", "flat", "general", "general")
		// which key id the token names: the signer's own, that of another key of the set, an unknown one
		named := ownKid
		kidRel := "own"
		switch r.Intn(10) {
		case 0, 1, 2:
			kidRel = "of-set"
		case 3, 4, 5:
			kidRel = "unknown"
		}
		kidPlace := hx.Pick(r, c02Places...)
		algPlace := hx.Pick(r, "prot", "prot", "unprot", "both-eq", "both-diff", "both-diff-rev")
		if fix != nil {
			ser, kidRel, kidPlace, algPlace = fix.ser, fix.kidRel, fix.kidPlace, fix.algPlace
		}
		switch kidRel {
		case "of-set":
			named = set[r.Intn(len(set))].kid
		case "unknown":
			named = hx.Pick(r, "zz", "c")
		}
		if named == "" {
			kidPlace = "none"
		}
		if ser == "compact" {
			algPlace = "prot"
			if kidPlace != "none" {
				kidPlace = "prot"
			}
		}
		var sg c02Sig
		sg.signer, sg.signAlg = signer, alg
		sg.noProt = r.Chance(50)
		sg.prot.kid, sg.unprot.kid = c02Place(kidPlace, named, hx.Pick(r, ownKid, "zz", "a", "b"))
		if kidPlace == "both-diff" && sg.unprot.kid == sg.prot.kid {
			sg.unprot.kid = sg.prot.kid + "2"
		}
		if kidPlace == "both-diff" && r.Chance(50) {
			sg.prot.kid, sg.unprot.kid = sg.unprot.kid, sg.prot.kid // the protected one wins the merge either way
			if sg.prot.kid == "" {
				sg.prot.kid = "zz"
			}
		}
		switch algPlace {
		case "both-diff-rev": // protected header names another algorithm than the one used
			sg.prot.alg, sg.unprot.alg = otherAlg, alg
		default:
			sg.prot.alg, sg.unprot.alg = c02Place(algPlace, alg, otherAlg)
		}
		if r.Chance(5) && fix == nil {
			sg.signAlg = hx.Pick(r, signer.Algs...) // primitive and named algorithm may differ
		}
		sp := c02Spec{ser: ser, sigs: []c02Sig{sg}}
		if ser != "compact" {
			sp.smuggle = hx.Pick(r, "hdr-genuine", "hdr-genuine", "hdr-genuine", "hdr-genuine", "hdr-genuine", "hdr-genuine", "top-genuine", "hdr-evil", "")
			if fix != nil {
				sp.smuggle = fix.smuggle
			}
		}
		if ser == "general" && r.Chance(25) && fix == nil {
			// a second genuine signature by another key
			sp.sigs = append(sp.sigs, c02Sig{prot: c02Hdr{alg: other.Algs[0]}, signer: other, signAlg: other.Algs[0]})
		}
		algs := c02AllowList(r, alg)
		if fix != nil {
			algs = []string{alg, "ES384"}
		}
		sub, issClaim := "user-1", issuer
		anySubject := false
		if verifier == "assertion" {
			issClaim, sub = "client-A", "client-A"
			algs = nil
			if r.Chance(25) {
				anySubject = true
				issClaim, sub = hx.Pick(r, "client-A", "client-B"), hx.Pick(r, "client-A", "client-B")
			}
		}
		claims := map[string]any{"iss": issClaim, "sub": sub, "aud": []string{cid, issuer}, "azp": cid, "exp": sec + 600, "iat": sec - 5}
		payload, _ := json.Marshal(claims)
		claims["sub"] = "admin"
		evil, _ := json.Marshal(claims)
		tok, err := e.sy.build(sp, payload, evil)
		if err != nil {
			e.stats["p3-build-error"]++
			return
		}
		sm := sp.smuggle
		if sm == "" {
			sm = "none"
		}
		e.stats["p3-ser-"+ser]++
		e.stats["p3-kid-"+kidPlace]++
		e.stats["p3-kidrel-"+kidRel]++
		e.stats["p3-alg-"+algPlace]++
		e.stats["p3-smuggle-"+sm]++
		e.stats[fmt.Sprintf("p3-keys-%d", m)]++
		e.stats[fmt.Sprintf("p3-sigs-%d", len(sp.sigs))]++
		e.verify(c02Case{verifier: verifier, set: set, algs: algs, tok: tok, anySubject: anySubject, other: other, otherKid: named, part: "p3-",
			tags: []string{"g.ser", ser, "g.kid", kidPlace, "g.kidrel", kidRel, "g.alg", algPlace, "g.smuggle", sm}})
	}
}

// part 4: one long-lived remote key set, the endpoint rotates its keys between the calls.  The key set the
// statement speaks of is what the endpoint served the verifier last; a key it has withdrawn (and the verifier
// has been told so by a later download) must not be believed any more.
func c02RotationStream(r *hx.Rand, e *c02Env, histories int) {
	keys := hx.Keys()
	const issuer, cid = c02Issuer, c02ClientID
	for h := 0; h < histories; h++ {
		// the OP's key ring: three keys with their key ids (one may be published without)
		ringKeys := []*hx.Key{keys[0], keys[1], keys[2]}
		if r.Chance(30) {
			ringKeys = []*hx.Key{keys[0], keys[1], keys[5]}
		}
		ring := []pubKey{{ringKeys[0], "a", "sig"}, {ringKeys[1], "b", "sig"}, {ringKeys[2], hx.Pick(r, "c", "c", ""), "sig"}}
		type step struct {
			served []int // indices into ring
			signer int
			kid    string
		}
		var steps []step
		if r.Chance(40) {
			// the directed scenario: A is cached, the OP moves to B (and the verifier learns it), A is presented again
			a, b := 0, 1
			if r.Bool() {
				a, b = 1, 0
			}
			steps = []step{{[]int{a}, a, ring[a].kid}, {[]int{b}, b, ring[b].kid}, {[]int{b}, a, ring[a].kid}}
			if r.Chance(50) {
				steps = append(steps, step{[]int{b}, a, ""}) // ... and once more without naming it
			}
		} else {
			ns := 3 + r.Intn(3)
			for s := 0; s < ns; s++ {
				var served []int
				for k := range ring {
					if r.Chance(55) {
						served = append(served, k)
					}
				}
				sg := r.Intn(len(ring))
				kid := ring[sg].kid
				if r.Chance(15) {
					kid = hx.Pick(r, "", "a", "b")
				}
				steps = append(steps, step{served, sg, kid})
			}
		}
		rem := &c02Remote{ks: rp.NewRemoteKeySet(http.DefaultClient, e.jwks.srv.URL)}
		h0 := *e.caseNo
		e.stats[fmt.Sprintf("p4-history-len-%d", len(steps))]++
		for si, st := range steps {
			waitClearOfSecondEdge()
			sec := time.Now().Unix()
			var set []pubKey
			for _, k := range st.served {
				set = append(set, ring[k])
			}
			signer := ring[st.signer].k
			alg := signer.Algs[0]
			claims := map[string]any{"iss": issuer, "sub": "user-1", "aud": []string{cid}, "azp": cid, "exp": sec + 600, "iat": sec - 5}
			payload, _ := json.Marshal(claims)
			tok, err := e.sy.sign(signer, alg, st.kid, payload)
			if err != nil {
				e.stats["p4-sign-error"]++
				continue
			}
			withdrawn := true
			for _, k := range st.served {
				if k == st.signer {
					withdrawn = false
				}
			}
			if withdrawn {
				e.stats["p4-signer-not-published"]++
			} else {
				e.stats["p4-signer-published"]++
			}
			e.verify(c02Case{verifier: "rp", set: set, tok: tok, remote: rem, part: "p4-", algs: []string{"RS256", "ES256", "EdDSA"},
				tags: []string{"h0", fmt.Sprint(h0), "g.step", fmt.Sprint(si)}})
		}
	}
}
