package main

// C05 stream: one request per case at the token / introspection / revocation / device_authorization endpoint of either
// router.  The GRANT MATERIAL of every case is genuine (a real code of a completed authorization request with or without
// PKCE, a real refresh / access token, an approved device code, a valid jwt-bearer assertion): it is produced through a TWIN
// provider on the same storage that has every flag and capability switched on, so that at the provider under test only
// client authentication, grant registration and the flags decide.  The request is described to the Lean driver as the abstract
// request of Model/EndpointReq.lean: raw Basic user / password (as net/http's r.BasicAuth() reads them), r.Form / r.PostForm
// as net/http parses them, and the answers url.QueryUnescape / the JWT parsers give (oracles).

import (
	"bufio"
	"crypto/sha256"
	"encoding/base64"
	"encoding/hex"
	"fmt"
	"io"
	"log/slog"
	"net/http"
	"net/http/httptest"
	"net/url"
	"sort"
	"strings"
	"time"

	jose "github.com/go-jose/go-jose/v4"
	"github.com/zitadel/oidc/v3/pkg/oidc"
	"github.com/zitadel/oidc/v3/pkg/op"

	"verifharness/internal/hx"
	"verifharness/internal/opbed"
	"verifharness/internal/refstore"
)

func init() { streams["C05"] = c05Stream }

// c05BedOn builds a provider (either router) on an EXISTING reference store (opbed.New always creates its own)
func c05BedOn(cfg opbed.Config, st *refstore.Store) *opbed.Bed {
	b := &opbed.Bed{Cfg: cfg, Store: st, CryptoKey: sha256.Sum256([]byte("verif-crypto-key")), SignKey: hx.Keys()[0]}
	b.Storage = st.With(cfg.Caps)
	oc := &op.Config{
		CryptoKey:                b.CryptoKey,
		DefaultLogoutRedirectURI: "https://op.example/logged-out",
		CodeMethodS256:           cfg.S256,
		AuthMethodPost:           cfg.Post,
		AuthMethodPrivateKeyJWT:  cfg.PrivateKeyJWT,
		GrantTypeRefreshToken:    cfg.Refresh,
		SupportedClaims:          op.DefaultSupportedClaims,
		DeviceAuthorization: op.DeviceAuthorizationConfig{
			Lifetime: 5 * time.Minute, PollInterval: 5 * time.Second, UserFormPath: "/device", UserCode: op.UserCodeBase20,
		},
	}
	p, err := op.NewProvider(oc, b.Storage, op.StaticIssuer(opbed.Issuer), op.WithLogger(c05Discard))
	if err != nil {
		panic(err)
	}
	b.Provider = p
	if cfg.Router == "legacy" {
		b.Handler = op.RegisterLegacyServer(op.NewLegacyServer(p, *op.DefaultEndpoints), op.AuthorizeCallbackHandler(p), op.WithFallbackLogger(c05Discard))
	} else {
		b.Handler = p
	}
	return b
}

// runCodeFlow drives authorize -> login -> callback for client fc (PKCE for public clients) and returns (code, verifier)
func runCodeFlow(bed *opbed.Bed, fc *flowClient, scopes string) (code, verifier, redirect string) {
	code, verifier, redirect, _ = c05CodeFlow(bed, fc, scopes, fc.c.Auth == oidc.AuthMethodNone)
	return code, verifier, redirect
}

// c05CodeFlow: the same with PKCE on demand; also returns the id of the authorization request
func c05CodeFlow(bed *opbed.Bed, fc *flowClient, scopes string, pkce bool) (code, verifier, redirect, authReqID string) {
	redirect = fc.c.Redirects[0]
	q := url.Values{"client_id": {fc.c.ID}, "redirect_uri": {redirect}, "response_type": {"code"}, "scope": {scopes}, "state": {"st"}}
	if pkce {
		verifier = "verifier-CCCCCCCCCCCCCCCCCCCCCCCCCCCCCCCCCCCCCCCCCCC"
		q.Set("code_challenge", oidc.NewSHACodeChallenge(verifier))
		q.Set("code_challenge_method", "S256")
	}
	resp := bed.Do(bed.Get("/authorize", q, ""))
	if resp.Loc == nil {
		return "", "", redirect, ""
	}
	id := resp.Loc.Query().Get("authRequestID")
	if id == "" {
		return "", "", redirect, ""
	}
	bed.Store.CompleteAuthRequest(id, "user1")
	cb := bed.Do(bed.Get("/authorize/callback", url.Values{"id": {id}}, ""))
	if cb.Loc != nil {
		code = cb.Loc.Query().Get("code")
	}
	return code, verifier, redirect, id
}

// ownAuth returns the correct credentials of a client (for preparing artefacts)
func ownAuth(sy *symbols, fc *flowClient) opbed.Auth {
	switch fc.c.Auth {
	case oidc.AuthMethodNone:
		return opbed.Auth{Kind: "id-only", ID: fc.c.ID}
	case oidc.AuthMethodPrivateKeyJWT:
		now := time.Now().Unix()
		l := hx.NewLine("x")
		return opbed.Auth{Kind: "assertion", Assertion: assertion(sy, l, fc.key, fc.kid, fc.c.ID, fc.c.ID, []string{opbed.Issuer}, now-5, now+300)}
	case oidc.AuthMethodPost:
		return opbed.Auth{Kind: "post", ID: fc.c.ID, Secret: fc.c.Secret}
	}
	return opbed.Auth{Kind: "basic", ID: fc.c.ID, Secret: fc.c.Secret}
}

// c05Req is the wire request under test
type c05Req struct {
	path      string
	body      [][2]string // ordered pairs of the application/x-www-form-urlencoded body
	query     [][2]string // ordered pairs of the URL query
	rawBody   string      // appended verbatim to the body (malformed pairs)
	authRaw   string      // Authorization: Basic base64(authRaw), when hasBasic
	hasBasic  bool
	rawHeader string // Authorization header value sent verbatim (wire-level shapes), when hasRaw
	hasRaw    bool
	assertion string // the one assertion string of the request (client_assertion or the jwt-bearer grant assertion)
}

func encPairs(ps [][2]string) string {
	var parts []string
	for _, p := range ps {
		parts = append(parts, url.QueryEscape(p[0])+"="+url.QueryEscape(p[1]))
	}
	return strings.Join(parts, "&")
}

func (q *c05Req) build() *http.Request {
	target := q.path
	if len(q.query) > 0 {
		target += "?" + encPairs(q.query)
	}
	body := encPairs(q.body)
	if q.rawBody != "" {
		if body != "" {
			body += "&"
		}
		body += q.rawBody
	}
	r := httptest.NewRequest(http.MethodPost, target, strings.NewReader(body))
	r.Header.Set("Content-Type", "application/x-www-form-urlencoded")
	if q.hasBasic {
		r.Header.Set("Authorization", "Basic "+base64.StdEncoding.EncodeToString([]byte(q.authRaw)))
	}
	if q.hasRaw {
		r.Header.Set("Authorization", q.rawHeader)
	}
	return r
}

// c05WireHeader builds an Authorization header value by hand: what an onlooker sees on the wire, in the legal and the
// near-legal spellings of RFC 7617 / RFC 6749 2.3.1 (scheme case, spaces, base64 alphabet / padding, colons, empty components,
// form-urlencoding of the components, bytes that are no text)
func c05WireHeader(r *hx.Rand, id, sec string) (shape, header string) {
	pctAll := func(s string) string {
		var b strings.Builder
		for i := 0; i < len(s); i++ {
			fmt.Fprintf(&b, "%%%02X", s[i])
		}
		return b.String()
	}
	pctFirst := func(s string) string {
		if s == "" {
			return s
		}
		return fmt.Sprintf("%%%02x", s[0]) + s[1:]
	}
	std := func(raw string) string { return base64.StdEncoding.EncodeToString([]byte(raw)) }
	good := url.QueryEscape(id) + ":" + url.QueryEscape(sec)
	shape = hx.Pick(r, "plus-is-space", "plus-is-space", "space-padded-secret", "space-padded-secret", "escaped-all", "escaped-first", "colon-in-secret", "empty-pass", "empty-user",
		"plain", "escaped-all", "escaped-first", "plus-is-space", "colon-in-secret", "colon-escaped", "empty-user", "empty-pass", "only-colon",
		"no-colon", "non-utf8-user", "non-utf8-pass", "non-utf8-escaped", "scheme-lower", "scheme-upper", "scheme-mixed", "two-spaces", "trailing-space",
		"leading-space", "tab", "bad-base64", "urlsafe-base64", "no-padding", "bearer-scheme", "scheme-only", "empty-payload")
	switch shape {
	case "plain":
		header = "Basic " + std(good)
	case "escaped-all":
		header = "Basic " + std(pctAll(id)+":"+pctAll(sec))
	case "escaped-first":
		header = "Basic " + std(pctFirst(id)+":"+pctFirst(sec))
	case "plus-is-space":
		header = "Basic " + std(good+"+")
	case "space-padded-secret":
		header = "Basic " + std(url.QueryEscape(id)+":"+hx.Pick(r, "%20", "+", "%09")+url.QueryEscape(sec)+hx.Pick(r, "%20", "+", "%0A", ""))
	case "colon-in-secret":
		header = "Basic " + std(good+":x")
	case "colon-escaped":
		header = "Basic " + std(good+"%3Ax")
	case "empty-user":
		header = "Basic " + std(":"+url.QueryEscape(sec))
	case "empty-pass":
		header = "Basic " + std(url.QueryEscape(id)+":")
	case "only-colon":
		header = "Basic " + std(":")
	case "no-colon":
		header = "Basic " + std(url.QueryEscape(id)+url.QueryEscape(sec))
	case "non-utf8-user":
		header = "Basic " + std(id+"\xff:"+url.QueryEscape(sec))
	case "non-utf8-pass":
		header = "Basic " + std(url.QueryEscape(id)+":"+sec+"\xfe\xff")
	case "non-utf8-escaped":
		header = "Basic " + std(hx.Pick(r, url.QueryEscape(id)+"%FF:"+url.QueryEscape(sec), url.QueryEscape(id)+":"+url.QueryEscape(sec)+"%c3"))
	case "scheme-lower":
		header = "basic " + std(good)
	case "scheme-upper":
		header = "BASIC " + std(good)
	case "scheme-mixed":
		header = "bAsIc " + std(good)
	case "two-spaces":
		header = "Basic  " + std(good)
	case "trailing-space":
		header = "Basic " + std(good) + " "
	case "leading-space":
		header = " Basic " + std(good)
	case "tab":
		header = "Basic\t" + std(good)
	case "bad-base64":
		header = "Basic " + hx.Pick(r, "!!!!", std(good)+"*", "=="+std(good))
	case "urlsafe-base64":
		header = "Basic " + base64.URLEncoding.EncodeToString([]byte(id+"?>:"+sec+"?>"))
	case "no-padding":
		header = "Basic " + base64.RawStdEncoding.EncodeToString([]byte(good))
	case "bearer-scheme":
		header = "Bearer " + std(good)
	case "scheme-only":
		header = hx.Pick(r, "Basic", "Basic ")
	case "empty-payload":
		header = "Basic " + std("")
	}
	return shape, header
}

func (q *c05Req) setBody(k, v string) {
	for i := range q.body {
		if q.body[i][0] == k {
			q.body[i][1] = v
			return
		}
	}
	q.body = append(q.body, [2]string{k, v})
}

func (q *c05Req) basic(id, secret string) {
	q.hasBasic, q.authRaw = true, url.QueryEscape(id)+":"+url.QueryEscape(secret)
}

func valuesKV(l *hx.Line, p string, v url.Values) {
	keys := make([]string, 0, len(v))
	for k := range v {
		keys = append(keys, k)
	}
	sort.Strings(keys)
	n := 0
	for _, k := range keys {
		for _, x := range v[k] {
			l.S(fmt.Sprintf("%s%d.k", p, n), k).S(fmt.Sprintf("%s%d.v", p, n), x)
			n++
		}
	}
	l.I(p+"n", int64(n))
}

// describe writes the abstract request: what net/http, url.QueryUnescape and the JWT parsers make of the wire request
func (q *c05Req) describe(sy *symbols, l *hx.Line) {
	r := q.build()
	perr := r.ParseForm()
	l.B("parse.err", perr != nil)
	valuesKV(l, "f.", r.Form)
	valuesKV(l, "pf.", r.PostForm)
	u, p, ok := r.BasicAuth()
	l.B("basic", ok)
	// the bytes an onlooker sees: the Authorization header itself; and (hex, because they need not be text) what net/http and
	// url.QueryUnescape made of it - the driver parses the header itself (Spec/C05Wire.lean) and compares
	_, hdrSet := r.Header["Authorization"]
	l.B("hdr.set", hdrSet).S("hdr", r.Header.Get("Authorization"))
	if ok {
		l.S("w.u", hex.EncodeToString([]byte(u))).S("w.p", hex.EncodeToString([]byte(p)))
		if uu, err := url.QueryUnescape(u); err == nil {
			l.S("w.uu", hex.EncodeToString([]byte(uu)))
		}
		if pp, err := url.QueryUnescape(p); err == nil {
			l.S("w.pu", hex.EncodeToString([]byte(pp)))
		}
	}
	// descriptive only (known-finding matching): the secret-type credential of the request carries no secret
	nosecret := false
	if ok {
		l.S("b.user", u).S("b.pass", p)
		uu, err := url.QueryUnescape(u)
		l.B("b.user.ok", err == nil).S("b.user.un", uu)
		pp, err := url.QueryUnescape(p)
		l.B("b.pass.ok", err == nil).S("b.pass.un", pp)
		nosecret = err == nil && pp == ""
	} else if vs := r.Form["client_secret"]; len(vs) == 0 || vs[len(vs)-1] == "" {
		nosecret = true
	}
	l.B("p.nosecret", nosecret)
	if q.assertion != "" {
		l.S("tok.str", q.assertion)
		sy.tokenKV(l, q.assertion)
	}
}

var c05Discard = slog.New(slog.NewTextHandler(io.Discard, nil))

func c05Stream(r *hx.Rand, tier string, n int, w *bufio.Writer) map[string]int {
	if n == 0 {
		n = 2500
		if tier == "thorough" {
			n = 40000
		}
	}
	stats := map[string]int{}
	sy := newSymbols()
	const (
		gCode   = "authorization_code"
		gRT     = "refresh_token"
		gCC     = "client_credentials"
		gJWT    = "urn:ietf:params:oauth:grant-type:jwt-bearer"
		gTE     = "urn:ietf:params:oauth:grant-type:token-exchange"
		gDevice = "urn:ietf:params:oauth:grant-type:device_code"
	)
	grants := []string{gCode, gCode, gRT, gRT, gCC, gJWT, gTE, gTE, gDevice, gDevice, "", "password"}
	endpoints := []string{"token", "token", "token", "token", "token", "introspect", "revoke", "device_authorization"}
	for i := 0; i < n; i++ {
		router := hx.Pick(r, "provider", "legacy")
		// a presentation drawn early so that configuration and material can be made for the case it needs
		prePres := hx.Pick(r, "right", "right", "right", "right", "cc-grant-param", "assertion-right", "basic-wrong+form-public", "basic-unescaped", "basic-right")
		// half of the cases: the presentation is a CROSS of independent fields (Authorization header x form client_id x client_secret x
		// client_assertion x client_assertion_type), so that partially filled presentations occur; the other half: the named kinds
		cross := r.Chance(50)
		if cross {
			prePres = "right"
		}
		// part of the cross is drawn correlated: the Authorization header (or the client assertion) authenticates client A as it is
		// registered while the BODY names another client B (one that lacks the grant in use, an unknown id, any other client)
		// (the grant material belongs to A, or - every other time - to B)
		split := cross && r.Chance(16)
		splitMaterialB := split && r.Chance(50)
		// the storage's AuthorizeClientIDSecret only compares the stored secret (example/server/storage) instead of also refusing
		// clients that are not registered for a secret method
		compareOnly := r.Chance(25)
		if cross {
			compareOnly = r.Chance(65)
		}
		cfg := opbed.Config{Router: router, S256: true, Post: r.Chance(60), PrivateKeyJWT: r.Chance(75), Refresh: r.Chance(75),
			Caps: refstore.Caps{CC: r.Chance(75), TE: r.Chance(75), Device: r.Chance(75)}}
		if prePres == "basic-right" {
			cfg.Post = r.Chance(25) // a client registered for client_secret_post, mostly while that method is switched off
		}
		st := refstore.New(refstore.SigningKeySpec{Kid: "sig1", Alg: jose.RS256, Priv: hx.Keys()[0].Priv, Pub: hx.Keys()[0].Pub})
		st.SecretCompareOnly = compareOnly
		bed := c05BedOn(cfg, st)
		twin := c05BedOn(opbed.Config{Router: "provider", S256: true, Post: true, PrivateKeyJWT: true, Refresh: true,
			Caps: refstore.Caps{CC: true, TE: true, Device: true}}, st)

		cls := flowClients()
		// a client without the token-exchange / client-credentials / device grants
		limited := opbed.WebClient("limited", "secret-lim", "https://rp.example/cb")
		limited.Grants = []oidc.GrantType{oidc.GrantTypeCode, oidc.GrantTypeRefreshToken}
		// application type x auth method: a native application registered with a secret, a native one with client_secret_post,
		// a web application registered without authentication
		natsec := opbed.NativeClient("natsec", "https://rp.example/cb")
		natsec.Auth, natsec.Secret = oidc.AuthMethodBasic, "secret-nat"
		natsec.Grants = append(natsec.Grants, oidc.GrantTypeTokenExchange)
		natpost := opbed.NativeClient("natpost", "https://rp.example/cb")
		natpost.Auth, natpost.Secret = oidc.AuthMethodPost, "secret-np"
		webnone := opbed.WebClient("webnone", "", "https://rp.example/cb")
		webnone.Auth = oidc.AuthMethodNone
		// a secret that needs percent-encoding in a Basic header
		enc := opbed.WebClient("enc", "p+s%2Fx y:z", "https://rp.example/cb")
		// a secret that is not a valid percent-encoding when sent raw
		pct := opbed.WebClient("pct", "s%zz", "https://rp.example/cb")
		// a secret-registered client that also has a registered key (e.g. for the jwt-bearer grant)
		webkey := opbed.WebClient("webkey", "secret-wk", "https://rp.example/cb")
		webkey.Keys = []refstore.ClientKey{{Kid: "wk1", Pub: hx.Keys()[2].Pub}}
		// the remaining corners of auth method x application type: a native application with private_key_jwt, a user-agent one without authentication
		natpk := opbed.NativeClient("natpk", "https://rp.example/cb")
		natpk.Auth = oidc.AuthMethodPrivateKeyJWT
		natpk.Keys = []refstore.ClientKey{{Kid: "npk1", Pub: hx.Keys()[1].Pub}}
		natpk.Grants = append(natpk.Grants, oidc.GrantTypeTokenExchange)
		uanone := opbed.NativeClient("uanone", "https://rp.example/cb")
		uanone.App = op.ApplicationTypeUserAgent
		cls = append(cls, &flowClient{c: limited}, &flowClient{c: natsec}, &flowClient{c: natpost}, &flowClient{c: webnone}, &flowClient{c: enc},
			&flowClient{c: webkey, key: hx.Keys()[2], kid: "wk1"}, &flowClient{c: pct}, &flowClient{c: natpk, key: hx.Keys()[1], kid: "npk1"}, &flowClient{c: uanone})
		for _, fc := range cls {
			st.AddClient(fc.c)
		}
		st.AddUser("user1", nil)
		byID := map[string]*flowClient{}
		for _, fc := range cls {
			byID[fc.c.ID] = fc
		}
		endpoint := hx.Pick(r, endpoints...)
		if cross {
			endpoint = hx.Pick(r, "token", "token", "token", "token", "token", "token", "token", "token", "introspect", "introspect", "introspect", "introspect",
				"introspect", "introspect", "introspect", "revoke", "revoke", "revoke", "revoke", "device_authorization")
		}
		if split {
			endpoint = hx.Pick(r, "token", "token", "token", "token", "token", "token", "token", "introspect", "introspect", "introspect", "revoke", "revoke", "revoke",
				"device_authorization", "device_authorization", "device_authorization", "device_authorization", "device_authorization", "device_authorization", "device_authorization")
		}
		grant := ""
		if endpoint == "token" {
			grant = hx.Pick(r, grants...)
		}
		target := cls[r.Intn(len(cls))] // the client the material belongs to and (usually) the presenter claims to be
		if r.Chance(35) {
			// the corners of auth method x application type
			target = byID[hx.Pick(r, "web", "pub", "post", "pk", "natsec", "natsec", "natpost", "natpost")]
		}
		if cross && r.Chance(50) {
			// registrations without a secret method (where a partially filled presentation could pass for authentication) and their counterparts
			target = byID[hx.Pick(r, "pub", "webnone", "uanone", "pk", "natpk", "web", "natsec", "post")]
		}
		var splitA *flowClient
		if split {
			// A: a client that can authenticate in the header / by assertion and holds every grant
			splitA = byID[hx.Pick(r, "web", "web2", "natsec", "post", "pk", "natpk", "webkey", "enc")]
			if !splitMaterialB {
				target = splitA
			}
		}
		if prePres == "cc-grant-param" && r.Chance(60) {
			target = byID["pk"]
		}
		if prePres == "assertion-right" && r.Chance(60) {
			target = byID[hx.Pick(r, "pk", "webkey")]
		}
		if prePres == "basic-unescaped" {
			target = byID[hx.Pick(r, "pct", "enc")]
		}
		if prePres == "basic-right" {
			target = byID[hx.Pick(r, "post", "natpost")]
		}
		if prePres == "basic-wrong+form-public" {
			// a public client's material, so that the form's client_id alone would be enough
			target = byID[hx.Pick(r, "pub", "pub", "webnone")]
			if r.Chance(60) {
				endpoint, grant = "token", hx.Pick(r, gDevice, gDevice, gCode, gRT)
			}
		}

		head := func(caseNo int, endpoint string) *hx.Line {
			return hx.NewLine("C05").I("case", int64(caseNo)).S("router", router).B("post", cfg.Post).B("pkjwt", cfg.PrivateKeyJWT).B("refresh", cfg.Refresh).
				B("cap.cc", cfg.Caps.CC).B("cap.te", cfg.Caps.TE).B("cap.device", cfg.Caps.Device).B("st.cmp", compareOnly).S("issuer", opbed.Issuer).S("endpoint", endpoint)
		}
		l := head(i, endpoint)

		// ---- genuine grant material for `target`, made at the twin provider
		q := &c05Req{path: "/oauth/token"}
		material := "none"
		var accessTok, refreshTok string
		needTokens := endpoint == "introspect" || endpoint == "revoke" || grant == gRT || grant == gTE
		pkce := target.c.Auth == oidc.AuthMethodNone || r.Chance(55)
		if needTokens || grant == gCode {
			code, verifier, redirect, arID := c05CodeFlow(twin, target, "openid offline_access", pkce)
			if needTokens {
				f := url.Values{"grant_type": {gCode}, "code": {code}, "redirect_uri": {redirect}}
				if verifier != "" {
					f.Set("code_verifier", verifier)
				}
				resp := twin.Do(twin.Form("/oauth/token", f, ownAuth(sy, target)))
				accessTok, refreshTok = resp.Str("access_token"), resp.Str("refresh_token")
			} else if code != "" {
				q.body = append(q.body, [2]string{"code", code}, [2]string{"redirect_uri", redirect})
				if verifier != "" && !r.Chance(6) {
					q.body = append(q.body, [2]string{"code_verifier", verifier})
				}
				material = "code"
				if verifier != "" {
					material = "code+pkce"
				}
				if a := st.GetAuthRequest(arID); a != nil {
					l.S("ar.code", code).S("ar.id", arID).S("ar.client", a.ClientID).S("ar.redirect", a.RedirectURI).B("ar.done", a.Done()).S("ar.sub", a.Subject).L("ar.scopes", a.Scopes)
					if a.CodeChallenge != nil {
						sym := a.CodeChallenge.Challenge // the model's SHA-256 is symbolic: S256(verifier)
						if a.CodeChallenge.Method == oidc.CodeChallengeMethodS256 && verifier != "" {
							sym = "S256(" + verifier + ")"
						}
						l.S("ar.chal.c", sym).S("ar.chal.m", string(a.CodeChallenge.Method))
					}
				}
			}
		}
		switch {
		case endpoint == "introspect":
			q.path = "/oauth/introspect"
			q.body = append(q.body, [2]string{"token", accessTok})
			if accessTok != "" {
				material = "access-token"
				if t := st.Token(bedTokenID(twin, accessTok)); t != nil {
					l.L("g.intro.aud", t.Audience).S("g.tok.client", t.ClientID)
				}
			}
		case endpoint == "revoke":
			q.path = "/revoke"
			tok := accessTok
			if r.Chance(40) && refreshTok != "" {
				tok = refreshTok
				l.B("g.rt", true)
				q.body = append(q.body, [2]string{"token_type_hint", hx.Pick(r, "refresh_token", "", "access_token")})
			}
			q.body = append(q.body, [2]string{"token", tok})
			if tok != "" {
				material = "token"
				l.S("g.tok.client", target.c.ID)
			}
		case endpoint == "device_authorization":
			q.path = "/device_authorization"
			q.body = append(q.body, [2]string{"scope", "openid"})
			material = "n/a"
		default:
			if grant != "" {
				q.body = append(q.body, [2]string{"grant_type", grant})
			}
			switch grant {
			case gRT:
				q.body = append(q.body, [2]string{"refresh_token", refreshTok})
				if refreshTok != "" {
					material = "refresh-token"
					if rt := st.Refresh(refreshTok); rt != nil {
						l.S("rt.token", refreshTok).S("rt.client", rt.ClientID).S("rt.sub", rt.Subject).L("rt.scopes", rt.Scopes)
					}
				}
			case gCC:
				q.body = append(q.body, [2]string{"scope", "openid"})
				material = "n/a"
			case gTE:
				sub, typ := refreshTok, string(oidc.RefreshTokenType)
				if r.Chance(50) {
					sub, typ = accessTok, string(oidc.AccessTokenType)
				}
				q.body = append(q.body, [2]string{"subject_token", sub}, [2]string{"subject_token_type", typ}, [2]string{"requested_token_type", string(oidc.AccessTokenType)})
				if sub != "" {
					material = "subject-token"
				}
				l.B("g.te", sub != "")
			case gDevice:
				da := twin.Do(twin.Form("/device_authorization", url.Values{"scope": {"openid"}}, ownAuth(sy, target)))
				dc, uc := da.Str("device_code"), da.Str("user_code")
				if uc != "" {
					st.ApproveDevice(uc, "user1")
					material = "approved-device-code"
					l.S("dev.code", dc).S("dev.client", target.c.ID).B("dev.done", true)
				}
				q.body = append(q.body, [2]string{"device_code", dc})
			}
		}
		// registration change after the material exists: the target is no longer registered for the grant it is about to use
		stripped := false
		if r.Chance(12) {
			g := oidc.GrantType(grant)
			if endpoint == "device_authorization" {
				g = oidc.GrantTypeDeviceCode
			}
			if g != "" {
				var keep []oidc.GrantType
				for _, x := range target.c.Grants {
					if x != g {
						keep = append(keep, x)
					} else {
						stripped = true
					}
				}
				target.c.Grants = keep
			}
		}
		// more registration changes after the material exists (round 4): the target's secret is rotated or its authentication method is
		// changed; the request that follows presents the credential of the OLD registration (half of the time) or of the current one.
		// The line (and so the monitor and the model) carries the CURRENT registration only.
		regChange, presentOld := "none", false
		oldSecret, oldAuth := target.c.Secret, target.c.Auth
		if r.Chance(18) {
			if target.c.Secret != "" && r.Chance(50) {
				regChange = "secret-rotated"
				target.c.Secret = target.c.Secret + "-rotated"
			} else {
				var to []oidc.AuthMethod
				switch target.c.Auth {
				case oidc.AuthMethodBasic:
					to = []oidc.AuthMethod{oidc.AuthMethodPost, oidc.AuthMethodPrivateKeyJWT, oidc.AuthMethodNone}
				case oidc.AuthMethodPost:
					to = []oidc.AuthMethod{oidc.AuthMethodBasic, oidc.AuthMethodPrivateKeyJWT, oidc.AuthMethodNone}
				case oidc.AuthMethodNone:
					to = []oidc.AuthMethod{oidc.AuthMethodPrivateKeyJWT}
				case oidc.AuthMethodPrivateKeyJWT:
					to = []oidc.AuthMethod{oidc.AuthMethodNone}
				}
				if target.c.Secret != "" && (target.c.Auth == oidc.AuthMethodNone || target.c.Auth == oidc.AuthMethodPrivateKeyJWT) {
					to = append(to, oidc.AuthMethodBasic)
				}
				if len(to) > 0 {
					target.c.Auth = to[r.Intn(len(to))]
					regChange = "method-changed"
					l.S("reg.from", string(oldAuth)).S("reg.to", string(target.c.Auth))
				}
			}
			presentOld = regChange != "none" && r.Chance(50)
			stats["reg-change-"+regChange]++
			if presentOld {
				stats["reg-change-old-credential-presented"]++
			}
		}
		l.S("reg.change", regChange).B("reg.old", presentOld)
		// after a registration change the request mostly authenticates in the plain way of the (old or current) registration, so
		// that the change itself decides the outcome
		forceRight := regChange != "none" && !split && r.Chance(60)
		presAuth := func(fc *flowClient) oidc.AuthMethod {
			if presentOld && fc == target {
				return oldAuth
			}
			return fc.c.Auth
		}
		presSecret := func(fc *flowClient) string {
			if presentOld && fc == target {
				return oldSecret
			}
			return fc.c.Secret
		}
		clientsKV(l, cls)

		// ---- the presentation under test
		presenter := target
		if r.Chance(10) && !split {
			presenter = cls[r.Intn(len(cls))]
		}
		if split {
			presenter = splitA
		}
		other := cls[r.Intn(len(cls))]
		mkAssertion := func(key *hx.Key, kid, iss string, iat, exp int64) string {
			claims := fmt.Sprintf(`{"iss":%q,"sub":%q,"aud":[%q],"iat":%d,"exp":%d}`, iss, iss, opbed.Issuer, iat, exp)
			tok, err := sy.sign(key, key.Algs[0], kid, []byte(claims))
			if err != nil {
				return "garbage"
			}
			return tok
		}
		nowS := time.Now().Unix()
		pk := byID["pk"]
		pres := ""
		if grant == gJWT {
			// the assertion is the grant; signer = a client with registered keys (pk) or someone else
			pres = hx.Pick(r, "jwt-right", "jwt-right", "jwt-wrong-key", "jwt-unknown-issuer", "jwt-expired", "jwt-none", "jwt-garbage", "jwt-right+basic")
			switch pres {
			case "jwt-right", "jwt-right+basic":
				q.assertion = mkAssertion(pk.key, pk.kid, "pk", nowS-5, nowS+300)
				material = "assertion"
				if pres == "jwt-right+basic" {
					q.basic(other.c.ID, hx.Pick(r, other.c.Secret, "wrong"))
				}
			case "jwt-wrong-key":
				q.assertion = mkAssertion(hx.Keys()[0], pk.kid, "pk", nowS-5, nowS+300)
			case "jwt-unknown-issuer":
				q.assertion = mkAssertion(pk.key, pk.kid, "nobody", nowS-5, nowS+300)
			case "jwt-expired":
				q.assertion = mkAssertion(pk.key, pk.kid, "pk", nowS-4000, nowS-100)
			case "jwt-garbage":
				q.assertion = "garbage"
			}
			if q.assertion != "" {
				q.body = append(q.body, [2]string{"assertion", q.assertion})
			}
		} else if cross && !forceRight {
			// ---- every field drawn on its own
			id, sec := presenter.c.ID, presSecret(presenter)
			akey, akid := presenter.key, presenter.kid
			if akey == nil {
				akey, akid = pk.key, pk.kid // an assertion naming a client that has no registered key
			}
			xHdr := hx.Pick(r, "none", "none", "none", "none", "none", "none", "none", "none", "good", "good", "good", "wrong", "wrong", "wrong", "empty", "empty", "empty", "empty", "malformed", "malformed",
				"wire", "wire", "wire", "wire", "wire", "wire")
			xID := hx.Pick(r, "none", "none", "own", "own", "own", "own", "own", "foreign", "foreign", "unknown")
			xSec := hx.Pick(r, "none", "none", "empty", "good", "wrong")
			xAs := hx.Pick(r, "none", "none", "none", "none", "none", "none", "none", "none", "empty", "empty", "empty", "good", "good", "good", "good", "forged", "forged", "other", "other", "other")
			xAt := hx.Pick(r, "none", "none", "none", "none", "none", "none", "none", "jwt-bearer", "jwt-bearer", "jwt-bearer", "jwt-bearer", "jwt-bearer", "jwt-bearer", "jwt-bearer", "jwt-bearer", "jwt-bearer", "garbage", "garbage", "garbage", "garbage")
			// the client a foreign client_id names: half of the time one that is NOT registered for the grant in use
			foreign := other.c.ID
			useGrant := oidc.GrantType(grant)
			if endpoint == "device_authorization" {
				useGrant = oidc.GrantTypeDeviceCode
			}
			if useGrant != "" && r.Chance(50) {
				var lacking []string
				for _, fc := range cls {
					has := false
					for _, g := range fc.c.Grants {
						has = has || g == useGrant
					}
					if !has {
						lacking = append(lacking, fc.c.ID)
					}
				}
				if len(lacking) > 0 {
					foreign = lacking[r.Intn(len(lacking))]
				}
			}
			if split {
				xHdr, xAs, xAt = "good", "none", "none"
				if presAuth(presenter) == oidc.AuthMethodPrivateKeyJWT {
					xHdr, xAs, xAt = "none", "good", "jwt-bearer"
				}
				xID = hx.Pick(r, "foreign", "foreign", "foreign", "unknown")
				xSec = hx.Pick(r, "none", "none", "none", "good", "wrong")
				stats["x-split-identity-material-of-header-client"]++
				if splitMaterialB {
					xID, foreign = "foreign", target.c.ID
					stats["x-split-identity-material-of-header-client"]--
					stats["x-split-identity-material-of-body-client"]++
				}
			}
			switch xHdr {
			case "good":
				q.basic(id, sec)
			case "wrong":
				q.basic(id, hx.Pick(r, "wrong", sec+"x"))
			case "empty":
				q.basic(id, "")
			case "malformed":
				q.hasBasic, q.authRaw = true, hx.Pick(r, id+"%zz:"+url.QueryEscape(sec), url.QueryEscape(id)+":"+sec+"%", id+"%2", id)
			case "wire":
				var shape string
				shape, q.rawHeader = c05WireHeader(r, id, sec)
				q.hasRaw = true
				l.S("x.wire", shape)
				stats["x-wire-"+shape]++
			}
			switch xID {
			case "own":
				q.body = append(q.body, [2]string{"client_id", id})
			case "foreign":
				q.body = append(q.body, [2]string{"client_id", foreign})
			case "unknown":
				q.body = append(q.body, [2]string{"client_id", "nobody"})
			}
			switch xSec {
			case "empty":
				q.body = append(q.body, [2]string{"client_secret", ""})
			case "good":
				q.body = append(q.body, [2]string{"client_secret", sec})
			case "wrong":
				q.body = append(q.body, [2]string{"client_secret", hx.Pick(r, "wrong", sec+"x", "secret-web")})
			}
			switch xAs {
			case "empty":
				q.body = append(q.body, [2]string{"client_assertion", ""})
			case "good":
				q.assertion = mkAssertion(akey, akid, id, nowS-5, nowS+300)
			case "forged":
				q.assertion = mkAssertion(hx.Keys()[3], akid, id, nowS-5, nowS+300)
			case "other":
				// a valid assertion of ANOTHER client that has a registered key
				oc := pk
				if presenter == pk {
					oc = byID["natpk"]
				}
				q.assertion = mkAssertion(oc.key, oc.kid, oc.c.ID, nowS-5, nowS+300)
			}
			if q.assertion != "" {
				q.body = append(q.body, [2]string{"client_assertion", q.assertion})
			}
			switch xAt {
			case "jwt-bearer":
				q.body = append(q.body, [2]string{"client_assertion_type", oidc.ClientAssertionTypeJWTAssertion})
			case "garbage":
				q.body = append(q.body, [2]string{"client_assertion_type", hx.Pick(r, "urn:ietf:params:oauth:client-assertion-type:saml2-bearer", "jwt-bearer", "x")})
			}
			pres = "cross:" + xHdr
			l.S("x.hdr", xHdr).S("x.id", xID).S("x.sec", xSec).S("x.as", xAs).S("x.at", xAt)
			stats["x-hdr-"+xHdr]++
			stats["x-id-"+xID]++
			stats["x-sec-"+xSec]++
			stats["x-as-"+xAs]++
			stats["x-at-"+xAt]++
			if xAs == "none" || xAs == "empty" {
				secretless := (xHdr == "none" && (xSec == "none" || xSec == "empty")) || xHdr == "empty"
				if secretless && xAt != "none" {
					stats["x-partial-type-without-assertion-or-secret"]++
				}
				if secretless {
					stats["x-no-secret-no-assertion"]++
				}
			}
		} else {
			pres = hx.Pick(r, "right", "right", "right", "right", "basic-right", "post-right", "basic-wrong", "post-wrong", "basic-empty", "post-empty",
				"none", "id-only", "other-secret", "other-client", "basic+form-same", "basic+form-diff", "basic-wrong+form-public", "query-creds", "query-id",
				"basic-malformed", "basic-unescaped", "assertion-right", "assertion-wrong-key", "assertion-expired", "assertion-wrong-type",
				"assertion-no-type", "assertion-garbage", "assertion+basic-wrong", "unknown-client", "dup-client-id", "cc-grant-param")
			if prePres != "right" && r.Chance(70) {
				pres = prePres // the presentation the material was prepared for
			}
			if forceRight {
				pres = "right"
			}
			id, sec := presenter.c.ID, presSecret(presenter)
			setAssertion := func(a, typ string) {
				q.assertion = a
				q.body = append(q.body, [2]string{"client_assertion", a})
				if typ != "" {
					q.body = append(q.body, [2]string{"client_assertion_type", typ})
				}
			}
			akey, akid := presenter.key, presenter.kid
			if akey == nil {
				akey, akid = pk.key, pk.kid // an assertion naming a client that has no registered key
			}
			switch pres {
			case "right":
				switch presAuth(presenter) {
				case oidc.AuthMethodNone:
					q.body = append(q.body, [2]string{"client_id", id})
				case oidc.AuthMethodPrivateKeyJWT:
					setAssertion(mkAssertion(akey, akid, id, nowS-5, nowS+300), oidc.ClientAssertionTypeJWTAssertion)
				case oidc.AuthMethodPost:
					q.body = append(q.body, [2]string{"client_id", id}, [2]string{"client_secret", sec})
				default:
					q.basic(id, sec)
				}
			case "basic-right":
				q.basic(id, sec)
			case "post-right":
				q.body = append(q.body, [2]string{"client_id", id}, [2]string{"client_secret", sec})
			case "basic-wrong":
				q.basic(id, hx.Pick(r, "wrong", sec+"x", "secret-web"))
			case "post-wrong":
				q.body = append(q.body, [2]string{"client_id", id}, [2]string{"client_secret", hx.Pick(r, "wrong", sec+"x", "secret-web")})
			case "basic-empty":
				q.basic(id, "")
			case "post-empty":
				q.body = append(q.body, [2]string{"client_id", id}, [2]string{"client_secret", ""})
			case "none":
			case "id-only":
				q.body = append(q.body, [2]string{"client_id", id})
			case "other-secret":
				if r.Bool() {
					q.basic(id, other.c.Secret)
				} else {
					q.body = append(q.body, [2]string{"client_id", id}, [2]string{"client_secret", other.c.Secret})
				}
			case "other-client":
				q.basic(other.c.ID, other.c.Secret)
			case "basic+form-same":
				q.basic(id, hx.Pick(r, sec, sec, "wrong"))
				q.body = append(q.body, [2]string{"client_id", id})
			case "basic+form-diff":
				q.basic(other.c.ID, hx.Pick(r, other.c.Secret, "wrong"))
				q.body = append(q.body, [2]string{"client_id", id})
				if r.Bool() {
					q.body = append(q.body, [2]string{"client_secret", sec})
				}
			case "basic-wrong+form-public":
				// a confidential client in the Basic header with a wrong secret, the material's (public) client in the form
				conf := byID[hx.Pick(r, "web", "web2", "natsec", "post")]
				q.basic(conf.c.ID, hx.Pick(r, "wrong", ""))
				q.body = append(q.body, [2]string{"client_id", target.c.ID})
			case "query-creds":
				q.query = append(q.query, [2]string{"client_id", id}, [2]string{"client_secret", sec})
			case "query-id":
				q.query = append(q.query, [2]string{"client_id", id})
			case "basic-malformed":
				q.hasBasic, q.authRaw = true, hx.Pick(r, id+"%zz:"+url.QueryEscape(sec), url.QueryEscape(id)+":"+sec+"%", id+"%2")
			case "basic-unescaped":
				q.hasBasic, q.authRaw = true, id+":"+sec // not form-urlencoded: `+` and `%` change under QueryUnescape
			case "assertion-right":
				setAssertion(mkAssertion(akey, akid, id, nowS-5, nowS+300), oidc.ClientAssertionTypeJWTAssertion)
			case "assertion-wrong-key":
				setAssertion(mkAssertion(hx.Keys()[3], akid, id, nowS-5, nowS+300), oidc.ClientAssertionTypeJWTAssertion)
			case "assertion-expired":
				setAssertion(mkAssertion(akey, akid, id, nowS-4000, nowS-100), oidc.ClientAssertionTypeJWTAssertion)
			case "assertion-wrong-type":
				setAssertion(mkAssertion(akey, akid, id, nowS-5, nowS+300), "urn:ietf:params:oauth:client-assertion-type:saml2-bearer")
			case "assertion-no-type":
				setAssertion(mkAssertion(akey, akid, id, nowS-5, nowS+300), "")
			case "assertion-garbage":
				setAssertion("garbage", oidc.ClientAssertionTypeJWTAssertion)
			case "assertion+basic-wrong":
				setAssertion(mkAssertion(akey, akid, id, nowS-5, nowS+300), oidc.ClientAssertionTypeJWTAssertion)
				q.basic(hx.Pick(r, id, "web"), "wrong")
			case "unknown-client":
				q.basic("nobody", "x")
			case "cc-grant-param":
				// grant_type=client_credentials as an extra parameter of a non-token request (the Server router's VerifyClient keys on it)
				q.body = append(q.body, [2]string{"client_id", id}, [2]string{"client_secret", sec})
				if endpoint != "token" {
					q.body = append(q.body, [2]string{"grant_type", gCC})
				}
			case "dup-client-id":
				q.body = append(q.body, [2]string{"client_id", other.c.ID}, [2]string{"client_id", id}, [2]string{"client_secret", sec})
			}
		}
		// where grant_type travels
		place := "body"
		if endpoint == "token" && grant != "" {
			k := r.Intn(100)
			if stripped && r.Chance(45) {
				k = 0 // the registration lacks the grant: the registered-grant check must see grant_type wherever it travels
			}
			switch {
			case k < 14:
				place = "query"
				var nb [][2]string
				for _, p := range q.body {
					if p[0] != "grant_type" {
						nb = append(nb, p)
					}
				}
				q.body = nb
				q.query = append(q.query, [2]string{"grant_type", grant})
			case k < 18:
				place = "body+query-differ"
				q.query = append(q.query, [2]string{"grant_type", hx.Pick(r, gCode, gRT, gDevice)})
			}
		}
		if r.Chance(3) {
			q.rawBody = "x=%zz" // net/http's ParseForm reports an error (and keeps the pairs it could parse)
		}
		l.S("pres", pres).S("presenter", presenter.c.ID).S("target", target.c.ID).S("material", material).S("grant.place", place).B("stripped", stripped)
		q.describe(sy, l)

		waitClearOfSecondEdge()
		t0 := time.Now()
		before := len(st.TokenIDs())
		resp := bed.Do(q.build())
		t1 := time.Now()
		l.I("now0", t0.UnixNano()).I("now1", t1.UnixNano())
		success, actor := false, ""
		jarg := func(prefix string, k int) string {
			for _, j := range resp.Journal {
				if strings.HasPrefix(j, prefix+"(") {
					args := strings.Split(strings.TrimSuffix(strings.TrimPrefix(j, prefix+"("), ")"), ",")
					if k < len(args) {
						return args[k]
					}
				}
			}
			return ""
		}
		reached := false
		switch {
		case resp.Panicked:
		case endpoint == "introspect":
			if a, ok := resp.JSON["active"].(bool); ok && a && resp.Status == 200 {
				success = true
			}
			actor = jarg("SetIntrospectionFromToken", 2)
			reached = actor != ""
		case endpoint == "revoke":
			actor = jarg("RevokeToken", 2)
			reached = actor != "" || jarg("GetRefreshTokenInfo", 0) != ""
			if reached && actor == "" {
				actor = jarg("GetRefreshTokenInfo", 0)
			}
			success = jarg("RevokeToken", 2) != "" && resp.Status == 200
		case endpoint == "device_authorization":
			success = resp.Status == 200 && resp.Str("device_code") != ""
			actor = jarg("StoreDeviceAuthorization", 0)
			reached = actor != ""
		default:
			success = resp.Status == 200 && (resp.Str("access_token") != "" || resp.Str("id_token") != "")
			for _, m := range []string{"CreateAccessToken", "CreateAccessAndRefreshTokens"} {
				if kind := jarg(m, 0); kind != "" {
					reached = true
					actor = jarg(m, 1)
					if kind == "cc" || kind == "jwt" {
						actor = jarg(m, 2) // these token requests carry no client id: the subject is the client
					}
				}
			}
			if len(st.TokenIDs()) > before && resp.Status != 200 {
				l.B("o.orphan", true) // tokens were created although the request was refused
			}
		}
		_, isErrDoc := resp.JSON["error"]
		if resp.Panicked {
			l.S("obs", "panic")
		} else {
			l.S("obs", "done")
		}
		l.I("o.status", int64(resp.Status)).B("o.success", success).B("o.errdoc", isErrDoc).S("o.err", resp.OAuthError()).S("o.actor", actor)
		eg := endpoint
		if grant != "" || endpoint == "token" {
			eg += "-" + shortGrant(grant)
		}
		stats["endpoint-"+eg]++
		stats["router-"+router]++
		if compareOnly {
			stats["storage-compares-secret-only"]++
		} else {
			stats["storage-checks-auth-method"]++
		}
		stats["registration-"+string(presenter.c.Auth)+"-"+fmt.Sprint(int(presenter.c.App))]++
		stats["pres-"+pres]++
		stats["material-"+material]++
		if reached {
			stats["reached-grant-logic-"+eg]++
		}
		genuine := material != "none"
		if genuine && !success {
			stats["genuine-material-refused-"+eg]++
		}
		if success {
			stats["success"]++
			stats["success-"+eg]++
		} else {
			stats["refused-"+resp.OAuthError()]++
		}
		fmt.Fprintln(w, l.String())

		// ---- second step of a device flow STARTED AT THE PROVIDER UNDER TEST: the user approves the user code, then the client the
		// device authorization was stored for polls the token endpoint, authenticating the way it is registered (an unknown one: bare id)
		if endpoint == "device_authorization" && success && actor != "" {
			dc, uc := resp.Str("device_code"), resp.Str("user_code")
			if st.ApproveDevice(uc, "user1") != nil {
				continue
			}
			l2 := head(n+i, "token").S("dev.code", dc).S("dev.client", actor).B("dev.done", true)
			clientsKV(l2, cls)
			q2 := &c05Req{path: "/oauth/token", body: [][2]string{{"grant_type", gDevice}, {"device_code", dc}}}
			poller := byID[actor]
			switch {
			case poller == nil || poller.c.Auth == oidc.AuthMethodNone || (poller.c.Auth == oidc.AuthMethodPrivateKeyJWT && poller.key == nil):
				// (a client switched to private_key_jwt that has no registered key cannot authenticate: bare id)
				q2.body = append(q2.body, [2]string{"client_id", actor})
			case poller.c.Auth == oidc.AuthMethodPrivateKeyJWT:
				q2.assertion = mkAssertion(poller.key, poller.kid, actor, nowS-5, nowS+300)
				q2.body = append(q2.body, [2]string{"client_assertion", q2.assertion}, [2]string{"client_assertion_type", oidc.ClientAssertionTypeJWTAssertion})
			case poller.c.Auth == oidc.AuthMethodPost:
				q2.body = append(q2.body, [2]string{"client_id", actor}, [2]string{"client_secret", poller.c.Secret})
			default:
				q2.basic(actor, poller.c.Secret)
			}
			l2.S("pres", "poll-after-device-authorization").S("presenter", actor).S("target", actor).S("material", "approved-device-code-of-this-provider").S("grant.place", "body").B("stripped", false)
			q2.describe(sy, l2)
			waitClearOfSecondEdge()
			t0 := time.Now()
			resp2 := bed.Do(q2.build())
			l2.I("now0", t0.UnixNano()).I("now1", time.Now().UnixNano())
			success2 := resp2.Status == 200 && (resp2.Str("access_token") != "" || resp2.Str("id_token") != "")
			actor2 := ""
			for _, j := range resp2.Journal {
				for _, m := range []string{"CreateAccessToken(", "CreateAccessAndRefreshTokens("} {
					if strings.HasPrefix(j, m) {
						if args := strings.Split(strings.TrimSuffix(strings.TrimPrefix(j, m), ")"), ","); len(args) > 1 {
							actor2 = args[1]
						}
					}
				}
			}
			_, isErrDoc2 := resp2.JSON["error"]
			if resp2.Panicked {
				l2.S("obs", "panic")
			} else {
				l2.S("obs", "done")
			}
			l2.I("o.status", int64(resp2.Status)).B("o.success", success2).B("o.errdoc", isErrDoc2).S("o.err", resp2.OAuthError()).S("o.actor", actor2)
			stats["history-device-authorization+approval+poll"]++
			if success2 {
				stats["history-poll-success"]++
			} else {
				stats["history-poll-refused-"+resp2.OAuthError()]++
			}
			fmt.Fprintln(w, l2.String())
		}
	}
	return stats
}

// bedTokenID: the storage id of an opaque access token handed out by the provider ("" if it does not decrypt)
func bedTokenID(b *opbed.Bed, tok string) string {
	plain, err := b.Provider.Crypto().Decrypt(tok)
	if err != nil {
		return ""
	}
	return strings.SplitN(plain, ":", 2)[0]
}

func shortGrant(g string) string {
	if i := strings.LastIndex(g, ":"); i >= 0 {
		return g[i+1:]
	}
	if g == "" {
		return "none"
	}
	return g
}
