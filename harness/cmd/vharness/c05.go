package main

import (
	"bufio"
	"encoding/json"
	"fmt"
	"net/url"
	"strings"
	"time"

	"github.com/zitadel/oidc/v3/pkg/oidc"

	"verifharness/internal/hx"
	"verifharness/internal/opbed"
	"verifharness/internal/refstore"
)

func init() { streams["C05"] = c05Stream }

// runCodeFlow drives authorize -> login -> callback for client fc and returns (code, verifier)
func runCodeFlow(bed *opbed.Bed, fc *flowClient, scopes string) (code, verifier, redirect string) {
	redirect = fc.c.Redirects[0]
	q := url.Values{"client_id": {fc.c.ID}, "redirect_uri": {redirect}, "response_type": {"code"}, "scope": {scopes}, "state": {"st"}}
	if fc.c.Auth == oidc.AuthMethodNone {
		verifier = "verifier-CCCCCCCCCCCCCCCCCCCCCCCCCCCCCCCCCCCCCCCCCCC"
		q.Set("code_challenge", oidc.NewSHACodeChallenge(verifier))
		q.Set("code_challenge_method", "S256")
	}
	resp := bed.Do(bed.Get("/authorize", q, ""))
	if resp.Loc == nil {
		return "", "", redirect
	}
	id := resp.Loc.Query().Get("authRequestID")
	if id == "" {
		return "", "", redirect
	}
	bed.Store.CompleteAuthRequest(id, "user1")
	cb := bed.Do(bed.Get("/authorize/callback", url.Values{"id": {id}}, ""))
	if cb.Loc != nil {
		code = cb.Loc.Query().Get("code")
	}
	return code, verifier, redirect
}

// ownAuth returns the correct credentials of a client (for preparing artefacts)
func ownAuth(sy *symbols, fc *flowClient) opbed.Auth {
	switch fc.c.Auth {
	case oidc.AuthMethodNone:
		return opbed.Auth{Kind: "id-only", ID: fc.c.ID}
	case oidc.AuthMethodPrivateKeyJWT:
		now := time.Now().Unix()
		l := hx.NewLine("x")
		return opbed.Auth{Kind: "assertion", Assertion: assertion(sy, l, fc.key, fc.kid, fc.c.ID, fc.c.ID, []string{opbed.Issuer}, now-5, now+300)}
	case oidc.AuthMethodPost:
		return opbed.Auth{Kind: "post", ID: fc.c.ID, Secret: fc.c.Secret}
	}
	return opbed.Auth{Kind: "basic", ID: fc.c.ID, Secret: fc.c.Secret}
}

func c05Stream(r *hx.Rand, tier string, n int, w *bufio.Writer) map[string]int {
	if n == 0 {
		n = 2500
		if tier == "thorough" {
			n = 40000
		}
	}
	stats := map[string]int{}
	sy := newSymbols()
	grants := []string{"authorization_code", "refresh_token", "client_credentials", "urn:ietf:params:oauth:grant-type:jwt-bearer",
		"urn:ietf:params:oauth:grant-type:token-exchange", "urn:ietf:params:oauth:grant-type:device_code"}
	endpoints := []string{"token", "token", "token", "token", "introspect", "revoke", "device_authorization"}
	for i := 0; i < n; i++ {
		router := hx.Pick(r, "provider", "legacy")
		cfg := opbed.Config{Router: router, S256: true, Post: r.Chance(60), PrivateKeyJWT: r.Chance(75), Refresh: r.Chance(75),
			Caps: refstore.Caps{CC: r.Chance(75), TE: r.Chance(75), Device: r.Chance(75)}}
		bed, err := opbed.New(cfg)
		if err != nil {
			panic(err)
		}
		cls := flowClients()
		// one more registration: a client without the token-exchange / client-credentials / device grants
		limited := opbed.WebClient("limited", "secret-lim", "https://rp.example/cb")
		limited.Grants = []oidc.GrantType{oidc.GrantTypeCode, oidc.GrantTypeRefreshToken}
		cls = append(cls, &flowClient{c: limited})
		// a native application that is nevertheless registered with a secret
		natsec := opbed.NativeClient("natsec", "https://rp.example/cb")
		natsec.Auth, natsec.Secret = oidc.AuthMethodBasic, "secret-nat"
		natsec.Grants = append(natsec.Grants, oidc.GrantTypeTokenExchange)
		cls = append(cls, &flowClient{c: natsec})
		for _, fc := range cls {
			bed.Store.AddClient(fc.c)
		}
		bed.Store.AddUser("user1", nil)
		endpoint := hx.Pick(r, endpoints...)
		grant := ""
		if endpoint == "token" {
			grant = hx.Pick(r, grants...)
		}
		target := cls[r.Intn(len(cls))] // the client the artefacts belong to and (usually) the presenter claims to be

		l := hx.NewLine("C05").I("case", int64(i)).S("router", router).B("post", cfg.Post).B("pkjwt", cfg.PrivateKeyJWT).B("refresh", cfg.Refresh).
			B("cap.cc", cfg.Caps.CC).B("cap.te", cfg.Caps.TE).B("cap.device", cfg.Caps.Device).S("issuer", opbed.Issuer).S("endpoint", endpoint).S("grant", grant)
		clientsKV(l, cls)

		// ---- artefacts that are valid for `target`, so that only authentication / grant registration decide
		form := url.Values{}
		path := "/oauth/token"
		var accessTok, refreshTok string
		needTokens := endpoint == "introspect" || endpoint == "revoke" || grant == "refresh_token" || strings.HasSuffix(grant, "token-exchange")
		if needTokens || grant == "authorization_code" {
			code, verifier, redirect := runCodeFlow(bed, target, "openid offline_access")
			if needTokens {
				f := url.Values{"grant_type": {"authorization_code"}, "code": {code}, "redirect_uri": {redirect}}
				if verifier != "" {
					f.Set("code_verifier", verifier)
				}
				resp := bed.Do(bed.Form("/oauth/token", f, ownAuth(sy, target)))
				accessTok, refreshTok = resp.Str("access_token"), resp.Str("refresh_token")
			} else {
				form.Set("code", code)
				form.Set("redirect_uri", redirect)
				if verifier != "" {
					form.Set("code_verifier", verifier)
				}
			}
		}
		switch {
		case endpoint == "introspect":
			path = "/oauth/introspect"
			form.Set("token", accessTok)
		case endpoint == "revoke":
			path = "/revoke"
			form.Set("token", accessTok)
		case endpoint == "device_authorization":
			path = "/device_authorization"
			form.Set("scope", "openid")
		default:
			form.Set("grant_type", grant)
			switch grant {
			case "refresh_token":
				form.Set("refresh_token", refreshTok)
			case "client_credentials":
				form.Set("scope", "openid")
			case "urn:ietf:params:oauth:grant-type:jwt-bearer":
				// handled below: the grant itself is an assertion
			case "urn:ietf:params:oauth:grant-type:token-exchange":
				form.Set("subject_token", refreshTok)
				form.Set("subject_token_type", string(oidc.RefreshTokenType))
				form.Set("requested_token_type", string(oidc.AccessTokenType))
			case "urn:ietf:params:oauth:grant-type:device_code":
				// a device authorization approved for target
				da := bed.Do(bed.Form("/device_authorization", url.Values{"scope": {"openid"}}, ownAuth(sy, target)))
				dc, uc := da.Str("device_code"), da.Str("user_code")
				if uc != "" {
					bed.Store.ApproveDevice(uc, "user1")
				}
				form.Set("device_code", dc)
			}
		}

		// ---- the presentation under test
		presenter := target
		if r.Chance(12) {
			presenter = cls[r.Intn(len(cls))]
		}
		var auth opbed.Auth
		pres := hx.Pick(r, "right", "right", "right", "wrong-secret", "none", "id-only", "post", "malformed-basic", "bad-assertion", "unknown-client")
		l.S("pres", pres).S("caller", presenter.c.ID)
		if grant == "urn:ietf:params:oauth:grant-type:jwt-bearer" {
			// the assertion is the grant; signer = a client with registered keys (pk) or someone else
			now := time.Now().Unix()
			key, kid, iss := cls[4].key, cls[4].kid, "pk"
			switch pres {
			case "wrong-secret", "bad-assertion":
				key = hx.Keys()[3]
			case "unknown-client":
				iss = "nobody"
			case "none":
				key = nil
			}
			if key != nil {
				tok := assertion(sy, l, key, kid, iss, iss, []string{opbed.Issuer}, now-5, now+300)
				form.Set("assertion", tok)
				l.S("auth", "assertion")
			} else {
				l.S("auth", "none")
			}
			auth = opbed.Auth{Kind: "none"}
		} else {
			switch pres {
			case "right":
				auth = ownAuth(sy, presenter)
				if auth.Kind == "assertion" {
					// describe the assertion on the line
					now := time.Now().Unix()
					auth.Assertion = assertion(sy, l, presenter.key, presenter.kid, presenter.c.ID, presenter.c.ID, []string{opbed.Issuer}, now-5, now+300)
				}
			case "wrong-secret":
				auth = opbed.Auth{Kind: hx.Pick(r, "basic", "post"), ID: presenter.c.ID, Secret: hx.Pick(r, "wrong", "", "secret-web")}
			case "none":
				auth = opbed.Auth{Kind: "none"}
			case "id-only":
				auth = opbed.Auth{Kind: "id-only", ID: presenter.c.ID}
			case "post":
				auth = opbed.Auth{Kind: "post", ID: presenter.c.ID, Secret: presenter.c.Secret}
			case "malformed-basic":
				auth = opbed.Auth{Kind: "basic-raw", Raw: presenter.c.ID + "%zz:" + presenter.c.Secret}
			case "bad-assertion":
				now := time.Now().Unix()
				key, iss, exp := hx.Keys()[3], presenter.c.ID, now+300
				if r.Chance(40) && presenter.key != nil {
					key, exp = presenter.key, now-100
				}
				auth = opbed.Auth{Kind: "assertion", Assertion: assertion(sy, l, key, "pk1", iss, iss, []string{opbed.Issuer}, now-200, exp)}
			case "unknown-client":
				auth = opbed.Auth{Kind: "basic", ID: "nobody", Secret: "x"}
			}
			l.S("auth", auth.Kind).S("cid", auth.ID).S("secret", auth.Secret)
			if auth.Kind == "basic-raw" {
				l.S("cid", "").S("malformed", "1")
			}
		}
		if endpoint == "token" && r.Chance(15) {
			// grant_type carried in the URL query instead of the body
			path += "?grant_type=" + url.QueryEscape(grant)
			form.Del("grant_type")
			l.B("grant.in.query", true)
		}
		waitClearOfSecondEdge()
		t0 := time.Now()
		before := len(bed.Store.TokenIDs())
		resp := bed.Do(bed.Form(path, form, auth))
		t1 := time.Now()
		l.I("now0", t0.UnixNano()).I("now1", t1.UnixNano())
		success := false
		switch {
		case resp.Panicked:
		case endpoint == "introspect":
			if a, ok := resp.JSON["active"].(bool); ok && a && resp.Status == 200 {
				success = true
			}
		case endpoint == "revoke":
			for _, j := range resp.Journal {
				if strings.HasPrefix(j, "RevokeToken(") && resp.Status == 200 {
					success = true
				}
			}
		case endpoint == "device_authorization":
			success = resp.Status == 200 && resp.Str("device_code") != ""
		default:
			success = resp.Status == 200 && (resp.Str("access_token") != "" || resp.Str("id_token") != "")
			if len(bed.Store.TokenIDs()) > before && resp.Status != 200 {
				l.B("o.orphan", true) // tokens were created although the request was refused
			}
		}
		_, isErrDoc := resp.JSON["error"]
		if resp.Panicked {
			l.S("obs", "panic")
		} else {
			l.S("obs", "done")
		}
		l.I("o.status", int64(resp.Status)).B("o.success", success).B("o.errdoc", isErrDoc).S("o.err", resp.OAuthError())
		b, _ := json.Marshal(resp.Journal)
		_ = b
		stats["endpoint-"+endpoint+"-"+shortGrant(grant)]++
		if success {
			stats["success"]++
		} else {
			stats["refused-"+resp.OAuthError()]++
		}
		fmt.Fprintln(w, l.String())
	}
	return stats
}

func shortGrant(g string) string {
	if i := strings.LastIndex(g, ":"); i >= 0 {
		return g[i+1:]
	}
	return g
}
