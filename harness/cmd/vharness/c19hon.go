package main

// C19, fourth layer (kind=honour): "every advertised PKCE method and advertised request-object support is actually honoured by the
// endpoints", decided END TO END for one authorization-code flow per case.
//
// One provider per case: router {provider, legacy} x CodeMethodS256 x RequestObjectSupported x issuer strategy (all variants of the config
// stream: static with/without path, http+insecure, from host, from Forwarded) x endpoint profile {default, custom paths} x client
// {confidential web, public user-agent}.  The discovery document is fetched from THAT provider (what it advertises).  The client then runs the
// full flow  authorize -> login -> callback -> token  with every parameter a request object may carry
//     scope redirect_uri state nonce response_mode display prompt max_age ui_locales id_token_hint login_hint acr_values
// placed, independently per parameter, in the query only | inside the signed request object only | in both with the same value | in both with
// DIFFERENT values | nowhere, and with the PKCE parameters placed as one of
//     none | query | object | both-agree | both-method-differs (object S256, query plain or none) | both-challenge-differs |
//     object-challenge+query-method | object-method+query-challenge | query-s256+object-plain
// for method S256 (mostly), plain, or no method, the challenge being the image of the client's verifier (mostly) or of another one.
// Observed: the authorization endpoint's answer; the *oidc.AuthRequest the storage was handed (a recording wrapper around the reference
// storage: every field, also those the reference storage does not keep); and the token endpoint's status for the code of FOUR runs of the same
// request: with the right verifier, a wrong one, the entitled challenge string itself as verifier, and no verifier.
// Challenges travel on the line in the model's symbolic form (`S256(<verifier>)`), id_token_hints as hintA / hintB.

import (
	"context"
	"encoding/json"
	"fmt"
	"net/http"
	"net/url"
	"strconv"
	"strings"

	"github.com/zitadel/oidc/v3/pkg/oidc"
	"github.com/zitadel/oidc/v3/pkg/op"

	"verifharness/internal/hx"
	"verifharness/internal/opbed"
	"verifharness/internal/refstore"
)

const c19Redirect2 = "https://rp.example/cb2"

// c19Recorder records the authorization request the library hands to the storage
type c19Recorder struct {
	op.Storage
	last *oidc.AuthRequest
	user string
	n    int
}

func (s *c19Recorder) CreateAuthRequest(ctx context.Context, r *oidc.AuthRequest, userID string) (op.AuthRequest, error) {
	cp := *r
	s.last, s.user = &cp, userID
	s.n++
	return s.Storage.CreateAuthRequest(ctx, r, userID)
}

// the parameters that may travel either way
type c19Params struct {
	Scopes                                               []string
	RedirectURI, State, Nonce, ResponseMode, Display     string
	Prompt                                               []string
	MaxAge                                               *uint
	UILocales                                            []string
	IDTokenHint, LoginHint                               string
	ACRValues                                            []string
	CodeChallenge, CodeChallengeMethod                   string
}

func (p c19Params) query(q url.Values) {
	set := func(k, v string) {
		if v != "" {
			q.Set(k, v)
		}
	}
	set("scope", strings.Join(p.Scopes, " "))
	set("redirect_uri", p.RedirectURI)
	set("state", p.State)
	set("nonce", p.Nonce)
	set("response_mode", p.ResponseMode)
	set("display", p.Display)
	set("prompt", strings.Join(p.Prompt, " "))
	if p.MaxAge != nil {
		q.Set("max_age", strconv.FormatUint(uint64(*p.MaxAge), 10))
	}
	set("ui_locales", strings.Join(p.UILocales, " "))
	set("id_token_hint", p.IDTokenHint)
	set("login_hint", p.LoginHint)
	set("acr_values", strings.Join(p.ACRValues, " "))
	set("code_challenge", p.CodeChallenge)
	set("code_challenge_method", p.CodeChallengeMethod)
}

func (p c19Params) claims(m map[string]any) {
	set := func(k, v string) {
		if v != "" {
			m[k] = v
		}
	}
	set("scope", strings.Join(p.Scopes, " "))
	set("redirect_uri", p.RedirectURI)
	set("state", p.State)
	set("nonce", p.Nonce)
	set("response_mode", p.ResponseMode)
	set("display", p.Display)
	set("prompt", strings.Join(p.Prompt, " "))
	if p.MaxAge != nil {
		m["max_age"] = *p.MaxAge
	}
	set("ui_locales", strings.Join(p.UILocales, " "))
	set("id_token_hint", p.IDTokenHint)
	set("login_hint", p.LoginHint)
	set("acr_values", strings.Join(p.ACRValues, " "))
	set("code_challenge", p.CodeChallenge)
	set("code_challenge_method", p.CodeChallengeMethod)
}

// kv writes the parameters in the line's (symbolic) form
func (p c19Params) kv(l *hx.Line, pre string, sym func(string) string) {
	l.L(pre+"scope", p.Scopes).S(pre+"redirect_uri", p.RedirectURI).S(pre+"state", p.State).S(pre+"nonce", p.Nonce).
		S(pre+"response_mode", p.ResponseMode).S(pre+"display", p.Display).L(pre+"prompt", p.Prompt)
	if p.MaxAge != nil {
		l.I(pre+"max_age", int64(*p.MaxAge))
	}
	l.L(pre+"ui_locales", p.UILocales).S(pre+"id_token_hint", sym(p.IDTokenHint)).S(pre+"login_hint", p.LoginHint).L(pre+"acr_values", p.ACRValues).
		S(pre+"cc", sym(p.CodeChallenge)).S(pre+"ccm", p.CodeChallengeMethod)
}

func c19ParamsOf(a *oidc.AuthRequest) c19Params {
	p := c19Params{Scopes: []string(a.Scopes), RedirectURI: a.RedirectURI, State: a.State, Nonce: a.Nonce, ResponseMode: string(a.ResponseMode),
		Display: string(a.Display), Prompt: []string(a.Prompt), MaxAge: a.MaxAge, IDTokenHint: a.IDTokenHint, LoginHint: a.LoginHint,
		ACRValues: []string(a.ACRValues), CodeChallenge: a.CodeChallenge, CodeChallengeMethod: string(a.CodeChallengeMethod)}
	for _, t := range a.UILocales {
		p.UILocales = append(p.UILocales, t.String())
	}
	return p
}

func c19RandomVerifier(r *hx.Rand) string {
	const abc = "abcdefghijklmnopqrstuvwxyzABCDEFGHIJKLMNOPQRSTUVWXYZ0123456789"
	b := make([]byte, 43+r.Intn(10))
	for i := range b {
		b[i] = abc[r.Intn(len(abc))]
	}
	return string(b)
}

func c19RunHonour(r *hx.Rand, caseNo int, stats map[string]int) *hx.Line {
	*op.DefaultEndpoints = c19Pristine
	router := hx.Pick(r, "provider", "legacy")
	legacy := router == "legacy"
	s256, reqobj := !r.Chance(15), !r.Chance(20)
	issuers := c19IssuerVariants()
	is := issuers[0]
	if r.Chance(45) {
		is = issuers[r.Intn(len(issuers))]
	}
	profile := hx.Pick(r, 0, 0, 1)
	eps := c19EndpointSet(r, profile, legacy)
	var opts []op.Option
	if legacy {
		opts = c19ProviderOptions(r, c19EndpointSet(r, 0, false))
	} else {
		opts = c19ProviderOptions(r, eps)
	}
	if is.Insecure {
		opts = append(opts, op.WithAllowInsecure())
	}
	rec := &c19Recorder{}
	bc := opbed.Config{Router: router, S256: s256, RequestObject: reqobj, Refresh: r.Bool(), Post: r.Bool(), Options: opts, IssuerFn: is.fn(),
		WrapStorage: func(s op.Storage) op.Storage { rec.Storage = s; return rec }}
	if legacy {
		ep := eps.endpoints()
		bc.Endpoints = &ep
	}
	public := r.Chance(30)
	clientKind := "confidential"
	if public {
		clientKind = "public"
	}
	l := hx.NewLine("C19").I("case", int64(caseNo)).S("kind", "honour").S("router", router).B("f.s256", s256).B("f.reqobj", reqobj).
		B("insecure", is.Insecure).I("profile", int64(profile)).S("is.kind", is.Kind).S("is.arg", is.Arg).S("host", is.Host).S("client", clientKind)
	var bed *opbed.Bed
	var err error
	func() {
		defer func() {
			if p := recover(); p != nil {
				err = fmt.Errorf("panic: %v", p)
			}
		}()
		bed, err = opbed.New(bc)
	}()
	if err != nil {
		stats["construct-failed"]++
		return l.S("obs", "panic").S("o.err", err.Error())
	}
	ec := hx.Keys()[2]
	var probe *refstore.Client
	auth := opbed.Auth{Kind: "basic", ID: "probe", Secret: "probe-secret"}
	if public {
		probe = &refstore.Client{ID: "probe", App: op.ApplicationTypeUserAgent, Auth: oidc.AuthMethodNone, Redirects: []string{c19Redirect, c19Redirect2},
			RespTypes: []oidc.ResponseType{oidc.ResponseTypeCode}, Grants: []oidc.GrantType{oidc.GrantTypeCode, oidc.GrantTypeRefreshToken}}
		auth = opbed.Auth{Kind: "id-only", ID: "probe"}
	} else {
		probe = opbed.WebClient("probe", "probe-secret", c19Redirect, c19Redirect2)
	}
	probe.Keys = []refstore.ClientKey{{Kid: "ro1", Pub: ec.Pub}}
	bed.Store.AddClient(probe)
	bed.Store.AddClient(opbed.WebClient("hinter", "hinter-secret", c19Redirect))
	bed.Store.AddUser("user1", nil)
	do := func(req *http.Request) *opbed.Resp { return bed.Do(is.decorate(req)) }

	// ---- what the provider advertises
	dresp := do(bed.Get(oidc.DiscoveryEndpoint, nil, ""))
	if dresp.Panicked {
		return l.S("obs", "panic")
	}
	doc := new(oidc.DiscoveryConfiguration)
	json.Unmarshal(dresp.Body, doc)
	var advPkce []string
	for _, m := range doc.CodeChallengeMethodsSupported {
		advPkce = append(advPkce, string(m))
	}
	l.S("obs", "ok").I("d.status", int64(dresp.Status)).S("d.issuer", doc.Issuer).L("d.pkce", advPkce).B("d.reqobj", doc.RequestParameterSupported)
	authPath, tokenPath := c19RelPath(eps["Authorization"].Path), c19RelPath(eps["Token"].Path)

	codeOf := func(loc *url.URL) string {
		if loc == nil {
			return ""
		}
		if c := loc.Query().Get("code"); c != "" {
			return c
		}
		if f, err := url.ParseQuery(loc.Fragment); err == nil {
			return f.Get("code")
		}
		return ""
	}
	// ---- two genuine id_tokens of the provider (id_token_hint values), through a plain flow of another client
	sym := map[string]string{}
	hints := []string{}
	for _, name := range []string{"hintA", "hintB"} {
		q := url.Values{"client_id": {"hinter"}, "redirect_uri": {c19Redirect}, "response_type": {"code"}, "scope": {"openid"}, "state": {"h"}}
		resp := do(bed.Get(authPath, q, ""))
		if resp.Loc == nil || !strings.HasPrefix(resp.Loc.Path, "/login") {
			return l.S("obs", "panic").S("o.err", "hint flow: authorize")
		}
		id := resp.Loc.Query().Get("authRequestID")
		bed.Store.CompleteAuthRequest(id, "user1")
		resp = do(bed.Get(authPath+"/callback", url.Values{"id": {id}}, ""))
		f := url.Values{"grant_type": {string(oidc.GrantTypeCode)}, "code": {codeOf(resp.Loc)}, "redirect_uri": {c19Redirect}}
		resp = do(bed.Form(tokenPath, f, opbed.Auth{Kind: "basic", ID: "hinter", Secret: "hinter-secret"}))
		tok := resp.Str("id_token")
		if resp.Status != 200 || tok == "" {
			return l.S("obs", "panic").S("o.err", "hint flow: token")
		}
		sym[tok] = name
		hints = append(hints, tok)
	}

	// ---- the request
	hasObj := !r.Chance(20)
	var q, o c19Params
	// where one parameter goes: 0 nowhere, 1 query, 2 object, 3 both same, 4 both different
	place := func() int {
		p := hx.Pick(r, 0, 1, 2, 2, 3, 4, 4)
		if !hasObj && p >= 2 {
			p = 1
		}
		return p
	}
	putS := func(qf, of *string, a, b string) {
		switch place() {
		case 1:
			*qf = a
		case 2:
			*of = a
		case 3:
			*qf, *of = a, a
		case 4:
			*qf, *of = b, a
		}
	}
	putL := func(qf, of *[]string, a, b []string) {
		switch place() {
		case 1:
			*qf = a
		case 2:
			*of = a
		case 3:
			*qf, *of = a, a
		case 4:
			*qf, *of = b, a
		}
	}
	// scope: the query carries openid (OIDC Core 6.1) except in a few cases
	q.Scopes = hx.Pick(r, []string{"openid"}, []string{"openid", "profile"}, []string{"openid", "email", "phone"}, []string{"openid", "offline_access"})
	if r.Chance(6) {
		q.Scopes = hx.Pick(r, []string{"profile"}, []string{"email", "profile"})
	}
	if hasObj && r.Chance(60) {
		o.Scopes = hx.Pick(r, []string{"openid"}, []string{"openid", "email"}, []string{"openid", "profile", "address"}, []string{"profile", "openid"}, []string{"email"})
	}
	// redirect_uri: somewhere, always
	switch p := place(); {
	case p == 2:
		o.RedirectURI = hx.Pick(r, c19Redirect, c19Redirect2)
	case p == 3:
		q.RedirectURI, o.RedirectURI = c19Redirect2, c19Redirect2
	case p == 4:
		q.RedirectURI, o.RedirectURI = c19Redirect, c19Redirect2
	default:
		q.RedirectURI = hx.Pick(r, c19Redirect, c19Redirect2)
	}
	tag := fmt.Sprintf("%d", r.Intn(1000))
	putS(&q.State, &o.State, "st-"+tag, "st-query-"+tag)
	putS(&q.Nonce, &o.Nonce, "n-"+tag, "n-query-"+tag)
	putS(&q.ResponseMode, &o.ResponseMode, hx.Pick(r, "query", "fragment"), hx.Pick(r, "fragment", "query"))
	if q.ResponseMode == o.ResponseMode && q.ResponseMode != "" && r.Bool() {
		q.ResponseMode = map[string]string{"query": "fragment", "fragment": "query"}[o.ResponseMode]
	}
	putS(&q.Display, &o.Display, hx.Pick(r, "page", "popup"), hx.Pick(r, "touch", "wap"))
	putL(&q.Prompt, &o.Prompt, hx.Pick(r, []string{"consent"}, []string{"select_account"}, []string{"consent", "select_account"}, []string{"login"}, []string{"login", "consent"}),
		hx.Pick(r, []string{"select_account", "consent"}, []string{"login"}, []string{"consent", "login"}))
	ma, mb := uint(r.Intn(3600)), uint(3600+r.Intn(100))
	switch place() {
	case 1:
		q.MaxAge = &ma
	case 2:
		o.MaxAge = &ma
	case 3:
		q.MaxAge, o.MaxAge = &ma, &ma
	case 4:
		q.MaxAge, o.MaxAge = &mb, &ma
	}
	putL(&q.UILocales, &o.UILocales, hx.Pick(r, []string{"de"}, []string{"en", "fr"}, []string{"de-CH", "it"}), hx.Pick(r, []string{"nl"}, []string{"es", "pt"}))
	putS(&q.IDTokenHint, &o.IDTokenHint, hints[0], hints[1])
	putS(&q.LoginHint, &o.LoginHint, "user-"+tag+"@example.com", "other-"+tag+"@example.com")
	putL(&q.ACRValues, &o.ACRValues, hx.Pick(r, []string{"urn:acr:gold"}, []string{"urn:acr:gold", "urn:acr:silver"}), hx.Pick(r, []string{"urn:acr:bronze"}, []string{"0", "1"}))

	// PKCE
	v, w, other := c19RandomVerifier(r), c19RandomVerifier(r), c19RandomVerifier(r)
	img := func(x string) string {
		c := oidc.NewSHACodeChallenge(x)
		sym[c] = "S256(" + x + ")"
		return c
	}
	placements := []string{"none", "query", "query", "object", "object", "object", "both-agree", "both-method-differs", "both-method-differs", "both-challenge-differs",
		"object-challenge+query-method", "object-method+query-challenge", "query-s256+object-plain"}
	if public {
		placements = placements[1:] // a public client cannot redeem a code without PKCE
	}
	pk := hx.Pick(r, placements...)
	if !hasObj && pk != "none" {
		pk = "query"
	}
	method := hx.Pick(r, "S256", "S256", "S256", "S256", "S256", "S256", "S256", "plain", "")
	rel := "s256"
	ch := img(v)
	if method != "S256" {
		rel, ch = "plain", v
	}
	if r.Chance(12) { // the challenge is not the image of the verifier the client will present
		rel, ch = "other", img(other)
	}
	qIs, oIs := "", ""
	switch pk {
	case "query":
		q.CodeChallenge, q.CodeChallengeMethod, qIs = ch, method, rel
	case "object":
		o.CodeChallenge, o.CodeChallengeMethod, oIs = ch, method, rel
	case "both-agree":
		q.CodeChallenge, q.CodeChallengeMethod, qIs = ch, method, rel
		o.CodeChallenge, o.CodeChallengeMethod, oIs = ch, method, rel
	case "both-method-differs": // the object says S256, the query plain or nothing
		if rel != "other" {
			rel, ch = "s256", img(v)
		}
		o.CodeChallenge, o.CodeChallengeMethod, oIs = ch, "S256", rel
		q.CodeChallenge, q.CodeChallengeMethod, qIs = ch, hx.Pick(r, "plain", ""), rel
	case "both-challenge-differs":
		o.CodeChallenge, o.CodeChallengeMethod, oIs = ch, method, rel
		q.CodeChallenge, q.CodeChallengeMethod, qIs = img(w), method, "other"
	case "object-challenge+query-method":
		o.CodeChallenge, oIs = ch, rel
		q.CodeChallengeMethod = method
	case "object-method+query-challenge":
		q.CodeChallenge, qIs = ch, rel
		o.CodeChallengeMethod = method
	case "query-s256+object-plain":
		q.CodeChallenge, q.CodeChallengeMethod, qIs = img(v), "S256", "s256"
		o.CodeChallenge, o.CodeChallengeMethod, oIs = v, "plain", "plain"
	}
	symOf := func(s string) string {
		if s == "" {
			return ""
		}
		if x, ok := sym[s]; ok {
			return x
		}
		return s
	}
	l.B("hasobj", hasObj).S("pk", pk).S("v", v).S("w", w).S("q.ccis", qIs).S("o.ccis", oIs)
	q.kv(l, "q.", symOf)
	if hasObj {
		o.kv(l, "o.", symOf)
	}

	// what the client means (object over query where the object counts): redirect_uri and response_mode of the response, the challenge
	counts := hasObj && doc.RequestParameterSupported
	pick := func(qv, ov string) string {
		if counts && ov != "" {
			return ov
		}
		return qv
	}
	effRedirect, effChallenge := pick(q.RedirectURI, o.RedirectURI), pick(q.CodeChallenge, o.CodeChallenge)

	query := url.Values{"client_id": {"probe"}, "response_type": {"code"}}
	q.query(query)
	if hasObj {
		claims := map[string]any{"iss": "probe", "aud": []string{doc.Issuer}, "client_id": "probe", "response_type": "code"}
		if r.Chance(30) {
			delete(claims, "response_type")
		}
		o.claims(claims)
		payload, _ := json.Marshal(claims)
		tok, _ := hx.Sign(ec, "ES256", "ro1", payload)
		query.Set("request", tok)
	}

	// ---- one run of the flow per presented verifier
	type run struct{ kind, verifier string }
	runs := []run{{"right", v}, {"wrong", w}, {"challenge", effChallenge}, {"none", ""}}
	if effChallenge == "" {
		runs = []run{{"none", ""}}
	}
	az := ""
	var stored *c19Params
	var tk, tv []string
	for i, rn := range runs {
		before := rec.n
		resp := do(bed.Get(authPath, query, ""))
		if resp.Panicked {
			return l.S("obs", "panic")
		}
		ans := ""
		switch {
		case resp.Loc != nil && strings.HasPrefix(resp.Loc.Path, "/login"):
			ans = "login"
		case resp.Loc != nil && resp.Loc.Query().Get("error") != "":
			ans = resp.Loc.Query().Get("error")
		case resp.Loc != nil && strings.Contains(resp.Loc.Fragment, "error="):
			f, _ := url.ParseQuery(resp.Loc.Fragment)
			ans = f.Get("error")
		case resp.OAuthError() != "":
			ans = resp.OAuthError()
		default:
			ans = fmt.Sprintf("status-%d", resp.Status)
		}
		if i == 0 {
			az = ans
			if ans == "login" && rec.n == before+1 && rec.last != nil {
				p := c19ParamsOf(rec.last)
				stored = &p
			}
		}
		if ans != "login" {
			break
		}
		id := resp.Loc.Query().Get("authRequestID")
		bed.Store.CompleteAuthRequest(id, "user1")
		resp = do(bed.Get(authPath+"/callback", url.Values{"id": {id}}, ""))
		code := codeOf(resp.Loc)
		if resp.Panicked || code == "" {
			tk, tv = append(tk, rn.kind), append(tv, "599")
			continue
		}
		f := url.Values{"grant_type": {string(oidc.GrantTypeCode)}, "code": {code}, "redirect_uri": {effRedirect}}
		if rn.verifier != "" {
			f.Set("code_verifier", rn.verifier)
		}
		resp = do(bed.Form(tokenPath, f, auth))
		st := resp.Status
		if resp.Panicked {
			st = 599
		}
		tk, tv = append(tk, rn.kind), append(tv, strconv.Itoa(st))
		if st == 200 {
			stats["honour-token-"+rn.kind+"-accepted"]++
		} else {
			stats["honour-token-"+rn.kind+"-refused"]++
		}
	}
	l.S("az", az).L("tk.k", tk).L("tk.v", tv)
	if stored != nil {
		stored.kv(l, "s.", symOf)
		l.S("s.user", rec.user)
	}
	stats["honour-router-"+router]++
	stats["honour-pkce-"+pk]++
	stats["honour-method-"+map[string]string{"S256": "S256", "plain": "plain", "": "absent"}[method]]++
	stats["honour-challenge-is-"+rel]++
	stats["honour-client-"+clientKind]++
	stats["honour-issuer-"+is.Kind]++
	stats["honour-authorize-"+strings.SplitN(az, ":", 2)[0]]++
	switch {
	case !hasObj:
		stats["honour-object-none"]++
	case doc.RequestParameterSupported:
		stats["honour-object-advertised"]++
	default:
		stats["honour-object-not-advertised"]++
	}
	if len(advPkce) == 0 {
		stats["honour-s256-not-advertised"]++
	}
	return l
}
