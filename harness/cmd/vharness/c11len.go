package main

// C11, the LENGTH dimension ("len.*" fields on lines of the ordinary kinds url / form / code / token / error / tryerror).
//
// The other generators draw parameter strings by CHARACTER class; their lengths stay below a few hundred bytes.  The
// property says "exactly the values the provider produced ... whatever characters they contain": a transport that cuts,
// pads or re-chunks a value at some buffer size violates it for every value beyond that size and for no other.  One
// parameter of the response (code, state, session_state, access_token, token_type, refresh_token, id_token, error,
// error_description) is the TARGET and gets a length at a boundary B in 256 .. 65536:
//   * raw length B-1 / B / B+1 (fills: ASCII, characters that expand x3 under percent-encoding, 2/3/4-byte UTF-8,
//     characters that expand under HTML attribute escaping, crafted strings),
//   * ENCODED length (url.QueryEscape / HTML attribute escaping) B-1 / B / B+1, so that the boundary is crossed at
//     another raw length,
//   * a multi-byte character STRADDLING byte B (starts 1..w-1 bytes before it), with a tail behind it,
//   * far beyond (2B+7).
// Entry points: op.AuthResponseURL / op.AuthResponseFormPost directly, op.AuthResponseCode, op.AuthResponseToken,
// op.AuthRequestError, op.TryErrorRedirect; all response modes.  For error responses the description comes from where the
// real code takes it: an *oidc.Error of the storage / validator (as it is, wrapped once, wrapped in a chain), a plain error
// whose text becomes the description (errors.New, a chain of fmt.Errorf("%w") layers whose TOTAL text has the length, an
// errors.Join).  (No description the library builds itself for a REDIRECTED error echoes a client-supplied value: they are
// fixed texts of at most ~200 bytes; request-object / parse errors with echoed values are answered without redirect.)
// What has to arrive is computed from the SOURCE (the error value handed in, the request's state), not from what the
// function under test handed to the encoder; the latter is on the line as `e` (the model starts from it).
// A deterministic preamble puts every boundary x {AuthRequestError, TryErrorRedirect} x {B+1 straddled, B} on the
// stream whatever the seed draws.

import (
	"bufio"
	"context"
	"encoding/hex"
	"errors"
	"fmt"
	"html"
	"net/http"
	"net/http/httptest"
	"net/url"
	"strings"
	"unicode/utf8"

	"github.com/zitadel/oidc/v3/pkg/oidc"
	"github.com/zitadel/oidc/v3/pkg/op"

	"verifharness/internal/hx"
	"verifharness/internal/opbed"
)

var c11LenBounds = []int{256, 512, 1024, 2048, 4096, 8192, 65536}

// c11LenBound draws a boundary; the quick tier keeps the big ones rare (a 64 KiB value is ~0.5 MB of line)
func c11LenBound(r *hx.Rand, tier string) int {
	k := r.Intn(100)
	w := []int{24, 26, 20, 12, 9, 7, 2}
	if tier == "thorough" {
		w = []int{17, 21, 17, 15, 14, 13, 3}
	}
	acc := 0
	for i, x := range w {
		acc += x
		if k < acc {
			return c11LenBounds[i]
		}
	}
	return 512
}

var c11LenFills = map[string][]string{
	"ascii":  {"a", "b", "Z", "0", "-", "_", ".", "~"},
	"pct3":   {"&", "%", "=", "#", "?", "/", "+", ";", ":", "@", ",", "$"},
	"space":  {" ", " a", "+ "},
	"mb2":    {"é", "ü", "ß", "Ω", "я"},
	"mb3":    {"日", "本", "€", "�", " "},
	"mb4":    {"😀", "𝄞", "\U0010ffff"},
	"html":   {"\"", "'", "<", ">", "&", "&amp;", "&#34;"},
	"words":  {"The requested scope is invalid, unknown, or malformed. ", "pq: duplicate key value violates unique constraint \"codes_pkey\" ", "context deadline exceeded; ", "état=é&x=%41 "},
}
var c11LenFillNames = []string{"ascii", "ascii", "pct3", "pct3", "space", "mb2", "mb3", "mb4", "html", "words"}

func c11LenRaw(s string) int  { return len(s) }
func c11LenEnc(s string) int  { return len(url.QueryEscape(s)) }
func c11LenHTML(s string) int { return len(html.EscapeString(s)) }

// c11LenBuild: units of the fill until the measure reaches target, padded with 'x' (one byte under every measure)
func c11LenBuild(r *hx.Rand, target int, measure func(string) int, fill string) string {
	units := c11LenFills[fill]
	var b strings.Builder
	cur := 0
	for {
		u := units[r.Intn(len(units))]
		m := measure(u)
		if cur+m > target {
			break
		}
		b.WriteString(u)
		cur += m
	}
	for ; cur < target; cur++ {
		b.WriteByte('x')
	}
	return b.String()
}

type c11LenSpec struct {
	bound         int
	shape         string // raw-1 raw0 raw+1 enc-1 enc0 enc+1 html-1 html0 html+1 straddle far
	fill          string
	s             string
	straddleWidth int
}

// c11LenValue draws a value at boundary B
func c11LenValue(r *hx.Rand, B int, forForm bool) c11LenSpec {
	sp := c11LenSpec{bound: B, fill: c11LenFillNames[r.Intn(len(c11LenFillNames))]}
	d := r.Intn(3) - 1
	ds := []string{"-1", "0", "+1"}[d+1]
	switch k := r.Intn(20); {
	case k < 6:
		sp.shape, sp.s = "raw"+ds, c11LenBuild(r, B+d, c11LenRaw, sp.fill)
	case k < 10:
		if sp.fill == "ascii" {
			sp.fill = "pct3"
		}
		if forForm {
			sp.fill = hx.Pick(r, "html", "html", "mb3", "words")
			sp.shape, sp.s = "html"+ds, c11LenBuild(r, B+d, c11LenHTML, sp.fill)
		} else {
			sp.shape, sp.s = "enc"+ds, c11LenBuild(r, B+d, c11LenEnc, sp.fill)
		}
	case k < 18:
		sp.shape = "straddle"
		sp.s, sp.straddleWidth = c11LenStraddle(r, B, sp.fill)
	default:
		sp.shape, sp.s = "far", c11LenBuild(r, 2*B+7, c11LenRaw, sp.fill)
	}
	return sp
}

// c11LenStraddle: a multi-byte character that begins before byte B and ends after it, 0..40 bytes behind it
func c11LenStraddle(r *hx.Rand, B int, fill string) (string, int) {
	ch := hx.Pick(r, "é", "ß", "日", "€", "😀", "𝄞", " ")
	w := len(ch)
	k := 1 + r.Intn(w-1) // the character starts k bytes before the boundary
	head := c11LenBuild(r, B-k, c11LenRaw, fill)
	tail := c11LenBuild(r, r.Intn(41), c11LenRaw, hx.Pick(r, "ascii", "mb2", "mb3"))
	return head + ch + tail, w
}

// ---------------------------------------------------------------- error values with a description of a given text

type c11LenErr struct {
	kind string // oidc | wrap-oidc | chain-oidc | plain | wrapf-chain | join
	err  error
	code string
	desc string // what the failing component reported = what has to arrive as error_description
}

func c11LenError(r *hx.Rand, sp c11LenSpec, B int) c11LenErr {
	text := sp.s
	oauth := func(d string) *oidc.Error {
		t := hx.Pick(r, oidc.ErrServerError, oidc.ErrAccessDenied, oidc.ErrLoginRequired, oidc.ErrInteractionRequired, oidc.ErrInvalidRequest)()
		t.Description = d
		return t
	}
	switch r.Intn(10) {
	case 0, 1, 2:
		o := oauth(text)
		return c11LenErr{"oidc", o, string(o.ErrorType), text}
	case 3:
		o := oauth(text)
		return c11LenErr{"wrap-oidc", fmt.Errorf("while saving (%s): %w", "ctx", o), string(o.ErrorType), text}
	case 4:
		o := oauth(text)
		var e error = o
		for i, n := 0, 2+r.Intn(5); i < n; i++ {
			e = fmt.Errorf("layer %d: %w", i, e)
		}
		return c11LenErr{"chain-oidc", e, string(o.ErrorType), text}
	case 5, 6:
		return c11LenErr{"plain", errors.New(text), "server_error", text}
	case 7, 8:
		// a chain of wrapping layers whose TOTAL text is exactly as long as `text` and ends in text's own bytes (so that what
		// was placed at the boundary stays there): the layers' prefixes replace the front of the text
		n := 2 + r.Intn(6)
		var prefixes []string
		plen := 0
		for i := 0; i < n && plen+60 < len(text); i++ {
			p := hx.Pick(r, "storage: ", "tx rollback: ", "pgx: ", "save auth code: ", "ctx: ")
			prefixes = append(prefixes, p)
			plen += len(p)
		}
		cut := plen
		for cut < len(text) && !utf8.RuneStart(text[cut]) {
			cut++
		}
		if len(prefixes) > 0 {
			prefixes[0] = strings.Repeat("#", cut-plen) + prefixes[0]
		}
		var e error = errors.New(text[cut:])
		for i := len(prefixes) - 1; i >= 0; i-- {
			e = fmt.Errorf("%s%w", prefixes[i], e)
		}
		return c11LenErr{"wrapf-chain", e, "server_error", e.Error()}
	default:
		e := errors.Join(errors.New(text), errors.New("second failure"))
		return c11LenErr{"join", e, "server_error", e.Error()}
	}
}

// ---------------------------------------------------------------- one case

type c11LenEnv struct {
	enc   *recEncoder
	authz *c11Authorizer
	web   op.Client
}

var c11LenURIs = []c11URI{
	{"https://rp.example/cb", "plain"},
	{"https://rp.example/cb", "plain"},
	{"https://rp.example/cb?tenant=acme", "query"},
	{"https://rp.example/app#/login/callback", "fragment"},
	{"https://rp.example/app?tenant=acme#/login/callback", "query+fragment"},
	{"http://127.0.0.1:8080/cb", "loopback"},
	{"myapp://callback", "custom"},
}

// c11LenCase runs one case; entry / target / mode "" = drawn
func c11LenCase(r *hx.Rand, tier string, caseNo int64, w *bufio.Writer, stats map[string]int, env *c11LenEnv, B int, entry string, fixed *c11LenSpec) {
	modes := []oidc.ResponseMode{"", oidc.ResponseModeQuery, oidc.ResponseModeFragment, oidc.ResponseModeFormPost}
	if entry == "" {
		entry = hx.Pick(r, "url", "url", "url", "form", "code", "code", "token", "error", "error", "error", "tryerror", "tryerror")
	}
	mode := modes[r.Intn(len(modes))]
	rtype := hx.Pick(r, oidc.ResponseTypeCode, oidc.ResponseTypeCode, oidc.ResponseTypeIDToken, oidc.ResponseTypeIDTokenOnly)
	u := c11LenURIs[r.Intn(len(c11LenURIs))]
	if entry == "form" {
		mode = oidc.ResponseModeFormPost
	}
	isErr := entry == "error" || entry == "tryerror"
	forForm := !isErr && (entry == "form" || (mode == oidc.ResponseModeFormPost && entry != "url"))
	if forForm && u.shape == "custom" {
		u = c11LenURIs[0] // F-C11b is the business of the other kinds
	}
	var sp c11LenSpec
	if fixed != nil {
		sp = *fixed
	} else {
		sp = c11LenValue(r, B, forForm)
	}
	short := func() string {
		return hx.Pick(r, "st-1", "a+b/c=", "s p", "é", "xyz&code=evil", "af0ifjsldkj", "")
	}
	sub, target, errKind := "", "", ""
	var produced map[string][]string
	var expectOverride map[string]string // name -> value that has to arrive (source), "" = must be absent
	var obs c11Obs
	req := httptest.NewRequest(http.MethodGet, "/authorize/callback?id=x", nil)
	enc, authz := env.enc, env.authz
	enc.last = nil
	switch entry {
	case "url", "form":
		var resp any
		k := r.Intn(4)
		if k == 3 {
			k = 1
		}
		if entry == "form" && k == 2 {
			k = 0
		}
		switch k {
		case 0:
			sub = "code"
			c := &c11CodeResponse{Code: "c-" + short(), State: short(), SessionState: short()}
			target = hx.Pick(r, "code", "state", "session_state")
			switch target {
			case "code":
				c.Code = sp.s
			case "state":
				c.State = sp.s
			default:
				c.SessionState = sp.s
			}
			resp = c
		case 1:
			sub = "token"
			if rtype == oidc.ResponseTypeCode {
				rtype = oidc.ResponseTypeIDToken
			}
			t := &oidc.AccessTokenResponse{AccessToken: "at-" + short(), TokenType: oidc.BearerToken, IDToken: "eyJ.x.y", State: short(), ExpiresIn: 300}
			target = hx.Pick(r, "access_token", "id_token", "state", "token_type", "refresh_token")
			switch target {
			case "access_token":
				t.AccessToken = sp.s
			case "id_token":
				t.IDToken = sp.s
			case "state":
				t.State = sp.s
			case "token_type":
				t.TokenType = sp.s
			default:
				t.RefreshToken = sp.s
			}
			resp = t
		default:
			sub, isErr = "error", true
			e := oidc.ErrAccessDenied()
			e.Description, e.State, e.SessionState = "denied "+short(), short(), short()
			target = hx.Pick(r, "error_description", "error_description", "state", "session_state", "error")
			switch target {
			case "error_description":
				e.Description = sp.s
			case "state":
				e.State = sp.s
			case "session_state":
				e.SessionState = sp.s
			default:
				c11SetString(&e.ErrorType, sp.s) // an application-defined error code
			}
			resp = e
		}
		if entry == "url" && mode == oidc.ResponseModeFormPost && !isErr {
			mode = modes[r.Intn(3)]
		}
		if entry == "url" {
			func() {
				defer func() {
					if p := recover(); p != nil {
						obs.kind = "panic"
					}
				}()
				loc, err := op.AuthResponseURL(u.s, rtype, mode, resp, enc)
				if err != nil {
					obs.kind = "refused"
				} else {
					obs.kind, obs.loc = "redirect", loc
				}
			}()
		} else {
			obs = c11Observe(func(w http.ResponseWriter) {
				if err := op.AuthResponseFormPost(w, u.s, resp, enc); err != nil {
					http.Error(w, err.Error(), http.StatusBadRequest)
				}
			})
		}
		produced = enc.last
	case "code":
		sub, rtype = "code", oidc.ResponseTypeCode
		ar := &c11AuthReq{id: "ar-c11", clientID: "web", uri: u.s, state: short(), sessionState: short(), rtype: rtype, mode: mode}
		code := "c-" + short()
		target = hx.Pick(r, "code", "state", "session_state")
		switch target {
		case "code":
			code = sp.s
		case "state":
			ar.state = sp.s
		default:
			ar.sessionState = sp.s
		}
		authz.crypto = fixedCrypto{code}
		obs = c11Observe(func(w http.ResponseWriter) { op.AuthResponseCode(w, req, ar, authz) })
		authz.crypto = nil
		produced = enc.last
		expectOverride = map[string]string{"state": ar.state, "session_state": ar.sessionState, "code": code}
	case "token":
		sub = "token"
		if rtype == oidc.ResponseTypeCode {
			rtype = oidc.ResponseTypeIDToken
		}
		ar := &c11AuthReq{id: "ar-c11", clientID: "web", uri: u.s, state: short(), sessionState: short(), rtype: rtype, mode: mode}
		target = hx.Pick(r, "state", "session_state")
		if target == "state" {
			ar.state = sp.s
		} else {
			ar.sessionState = sp.s
		}
		ctx := op.ContextWithIssuer(req.Context(), opbed.Issuer)
		obs = c11Observe(func(w http.ResponseWriter) { op.AuthResponseToken(w, req.WithContext(ctx), ar, authz, env.web) })
		produced = enc.last
		expectOverride = map[string]string{"state": ar.state, "session_state": ar.sessionState}
	case "error", "tryerror":
		sub = "error"
		ar := &c11AuthReq{id: "ar-c11", clientID: "web", uri: u.s, state: short(), sessionState: short(), rtype: rtype, mode: mode}
		target = hx.Pick(r, "error_description", "error_description", "error_description", "error_description", "state", "session_state")
		var le c11LenErr
		switch target {
		case "error_description":
			le = c11LenError(r, sp, B)
		case "state":
			ar.state = sp.s
		default:
			ar.sessionState = sp.s
		}
		if le.err == nil {
			o := oidc.ErrAccessDenied()
			o.Description = "denied " + short()
			le = c11LenErr{"oidc", o, string(o.ErrorType), o.Description}
		}
		errKind = le.kind
		if entry == "error" {
			obs = c11Observe(func(w http.ResponseWriter) { op.AuthRequestError(w, req, ar, le.err, authz) })
		} else {
			func() {
				defer func() {
					if p := recover(); p != nil {
						obs.kind = "panic"
					}
				}()
				red, err := op.TryErrorRedirect(context.Background(), ar, le.err, enc, c11Discard)
				if err != nil || red == nil {
					obs.kind = "refused"
				} else {
					obs.kind, obs.loc = "redirect", red.URL
				}
			}()
		}
		produced = enc.last
		expectOverride = map[string]string{"state": ar.state, "session_state": ar.sessionState, "error": le.code, "error_description": le.desc}
	}

	expected := map[string][]string{}
	for k, v := range produced {
		expected[k] = v
	}
	for k, v := range expectOverride {
		if v == "" {
			delete(expected, k)
		} else {
			expected[k] = []string{v}
		}
	}
	tv := ""
	if vs := expected[target]; len(vs) > 0 {
		tv = vs[0]
	}
	c11EmitLine(w, caseNo, entry, sub, mode, rtype, isErr, u, produced, expected, entry == "url" || entry == "tryerror", obs, func(l *hx.Line) {
		l.S("len.param", target).I("len.b", int64(sp.bound)).S("len.shape", sp.shape).S("len.fill", sp.fill).I("len.raw", int64(len(tv))).
			I("len.enc", int64(len(url.QueryEscape(tv)))).I("len.html", int64(len(html.EscapeString(tv))))
		if errKind != "" {
			l.S("len.err", errKind)
		}
	})
	m := string(mode)
	if m == "" {
		m = "default"
	}
	stats["kind-"+entry]++
	stats["obs-"+obs.kind]++
	stats[fmt.Sprintf("len:%s/%d", target, sp.bound)]++
	stats["len-shape:"+sp.shape+"/"+m]++
	stats["len-fill:"+sp.fill]++
	stats["len-entry:"+entry+"/"+m]++
	if errKind != "" {
		stats["len-err:"+errKind]++
	}
}

// c11EmitLine writes one line in the format of the C11 stream (the same fields as the main loop of c11Stream)
func c11EmitLine(w *bufio.Writer, caseNo int64, kind, sub string, mode oidc.ResponseMode, rtype oidc.ResponseType, isErr bool, u c11URI,
	produced, expected map[string][]string, direct bool, obs c11Obs, extra func(l *hx.Line)) {
	l := hx.NewLine("C11").I("case", caseNo).S("kind", kind).S("sub", sub).S("mode", string(mode)).S("rtype", string(rtype)).B("err", isErr).
		S("shape", u.shape).S("uri", c11Hex(u.s))
	if pu, perr := url.Parse(u.s); perr == nil {
		b := *pu
		b.RawQuery, b.ForceQuery, b.Fragment, b.RawFragment = "", false, "", ""
		l.B("u.ok", true).S("u.base", c11Hex(b.String())).S("u.rawq", c11Hex(pu.RawQuery)).B("u.fq", pu.ForceQuery).
			S("u.frag", c11Hex(pu.Fragment)).S("u.rawfrag", c11Hex(pu.RawFragment))
	} else {
		l.B("u.ok", false)
	}
	l.L("p", c11Produced(expected))
	if pe, pp := c11Produced(produced), c11Produced(expected); strings.Join(pe, ",") != strings.Join(pp, ",") {
		l.L("e", pe)
	}
	pct := false
	for k, vs := range produced {
		pct = pct || c11NeedsPct(k)
		for _, v := range vs {
			pct = pct || c11NeedsPct(v)
		}
	}
	l.B("pct", pct).B("safe", c11SafeScheme(u.s)).B("direct", direct)
	if extra != nil {
		extra(l)
	}
	l.S("obs", obs.kind)
	switch obs.kind {
	case "redirect":
		l.S("o.loc", c11Hex(obs.loc))
	case "form":
		l.S("o.body", hex.EncodeToString(obs.body)).L("ua", c11UAView(obs.body))
	case "refused":
		l.I("o.status", int64(obs.status))
	}
	fmt.Fprintln(w, l.String())
}

// c11LenPreamble: every boundary x both error functions x (a multi-byte character straddling byte B, exactly B bytes),
// plus one success response per boundary; the same cases whatever the seed (the strings are fixed, the rest is drawn)
func c11LenPreamble(r *hx.Rand, tier string, w *bufio.Writer, stats map[string]int, env *c11LenEnv) {
	n := int64(3000000)
	for _, B := range c11LenBounds {
		if B > 8192 && tier != "thorough" {
			// one 64 KiB error description per quick run
			sp := c11LenSpec{bound: B, shape: "straddle", fill: "ascii", s: strings.Repeat("a", B-1) + "é" + "tail"}
			c11LenCase(r, tier, n, w, stats, env, B, "error", &sp)
			n++
			// ... and one form_post page with a value of B+1 bytes
			sp = c11LenSpec{bound: B, shape: "raw+1", fill: "html", s: strings.Repeat("a<b>&\"", B/6+1)[:B+1]}
			c11LenCase(r, tier, n, w, stats, env, B, "form", &sp)
			n++
			continue
		}
		for _, entry := range []string{"error", "tryerror"} {
			sp := c11LenSpec{bound: B, shape: "straddle", fill: "words", s: c11LenFixedText(B-1) + "日" + " end"}
			c11LenCase(r, tier, n, w, stats, env, B, entry, &sp)
			n++
			sp = c11LenSpec{bound: B, shape: "raw0", fill: "words", s: c11LenFixedText(B)}
			c11LenCase(r, tier, n, w, stats, env, B, entry, &sp)
			n++
		}
		sp := c11LenSpec{bound: B, shape: "raw+1", fill: "pct3", s: strings.Repeat("+/=", B/3+1)[:B+1]}
		c11LenCase(r, tier, n, w, stats, env, B, hx.Pick(r, "url", "code"), &sp)
		n++
	}
}

func c11LenFixedText(n int) string {
	const t = "storage: could not save the authorization code for this request (retry later) / "
	return strings.Repeat(t, n/len(t)+1)[:n]
}

// c11SetString assigns to a field of a string type the package does not export (oidc's errorType)
func c11SetString[T ~string](dst *T, s string) { *dst = T(s) }
