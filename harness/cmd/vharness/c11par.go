package main

// C11, error responses IN FLIGHT AT THE SAME TIME (kind `par`): two or three refused authorization requests / callbacks of
// unfinished logins are answered by the real handlers (op.Authorize, op.AuthorizeCallback) around the real provider; the first
// one is PARKED between the moment the handler has filled in the error answer (state, session_state) and the moment it
// encodes it (the park point is the `Authorizer.Encoder()` getter, which AuthRequestError evaluates as the last argument of
// AuthResponseURL), the others are answered completely meanwhile, then the first one is released.  Deterministic: channels
// order the steps, no timing.  Each response is one line and is judged against ITS OWN request: the state that arrives must be
// the state that client sent.  Schedules: `A(B)A`, `A(BC)A`, and `AB` (sequential) for comparison.

import (
	"bufio"
	"fmt"
	"net/http"
	"net/http/httptest"
	"net/url"
	"strings"
	"time"

	httphelper "github.com/zitadel/oidc/v3/pkg/http"
	"github.com/zitadel/oidc/v3/pkg/oidc"
	"github.com/zitadel/oidc/v3/pkg/op"

	"verifharness/internal/hx"
	"verifharness/internal/opbed"
)

// c11ParAuthorizer: the real provider; the encoder getter is the park point
type c11ParAuthorizer struct {
	op.Authorizer
	enc  *c11SeqEncoder
	park func()
}

func (a *c11ParAuthorizer) Encoder() httphelper.Encoder {
	if p := a.park; p != nil {
		a.park = nil
		p()
	}
	return a.enc
}

// c11StorageSentinel: a sentinel error of the storage implementation (the Go idiom `var ErrX = …`), of the library's own error type
var c11StorageSentinel = oidc.ErrAccessDenied().WithDescription("storage: the user may not use this client")

type c11ParReq struct {
	errKind string // callback-not-done | scope-missing | prompt-none | request-unsupported
	u       c11URI
	mode    oidc.ResponseMode
	state   string
	id      string // auth request id (callback kind)
	q       url.Values
	authz   *c11ParAuthorizer
	w       *httptest.ResponseRecorder
	panic   bool
}

func (p *c11ParReq) serve() {
	defer func() {
		if r := recover(); r != nil {
			p.panic = true
		}
	}()
	p.w = httptest.NewRecorder()
	if p.id != "" {
		r := httptest.NewRequest(http.MethodGet, "/authorize/callback?id="+url.QueryEscape(p.id), nil)
		op.AuthorizeCallback(p.w, r.WithContext(op.ContextWithIssuer(r.Context(), opbed.Issuer)), p.authz)
		return
	}
	r := httptest.NewRequest(http.MethodGet, "/authorize?"+p.q.Encode(), nil)
	op.Authorize(p.w, r.WithContext(op.ContextWithIssuer(r.Context(), opbed.Issuer)), p.authz)
}

// c11ParRun emits one group of overlapping error responses; returns false when the group could not be set up
func c11ParRun(r *hx.Rand, tier string, parNo int, w *bufio.Writer, stats map[string]int, bed *opbed.Bed) bool {
	n := 2 + r.Intn(2)
	sched := hx.Pick(r, "A(B)A", "A(B)A", "A(B)A", "AB")
	if n == 3 {
		sched = hx.Pick(r, "A(BC)A", "A(BC)A", "ABC")
	}
	// all requests of a group fail the same way (that is when they would meet in the same error value), sometimes differently
	kinds := []string{"callback-not-done", "callback-not-done", "scope-missing", "prompt-none", "request-unsupported"}
	groupKind := kinds[r.Intn(len(kinds))]
	if r.Chance(12) {
		// the storage refuses to save the code of a finished login with ITS sentinel error (one value for all requests)
		groupKind = "storage-sentinel"
	}
	modes := []oidc.ResponseMode{"", oidc.ResponseModeQuery, oidc.ResponseModeFragment, oidc.ResponseModeFormPost}
	var reqs []*c11ParReq
	for i := 0; i < n; i++ {
		kind := groupKind
		if r.Chance(15) && groupKind != "storage-sentinel" {
			kind = kinds[r.Intn(len(kinds))]
		}
		p := &c11ParReq{errKind: kind, mode: modes[r.Intn(len(modes))]}
		p.u = c11URI{c11FlowWebURIs[r.Intn(len(c11FlowWebURIs))], "flow-web"}
		for {
			p.state = c11Value(r, false, tier).s
			if p.state != "" || r.Chance(30) {
				break
			}
		}
		q := url.Values{"client_id": {"web"}, "redirect_uri": {p.u.s}, "response_type": {"code"}, "scope": {"openid"},
			"code_challenge": {oidc.NewSHACodeChallenge("verifier-AAAAAAAAAAAAAAAAAAAAAAAAAAAAAAAAAAAAAAAAAAA")}, "code_challenge_method": {"S256"}}
		if p.state != "" {
			q.Set("state", p.state)
		}
		if p.mode != "" {
			q.Set("response_mode", string(p.mode))
		}
		switch kind {
		case "callback-not-done", "storage-sentinel":
			resp := bed.Do(bed.Get("/authorize", q, ""))
			if resp.Loc != nil && strings.HasPrefix(resp.Loc.Path, "/login") {
				p.id = resp.Loc.Query().Get("authRequestID")
			}
			if p.id == "" {
				stats["par-authorize-refused"]++
				return false
			}
			if kind == "storage-sentinel" {
				bed.Store.CompleteAuthRequest(p.id, "user1")
			}
		case "scope-missing":
			q.Del("scope")
		case "prompt-none":
			q["prompt"] = []string{"none login"}
		case "request-unsupported":
			q.Set("request", "eyJhbGciOiJub25lIn0.e30.")
		}
		p.q = q
		p.authz = &c11ParAuthorizer{Authorizer: bed.Provider, enc: &c11SeqEncoder{real: oidc.NewEncoder()}}
		reqs = append(reqs, p)
	}
	if groupKind == "storage-sentinel" {
		bed.Store.FailMethod("SaveAuthCode", c11StorageSentinel)
		defer bed.Store.ClearFaults()
	}
	parked := false
	if strings.Contains(sched, "(") {
		a := reqs[0]
		entered, release, done := make(chan struct{}), make(chan struct{}), make(chan struct{})
		a.authz.park = func() { close(entered); <-release }
		go func() { defer close(done); a.serve() }()
		select {
		case <-entered:
			parked = true
		case <-done: // answered without passing the park point
		case <-time.After(20 * time.Second):
			panic("c11 par: the first request neither parked nor finished")
		}
		for _, p := range reqs[1:] {
			p.serve()
		}
		close(release)
		select {
		case <-done:
		case <-time.After(20 * time.Second):
			panic("c11 par: the parked request did not finish")
		}
	} else {
		for _, p := range reqs {
			p.serve()
		}
	}
	for i, p := range reqs {
		obs := c11Obs{status: p.w.Code, loc: p.w.Header().Get("Location")}
		switch {
		case p.panic:
			obs.kind = "panic"
		case p.w.Code == http.StatusFound && obs.loc != "":
			obs.kind = "redirect"
		case p.w.Code == http.StatusOK:
			obs.kind, obs.body = "form", p.w.Body.Bytes()
		default:
			obs.kind = "refused"
		}
		l := hx.NewLine("C11").I("case", int64(2000000+parNo*10+i)).S("kind", "par").S("sub", "error").S("mode", string(p.mode)).S("rtype", "code").B("err", true).
			S("shape", p.u.shape).S("uri", c11Hex(p.u.s))
		if pu, perr := url.Parse(p.u.s); perr == nil {
			b := *pu
			b.RawQuery, b.ForceQuery, b.Fragment, b.RawFragment = "", false, "", ""
			l.B("u.ok", true).S("u.base", c11Hex(b.String())).S("u.rawq", c11Hex(pu.RawQuery)).B("u.fq", pu.ForceQuery).
				S("u.frag", c11Hex(pu.Fragment)).S("u.rawfrag", c11Hex(pu.RawFragment))
		} else {
			l.B("u.ok", false)
		}
		// what must arrive: the error the provider produced (recorded at the encoder boundary) with the state THIS client sent
		produced := p.authz.enc.first
		expected := map[string][]string{}
		for k, v := range produced {
			if k != "state" {
				expected[k] = v
			}
		}
		if p.state != "" {
			expected["state"] = []string{p.state}
		}
		l.L("p", c11Produced(expected))
		if pe, pp := c11Produced(produced), c11Produced(expected); strings.Join(pe, ",") != strings.Join(pp, ",") {
			l.L("e", pe)
			stats["par-encoded-differs-from-sent"]++
		}
		l.B("pct", false).B("safe", true).B("direct", false)
		l.I("par", int64(parNo)).I("par.i", int64(i)).S("par.sched", sched).S("par.err", p.errKind).B("par.parked", parked && i == 0)
		l.S("obs", obs.kind)
		switch obs.kind {
		case "redirect":
			l.S("o.loc", c11Hex(obs.loc))
		case "form":
			l.S("o.body", fmt.Sprintf("%x", obs.body)).L("ua", c11UAView(obs.body))
		case "refused":
			l.I("o.status", int64(obs.status))
		}
		fmt.Fprintln(w, l.String())
		stats["kind-par"]++
		stats["par-error:"+p.errKind]++
		stats["obs-"+obs.kind]++
		stats["mode-"+string(p.mode)+"_"]++
	}
	same := true
	for _, p := range reqs[1:] {
		same = same && p.errKind == reqs[0].errKind
	}
	stats["par-schedule:"+sched+"/"+map[bool]string{true: "same-error", false: "mixed-errors"}[same]+"/"+map[bool]string{true: "parked", false: "not-parked"}[parked]]++
	return true
}
