package main

// C11, error responses IN FLIGHT AT THE SAME TIME (kind `par`): two or three refused authorization requests / callbacks of
// unfinished logins are answered by the real handlers (op.Authorize, op.AuthorizeCallback) around the real provider; the first
// one is PARKED between the moment the handler has filled in the error answer (state, session_state) and the moment it
// encodes it (the park point is the `Authorizer.Encoder()` getter, which AuthRequestError evaluates as the last argument of
// AuthResponseURL), the others are answered completely meanwhile, then the first one is released.  Deterministic: channels
// order the steps, no timing.  Each response is one line and is judged against ITS OWN request: the state that arrives must be
// the state that client sent.  Schedules: `A(B)A`, `A(BC)A`, and `AB` (sequential) for comparison.
//
// Groups that are handed ONE error value: `storage-sentinel` (finished logins whose SaveAuthCode fails with one sentinel
// *oidc.Error of the storage, through the real op.AuthorizeCallback) and `sentinel-direct` (op.AuthRequestError /
// op.TryErrorRedirect called with that sentinel — as it is, wrapped with fmt.Errorf("%w"), or inside an op.StatusError — for
// requests that also have a session_state; park point inside the schema encoder, i.e. inside AuthResponseURL).  The sentinel's
// State / SessionState before and after the group are on the line (`par.h0*`, `par.h1*`): the model driver runs the regenerated
// statement lists of both functions (GenErr.*Program) under the group's schedule and must predict both what each response
// carries and what the sentinel holds afterwards.

import (
	"bufio"
	"context"
	"fmt"
	"net/http"
	"net/http/httptest"
	"net/url"
	"strings"
	"time"

	httphelper "github.com/zitadel/oidc/v3/pkg/http"
	"github.com/zitadel/oidc/v3/pkg/oidc"
	"github.com/zitadel/oidc/v3/pkg/op"

	"verifharness/internal/hx"
	"verifharness/internal/opbed"
)

// c11ParAuthorizer: the real provider; the encoder getter is the park point
type c11ParAuthorizer struct {
	op.Authorizer
	enc  *c11ParEncoder
	park func()
}

// c11ParEncoder: records what is encoded (c11SeqEncoder); a second park point, INSIDE AuthResponseURL, before the error value is read
type c11ParEncoder struct {
	*c11SeqEncoder
	park func()
}

func (e *c11ParEncoder) Encode(src any, dst map[string][]string) error {
	if p := e.park; p != nil {
		e.park = nil
		p()
	}
	return e.c11SeqEncoder.Encode(src, dst)
}

func (a *c11ParAuthorizer) Encoder() httphelper.Encoder {
	if p := a.park; p != nil {
		a.park = nil
		p()
	}
	return a.enc
}

// c11StorageSentinel: a sentinel error of the storage implementation (the Go idiom `var ErrX = …`), of the library's own error type
var c11StorageSentinel = oidc.ErrAccessDenied().WithDescription("storage: the user may not use this client")

type c11ParReq struct {
	errKind string // callback-not-done | scope-missing | prompt-none | request-unsupported | storage-sentinel | sentinel-direct
	u       c11URI
	mode    oidc.ResponseMode
	state   string
	session string       // sentinel-direct: the session_state of the request
	fn      string       // which function of pkg/op/error.go answers: AuthRequestError | TryErrorRedirect
	direct  *c11AuthReq  // sentinel-direct: the request the function is called with
	handed  error        // sentinel-direct: the error value the function is handed
	wrap    string       // sentinel-direct: how the sentinel is wrapped
	red     *op.Redirect // TryErrorRedirect's answer
	id      string       // auth request id (callback kind)
	q       url.Values
	authz   *c11ParAuthorizer
	w       *httptest.ResponseRecorder
	panic   bool
}

func (p *c11ParReq) serve() {
	defer func() {
		if r := recover(); r != nil {
			p.panic = true
		}
	}()
	p.w = httptest.NewRecorder()
	if p.direct != nil {
		r := httptest.NewRequest(http.MethodGet, "/authorize/callback?id=x", nil)
		if p.fn == "TryErrorRedirect" {
			p.red, _ = op.TryErrorRedirect(context.Background(), p.direct, p.handed, p.authz.enc, c11Discard)
			return
		}
		op.AuthRequestError(p.w, r, p.direct, p.handed, p.authz)
		return
	}
	if p.id != "" {
		r := httptest.NewRequest(http.MethodGet, "/authorize/callback?id="+url.QueryEscape(p.id), nil)
		op.AuthorizeCallback(p.w, r.WithContext(op.ContextWithIssuer(r.Context(), opbed.Issuer)), p.authz)
		return
	}
	r := httptest.NewRequest(http.MethodGet, "/authorize?"+p.q.Encode(), nil)
	op.Authorize(p.w, r.WithContext(op.ContextWithIssuer(r.Context(), opbed.Issuer)), p.authz)
}

// c11ParRun emits one group of overlapping error responses; returns false when the group could not be set up
func c11ParRun(r *hx.Rand, tier string, parNo int, w *bufio.Writer, stats map[string]int, bed *opbed.Bed) bool {
	return c11ParGroup(r, tier, parNo, w, stats, bed, "", "")
}

// c11ParPreamble: the situation of F-C11e, once per run whatever the seed draws — two requests that are handed the storage's one
// sentinel error, the first parked before its answer is encoded (A(B)A): through op.AuthorizeCallback, and directly through each
// of the two functions of pkg/op/error.go
func c11ParPreamble(r *hx.Rand, tier string, w *bufio.Writer, stats map[string]int, bed *opbed.Bed) {
	c11ParGroup(r, tier, 90001, w, stats, bed, "storage-sentinel", "AuthRequestError")
	c11ParGroup(r, tier, 90002, w, stats, bed, "sentinel-direct", "AuthRequestError")
	c11ParGroup(r, tier, 90003, w, stats, bed, "sentinel-direct", "TryErrorRedirect")
}

// c11ParGroup: forceKind / forceFn != "" fix the group's kind, the schedule A(B)A and the answering function
func c11ParGroup(r *hx.Rand, tier string, parNo int, w *bufio.Writer, stats map[string]int, bed *opbed.Bed, forceKind, forceFn string) bool {
	n := 2 + r.Intn(2)
	sched := hx.Pick(r, "A(B)A", "A(B)A", "A(B)A", "AB")
	if n == 3 {
		sched = hx.Pick(r, "A(BC)A", "A(BC)A", "ABC")
	}
	if forceKind != "" {
		n, sched = 2, "A(B)A"
	}
	// all requests of a group fail the same way (that is when they would meet in the same error value), sometimes differently
	kinds := []string{"callback-not-done", "callback-not-done", "scope-missing", "prompt-none", "request-unsupported"}
	groupKind := kinds[r.Intn(len(kinds))]
	if r.Chance(12) {
		// the storage refuses to save the code of a finished login with ITS sentinel error (one value for all requests)
		groupKind = "storage-sentinel"
	} else if r.Chance(14) {
		// the functions of pkg/op/error.go are handed that one value directly
		groupKind = "sentinel-direct"
	}
	if forceKind != "" {
		groupKind = forceKind
	}
	sentinelGroup := groupKind == "storage-sentinel" || groupKind == "sentinel-direct"
	modes := []oidc.ResponseMode{"", oidc.ResponseModeQuery, oidc.ResponseModeFragment, oidc.ResponseModeFormPost}
	var reqs []*c11ParReq
	for i := 0; i < n; i++ {
		kind := groupKind
		if r.Chance(15) && !sentinelGroup {
			kind = kinds[r.Intn(len(kinds))]
		}
		p := &c11ParReq{errKind: kind, mode: modes[r.Intn(len(modes))], fn: "AuthRequestError"}
		p.u = c11URI{c11FlowWebURIs[r.Intn(len(c11FlowWebURIs))], "flow-web"}
		for {
			p.state = c11Value(r, false, tier).s
			if p.state != "" || (forceKind == "" && r.Chance(30)) {
				break
			}
		}
		q := url.Values{"client_id": {"web"}, "redirect_uri": {p.u.s}, "response_type": {"code"}, "scope": {"openid"},
			"code_challenge": {oidc.NewSHACodeChallenge("verifier-AAAAAAAAAAAAAAAAAAAAAAAAAAAAAAAAAAAAAAAAAAA")}, "code_challenge_method": {"S256"}}
		if p.state != "" {
			q.Set("state", p.state)
		}
		if p.mode != "" {
			q.Set("response_mode", string(p.mode))
		}
		switch kind {
		case "sentinel-direct":
			p.session = hx.Pick(r, "", c11Value(r, false, tier).s, c11Value(r, false, tier).s)
			p.fn = hx.Pick(r, "AuthRequestError", "TryErrorRedirect")
			if forceFn != "" {
				p.fn = forceFn
			}
			p.direct = &c11AuthReq{id: "ar-c11-par", clientID: "web", uri: p.u.s, state: p.state, sessionState: p.session, rtype: oidc.ResponseTypeCode, mode: p.mode}
			p.wrap = hx.Pick(r, "none", "none", "errorf", "status")
			switch p.wrap {
			case "errorf":
				p.handed = fmt.Errorf("storage: %w", c11StorageSentinel)
			case "status":
				p.handed = op.NewStatusError(c11StorageSentinel, http.StatusForbidden)
			default:
				p.handed = c11StorageSentinel
			}
		case "callback-not-done", "storage-sentinel":
			resp := bed.Do(bed.Get("/authorize", q, ""))
			if resp.Loc != nil && strings.HasPrefix(resp.Loc.Path, "/login") {
				p.id = resp.Loc.Query().Get("authRequestID")
			}
			if p.id == "" {
				stats["par-authorize-refused"]++
				return false
			}
			if kind == "storage-sentinel" {
				bed.Store.CompleteAuthRequest(p.id, "user1")
			}
		case "scope-missing":
			q.Del("scope")
		case "prompt-none":
			q["prompt"] = []string{"none login"}
		case "request-unsupported":
			q.Set("request", "eyJhbGciOiJub25lIn0.e30.")
		}
		p.q = q
		p.authz = &c11ParAuthorizer{Authorizer: bed.Provider, enc: &c11ParEncoder{c11SeqEncoder: &c11SeqEncoder{real: oidc.NewEncoder()}}}
		reqs = append(reqs, p)
	}
	// the sentinel as it is before the group (a value of the storage: nobody but the storage should ever change it)
	h0, h0s := c11StorageSentinel.State, c11StorageSentinel.SessionState
	if groupKind == "storage-sentinel" {
		bed.Store.FailMethod("SaveAuthCode", c11StorageSentinel)
		defer bed.Store.ClearFaults()
	}
	parked := false
	if strings.Contains(sched, "(") {
		a := reqs[0]
		entered, release, done := make(chan struct{}), make(chan struct{}), make(chan struct{})
		parkFn := func() { close(entered); <-release }
		if a.fn == "TryErrorRedirect" || (a.direct != nil && r.Chance(50)) {
			a.authz.enc.park = parkFn // inside AuthResponseURL, before the schema encoder reads the error value
		} else {
			a.authz.park = parkFn // the Encoder() getter: the last argument of AuthResponseURL
		}
		go func() { defer close(done); a.serve() }()
		select {
		case <-entered:
			parked = true
		case <-done: // answered without passing the park point
		case <-time.After(20 * time.Second):
			panic("c11 par: the first request neither parked nor finished")
		}
		for _, p := range reqs[1:] {
			p.serve()
		}
		close(release)
		select {
		case <-done:
		case <-time.After(20 * time.Second):
			panic("c11 par: the parked request did not finish")
		}
	} else {
		for _, p := range reqs {
			p.serve()
		}
	}
	h1, h1s := c11StorageSentinel.State, c11StorageSentinel.SessionState
	// the storage's own value is put back: a library that wrote into it must not spoil the groups that follow
	c11StorageSentinel.State, c11StorageSentinel.SessionState = "", ""
	var gStates, gSess, gFn, gCell []string
	for i, p := range reqs {
		gStates, gSess, gFn = append(gStates, c11Hex(p.state)), append(gSess, c11Hex(p.session)), append(gFn, p.fn)
		if sentinelGroup {
			gCell = append(gCell, "0") // all of them are handed the same object
		} else {
			gCell = append(gCell, fmt.Sprint(i+1))
		}
	}
	for i, p := range reqs {
		obs := c11Obs{status: p.w.Code, loc: p.w.Header().Get("Location")}
		switch {
		case p.panic:
			obs.kind = "panic"
		case p.direct != nil && p.fn == "TryErrorRedirect":
			if p.red != nil {
				obs.kind, obs.loc = "redirect", p.red.URL
			} else {
				obs.kind = "refused"
			}
		case p.w.Code == http.StatusFound && obs.loc != "":
			obs.kind = "redirect"
		case p.w.Code == http.StatusOK:
			obs.kind, obs.body = "form", p.w.Body.Bytes()
		default:
			obs.kind = "refused"
		}
		l := hx.NewLine("C11").I("case", int64(2000000+parNo*10+i)).S("kind", "par").S("sub", "error").S("mode", string(p.mode)).S("rtype", "code").B("err", true).
			S("shape", p.u.shape).S("uri", c11Hex(p.u.s))
		if pu, perr := url.Parse(p.u.s); perr == nil {
			b := *pu
			b.RawQuery, b.ForceQuery, b.Fragment, b.RawFragment = "", false, "", ""
			l.B("u.ok", true).S("u.base", c11Hex(b.String())).S("u.rawq", c11Hex(pu.RawQuery)).B("u.fq", pu.ForceQuery).
				S("u.frag", c11Hex(pu.Fragment)).S("u.rawfrag", c11Hex(pu.RawFragment))
		} else {
			l.B("u.ok", false)
		}
		// what must arrive: the error the provider produced (recorded at the encoder boundary) with the state THIS client sent
		produced := p.authz.enc.first
		expected := map[string][]string{}
		for k, v := range produced {
			if k != "state" && !(k == "session_state" && p.direct != nil) {
				expected[k] = v
			}
		}
		if p.state != "" {
			expected["state"] = []string{p.state}
		}
		if p.direct != nil && p.session != "" {
			expected["session_state"] = []string{p.session}
		}
		l.L("p", c11Produced(expected))
		if pe, pp := c11Produced(produced), c11Produced(expected); strings.Join(pe, ",") != strings.Join(pp, ",") {
			l.L("e", pe)
			stats["par-encoded-differs-from-sent"]++
		}
		l.B("pct", false).B("safe", true).B("direct", p.direct != nil && p.fn == "TryErrorRedirect")
		l.I("par", int64(parNo)).I("par.i", int64(i)).S("par.sched", sched).S("par.err", p.errKind).B("par.parked", parked && i == 0)
		l.S("par.fn", p.fn).B("par.g.parked", parked).L("par.g.states", gStates).L("par.g.sess", gSess).L("par.g.fn", gFn).L("par.g.cell", gCell)
		if p.direct != nil {
			l.S("par.wrap", p.wrap)
		}
		if sentinelGroup {
			l.B("par.h", true).S("par.h0", c11Hex(h0)).S("par.h0s", c11Hex(h0s)).S("par.h1", c11Hex(h1)).S("par.h1s", c11Hex(h1s))
			if h0 != h1 || h0s != h1s {
				stats["par-sentinel-changed"]++
			}
		}
		l.S("obs", obs.kind)
		switch obs.kind {
		case "redirect":
			l.S("o.loc", c11Hex(obs.loc))
		case "form":
			l.S("o.body", fmt.Sprintf("%x", obs.body)).L("ua", c11UAView(obs.body))
		case "refused":
			l.I("o.status", int64(obs.status))
		}
		fmt.Fprintln(w, l.String())
		stats["kind-par"]++
		stats["par-error:"+p.errKind]++
		stats["obs-"+obs.kind]++
		stats["mode-"+string(p.mode)+"_"]++
	}
	same := true
	for _, p := range reqs[1:] {
		same = same && p.errKind == reqs[0].errKind
	}
	stats["par-schedule:"+sched+"/"+map[bool]string{true: "same-error", false: "mixed-errors"}[same]+"/"+map[bool]string{true: "parked", false: "not-parked"}[parked]]++
	return true
}
