package main

// C10 stream: storage failures fail closed.
//
// For every flow on both routers and for several REQUEST VARIANTS of that flow (credential placement, PKCE, scopes,
// opaque / JWT access tokens, hints, response modes, storage capabilities) the journal length n of the fault-free request
// is learned; the request is then repeated from a fresh provider
//   * with the k-th storage call failing, for every k = 1 … n+1 and every error kind (plain error, context.DeadlineExceeded,
//     an oidc.Error), and
//   * with each NAMED storage method of the journal failing on every call.
// The monitor (Spec/C10.lean) judges the OBSERVED response.

import (
	"bufio"
	"context"
	"errors"
	"fmt"
	"net/http"
	"net/url"
	"regexp"
	"sort"
	"strings"
	"time"
	"unsafe"

	"github.com/zitadel/oidc/v3/pkg/oidc"
	"github.com/zitadel/oidc/v3/pkg/op"

	"verifharness/internal/hx"
	"verifharness/internal/opbed"
	"verifharness/internal/refstore"
)

func init() { streams["C10"] = c10Stream }

var c10Flows = []string{"authorize", "authorize-unregistered", "callback-code", "callback-implicit", "token-code", "token-refresh", "token-cc", "token-jwt-bearer",
	"token-exchange", "device-authorization", "token-device", "userinfo", "introspect", "revoke", "end-session", "keys", "ready"}

// credential placements per flow (how the client names / authenticates itself)
var c10Creds = map[string][]string{
	"token-code":           {"basic", "post", "id-only", "assertion", "basic+same", "basic+other"},
	"token-refresh":        {"basic", "post", "id-only", "assertion", "basic+same", "basic+other"},
	"token-cc":             {"basic", "post", "basic+same", "basic+other"},
	"token-exchange":       {"basic", "post", "basic+same", "basic+other"},
	"device-authorization": {"basic", "id-only", "basic+same", "basic+other", "assertion", "pub-basic+same", "post"},
	"token-device":         {"basic", "id-only", "basic+same", "pub-basic+same", "assertion", "basic+other", "post"},
	"introspect":           {"basic", "assertion", "basic+same", "basic+other", "post"},
	"revoke":               {"basic", "post", "id-only", "assertion", "basic+same", "basic+other"},
}

type c10Var struct {
	idx                                 int
	cred                                string
	pkce, jwtAT, uiFromReq, termFromReq bool
	teVerifier, hint, formToken         bool
	scopes, mode, respType              string
	subType, reqType                    int
	secrets                             []string // "c:<value>" codes / device codes / user codes, "t:<value>" tokens issued BEFORE the request under test
}

func (v c10Var) desc() string {
	b := func(x bool, s string) string {
		if x {
			return "+" + s
		}
		return ""
	}
	return v.cred + b(v.pkce, "pkce") + b(v.jwtAT, "jwt") + b(v.hint, "hint") + b(v.formToken, "form") + "/" + strings.ReplaceAll(v.scopes, " ", ",")
}

var c10ScopeSets = []string{"openid offline_access", "openid", "openid profile email offline_access", "openid profile", "profile offline_access"}

func c10Variant(flow string, v int, r *hx.Rand) c10Var {
	creds := c10Creds[flow]
	if creds == nil {
		creds = []string{"basic", "id-only", "post", "assertion"} // the client whose tokens / auth request the flow uses
	}
	x := c10Var{idx: v, cred: creds[v%len(creds)]}
	x.jwtAT = (v/2)%2 == 1
	x.pkce = (v/3)%2 == 0
	x.scopes = c10ScopeSets[(v+v/5)%len(c10ScopeSets)]
	x.uiFromReq = v%4 >= 2
	x.termFromReq = (v/2)%3 == 1
	x.teVerifier = (v/3)%2 == 1
	x.hint = v%3 != 2
	x.formToken = (v/4)%2 == 1
	x.mode = []string{"", "query", "fragment", "form_post"}[(v+v/4)%4]
	x.respType = []string{"id_token token", "id_token"}[(v/2)%2]
	x.subType = v % 3
	x.reqType = (v + v/3) % 3
	// beyond the systematic part the seed decides
	if v >= 8 && r.Chance(50) {
		x.scopes = hx.Pick(r, c10ScopeSets...)
		x.mode = hx.Pick(r, "", "query", "fragment", "form_post")
	}
	return x
}

const c10Verifier = "verifier-EEEEEEEEEEEEEEEEEEEEEEEEEEEEEEEEEEEEEEEEEEE"

// c10Client: the client a credential placement stands for
func c10Client(cls []*flowClient, cred string) *flowClient {
	switch cred {
	case "post":
		return cls[3]
	case "id-only", "pub-basic+same":
		return cls[2]
	case "assertion":
		return cls[4]
	}
	return cls[0]
}

// c10Auth: the request credentials for a placement; extra form values name the client a second time
func c10Auth(sy *symbols, fc *flowClient, cred string) (opbed.Auth, url.Values) {
	switch cred {
	case "basic+same":
		return opbed.Auth{Kind: "basic", ID: fc.c.ID, Secret: fc.c.Secret}, url.Values{"client_id": {fc.c.ID}}
	case "basic+other":
		return opbed.Auth{Kind: "basic", ID: fc.c.ID, Secret: fc.c.Secret}, url.Values{"client_id": {"pub"}}
	case "pub-basic+same":
		// a public client that sends `Authorization: Basic base64(client_id:)` and the client_id form field
		return opbed.Auth{Kind: "basic", ID: fc.c.ID, Secret: ""}, url.Values{"client_id": {fc.c.ID}}
	}
	return ownAuth(sy, fc), nil
}

func merged(a, b url.Values) url.Values {
	out := url.Values{}
	for k, v := range a {
		out[k] = v
	}
	for k, v := range b {
		out[k] = v
	}
	return out
}

// c10Prepare builds a fresh bed, runs the fault-free prefix of a flow and returns the request under test
func c10Prepare(r *hx.Rand, sy *symbols, router, flow string, vi int) (*opbed.Bed, *http.Request, string, c10Var) {
	v := c10Variant(flow, vi, r)
	caps := refstore.Caps{CC: true, TE: true, Device: true, UserinfoFromReq: v.uiFromReq, TermFromReq: v.termFromReq, TEVerifier: v.teVerifier}
	bed, err := opbed.New(opbed.Config{Router: router, S256: true, Post: true, PrivateKeyJWT: true, Refresh: true, Caps: caps})
	if err != nil {
		panic(err)
	}
	// everything the fault-free prefix hands out: the answer to the faulted request must not repeat any of it
	note := func(resp *opbed.Resp) *opbed.Resp {
		var vals url.Values
		if resp.Loc != nil {
			vals = resp.Loc.Query()
			if frag, err := url.ParseQuery(resp.Loc.Fragment); err == nil {
				for k2, v2 := range frag {
					vals[k2] = v2
				}
			}
		}
		for _, k := range []string{"code", "device_code", "user_code"} {
			for _, x := range []string{resp.Str(k), vals.Get(k)} {
				if len(x) >= 6 {
					v.secrets = append(v.secrets, "c:"+x)
				}
			}
		}
		for _, k := range []string{"access_token", "refresh_token", "id_token"} {
			for _, x := range []string{resp.Str(k), vals.Get(k)} {
				if len(x) >= 8 {
					v.secrets = append(v.secrets, "t:"+x)
				}
			}
		}
		return resp
	}
	cls := flowClients()
	fc := c10Client(cls, v.cred)
	for _, c := range cls {
		c.c.Grants = append(c.c.Grants, oidc.GrantTypeDeviceCode, oidc.GrantTypeTokenExchange)
		if v.jwtAT {
			c.c.TokenType = op.AccessTokenTypeJWT
		}
		bed.Store.AddClient(c.c)
	}
	bed.Store.AddUser("user1", nil)
	scopes := v.scopes
	if flow == "token-refresh" || flow == "token-exchange" {
		scopes = "openid offline_access"
	}
	redirect := fc.c.Redirects[0]
	usePKCE := v.pkce || fc.c.Auth == oidc.AuthMethodNone
	authorizeQ := func(respType string) url.Values {
		q := url.Values{"client_id": {fc.c.ID}, "redirect_uri": {redirect}, "response_type": {respType}, "scope": {scopes}, "state": {"st8"}, "nonce": {"n8"}}
		if usePKCE {
			q.Set("code_challenge", oidc.NewSHACodeChallenge(c10Verifier))
			q.Set("code_challenge_method", "S256")
		}
		if v.mode != "" {
			q.Set("response_mode", v.mode)
		}
		return q
	}
	login := func(respType string) string {
		resp := note(bed.Do(bed.Get("/authorize", authorizeQ(respType), "")))
		if resp.Loc == nil {
			return ""
		}
		id := resp.Loc.Query().Get("authRequestID")
		bed.Store.CompleteAuthRequest(id, "user1")
		return id
	}
	codeOf := func(cb *opbed.Resp) string {
		if cb.Loc != nil {
			if c := cb.Loc.Query().Get("code"); c != "" {
				return c
			}
			if f, err := url.ParseQuery(cb.Loc.Fragment); err == nil && f.Get("code") != "" {
				return f.Get("code")
			}
		}
		// form_post
		body := string(cb.Body)
		if i := strings.Index(body, `name="code" value="`); i >= 0 {
			rest := body[i+len(`name="code" value="`):]
			if j := strings.Index(rest, `"`); j >= 0 {
				v.secrets = append(v.secrets, "c:"+rest[:j])
				return rest[:j]
			}
		}
		return ""
	}
	codeForm := func() url.Values {
		id := login("code")
		cb := note(bed.Do(bed.Get("/authorize/callback", url.Values{"id": {id}}, "")))
		f := url.Values{"grant_type": {"authorization_code"}, "code": {codeOf(cb)}, "redirect_uri": {redirect}}
		if usePKCE {
			f.Set("code_verifier", c10Verifier)
		}
		return f
	}
	tokens := func() *opbed.Resp {
		return note(bed.Do(bed.Form("/oauth/token", codeForm(), ownAuth(sy, fc))))
	}
	auth, extra := c10Auth(sy, fc, v.cred)
	switch flow {
	case "authorize", "authorize-unregistered":
		q := authorizeQ(hx.Pick(r, "code", "code", "id_token token"))
		if v.hint {
			q.Set("id_token_hint", tokens().Str("id_token"))
			q.Set("prompt", "login")
		}
		if flow == "authorize-unregistered" {
			// the redirect_uri is NOT registered: whatever fails, the answer must never be a redirect to it
			q.Set("redirect_uri", "https://attacker.example/steal")
		}
		if v.formToken {
			return bed, bed.Form("/authorize", q, opbed.Auth{Kind: "none"}), redirect, v
		}
		return bed, bed.Get("/authorize", q, ""), redirect, v
	case "callback-code":
		return bed, bed.Get("/authorize/callback", url.Values{"id": {login("code")}}, ""), redirect, v
	case "callback-implicit":
		fc = cls[0]
		redirect = fc.c.Redirects[0]
		return bed, bed.Get("/authorize/callback", url.Values{"id": {login(v.respType)}}, ""), redirect, v
	case "token-code":
		return bed, bed.Form("/oauth/token", merged(codeForm(), extra), auth), redirect, v
	case "token-refresh":
		tr := tokens()
		f := url.Values{"grant_type": {"refresh_token"}, "refresh_token": {tr.Str("refresh_token")}}
		if v.hint {
			f.Set("scope", "openid")
		}
		return bed, bed.Form("/oauth/token", merged(f, extra), auth), redirect, v
	case "token-cc":
		return bed, bed.Form("/oauth/token", merged(url.Values{"grant_type": {"client_credentials"}, "scope": {strings.ReplaceAll(scopes, " offline_access", "")}}, extra), auth), redirect, v
	case "token-jwt-bearer":
		now := time.Now().Unix()
		l := hx.NewLine("x")
		a := assertion(sy, l, cls[4].key, cls[4].kid, "pk", "pk", []string{opbed.Issuer}, now-5, now+300)
		return bed, bed.Form("/oauth/token", url.Values{"grant_type": {string(oidc.GrantTypeBearer)}, "assertion": {a}, "scope": {scopes}}, opbed.Auth{Kind: "none"}), redirect, v
	case "token-exchange":
		tr := tokens()
		sub, typ := tr.Str("access_token"), string(oidc.AccessTokenType)
		switch v.subType {
		case 1:
			sub, typ = tr.Str("refresh_token"), string(oidc.RefreshTokenType)
		case 2:
			sub, typ = tr.Str("id_token"), string(oidc.IDTokenType)
		}
		f := url.Values{"grant_type": {string(oidc.GrantTypeTokenExchange)}, "subject_token": {sub}, "subject_token_type": {typ},
			"requested_token_type": {[]string{string(oidc.AccessTokenType), string(oidc.RefreshTokenType), string(oidc.IDTokenType)}[v.reqType]}}
		if v.hint {
			f.Set("actor_token", tr.Str("access_token"))
			f.Set("actor_token_type", string(oidc.AccessTokenType))
		}
		return bed, bed.Form("/oauth/token", merged(f, extra), auth), redirect, v
	case "device-authorization":
		return bed, bed.Form("/device_authorization", merged(url.Values{"scope": {scopes}}, extra), auth), redirect, v
	case "token-device":
		da := note(bed.Do(bed.Form("/device_authorization", url.Values{"scope": {scopes}}, ownAuth(sy, fc))))
		if uc := da.Str("user_code"); uc != "" {
			bed.Store.ApproveDevice(uc, "user1")
		}
		f := url.Values{"grant_type": {string(oidc.GrantTypeDeviceCode)}, "device_code": {da.Str("device_code")}}
		return bed, bed.Form("/oauth/token", merged(f, extra), auth), redirect, v
	case "userinfo":
		at := tokens().Str("access_token")
		if v.formToken {
			return bed, bed.Form("/userinfo", url.Values{"access_token": {at}}, opbed.Auth{Kind: "none"}), redirect, v
		}
		return bed, bed.Get("/userinfo", nil, at), redirect, v
	case "introspect":
		tr := tokens()
		tok := tr.Str("access_token")
		if v.subType == 1 {
			tok = tr.Str("refresh_token")
		}
		// the resource server introspecting is the client of the placement; the token belongs to it as well
		return bed, bed.Form("/oauth/introspect", merged(url.Values{"token": {tok}}, extra), auth), redirect, v
	case "revoke":
		tr := tokens()
		f := url.Values{"token": {tr.Str("access_token")}}
		switch v.subType {
		case 1:
			f.Set("token", tr.Str("refresh_token"))
			if v.hint {
				f.Set("token_type_hint", "refresh_token")
			}
		case 2:
			f.Set("token_type_hint", "access_token")
		}
		return bed, bed.Form("/revoke", merged(f, extra), auth), redirect, v
	case "end-session":
		tr := tokens()
		q := url.Values{"state": {"bye"}}
		if v.hint {
			q.Set("id_token_hint", tr.Str("id_token"))
		} else {
			q.Set("client_id", fc.c.ID)
		}
		if v.formToken && len(fc.c.PostLogout) > 0 {
			q.Set("post_logout_redirect_uri", fc.c.PostLogout[0])
		}
		return bed, bed.Get("/end_session", q, ""), redirect, v
	case "ready":
		// the readiness endpoint: its probe loop asks the storage (ReadyStorage -> Storage.Health)
		return bed, bed.Get("/ready", nil, ""), redirect, v
	default: // keys
		return bed, bed.Get("/keys", nil, ""), redirect, v
	}
}

func journalMethod(entry string) string {
	if i := strings.IndexByte(entry, '('); i >= 0 {
		return entry[:i]
	}
	return entry
}

// c10Observe renders what the response to the faulted request contains
var c10JWTShape = regexp.MustCompile(`eyJ[A-Za-z0-9_-]{8,}\.[A-Za-z0-9_-]{8,}\.[A-Za-z0-9_-]*`)

// c10Scan: what the WHOLE answer (body and every header, raw) contains: (a code / device code, a token, user claims).
// Looked for: every secret the fault-free prefix handed out, anything of JWT shape, any JSON member (at any depth) or form field
// named like a credential, the user's claim values
func c10Scan(resp *opbed.Resp, secrets []string) (code, tok, claims bool) {
	var sb strings.Builder
	sb.Write(resp.Body)
	for k, vs := range resp.Header {
		for _, x := range vs {
			sb.WriteString("\n" + k + ": " + x)
			if u, err := url.QueryUnescape(x); err == nil && u != x {
				sb.WriteString("\n" + k + ": " + u)
			}
		}
	}
	all := sb.String()
	for _, sc := range secrets {
		if strings.Contains(all, sc[2:]) {
			if sc[0] == 'c' {
				code = true
			} else {
				tok = true
			}
		}
	}
	if c10JWTShape.MatchString(all) {
		tok = true
	}
	var walk func(x any)
	walk = func(x any) {
		switch v := x.(type) {
		case map[string]any:
			for k, y := range v {
				if s, _ := y.(string); s != "" {
					switch k {
					case "code", "device_code", "user_code":
						code = true
					case "access_token", "refresh_token", "id_token":
						tok = true
					case "sub", "email", "name", "preferred_username", "phone_number":
						claims = true
					}
				}
				walk(y)
			}
		case []any:
			for _, y := range v {
				walk(y)
			}
		}
	}
	walk(map[string]any(resp.JSON))
	for _, f := range []string{`name="code"`, `name="device_code"`, `name="user_code"`} {
		if strings.Contains(all, f) {
			code = true
		}
	}
	for _, f := range []string{`name="access_token"`, `name="id_token"`, `name="refresh_token"`} {
		if strings.Contains(all, f) {
			tok = true
		}
	}
	for _, f := range []string{"user1@example.com", "Name of user1", `"sub"`, "+00 user1"} {
		if strings.Contains(all, f) {
			claims = true
		}
	}
	return
}

func c10Observe(l *hx.Line, flow, redirect string, resp *opbed.Resp, secrets []string) {
	l.I("o.status", int64(resp.Status)).B("o.panic", resp.Panicked)
	body := string(resp.Body)
	hasTok := resp.Str("access_token") != "" || resp.Str("refresh_token") != "" || resp.Str("id_token") != ""
	hasCode := false
	hasRedirect := resp.Loc != nil && resp.Status >= 300 && resp.Status < 400
	locErr, locReg := false, true
	if hasRedirect {
		vals := resp.Loc.Query()
		if frag, err := url.ParseQuery(resp.Loc.Fragment); err == nil {
			for k2, v2 := range frag {
				vals[k2] = v2
			}
		}
		locErr = vals.Get("error") != ""
		hasCode = vals.Get("code") != ""
		if vals.Get("access_token") != "" || vals.Get("id_token") != "" {
			hasTok = true
		}
		target := *resp.Loc
		target.RawQuery, target.Fragment, target.RawFragment = "", "", ""
		locReg = target.String() == redirect || strings.HasPrefix(resp.Loc.Path, "/login")
	}
	if strings.Contains(body, `name="code"`) {
		hasCode = true
	}
	if strings.Contains(body, `name="access_token"`) || strings.Contains(body, `name="id_token"`) {
		hasTok = true
	}
	_, hasSub := resp.JSON["sub"]
	active, _ := resp.JSON["active"].(bool)
	dcode := resp.Str("device_code") != "" || resp.Str("user_code") != ""
	sCode, sTok, sClaims := c10Scan(resp, secrets)
	l.B("o.redirect", hasRedirect).B("o.locerr", locErr).B("o.locreg", locReg).B("o.code", hasCode || dcode || sCode).B("o.token", hasTok || sTok).
		B("o.claims", (hasSub && (flow == "userinfo" || flow == "introspect")) || sClaims).B("o.active", active).S("o.err", resp.OAuthError())
	l.B("o.scan", sCode || sTok || sClaims)
}

type c10Kind struct {
	name string
	err  error
}

// the three kinds every journal index is failed with
var c10BaseKinds = []c10Kind{{"plain", errors.New("injected storage failure")}, {"deadline", context.DeadlineExceeded},
	{"oidc", oidc.ErrServerError().WithDescription("injected")}}

// c10SpecialKinds: the error VALUES pkg/op treats specially somewhere (errors.Is / errors.As tests, error classes that change the
// answer), bare and wrapped - injected as storage failures by the fault schedules
func c10SpecialKinds() []c10Kind {
	wrap := func(e error) error { return fmt.Errorf("storage: %w", e) }
	hintExpired := op.IDTokenHintExpiredError{}
	*(*error)(unsafe.Pointer(&hintExpired)) = errors.New("token expired") // the type's only field is an embedded (unexported) error
	ks := []c10Kind{
		{"canceled", context.Canceled}, {"wrap:deadline", wrap(context.DeadlineExceeded)}, {"wrap:canceled", wrap(context.Canceled)},
		{"ErrDuplicateUserCode", op.ErrDuplicateUserCode}, {"wrap:ErrDuplicateUserCode", wrap(op.ErrDuplicateUserCode)},
		{"ErrInvalidRefreshToken", op.ErrInvalidRefreshToken}, {"wrap:ErrInvalidRefreshToken", wrap(op.ErrInvalidRefreshToken)},
		{"ErrNoClientCredentials", op.ErrNoClientCredentials}, {"wrap:ErrNoClientCredentials", wrap(op.ErrNoClientCredentials)},
		{"IDTokenHintExpiredError", hintExpired}, {"wrap:IDTokenHintExpiredError", wrap(hintExpired)},
		{"StatusError(503)", op.NewStatusError(errors.New("storage unavailable"), http.StatusServiceUnavailable)},
	}
	for _, c := range []struct {
		n string
		f func() *oidc.Error
	}{{"invalid_request", oidc.ErrInvalidRequest}, {"invalid_request_redirect_uri", oidc.ErrInvalidRequestRedirectURI}, {"invalid_scope", oidc.ErrInvalidScope},
		{"invalid_client", oidc.ErrInvalidClient}, {"invalid_grant", oidc.ErrInvalidGrant}, {"unauthorized_client", oidc.ErrUnauthorizedClient},
		{"unsupported_grant_type", oidc.ErrUnsupportedGrantType}, {"interaction_required", oidc.ErrInteractionRequired}, {"login_required", oidc.ErrLoginRequired},
		{"request_not_supported", oidc.ErrRequestNotSupported}, {"access_denied", oidc.ErrAccessDenied}, {"authorization_pending", oidc.ErrAuthorizationPending},
		{"slow_down", oidc.ErrSlowDown}, {"expired_token", oidc.ErrExpiredDeviceCode}, {"invalid_target", oidc.ErrInvalidTarget}} {
		ks = append(ks, c10Kind{"oidc:" + c.n, c.f().WithDescription("injected")})
	}
	return ks
}

// (method, error value) pairs that are scheduled for every variant (the other special kinds rotate): the two answers the storage
// interface documents as part of the protocol, and the sentinel of the audited table that a storage error can reach through
// an error chain (ClientBasicAuth wraps the error of AuthorizeClientIDSecret, ClientIDFromRequest tests it with errors.Is)
var c10Documented = map[string][]string{"StoreDeviceAuthorization": {"ErrDuplicateUserCode", "wrap:ErrDuplicateUserCode"},
	"GetRefreshTokenInfo":     {"ErrInvalidRefreshToken", "wrap:ErrInvalidRefreshToken"},
	"AuthorizeClientIDSecret": {"ErrNoClientCredentials", "wrap:ErrNoClientCredentials"}}

func c10Stream(r *hx.Rand, tier string, n int, w *bufio.Writer) map[string]int {
	variants := 8
	if tier == "thorough" {
		variants = 32
	}
	if n > 0 {
		variants = n
	}
	stats := map[string]int{}
	sy := newSymbols()
	caseNo := 0
	kinds := c10BaseKinds
	special := c10SpecialKinds()
	kindByName := map[string]c10Kind{}
	for _, k := range append(append([]c10Kind{}, kinds...), special...) {
		kindByName[k.name] = k
	}
	base := r.U64() % 1000000
	rot := int(base % 97)
	// emit one case: sched = the fault schedule, failedIdx = journal positions (1-based) of the calls that failed, method = the scheduled method
	emit := func(l *hx.Line, flow, redirect, sched, kind, method string, resp *opbed.Resp, failedIdx []int, v c10Var) {
		hit := len(failedIdx) > 0
		failed, mok := "", 0
		if hit {
			failed = resp.Journal[failedIdx[0]-1]
			if method == "" {
				method = journalMethod(failed)
			}
		}
		isFailed := map[int]bool{}
		for _, i := range failedIdx {
			isFailed[i] = true
		}
		for j, e := range resp.Journal {
			if journalMethod(e) == method && !isFailed[j+1] {
				mok++
			}
		}
		l.S("sched", sched).B("hit", hit).I("nfail", int64(len(failedIdx))).I("mok", int64(mok))
		if hit {
			l.S("failed", failed)
			stats["fault-hit"]++
			stats["hit-"+flow+"-"+journalMethod(failed)]++
		}
		stats["sched-"+sched+"-"+kind]++
		c10Observe(l, flow, redirect, resp, v.secrets)
		fmt.Fprintln(w, l.String())
		stats["cases"]++
		caseNo++
	}
	callsOf := func(journal []string, m string) []int {
		var out []int
		for j, e := range journal {
			if journalMethod(e) == m {
				out = append(out, j+1)
			}
		}
		return out
	}
	fv := 0 // running number of (variant, router, flow): rotates the special kinds
	for v := 0; v < variants; v++ {
		for _, router := range []string{"provider", "legacy"} {
			for _, flow := range c10Flows {
				fv++
				seed := base + uint64(1000*v+7)
				// learn the journal of the fault-free request
				bed, req, _, vd := c10Prepare(hx.NewRand(seed), sy, router, flow, v)
				baseResp := bed.Do(req)
				nCalls := len(baseResp.Journal)
				stats["variant-"+flow+"-"+vd.cred]++
				if nCalls > stats["journal-max-"+flow] {
					stats["journal-max-"+flow] = nCalls
				}
				if baseResp.Status < 400 && !baseResp.Panicked {
					stats["faultfree-ok-"+flow]++
				}
				line := func(mode string, k int, kind string) *hx.Line {
					return hx.NewLine("C10").I("case", int64(caseNo)).S("flow", flow).S("router", router).S("cred", vd.cred).S("variant", vd.desc()).I("v", int64(v)).
						S("mode", mode).I("k", int64(k)).I("n", int64(nCalls)).S("kind", kind)
				}
				// (1) every journal index, every base kind - and one of the special error values (thorough: two), rotating over the
				// indices, so that every sentinel meets every call position over the variants
				for k := 1; k <= nCalls+1; k++ {
					ks := append([]c10Kind{}, kinds...)
					if k <= nCalls {
						ks = append(ks, special[(rot+fv*7+k*3)%len(special)])
						if tier == "thorough" {
							ks = append(ks, special[(rot+fv*7+k*3+len(special)/2)%len(special)])
						}
					}
					for _, kind := range ks {
						bed, req, redirect, vr := c10Prepare(hx.NewRand(seed), sy, router, flow, v)
						bed.Store.FailAt(k, kind.err)
						resp := bed.Do(req)
						bed.Store.ClearFaults()
						var idx []int
						if k <= len(resp.Journal) { // the k-th call of this request was really made (and failed)
							idx = []int{k}
						}
						emit(line("index", k, kind.name), flow, redirect, "index", kind.name, "", resp, idx, vr)
					}
				}
				// (1b) pair: TWO different indices of one request fail (i, i+1) - two failures in a row - and, thorough, (i, j) with a
				// later j chosen by the seed; the second one is only reached when the first was tolerated, retried or a protocol answer
				pr := hx.NewRand(seed + 99)
				for i := 1; i < nCalls; i++ {
					js := []int{i + 1}
					if tier == "thorough" && i+2 <= nCalls {
						js = append(js, i+2+pr.Intn(nCalls-i-1))
					}
					for pj, j := range js {
						kind := kinds[(i+fv+pj)%len(kinds)]
						if (i+fv)%3 == 0 {
							kind = special[(rot+fv*11+i+pj)%len(special)]
						}
						bed, req, redirect, vr := c10Prepare(hx.NewRand(seed), sy, router, flow, v)
						bed.Store.FailAt(i, kind.err)
						bed.Store.FailAt(j, kind.err)
						resp := bed.Do(req)
						bed.Store.ClearFaults()
						var idx []int
						for _, q := range []int{i, j} {
							if q <= len(resp.Journal) {
								idx = append(idx, q)
							}
						}
						if len(idx) == 2 {
							stats["pair-both-hit"]++
						}
						emit(line(fmt.Sprintf("pair:%d+%d", i, j), i, kind.name), flow, redirect, "pair", kind.name, "", resp, idx, vr)
					}
				}
				seen := map[string]bool{}
				var methods []string
				for _, e := range baseResp.Journal {
					if m := journalMethod(e); !seen[m] {
						seen[m] = true
						methods = append(methods, m)
					}
				}
				sort.Strings(methods)
				// firstK: the named method fails on its first k calls (the calls are found run by run: a retry adds calls)
				firstK := func(m string, k int, kind c10Kind) (*opbed.Resp, []int, string, c10Var) {
					var idx []int
					for {
						bed, req, redirect, vr := c10Prepare(hx.NewRand(seed), sy, router, flow, v)
						for _, i := range idx {
							bed.Store.FailAt(i, kind.err)
						}
						resp := bed.Do(req)
						bed.Store.ClearFaults()
						next := 0
						for _, i := range callsOf(resp.Journal, m) {
							if len(idx) == 0 || i > idx[len(idx)-1] {
								next = i
								break
							}
						}
						if len(idx) < k && next > 0 {
							idx = append(idx, next)
							continue
						}
						return resp, idx, redirect, vr
					}
				}
				for i, m := range methods {
					// the kinds this method is scheduled with: one base, one special (thorough: two; rotating), and the documented answers of this method
					sel := []c10Kind{kinds[(i+v)%len(kinds)], special[(rot+fv*5+i)%len(special)]}
					if tier == "thorough" {
						sel = append(sel, special[(rot+fv*5+i+len(special)/2)%len(special)])
					}
					for _, dn := range c10Documented[m] {
						sel = append(sel, kindByName[dn])
					}
					for si, kind := range sel {
						// (2) always: every call of the method fails
						bed, req, redirect, vr := c10Prepare(hx.NewRand(seed), sy, router, flow, v)
						bed.Store.FailMethod(m, kind.err)
						resp := bed.Do(req)
						bed.Store.ClearFaults()
						emit(line("method:"+m, 0, kind.name), flow, redirect, "always", kind.name, m, resp, callsOf(resp.Journal, m), vr)
						if si == 0 {
							continue // a base kind on the first call is schedule (1)
						}
						// (3) first k calls, k = 1, 2, 3 (k+1 only when k calls could really be failed: the method was called again)
						for k := 1; k <= 3; k++ {
							resp, idx, redirect, vr := firstK(m, k, kind)
							if len(idx) < k {
								stats["sched-saturated"]++
								break
							}
							emit(line("method:"+m, k, kind.name), flow, redirect, fmt.Sprintf("first%d", k), kind.name, m, resp, idx, vr)
						}
					}
				}
				// (4) all: EVERY storage call of the request fails, with every special kind in turn over the variants
				allKinds := []c10Kind{kinds[fv%len(kinds)]}
				nAll := 3
				if tier == "thorough" {
					nAll = 6
				}
				for j := 0; j < nAll; j++ {
					allKinds = append(allKinds, special[(rot+fv*nAll+j)%len(special)])
				}
				for _, kind := range allKinds {
					bed, req, redirect, vr := c10Prepare(hx.NewRand(seed), sy, router, flow, v)
					for i := 1; i <= 64; i++ {
						bed.Store.FailAt(i, kind.err)
					}
					resp := bed.Do(req)
					bed.Store.ClearFaults()
					var idx []int
					for i := range resp.Journal {
						idx = append(idx, i+1)
					}
					emit(line("all", 0, kind.name), flow, redirect, "all", kind.name, "", resp, idx, vr)
				}
			}
		}
	}
	return stats
}
