package main

import (
	"bufio"
	"context"
	"errors"
	"fmt"
	"net/http"
	"net/url"
	"strings"
	"time"

	"github.com/zitadel/oidc/v3/pkg/oidc"
	"github.com/zitadel/oidc/v3/pkg/op"

	"verifharness/internal/hx"
	"verifharness/internal/opbed"
	"verifharness/internal/refstore"
)

func init() { streams["C10"] = c10Stream }

var c10Flows = []string{"authorize", "authorize-unregistered", "callback-code", "callback-implicit", "token-code", "token-refresh", "token-cc", "token-jwt-bearer",
	"token-exchange", "device-authorization", "token-device", "userinfo", "introspect", "revoke", "end-session", "keys"}

// c10Prepare builds a fresh bed, runs the fault-free prefix of a flow and returns the request under test
func c10Prepare(r *hx.Rand, sy *symbols, router, flow string, variant int) (*opbed.Bed, *http.Request, string) {
	caps := refstore.Caps{CC: true, TE: true, Device: true, UserinfoFromReq: variant%2 == 1}
	bed, err := opbed.New(opbed.Config{Router: router, S256: true, Post: true, PrivateKeyJWT: true, Refresh: true, Caps: caps})
	if err != nil {
		panic(err)
	}
	cls := flowClients()
	for _, fc := range cls {
		bed.Store.AddClient(fc.c)
	}
	bed.Store.AddUser("user1", nil)
	fc := cls[0] // web
	if variant%3 == 1 {
		fc = cls[2] // pub
	}
	if variant%4 == 3 {
		fc.c.TokenType = op.AccessTokenTypeJWT
	}
	scopes := hx.Pick(r, "openid offline_access", "openid profile email offline_access", "openid")
	if flow == "token-refresh" || flow == "token-exchange" {
		scopes = "openid offline_access"
	}
	redirect := fc.c.Redirects[0]
	authorizeQ := func(respType string) url.Values {
		q := url.Values{"client_id": {fc.c.ID}, "redirect_uri": {redirect}, "response_type": {respType}, "scope": {scopes}, "state": {"st8"}, "nonce": {"n8"}}
		if fc.c.Auth == oidc.AuthMethodNone {
			q.Set("code_challenge", oidc.NewSHACodeChallenge("verifier-EEEEEEEEEEEEEEEEEEEEEEEEEEEEEEEEEEEEEEEEEEE"))
			q.Set("code_challenge_method", "S256")
		}
		return q
	}
	login := func(respType string) string {
		resp := bed.Do(bed.Get("/authorize", authorizeQ(respType), ""))
		if resp.Loc == nil {
			return ""
		}
		id := resp.Loc.Query().Get("authRequestID")
		bed.Store.CompleteAuthRequest(id, "user1")
		return id
	}
	tokens := func() *opbed.Resp {
		id := login("code")
		cb := bed.Do(bed.Get("/authorize/callback", url.Values{"id": {id}}, ""))
		code := ""
		if cb.Loc != nil {
			code = cb.Loc.Query().Get("code")
		}
		f := url.Values{"grant_type": {"authorization_code"}, "code": {code}, "redirect_uri": {redirect}}
		if fc.c.Auth == oidc.AuthMethodNone {
			f.Set("code_verifier", "verifier-EEEEEEEEEEEEEEEEEEEEEEEEEEEEEEEEEEEEEEEEEEE")
		}
		return bed.Do(bed.Form("/oauth/token", f, ownAuth(sy, fc)))
	}
	switch flow {
	case "authorize":
		return bed, bed.Get("/authorize", authorizeQ("code"), ""), redirect
	case "authorize-unregistered":
		// the redirect_uri is NOT registered: whatever fails, the answer must never be a redirect to it
		q := authorizeQ("code")
		q.Set("redirect_uri", "https://attacker.example/steal")
		return bed, bed.Get("/authorize", q, ""), redirect
	case "callback-code":
		return bed, bed.Get("/authorize/callback", url.Values{"id": {login("code")}}, ""), redirect
	case "callback-implicit":
		fc = cls[0]
		redirect = fc.c.Redirects[0]
		return bed, bed.Get("/authorize/callback", url.Values{"id": {login(hx.Pick(r, "id_token token", "id_token"))}}, ""), redirect
	case "token-code":
		id := login("code")
		cb := bed.Do(bed.Get("/authorize/callback", url.Values{"id": {id}}, ""))
		code := ""
		if cb.Loc != nil {
			code = cb.Loc.Query().Get("code")
		}
		f := url.Values{"grant_type": {"authorization_code"}, "code": {code}, "redirect_uri": {redirect}}
		if fc.c.Auth == oidc.AuthMethodNone {
			f.Set("code_verifier", "verifier-EEEEEEEEEEEEEEEEEEEEEEEEEEEEEEEEEEEEEEEEEEE")
		}
		return bed, bed.Form("/oauth/token", f, ownAuth(sy, fc)), redirect
	case "token-refresh":
		tr := tokens()
		return bed, bed.Form("/oauth/token", url.Values{"grant_type": {"refresh_token"}, "refresh_token": {tr.Str("refresh_token")}}, ownAuth(sy, fc)), redirect
	case "token-cc":
		return bed, bed.Form("/oauth/token", url.Values{"grant_type": {"client_credentials"}, "scope": {"openid"}}, ownAuth(sy, cls[0])), redirect
	case "token-jwt-bearer":
		now := time.Now().Unix()
		l := hx.NewLine("x")
		a := assertion(sy, l, cls[4].key, cls[4].kid, "pk", "pk", []string{opbed.Issuer}, now-5, now+300)
		return bed, bed.Form("/oauth/token", url.Values{"grant_type": {string(oidc.GrantTypeBearer)}, "assertion": {a}, "scope": {"openid"}}, opbed.Auth{Kind: "none"}), redirect
	case "token-exchange":
		tr := tokens()
		sub, typ := tr.Str("refresh_token"), string(oidc.RefreshTokenType)
		if variant%2 == 0 {
			sub, typ = tr.Str("access_token"), string(oidc.AccessTokenType)
		}
		f := url.Values{"grant_type": {string(oidc.GrantTypeTokenExchange)}, "subject_token": {sub}, "subject_token_type": {typ},
			"requested_token_type": {hx.Pick(r, string(oidc.AccessTokenType), string(oidc.RefreshTokenType), string(oidc.IDTokenType))}}
		return bed, bed.Form("/oauth/token", f, ownAuth(sy, cls[0])), redirect
	case "device-authorization":
		return bed, bed.Form("/device_authorization", url.Values{"scope": {"openid"}}, ownAuth(sy, fc)), redirect
	case "token-device":
		da := bed.Do(bed.Form("/device_authorization", url.Values{"scope": {"openid offline_access"}}, ownAuth(sy, fc)))
		if uc := da.Str("user_code"); uc != "" {
			bed.Store.ApproveDevice(uc, "user1")
		}
		return bed, bed.Form("/oauth/token", url.Values{"grant_type": {string(oidc.GrantTypeDeviceCode)}, "device_code": {da.Str("device_code")}}, ownAuth(sy, fc)), redirect
	case "userinfo":
		return bed, bed.Get("/userinfo", nil, tokens().Str("access_token")), redirect
	case "introspect":
		return bed, bed.Form("/oauth/introspect", url.Values{"token": {tokens().Str("access_token")}}, ownAuth(sy, cls[0])), redirect
	case "revoke":
		tr := tokens()
		return bed, bed.Form("/revoke", url.Values{"token": {hx.Pick(r, tr.Str("access_token"), tr.Str("refresh_token"))}}, ownAuth(sy, fc)), redirect
	case "end-session":
		tr := tokens()
		q := url.Values{"id_token_hint": {tr.Str("id_token")}, "state": {"bye"}}
		if variant%2 == 0 {
			q.Set("post_logout_redirect_uri", "https://rp.example/logged-out")
		}
		return bed, bed.Get("/end_session", q, ""), redirect
	default: // keys
		return bed, bed.Get("/keys", nil, ""), redirect
	}
}

func c10Stream(r *hx.Rand, tier string, n int, w *bufio.Writer) map[string]int {
	variants := 2
	if tier == "thorough" {
		variants = 12
	}
	if n > 0 {
		variants = n
	}
	stats := map[string]int{}
	sy := newSymbols()
	caseNo := 0
	kinds := []struct {
		name string
		err  error
	}{{"plain", errors.New("injected storage failure")}, {"deadline", context.DeadlineExceeded}, {"oidc", oidc.ErrServerError().WithDescription("injected")}}
	for v := 0; v < variants; v++ {
		for _, router := range []string{"provider", "legacy"} {
			for _, flow := range c10Flows {
				// learn the journal length of the fault-free request
				bed, req, _ := c10Prepare(hx.NewRand(uint64(1000*v+7)), sy, router, flow, v)
				base := bed.Do(req)
				nCalls := len(base.Journal)
				stats["journal-"+flow] = nCalls
				for k := 1; k <= nCalls+1; k++ {
					for _, kind := range kinds {
						bed, req, redirect := c10Prepare(hx.NewRand(uint64(1000*v+7)), sy, router, flow, v)
						bed.Store.FailAt(k, kind.err)
						resp := bed.Do(req)
						bed.Store.ClearFaults()
						hit := k <= len(resp.Journal) // the k-th call of this request was really made (and failed)
						l := hx.NewLine("C10").I("case", int64(caseNo)).S("flow", flow).S("router", router).I("k", int64(k)).I("n", int64(nCalls)).S("kind", kind.name).B("hit", hit)
						caseNo++
						if hit {
							l.S("failed", resp.Journal[k-1])
						}
						l.I("o.status", int64(resp.Status)).B("o.panic", resp.Panicked)
						body := string(resp.Body)
						hasTok := resp.Str("access_token") != "" || resp.Str("refresh_token") != "" || resp.Str("id_token") != ""
						hasCode := false
						hasRedirect := resp.Loc != nil && resp.Status >= 300 && resp.Status < 400
						locErr, locReg := false, true
						if hasRedirect {
							vals := resp.Loc.Query()
							if frag, err := url.ParseQuery(resp.Loc.Fragment); err == nil {
								for k2, v2 := range frag {
									vals[k2] = v2
								}
							}
							locErr = vals.Get("error") != ""
							hasCode = vals.Get("code") != ""
							if vals.Get("access_token") != "" || vals.Get("id_token") != "" {
								hasTok = true
							}
							target := *resp.Loc
							target.RawQuery, target.Fragment = "", ""
							locReg = target.String() == redirect || strings.HasPrefix(resp.Loc.Path, "/login")
						}
						if strings.Contains(body, `name="code"`) || strings.Contains(body, `name="access_token"`) || strings.Contains(body, `name="id_token"`) {
							hasTok = true
						}
						_, hasSub := resp.JSON["sub"]
						active, _ := resp.JSON["active"].(bool)
						dcode := resp.Str("device_code") != ""
						l.B("o.redirect", hasRedirect).B("o.locerr", locErr).B("o.locreg", locReg).B("o.code", hasCode || dcode).B("o.token", hasTok).
							B("o.claims", hasSub && (flow == "userinfo" || flow == "introspect")).B("o.active", active).S("o.err", resp.OAuthError())
						fmt.Fprintln(w, l.String())
						stats["cases"]++
						if hit {
							stats["fault-hit"]++
						}
					}
				}
			}
		}
	}
	return stats
}
