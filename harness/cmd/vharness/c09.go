package main

// C09 — malformed requests, tokens and provider answers: an error response / a returned error, never a panic,
// never two responses, never grant logic after the error was answered.
//
// Three sub-streams, everything under recover():
//   handler – HTTP requests against BOTH routers through a response recorder that counts commits and a journalling
//             storage that shows calls made after an error response was committed
//   dec / claims / verify – JSON documents and tokens through every decoder / verifier
//   client  – a fake provider (RoundTripper) answering the client-side helpers with arbitrary (status, body)
// One line per case; the Lean driver evaluates the monitor on the OBSERVED outcome and compares with the model.

import (
	"bufio"
	"bytes"
	"context"
	"encoding/base64"
	"encoding/json"
	"fmt"
	"io"
	"math"
	"math/big"
	"net/http"
	"net/http/httptest"
	"net/url"
	"os"
	"os/exec"
	"strings"
	"time"

	jose "github.com/go-jose/go-jose/v4"
	"golang.org/x/oauth2"
	"golang.org/x/text/language"

	"github.com/zitadel/oidc/v3/pkg/client"
	"github.com/zitadel/oidc/v3/pkg/client/rp"
	"github.com/zitadel/oidc/v3/pkg/client/rs"
	httphelper "github.com/zitadel/oidc/v3/pkg/http"
	"github.com/zitadel/oidc/v3/pkg/oidc"
	"github.com/zitadel/oidc/v3/pkg/op"

	"verifharness/internal/hx"
	"verifharness/internal/opbed"
	"verifharness/internal/refstore"
)

func init() {
	streams["C09"] = c09Stream
	if os.Getenv("C09_JWKS_CHILD") == "1" {
		c09JWKSChild()
	}
}

// c09JWKSChild: one remote-key-set verification against a fake provider; input on stdin: token \n status \n body.
// Prints ok | err | panic:<value>; an unrecoverable panic (in the download goroutine) makes the process exit non-zero.
func c09JWKSChild() {
	in, _ := io.ReadAll(os.Stdin)
	parts := strings.SplitN(string(in), "\n", 3)
	if len(parts) != 3 {
		os.Exit(3)
	}
	status := 200
	fmt.Sscan(parts[1], &status)
	hc := &http.Client{Transport: &c09RT{status: status, body: parts[2]}}
	out := "ok"
	func() {
		defer func() {
			if p := recover(); p != nil {
				out = "panic:" + fmt.Sprint(p)
			}
		}()
		jws, err := jose.ParseSigned(parts[0], []jose.SignatureAlgorithm{jose.RS256})
		if err != nil {
			out = "err"
			return
		}
		if _, err = rp.NewRemoteKeySet(hc, c09Iss+"/keys").VerifySignature(context.Background(), jws); err != nil {
			out = "err"
		}
	}()
	fmt.Print(out)
	os.Exit(0)
}

func c09RunJWKSChild(tok string, status int, body string) string {
	cmd := exec.Command(os.Args[0])
	cmd.Env = append(os.Environ(), "C09_JWKS_CHILD=1")
	cmd.Stdin = strings.NewReader(tok + "\n" + fmt.Sprint(status) + "\n" + body)
	var stdout, stderr bytes.Buffer
	cmd.Stdout, cmd.Stderr = &stdout, &stderr
	if err := cmd.Run(); err != nil {
		msg := stderr.String()
		if i := strings.Index(msg, "\n"); i > 0 {
			msg = msg[:i]
		}
		return "process-crashed:" + msg
	}
	return stdout.String()
}

// ---------------------------------------------------------------- (i) handlers

type c09Writer struct {
	rec            *httptest.ResponseRecorder
	store          *refstore.Store
	commits        int
	firstStatus    int
	firstIsErr     bool
	journalAtFirst int
}

func (w *c09Writer) Header() http.Header { return w.rec.Header() }
func (w *c09Writer) commit(code int) {
	w.commits++
	if w.commits == 1 {
		w.firstStatus = code
		w.journalAtFirst = len(w.store.Journal())
		loc := w.rec.Header().Get("Location")
		w.firstIsErr = code >= 400 || (code >= 300 && (strings.Contains(loc, "error=")))
	}
}
func (w *c09Writer) WriteHeader(code int) { w.commit(code); w.rec.WriteHeader(code) }
func (w *c09Writer) Write(b []byte) (int, error) {
	if w.commits == 0 {
		w.commit(http.StatusOK)
	}
	return w.rec.Write(b)
}

type c09Obs struct {
	panicked bool
	pv       string
	commits  int
	afterErr int
	status   int
	after    []string
	lastCall string // the last storage call of the request (method name)
}

func c09Serve(bed *opbed.Bed, req *http.Request) c09Obs {
	w := &c09Writer{rec: httptest.NewRecorder(), store: bed.Store}
	var o c09Obs
	before := len(bed.Store.Journal())
	func() {
		defer func() {
			if p := recover(); p != nil {
				o.panicked = true
				o.pv = fmt.Sprint(p)
			}
		}()
		bed.Handler.ServeHTTP(w, req)
	}()
	if j := bed.Store.Journal(); len(j) > before {
		o.lastCall = strings.SplitN(j[len(j)-1], "(", 2)[0]
	}
	o.commits = w.commits
	o.status = w.firstStatus
	if w.commits > 0 && w.firstIsErr {
		j := bed.Store.Journal()
		if w.journalAtFirst <= len(j) {
			o.after = j[w.journalAtFirst:]
			o.afterErr = len(o.after)
		}
	}
	return o
}

var c09ProviderEntry = map[string]string{
	"/authorize": "authorizeHandler.func1", "/authorize/callback": "AuthorizeCallbackHandler.func1", "/oauth/token": "tokenHandler.func1",
	"/oauth/introspect": "introspectionHandler.func1", "/userinfo": "userinfoHandler.func1", "/revoke": "revocationHandler.func1",
	"/end_session": "endSessionHandler.func1", "/keys": "keysHandler.func1", "/device_authorization": "DeviceAuthorizationHandler.func1",
	"/.well-known/openid-configuration": "discoveryHandler.func1", "/healthz": "healthHandler", "/ready": "readyHandler.func1",
}
var c09LegacyEntry = map[string]string{
	"/authorize": "webServer.authorizeHandler", "/authorize/callback": "AuthorizeCallbackHandler.func1", "/oauth/token": "webServer.tokensHandler",
	"/oauth/introspect": "webServer.introspectionHandler", "/userinfo": "webServer.userInfoHandler", "/revoke": "webServer.withClient.func1",
	"/end_session": "webServer.endSessionHandler", "/keys": "simpleHandler.func1", "/device_authorization": "webServer.withClient.func1",
	"/.well-known/openid-configuration": "simpleHandler.func1", "/healthz": "simpleHandler.func1", "/ready": "simpleHandler.func1",
}

var c09Routes = []string{"/authorize", "/authorize/callback", "/oauth/token", "/oauth/introspect", "/userinfo", "/revoke", "/end_session", "/keys",
	"/device_authorization", "/.well-known/openid-configuration", "/healthz", "/ready"}

var c09Grants = []string{"authorization_code", "refresh_token", "client_credentials", "urn:ietf:params:oauth:grant-type:jwt-bearer",
	"urn:ietf:params:oauth:grant-type:token-exchange", "urn:ietf:params:oauth:grant-type:device_code"}

// tokens whose structure is hostile: segment counts, payload null / non-object / wrong member types
func c09B64(s string) string { return base64.RawURLEncoding.EncodeToString([]byte(s)) }

var c09Payloads = []string{"null", " null ", "true", "1", "1.5", `"s"`, "[]", "[1]", "{}", ` {}`, "\n{}", `{"aud":["a",1]}`, `{"aud":1}`, `{"aud":null}`, `{"aud":[null]}`,
	`{"aud":[["a"]]}`, `{"aud":{}}`, `{"exp":1.5}`, `{"exp":1e300}`, `{"exp":-1e300}`, `{"exp":"x"}`, `{"exp":-1}`, `{"exp":[]}`, `{"iat":"2020-01-01T00:00:00Z"}`, `{"iat":null}`,
	`{"sub":1}`, `{"iss":[]}`, `{"iss":null,"sub":null}`, `{"act":{"act":{"act":{"act":{}}}}}`, `{"act":1}`, `{"locale":1}`, `{"locale":"xx-@@"}`, `{"locale":"en"}`,
	`{"amr":"x"}`, `{"amr":[1]}`, `{"email_verified":"true"}`, `{"email_verified":1}`, `{"address":null}`, `{"address":[]}`, `{"nonce":1}`, `{"auth_time":"x"}`,
	`{"sub":"` + "\xff\xfe" + `"}`, `{"sub":"a"`, `{"sub":`, ``, `{"scope":1}`, `{"scope":"a b"}`, `{"scope":["a"]}`, `{"client_id":1}`, `{"cnf":1}`, `{"ui_locales":[1]}`,
	`{"ui_locales":"en de"}`, `{"updated_at":1e19}`, `{"updated_at":"x"}`, `{"iss":"https://op.example","sub":"user1","aud":["web"],"exp":4102444800,"iat":1}`,
	`{"iss":"https://op.example","sub":"web","aud":["https://op.example"],"exp":4102444800,"iat":1}`}

func c09HostileTokens(r *hx.Rand) []string {
	hdr := c09B64(`{"alg":"RS256"}`)
	out := []string{"", "abc", "a.b", "..", "...", "a.b.c.d", "a.b.c.d.e", "e30.bnVsbA.x", hdr + ".bnVsbA.c2ln", hdr + ".!!!.c2ln", hdr + "." + base64.StdEncoding.EncodeToString([]byte(`{"a":1}?`)) + ".c2ln",
		`{"payload":"e30","signatures":[]}`, `{"payload":"e30","protected":"e30","signature":"c2ln"}`, strings.Repeat("a", 20000), "e30." + strings.Repeat("e30", 5000) + ".x",
		"\xff\xfe.\xff.\xfd", "null", "e30.e30.", ".e30.", "e30..c2ln"}
	for _, p := range c09Payloads {
		out = append(out, hdr+"."+c09B64(p)+".c2ln")
	}
	return out
}

// a genuinely signed token (ring key 0 = the provider's signing key) with an arbitrary payload
func c09Signed(payload string, kid string) string {
	tok, err := hx.Sign(hx.Keys()[0], "RS256", kid, []byte(payload))
	if err != nil {
		return "e30.e30.e30"
	}
	return tok
}

type c09Bed struct {
	bed    *opbed.Bed
	router string
	cfg    string
	cls    []*flowClient
	sy     *symbols
	// the id_token_hint verifier of this bed checks iat age and auth_time
	hintMaxAge bool
}

// c09HintMaxAge: the id_token_hint verifier with the optional age checks switched on (iat too old, auth_time)
func c09HintMaxAge(v *op.IDTokenHintVerifier) { v.MaxAgeIAT, v.MaxAge = time.Hour, time.Hour }

// c09ValidatorAuthorizer: an Authorizer with its own request validation (op.AuthorizeValidator), the documented extension
// point of op.Authorize; the validation itself is the library's
type c09ValidatorAuthorizer struct{ *op.Provider }

func (a c09ValidatorAuthorizer) ValidateAuthRequest(ctx context.Context, req *oidc.AuthRequest, st op.Storage, v *op.IDTokenHintVerifier) (string, error) {
	return op.ValidateAuthRequest(ctx, req, st, v)
}

// c09LenientAuthorizer: a validator that accepts every request without looking the client up: op.Authorize has to
// fetch the client itself (and to refuse a client_id nobody registered before anything is stored)
type c09LenientAuthorizer struct{ *op.Provider }

func (a c09LenientAuthorizer) ValidateAuthRequest(context.Context, *oidc.AuthRequest, op.Storage, *op.IDTokenHintVerifier) (string, error) {
	return "", nil
}

func c09NewBed(router string, reqObj bool) *c09Bed {
	cfg := opbed.Config{Router: router, S256: true, Post: true, PrivateKeyJWT: true, Refresh: true, RequestObject: reqObj, JWTProfileGrant: true,
		Caps: refstore.Caps{CC: true, TE: true, TEVerifier: false, Device: true}}
	if reqObj {
		cfg.Options = append(cfg.Options, op.WithIDTokenHintVerifierOpts(c09HintMaxAge))
	}
	custom := router == "custom-authorize"
	if custom {
		cfg.Router = "provider"
	}
	bed, err := opbed.New(cfg)
	if err != nil {
		panic(err)
	}
	cls := flowClients()
	for _, fc := range cls {
		bed.Store.AddClient(fc.c)
	}
	bed.Store.AddUser("user1", nil)
	name := "reqobj-off"
	if reqObj {
		name = "reqobj-on+hint-maxage"
	}
	if custom {
		// only /authorize is mounted: op.Authorize with an authorizer that implements op.AuthorizeValidator
		mux := http.NewServeMux()
		var authorizer op.Authorizer = c09ValidatorAuthorizer{bed.Provider}
		name = "authorize-validator"
		if reqObj {
			authorizer, name = c09LenientAuthorizer{bed.Provider}, "authorize-validator-lenient"
		}
		mux.Handle("/authorize", op.NewIssuerInterceptor(bed.Provider.IssuerFromRequest).HandlerFunc(func(w http.ResponseWriter, r *http.Request) {
			op.Authorize(w, r, authorizer)
		}))
		bed.Handler = mux
	}
	return &c09Bed{bed: bed, router: router, cfg: name, cls: cls, sy: newSymbols(), hintMaxAge: reqObj}
}

type c09Req struct {
	// a genuinely signed token with time claims of class tcls sits at tplace; tcheck: the check of the hint verifier
	// that refuses it first ("" = none / not a hint), tcaller: the function that calls the verifier there
	tkind, tcls, tplace, tcheck, tcaller string
	// a token of length-boundary class lcls sits at lplace; lbytes: its length after raw-base64url decoding (-1: undecodable)
	lplace, lcls string
	lbytes       int
	hlen         int // the length of the Authorization header under test (-1: not a header case)
	// a token whose JOSE header carries parameter hname with a value of class hcls (JSON type htype), serialised as hser,
	// signature hsig, sits at hplace; hfn: the verifier the endpoint hands it to
	hplace, hfn, hname, hcls, htype, hser, hsig, hheader string

	method, path string
	query        url.Values
	rawQuery     string // overrides query when set
	form         url.Values
	rawBody      *string // overrides form when set
	ctype        string
	headers      [][2]string
	muts         []string
}

func (q *c09Req) build() *http.Request {
	target := q.path
	rq := q.query.Encode()
	if q.rawQuery != "" {
		rq = q.rawQuery
	}
	if rq != "" {
		target += "?" + rq
	}
	var body io.Reader
	if q.rawBody != nil {
		body = strings.NewReader(*q.rawBody)
	} else if q.method != http.MethodGet && q.method != http.MethodHead {
		body = strings.NewReader(q.form.Encode())
	}
	var r *http.Request
	func() {
		defer func() {
			if recover() != nil { // httptest.NewRequest panics on a target it cannot parse: fall back to a plain path
				r = httptest.NewRequest(q.method, q.path, body)
				r.URL.RawQuery = rq
			}
		}()
		r = httptest.NewRequest(q.method, target, body)
	}()
	if q.ctype != "" {
		r.Header.Set("Content-Type", q.ctype)
	}
	for _, h := range q.headers {
		r.Header.Add(h[0], h[1])
	}
	return r
}

func (q *c09Req) describe() string {
	var b strings.Builder
	fmt.Fprintf(&b, "%s %s", q.method, q.path)
	rq := q.query.Encode()
	if q.rawQuery != "" {
		rq = q.rawQuery
	}
	if rq != "" {
		b.WriteString("?" + clip(rq, 400))
	}
	for _, h := range q.headers {
		fmt.Fprintf(&b, " [%s: %s]", h[0], clip(h[1], 200))
	}
	if q.ctype != "" {
		fmt.Fprintf(&b, " [Content-Type: %s]", q.ctype)
	}
	if q.rawBody != nil {
		fmt.Fprintf(&b, " body(%d)=%s", len(*q.rawBody), clip(*q.rawBody, 400))
	} else if len(q.form) > 0 && q.method != http.MethodGet && q.method != http.MethodHead {
		e := q.form.Encode()
		fmt.Fprintf(&b, " form(%d)=%s", len(e), clip(e, 400))
	}
	return b.String()
}

func clip(s string, n int) string {
	if len(s) > n {
		return s[:n] + "…"
	}
	return s
}

func basic(raw string) [2]string {
	return [2]string{"Authorization", "Basic " + base64.StdEncoding.EncodeToString([]byte(raw))}
}

// base: a mostly valid request for the route (fresh artefacts where the route needs them)
func (cb *c09Bed) base(r *hx.Rand, route, grant string) *c09Req {
	bed := cb.bed
	web := cb.cls[0]
	q := &c09Req{method: http.MethodPost, path: route, query: url.Values{}, form: url.Values{}, ctype: "application/x-www-form-urlencoded"}
	webAuth := basic("web:secret-web")
	tokens := func() (string, string, string) {
		code, _, redirect := runCodeFlow(bed, web, "openid offline_access profile")
		resp := bed.Do(bed.Form("/oauth/token", url.Values{"grant_type": {"authorization_code"}, "code": {code}, "redirect_uri": {redirect}}, ownAuth(cb.sy, web)))
		return resp.Str("access_token"), resp.Str("refresh_token"), resp.Str("id_token")
	}
	switch route {
	case "/authorize":
		q.method = http.MethodGet
		q.ctype = ""
		q.query = url.Values{"client_id": {"web"}, "redirect_uri": {"https://rp.example/cb"}, "response_type": {"code"}, "scope": {"openid"}, "state": {"st"}}
	case "/authorize/callback":
		q.method = http.MethodGet
		q.ctype = ""
		resp := bed.Do(bed.Get("/authorize", url.Values{"client_id": {"web"}, "redirect_uri": {"https://rp.example/cb"}, "response_type": {hx.Pick(r, "code", "id_token token", "id_token")},
			"scope": {"openid"}, "state": {"st"}, "nonce": {"n"}, "response_mode": {hx.Pick(r, "", "query", "fragment", "form_post")}}, ""))
		id := ""
		if resp.Loc != nil {
			id = resp.Loc.Query().Get("authRequestID")
		}
		if r.Chance(75) {
			bed.Store.CompleteAuthRequest(id, "user1")
		}
		q.query = url.Values{"id": {id}}
	case "/oauth/token":
		q.form.Set("grant_type", grant)
		q.headers = append(q.headers, webAuth)
		switch grant {
		case "authorization_code":
			code, _, redirect := runCodeFlow(bed, web, "openid offline_access")
			q.form.Set("code", code)
			q.form.Set("redirect_uri", redirect)
		case "refresh_token":
			_, rt, _ := tokens()
			q.form.Set("refresh_token", rt)
		case "client_credentials":
			q.form.Set("scope", "openid")
		case "urn:ietf:params:oauth:grant-type:jwt-bearer":
			q.headers = nil
			now := time.Now().Unix()
			pk := cb.cls[4]
			q.form.Set("assertion", assertion(cb.sy, hx.NewLine("x"), pk.key, pk.kid, "pk", "pk", []string{opbed.Issuer}, now-5, now+300))
			q.form.Set("scope", "openid")
		case "urn:ietf:params:oauth:grant-type:token-exchange":
			at, _, idt := tokens()
			if r.Bool() {
				q.form.Set("subject_token", at)
				q.form.Set("subject_token_type", "urn:ietf:params:oauth:token-type:access_token")
			} else {
				q.form.Set("subject_token", idt)
				q.form.Set("subject_token_type", "urn:ietf:params:oauth:token-type:id_token")
			}
			if r.Chance(30) {
				q.form.Set("actor_token", at)
				q.form.Set("actor_token_type", "urn:ietf:params:oauth:token-type:access_token")
			}
			if r.Chance(50) {
				q.form.Set("requested_token_type", hx.Pick(r, "urn:ietf:params:oauth:token-type:access_token", "urn:ietf:params:oauth:token-type:refresh_token",
					"urn:ietf:params:oauth:token-type:id_token", "urn:ietf:params:oauth:token-type:jwt", "nonsense"))
			}
		case "urn:ietf:params:oauth:grant-type:device_code":
			resp := bed.Do(bed.Form("/device_authorization", url.Values{"scope": {"openid"}}, ownAuth(cb.sy, web)))
			dc, uc := resp.Str("device_code"), resp.Str("user_code")
			switch r.Intn(3) {
			case 0:
				bed.Store.ApproveDevice(uc, "user1")
			case 1:
				bed.Store.DenyDevice(uc)
			}
			q.form.Set("device_code", dc)
		}
	case "/oauth/introspect", "/revoke":
		at, rt, _ := tokens()
		q.headers = append(q.headers, webAuth)
		q.form.Set("token", hx.Pick(r, at, rt))
		if r.Chance(40) {
			q.form.Set("token_type_hint", hx.Pick(r, "access_token", "refresh_token", "x"))
		}
	case "/userinfo":
		at, _, _ := tokens()
		q.method = hx.Pick(r, http.MethodGet, http.MethodPost)
		if q.method == http.MethodGet {
			q.ctype = ""
		}
		q.headers = append(q.headers, [2]string{"Authorization", "Bearer " + at})
	case "/end_session":
		_, _, idt := tokens()
		q.method = hx.Pick(r, http.MethodGet, http.MethodPost)
		vals := url.Values{"id_token_hint": {idt}, "post_logout_redirect_uri": {"https://rp.example/logged-out"}, "state": {"s"}}
		if q.method == http.MethodGet {
			q.ctype = ""
			q.query = vals
		} else {
			q.form = vals
		}
	case "/device_authorization":
		q.headers = append(q.headers, webAuth)
		q.form.Set("scope", "openid")
	default:
		q.method = http.MethodGet
		q.ctype = ""
	}
	return q
}

var c09TokenParams = []string{"code", "refresh_token", "subject_token", "actor_token", "token", "id_token_hint", "assertion", "request", "device_code", "client_assertion"}

// mutate applies one malformation; returns its name
func (cb *c09Bed) mutate(r *hx.Rand, q *c09Req, hostile []string, big int) string {
	vals := q.form
	if q.method == http.MethodGet || q.method == http.MethodHead {
		vals = q.query
	}
	keys := make([]string, 0, len(vals))
	for k := range vals {
		keys = append(keys, k)
	}
	sortStrings(keys)
	pickKey := func() string {
		if len(keys) == 0 {
			return "x"
		}
		return keys[r.Intn(len(keys))]
	}
	switch r.Intn(27) {
	case 0:
		q.headers = setHeader(q.headers, basic(hx.Pick(r, "web%zz:secret-web", "web:secret%zz", "web%:x", "%:%", "web%2", "web:%e0%a4%a")))
		return "basic-bad-escape"
	case 1:
		q.headers = setHeader(q.headers, [2]string{"Authorization", hx.Pick(r, "Basic !!!notbase64", "Basic "+base64.StdEncoding.EncodeToString([]byte("nocolon")), "Basic", "Basic ",
			"Bearer", "Bearer ", "bearer x", "Basic "+base64.StdEncoding.EncodeToString([]byte(":")), "Basic "+base64.StdEncoding.EncodeToString([]byte("web:"+strings.Repeat("s", big))), "Digest x", "\xff")})
		return "auth-header-garbage"
	case 2:
		q.headers = dropHeader(q.headers, "Authorization")
		return "auth-dropped"
	case 3:
		k := pickKey()
		delete(vals, k)
		return "missing:" + paramClass(k)
	case 4:
		k := pickKey()
		vals[k] = append(vals[k], hx.Pick(r, "", "dup", vals.Get(k)))
		return "duplicated:" + paramClass(k)
	case 5:
		k := pickKey()
		vals.Set(k, strings.Repeat(hx.Pick(r, "a", "%", "+", "é", "\x00"), big))
		return "oversized:" + paramClass(k)
	case 6:
		k := pickKey()
		vals.Set(k, hx.Pick(r, "", " ", "\x00", "\xff\xfe", "a b", "a\nb", "null", "[]", "{}", "'\"<>", "%zz", "../..", strings.Repeat("9", 40)))
		return "garbage:" + paramClass(k)
	case 7:
		tp := hx.Pick(r, c09TokenParams...)
		vals.Set(tp, hostile[r.Intn(len(hostile))])
		if tp == "client_assertion" {
			vals.Set("client_assertion_type", oidc.ClientAssertionTypeJWTAssertion)
			q.headers = dropHeader(q.headers, "Authorization")
		}
		return "hostile-token:" + tp
	case 8:
		// a hostile token in the place the route reads it from
		h := hostile[r.Intn(len(hostile))]
		switch q.path {
		case "/userinfo":
			q.headers = setHeader(q.headers, [2]string{"Authorization", "Bearer " + h})
		case "/end_session":
			vals.Set("id_token_hint", h)
		case "/authorize":
			vals.Set(hx.Pick(r, "id_token_hint", "request"), h)
		case "/oauth/introspect", "/revoke":
			vals.Set("token", h)
		default:
			for _, tp := range c09TokenParams {
				if vals.Has(tp) {
					vals.Set(tp, h)
				}
			}
		}
		return "hostile-token-in-place"
	case 9:
		s := ""
		q.rawBody = &s
		return "empty-body"
	case 10:
		q.ctype = hx.Pick(r, "application/json", "multipart/form-data", "multipart/form-data; boundary=x", "text/plain", "", "application/x-www-form-urlencoded; charset=\xff", ";;;")
		if q.ctype == "application/json" {
			b, _ := json.Marshal(vals)
			s := string(b)
			q.rawBody = &s
		}
		return "wrong-content-type"
	case 11:
		s := hx.Pick(r, "%zz=1", "a=%", "grant_type=%ZZ", "=&=&=", "&&&&", "a;b;c", "grant_type=authorization_code;code=x", strings.Repeat("a=1&", 3000), "\xff\xfe=\xfd", "grant_type")
		if q.method == http.MethodGet || q.method == http.MethodHead {
			q.rawQuery = s
		} else {
			q.rawBody = &s
		}
		return "unparsable-form"
	case 12:
		q.method = hx.Pick(r, http.MethodGet, http.MethodPost, http.MethodPut, http.MethodDelete, http.MethodHead, http.MethodOptions, http.MethodPatch, "BREW")
		return "method:" + q.method
	case 13:
		// valid opaque access token where a JWT is expected and vice versa (token exchange subject / actor, userinfo, introspection)
		at := cb.bed.Do(cb.bed.Form("/oauth/token", url.Values{"grant_type": {"client_credentials"}, "scope": {"openid"}}, ownAuth(cb.sy, cb.cls[0]))).Str("access_token")
		vals.Set("subject_token", at)
		vals.Set("subject_token_type", hx.Pick(r, "urn:ietf:params:oauth:token-type:access_token", "urn:ietf:params:oauth:token-type:id_token", "urn:ietf:params:oauth:token-type:jwt", "urn:ietf:params:oauth:token-type:refresh_token"))
		if r.Bool() {
			vals.Set("actor_token", at)
			vals.Set("actor_token_type", "urn:ietf:params:oauth:token-type:access_token")
		}
		return "opaque-token-as-subject"
	case 14:
		vals.Set("grant_type", hx.Pick(r, append([]string{"", "password", "implicit", "AUTHORIZATION_CODE", "authorization_code ", "\x00"}, c09Grants...)...))
		return "grant-switched"
	case 15:
		// signed by the provider's key but with a hostile payload (passes the signature check)
		p := c09Payloads[r.Intn(len(c09Payloads))]
		tok := c09Signed(p, "sig1")
		tp := hx.Pick(r, "id_token_hint", "subject_token", "token", "assertion", "request")
		vals.Set(tp, tok)
		if q.path == "/userinfo" {
			q.headers = setHeader(q.headers, [2]string{"Authorization", "Bearer " + tok})
		}
		return "signed-hostile-payload:" + tp
	case 16:
		vals.Set("request", hx.Pick(r, "x", hostile[r.Intn(len(hostile))], c09Signed(`{"iss":"web","aud":["https://op.example"],"client_id":"web"}`, "")))
		return "request-object"
	case 17:
		vals.Set("client_id", hx.Pick(r, "", "nobody", "web2", "pub", "pk", "\x00", strings.Repeat("c", 300)))
		return "client-id-switched"
	case 18:
		vals.Set("redirect_uri", hx.Pick(r, "", "https://evil.example/cb", "[", "https://rp.example/cb#f", "://", "https://rp.example/cb?a=%zz", "javascript:alert(1)", "\x7f"))
		return "redirect-uri-switched"
	case 19:
		vals.Set("response_type", hx.Pick(r, "", "token", "id_token", "code id_token", "none", "x"))
		vals.Set("response_mode", hx.Pick(r, "", "query", "fragment", "form_post", "x"))
		return "response-type-mode"
	case 20:
		vals.Set(hx.Pick(r, "max_age", "prompt", "ui_locales", "scope", "code_challenge_method", "display", "acr_values", "login_hint", "claims"),
			hx.Pick(r, "", "-1", "x", "1e9", "99999999999999999999", "none login", "xx-@@ en", "a  b", "\xff", "{", strings.Repeat("s ", 500)))
		return "authorize-param-garbage"
	case 21:
		q.path = hx.Pick(r, q.path+"/", "/nope", q.path+"/x", "//"+strings.TrimPrefix(q.path, "/"), strings.ToUpper(q.path), q.path+"%2f", "/")
		return "path-variant"
	case 22:
		q.headers = append(q.headers, [2]string{hx.Pick(r, "Origin", "X-Forwarded-Host", "Forwarded", "Accept", "Cookie", "Content-Length", "Transfer-Encoding", "Access-Control-Request-Method"),
			hx.Pick(r, "https://evil.example", "\x00", "x", strings.Repeat("h", 5000), "-1", "chunked", "POST")})
		return "extra-header"
	case 23:
		vals.Set("client_secret", hx.Pick(r, "", "wrong", "secret-web", "%zz", strings.Repeat("s", big)))
		vals.Set("client_id", "web")
		if r.Bool() {
			q.headers = dropHeader(q.headers, "Authorization")
		}
		return "post-credentials"
	case 24:
		vals.Set("code_verifier", hx.Pick(r, "", "short", strings.Repeat("v", 200), "\xff"))
		vals.Set("code_challenge", hx.Pick(r, "", "x", strings.Repeat("c", 200)))
		return "pkce-garbage"
	case 25:
		vals.Set("id", hx.Pick(r, "", "ar0", "ar999999", "\x00", strings.Repeat("i", 300), "../ar1"))
		vals.Set("user_code", hx.Pick(r, "", "XXXX-XXXX", "\x00"))
		return "id-garbage"
	default:
		return "valid"
	}
}

func paramClass(k string) string {
	if len(k) > 24 {
		return "long"
	}
	return k
}

func setHeader(hs [][2]string, h [2]string) [][2]string { return append(dropHeader(hs, h[0]), h) }
func dropHeader(hs [][2]string, name string) [][2]string {
	var out [][2]string
	for _, h := range hs {
		if !strings.EqualFold(h[0], name) {
			out = append(out, h)
		}
	}
	return out
}
func sortStrings(xs []string) {
	for i := 1; i < len(xs); i++ {
		for j := i; j > 0 && xs[j] < xs[j-1]; j-- {
			xs[j], xs[j-1] = xs[j-1], xs[j]
		}
	}
}

// corpus: the inputs of the findings already repaired (must pass now) and of the mechanisms named in the property
func (cb *c09Bed) corpus(r *hx.Rand) []*c09Req {
	var out []*c09Req
	add := func(route, grant, name string, f func(q *c09Req)) {
		q := cb.base(r, route, grant)
		f(q)
		q.muts = []string{"corpus:" + name}
		out = append(out, q)
	}
	for _, g := range c09Grants {
		g := g
		// F-C09b: malformed percent escape in Basic credentials, every grant
		add("/oauth/token", g, "F-C09b-basic-escape", func(q *c09Req) { q.headers = setHeader(q.headers, basic("web%zz:secret-web")) })
		add("/oauth/token", g, "unparsable-form", func(q *c09Req) { s := "grant_type=" + url.QueryEscape(g) + "&a=%zz"; q.rawBody = &s })
	}
	for _, st := range []string{"urn:ietf:params:oauth:token-type:access_token", "urn:ietf:params:oauth:token-type:id_token", "urn:ietf:params:oauth:token-type:jwt"} {
		st := st
		// F-C09c: an opaque access token as subject / actor of a token exchange
		add("/oauth/token", "urn:ietf:params:oauth:grant-type:token-exchange", "F-C09c-opaque-subject", func(q *c09Req) {
			at := cb.bed.Do(cb.bed.Form("/oauth/token", url.Values{"grant_type": {"client_credentials"}, "scope": {"openid"}}, ownAuth(cb.sy, cb.cls[0]))).Str("access_token")
			q.form.Set("subject_token", at)
			q.form.Set("subject_token_type", st)
			q.form.Set("actor_token", at)
			q.form.Set("actor_token_type", "urn:ietf:params:oauth:token-type:access_token")
		})
	}
	nullTok := c09B64(`{"alg":"RS256"}`) + ".bnVsbA.c2ln"
	audTok := c09B64(`{"alg":"RS256"}`) + "." + c09B64(`{"aud":["a",1],"iss":"x"}`) + ".c2ln"
	for _, tok := range []string{nullTok, audTok, c09Signed("null", "sig1"), c09Signed(`{"aud":["a",1]}`, "sig1")} {
		tok := tok
		add("/userinfo", "", "payload-null-or-aud:bearer", func(q *c09Req) { q.headers = setHeader(q.headers, [2]string{"Authorization", "Bearer " + tok}) })
		add("/end_session", "", "payload-null-or-aud:id_token_hint", func(q *c09Req) {
			q.method, q.ctype = http.MethodGet, ""
			q.query = url.Values{"id_token_hint": {tok}}
		})
		add("/authorize", "", "payload-null-or-aud:id_token_hint", func(q *c09Req) { q.query.Set("id_token_hint", tok); q.query.Set("prompt", "none") })
		add("/authorize", "", "payload-null-or-aud:request", func(q *c09Req) { q.query.Set("request", tok) })
		add("/oauth/introspect", "", "payload-null-or-aud:token", func(q *c09Req) { q.form.Set("token", tok) })
		add("/revoke", "", "payload-null-or-aud:token", func(q *c09Req) { q.form.Set("token", tok) })
		add("/oauth/token", "urn:ietf:params:oauth:grant-type:jwt-bearer", "payload-null-or-aud:assertion", func(q *c09Req) { q.form.Set("assertion", tok) })
		add("/oauth/token", "urn:ietf:params:oauth:grant-type:token-exchange", "payload-null-or-aud:subject", func(q *c09Req) {
			q.form.Set("subject_token", tok)
			q.form.Set("subject_token_type", "urn:ietf:params:oauth:token-type:id_token")
		})
		add("/oauth/token", "authorization_code", "payload-null-or-aud:client_assertion", func(q *c09Req) {
			q.headers = nil
			q.form.Set("client_assertion", tok)
			q.form.Set("client_assertion_type", oidc.ClientAssertionTypeJWTAssertion)
		})
	}
	// a `request` parameter on an otherwise valid authorization request (request objects off: request_not_supported)
	add("/authorize", "", "request-param-valid-request", func(q *c09Req) { q.query.Set("request", "x.y.z") })
	add("/authorize", "", "request-param-valid-request-post", func(q *c09Req) {
		q.method, q.ctype = http.MethodPost, "application/x-www-form-urlencoded"
		q.form = q.query
		q.form.Set("request", c09Signed(`{"iss":"web","aud":["https://op.example"]}`, ""))
		q.query = url.Values{}
	})
	for _, route := range c09Routes {
		route := route
		add(route, "authorization_code", "empty-post", func(q *c09Req) { q.method = http.MethodPost; s := ""; q.rawBody = &s; q.headers = nil })
		add(route, "authorization_code", "bare-get", func(q *c09Req) { q.method = http.MethodGet; q.query = url.Values{}; q.headers = nil; q.ctype = "" })
	}
	return out
}

// ---- tokens GENUINELY signed with the provider's key whose time claims sit at the boundaries the verifiers distinguish

type c09TimeCls struct{ exp, iat, auth, nbf string }

func (c c09TimeCls) String() string {
	return "exp:" + c.exp + ",iat:" + c.iat + ",auth:" + c.auth + ",nbf:" + c.nbf
}

var c09ExpCls = []string{"+1h", "+30s", "-1s", "-1h", "missing"}
var c09IatCls = []string{"-5s", "missing", "+3s", "+1h", "-10y"}
var c09AuthCls = []string{"-5s", "missing", "-10y"}
var c09NbfCls = []string{"missing", "+1h", "-1h"}

func c09Offset(c string) (int64, bool) {
	switch c {
	case "+1h":
		return 3600, true
	case "+30s":
		return 30, true
	case "+3s":
		return 3, true
	case "-1s":
		return -1, true
	case "-5s":
		return -5, true
	case "-1h":
		return -3600, true
	case "-10y":
		return -10 * 365 * 86400, true
	}
	return 0, false
}

// c09TimeClasses: quick = exp x iat, and auth_time x nbf for an otherwise valid token; thorough = the full cross
func c09TimeClasses(full bool) []c09TimeCls {
	var out []c09TimeCls
	if full {
		for _, e := range c09ExpCls {
			for _, i := range c09IatCls {
				for _, a := range c09AuthCls {
					for _, n := range c09NbfCls {
						out = append(out, c09TimeCls{e, i, a, n})
					}
				}
			}
		}
		return out
	}
	for _, e := range c09ExpCls {
		for _, i := range c09IatCls {
			out = append(out, c09TimeCls{e, i, "-5s", "missing"})
		}
	}
	for _, a := range c09AuthCls {
		for _, n := range c09NbfCls {
			if a != "-5s" || n != "missing" {
				out = append(out, c09TimeCls{"+1h", "-5s", a, n})
			}
		}
	}
	return out
}

// c09TimedToken: kind idt (an ID token of client web for user1) or jwtat (a JWT access token), signed by ring key 0 = the
// provider's signing key "sig1"
func c09TimedToken(kind string, c c09TimeCls, now int64) string {
	m := map[string]any{"iss": opbed.Issuer, "sub": "user1", "aud": []string{"web"}}
	for name, cls := range map[string]string{"exp": c.exp, "iat": c.iat, "auth_time": c.auth, "nbf": c.nbf} {
		if d, ok := c09Offset(cls); ok {
			m[name] = now + d
		}
	}
	if kind == "idt" {
		m["azp"], m["nonce"], m["amr"] = "web", "n", []string{"pwd"}
	} else {
		m["jti"], m["client_id"], m["scope"] = "at-timed", "web", "openid profile"
		delete(m, "auth_time")
	}
	b, _ := json.Marshal(m)
	return c09Signed(string(b), "sig1")
}

// c09HintCheck: the check of op.VerifyIDTokenHint that refuses a correctly signed hint of this class first
func c09HintCheck(c c09TimeCls, maxAge bool) string {
	if d, ok := c09Offset(c.exp); !ok || d <= 0 {
		return "oidc.CheckExpiration"
	}
	if d, ok := c09Offset(c.iat); !ok || d > 0 || (maxAge && d < -3600) {
		return "oidc.CheckIssuedAt"
	}
	if d, ok := c09Offset(c.auth); maxAge && (!ok || d < -3600) {
		return "oidc.CheckAuthTime"
	}
	return ""
}

// c09SignedTimeCases: every endpoint that takes such a token, on this bed
func (cb *c09Bed) signedTimeCases(r *hx.Rand, full bool) []*c09Req {
	var out []*c09Req
	now := time.Now().Unix()
	webAuth := basic("web:secret-web")
	okIDT := c09TimedToken("idt", c09TimeCls{"+1h", "-5s", "-5s", "missing"}, now)
	mk := func(kind, place, caller string, c c09TimeCls, f func(q *c09Req, tok string)) {
		q := &c09Req{method: http.MethodPost, query: url.Values{}, form: url.Values{}, ctype: "application/x-www-form-urlencoded"}
		q.tkind, q.tcls, q.tplace, q.tcaller = kind, c.String(), place, caller
		if kind == "idt" {
			q.tcheck = c09HintCheck(c, cb.hintMaxAge)
		}
		f(q, c09TimedToken(kind, c, now))
		q.muts = []string{"signed-time:" + place}
		out = append(out, q)
	}
	authz := func(q *c09Req, tok string) {
		q.method, q.ctype, q.path = http.MethodGet, "", "/authorize"
		q.query = url.Values{"client_id": {"web"}, "redirect_uri": {"https://rp.example/cb"}, "response_type": {"code"}, "scope": {"openid"}, "state": {"st"}, "id_token_hint": {tok}}
		if r.Bool() {
			q.query.Set("prompt", "none")
		}
	}
	for _, c := range c09TimeClasses(full) {
		mk("idt", "authorize-hint", "op.ValidateAuthReqIDTokenHint", c, authz)
		if cb.router == "custom-authorize" {
			continue
		}
		mk("idt", "end_session-hint-get", "op.ValidateEndSessionRequest", c, func(q *c09Req, tok string) {
			q.method, q.ctype, q.path = http.MethodGet, "", "/end_session"
			q.query = url.Values{"id_token_hint": {tok}, "post_logout_redirect_uri": {"https://rp.example/logged-out"}, "state": {"s"}}
		})
		mk("idt", "end_session-hint-post", "op.ValidateEndSessionRequest", c, func(q *c09Req, tok string) {
			q.path = "/end_session"
			q.form = url.Values{"id_token_hint": {tok}, "client_id": {hx.Pick(r, "", "web", "web2")}}
		})
		mk("idt", "exchange-subject-id_token", "", c, func(q *c09Req, tok string) {
			q.path, q.headers = "/oauth/token", [][2]string{webAuth}
			q.form = url.Values{"grant_type": {"urn:ietf:params:oauth:grant-type:token-exchange"}, "subject_token": {tok}, "subject_token_type": {"urn:ietf:params:oauth:token-type:id_token"}}
		})
		mk("idt", "exchange-actor-id_token", "", c, func(q *c09Req, tok string) {
			q.path, q.headers = "/oauth/token", [][2]string{webAuth}
			q.form = url.Values{"grant_type": {"urn:ietf:params:oauth:grant-type:token-exchange"}, "subject_token": {okIDT}, "subject_token_type": {"urn:ietf:params:oauth:token-type:id_token"},
				"actor_token": {tok}, "actor_token_type": {"urn:ietf:params:oauth:token-type:id_token"}}
		})
		if c.auth != "-5s" {
			continue // a JWT access token carries no auth_time
		}
		mk("jwtat", "userinfo-bearer", "", c, func(q *c09Req, tok string) {
			q.method, q.ctype, q.path = http.MethodGet, "", "/userinfo"
			q.headers = [][2]string{{"Authorization", "Bearer " + tok}}
		})
		mk("jwtat", "introspect-token", "", c, func(q *c09Req, tok string) {
			q.path, q.headers, q.form = "/oauth/introspect", [][2]string{webAuth}, url.Values{"token": {tok}}
		})
		mk("jwtat", "revoke-token", "", c, func(q *c09Req, tok string) {
			q.path, q.headers, q.form = "/revoke", [][2]string{webAuth}, url.Values{"token": {tok}, "token_type_hint": {hx.Pick(r, "", "access_token")}}
		})
		mk("jwtat", "exchange-subject-access_token", "", c, func(q *c09Req, tok string) {
			q.path, q.headers = "/oauth/token", [][2]string{webAuth}
			q.form = url.Values{"grant_type": {"urn:ietf:params:oauth:grant-type:token-exchange"}, "subject_token": {tok}, "subject_token_type": {"urn:ietf:params:oauth:token-type:access_token"}}
		})
	}
	return out
}

func c09HandlerStream(r *hx.Rand, n int, big int, full bool, emit func(*hx.Line), stats map[string]int) {
	beds := []*c09Bed{c09NewBed("provider", false), c09NewBed("legacy", false), c09NewBed("provider", true), c09NewBed("legacy", true)}
	customBed, lenientBed := c09NewBed("custom-authorize", false), c09NewBed("custom-authorize", true)
	hostile := c09HostileTokens(r)
	run := func(cb *c09Bed, q *c09Req) {
		req := q.build()
		o := c09Serve(cb.bed, req)
		entry := c09ProviderEntry[q.path]
		switch cb.router {
		case "legacy":
			entry = c09LegacyEntry[q.path]
		case "custom-authorize":
			entry = ""
			if q.path == "/authorize" {
				entry = "Authorize"
			}
		}
		cls := "valid"
		if len(q.muts) > 0 {
			cls = strings.Join(q.muts, "+")
		}
		l := hx.NewLine("C09").S("kind", "handler").S("router", cb.router).S("cfg", cb.cfg).S("entry", entry).S("route", q.path).S("method", q.method).
			S("grant", clip(q.form.Get("grant_type"), 80)).S("mut", cls).B("panic", o.panicked).I("commits", int64(o.commits)).I("afterErr", int64(o.afterErr)).I("status", int64(o.status))
		if o.panicked {
			l.S("pv", clip(o.pv, 160)).S("lastcall", o.lastCall)
		}
		if o.afterErr > 0 {
			l.S("after", clip(strings.Join(o.after, ";"), 200))
		}
		if q.tplace != "" {
			l.S("tkind", q.tkind).S("tplace", q.tplace).S("tcls", q.tcls).S("tcheck", q.tcheck).S("tcaller", q.tcaller)
			stats["handler.signed.place."+q.tplace]++
			for _, kv := range strings.Split(q.tcls, ",") {
				stats["handler.signed.cls."+kv]++
			}
			if q.tkind == "idt" {
				chk := q.tcheck
				if chk == "" {
					chk = "accepted"
				}
				stats["handler.signed.hintcheck."+chk]++
			}
			if o.panicked {
				stats["handler.signed.outcome.panic"]++
			} else {
				stats[fmt.Sprintf("handler.signed.outcome.%dxx", o.status/100)]++
			}
		}
		if q.lplace != "" {
			l.S("lplace", q.lplace).S("lcls", q.lcls)
			if q.lbytes >= 0 {
				l.I("tbytes", int64(q.lbytes))
			}
			if q.hlen >= 0 {
				l.I("hlen", int64(q.hlen))
			}
			if strings.Contains(q.lcls, "-challenge-none-") && !strings.HasSuffix(q.lcls, "-verifier-none") {
				l.B("nilch", true)
			}
			stats["handler.length.place."+q.lplace]++
			stats["handler.length.cls."+strings.SplitN(q.lcls, "-", 2)[0]]++
			if q.lbytes >= 0 {
				stats[fmt.Sprintf("handler.length.decoded.%02d", min(q.lbytes, 34))]++
			} else {
				stats["handler.length.decoded.undecodable"]++
			}
			if o.panicked {
				stats["handler.length.outcome.panic"]++
			} else {
				stats[fmt.Sprintf("handler.length.outcome.%dxx", o.status/100)]++
			}
		}
		if q.hplace != "" {
			l.S("hplace", q.hplace).S("hfn", q.hfn).S("hname", q.hname).S("hcls", q.hcls).S("htype", q.htype).S("hser", q.hser).S("hsig", q.hsig).S("header", clip(q.hheader, 200))
			c09JoseStat(stats, q, o)
		}
		l.S("req", q.describe())
		emit(l)
		stats["handler."+cb.router]++
		if entry != "" {
			stats["handler.route."+strings.Trim(strings.ReplaceAll(q.path, "/", "_"), "_.")]++
		} else {
			stats["handler.route.unrouted"]++
		}
		stats[fmt.Sprintf("handler.status.%dxx", o.status/100)]++
		for _, m := range q.muts {
			stats["handler.mut."+strings.SplitN(m, ":", 2)[0]]++
		}
	}
	for _, cb := range beds {
		for _, q := range cb.corpus(r) {
			run(cb, q)
		}
	}
	// correctly signed tokens at every time boundary, at every endpoint that takes one, on every bed
	for _, cb := range append(append([]*c09Bed{}, beds...), customBed, lenientBed) {
		for _, q := range cb.signedTimeCases(r, full) {
			run(cb, q)
		}
	}
	// tokens of every length-boundary class at every endpoint that takes a token, on both routers
	for _, cb := range beds[:2] {
		for _, q := range cb.lengthBoundaryCases(r) {
			run(cb, q)
		}
		for _, q := range cb.headerAndPKCECases(r) {
			run(cb, q)
		}
		// byte classes x length boundaries at every route: as body, raw query, parameter value, Bearer token, Basic credentials
		for _, q := range cb.rawByteCases(r, c09FullBytes) {
			run(cb, q)
		}
	}
	// the JOSE header as a dimension: every header parameter x every JSON type at every token-consuming endpoint, both routers
	tJose := time.Now()
	for i, cb := range beds {
		switch {
		case c09FullBytes && i >= 2:
			for _, q := range cb.joseHeaderCases(true, 0, 1) {
				run(cb, q)
			}
		case i >= 2:
			for _, q := range cb.joseHeaderCases(false, i-2, 2) {
				run(cb, q)
			}
		case c09FullBytes:
			for _, q := range cb.joseHeaderCases(false, i, 2) {
				run(cb, q)
			}
		}
	}
	if os.Getenv("C09_TIMING") != "" {
		fmt.Fprintf(os.Stderr, "c09 timing handler/jose %dms (%d cases)\n", time.Since(tJose).Milliseconds(), stats["jose.handler.sig.garbage"]+stats["jose.handler.sig.genuine"])
	}
	// op.Authorize behind an authorizer with its own validation (op.AuthorizeValidator): valid and mutated requests
	for i := 0; i < 2*(40+n/100); i++ {
		cb := customBed
		if i%2 == 1 {
			cb = lenientBed
		}
		q := cb.base(r, "/authorize", "")
		switch {
		case i < 2:
		case i < 14:
			// the k-th storage call of an otherwise valid request fails (the client lookup of op.Authorize itself included)
			k := 1 + (i-2)/2
			q.muts = append(q.muts, fmt.Sprintf("storage-fault:%d", k))
			cb.bed.Store.FailAt(k, fmt.Errorf("injected storage failure"))
		case i < 20:
			q.query.Set("client_id", hx.Pick(r, "nobody", "", "web2"))
			q.muts = append(q.muts, "client-id-switched")
		default:
			for j := r.Intn(3); j > 0; j-- {
				q.muts = append(q.muts, cb.mutate(r, q, hostile, big))
			}
		}
		run(cb, q)
		cb.bed.Store.ClearFaults()
	}
	// every route x method x grant once, valid and with one mutation; then random combinations
	for i := 0; i < n; i++ {
		cb := beds[r.Intn(len(beds))]
		route := c09Routes[r.Intn(len(c09Routes))]
		if r.Chance(45) {
			route = "/oauth/token"
		}
		grant := c09Grants[r.Intn(len(c09Grants))]
		q := cb.base(r, route, grant)
		k := 1 + r.Intn(3)
		if r.Chance(10) {
			k = 0
		}
		for j := 0; j < k; j++ {
			q.muts = append(q.muts, cb.mutate(r, q, hostile, big))
		}
		run(cb, q)
	}
}

// ---------------------------------------------------------------- (ii) decoders, claims documents, verifiers

var c09Docs = []string{"null", "true", "false", "0", "1", "-1", "1.5", "-1.5", "1e300", "-1e300", "1e19", "9223372036854775807", "9223372036854775808", "-9223372036854775809",
	"4102444800", `""`, `"a"`, `"true"`, `"a b"`, `" a  b "`, `"2020-01-01T00:00:00Z"`, `"2020-01-01"`, `"en"`, `"en de"`, `"xx-@@"`, `"und"`, `"zz"`, `"` + "\xff\xfe" + `"`,
	"[]", `["a"]`, `["a","b"]`, `["a",1]`, "[1]", "[null]", `[["a"]]`, "[{}]", `["en","zz","xx-@@"]`, `[true]`, "{}", `{"a":1}`, `{"a":{"b":[1,{"c":null}]}}`,
	"[[[[[[[[[[[[[[[[[[[[]]]]]]]]]]]]]]]]]]]]", `"` + strings.Repeat("x", 70000) + `"`, `["a", "` + strings.Repeat("y", 70000) + `"]`, " 1 ", "\n\"a\"\n", "1e-400", "0.0000001", "-0",
	// not JSON
	"", "{", "[1,", "nul", `"abc`, "01", "+1", "NaN", "'a'", "{\"a\":}", "\xff"}

// describe a document the way the decoders see it: atoms of the top-level value / of the array members
func c09Atom(v any) string {
	switch x := v.(type) {
	case nil:
		return "n"
	case bool:
		return fmt.Sprintf("b:%v", x)
	case string:
		return "s:" + x
	case json.Number:
		f, err := x.Float64()
		if err != nil && !math.IsInf(f, 0) {
			return "o"
		}
		if !math.IsInf(f, 0) && f == math.Trunc(f) && f >= -9223372036854775808 && f < 9223372036854775808 {
			return fmt.Sprintf("i:%d", int64(f))
		}
		inRange := !math.IsInf(f, 0) && f >= -9223372036854775808 && f < 9223372036854775808
		tr := "0"
		if !math.IsInf(f, 0) {
			bf := new(big.Float).SetFloat64(f)
			bi, _ := bf.Int(nil)
			tr = bi.String()
		}
		return fmt.Sprintf("f:%s:%v", tr, inRange)
	}
	return "o"
}

type c09Doc struct {
	valid bool
	t     string // atom | arr
	atoms []string
	ptype string // null bool num str arr obj none
}

func c09Describe(text string) c09Doc {
	dec := json.NewDecoder(strings.NewReader(text))
	dec.UseNumber()
	var v any
	if err := dec.Decode(&v); err != nil {
		return c09Doc{ptype: "none", t: "atom"}
	}
	if _, err := dec.Token(); err != io.EOF {
		return c09Doc{ptype: "none", t: "atom"}
	}
	if !json.Valid([]byte(text)) {
		return c09Doc{ptype: "none", t: "atom"}
	}
	d := c09Doc{valid: true, t: "atom"}
	switch x := v.(type) {
	case nil:
		d.ptype = "null"
	case bool:
		d.ptype = "bool"
	case json.Number:
		d.ptype = "num"
	case string:
		d.ptype = "str"
	case []any:
		d.ptype, d.t = "arr", "arr"
		for _, e := range x {
			d.atoms = append(d.atoms, c09Atom(e))
		}
		return d
	case map[string]any:
		d.ptype = "obj"
	}
	d.atoms = []string{c09Atom(v)}
	return d
}

func c09Guard(f func() error) (string, string) {
	var err error
	pv := ""
	func() {
		defer func() {
			if p := recover(); p != nil {
				pv = fmt.Sprint(p)
			}
		}()
		err = f()
	}()
	if pv != "" {
		return "panic", pv
	}
	if err != nil {
		return "err", ""
	}
	return "val", ""
}

type c09KeySet struct{}

func (c09KeySet) VerifySignature(ctx context.Context, jws *jose.JSONWebSignature) ([]byte, error) {
	return jws.Verify(hx.Keys()[0].Pub)
}

type c09KeyStorage struct{}

func (c09KeyStorage) GetKeyByIDAndClientID(ctx context.Context, keyID, clientID string) (*jose.JSONWebKey, error) {
	return &jose.JSONWebKey{Key: hx.Keys()[0].Pub, KeyID: keyID, Use: "sig"}, nil
}

func c09DecoderStream(r *hx.Rand, n int, emit func(*hx.Line), stats map[string]int) {
	type leaf struct {
		name string
		f    func(text string) error
	}
	leaves := []leaf{
		{"aud", func(t string) error { var a oidc.Audience; return json.Unmarshal([]byte(t), &a) }},
		{"time", func(t string) error { var a oidc.Time; return json.Unmarshal([]byte(t), &a) }},
		{"bool", func(t string) error { var a oidc.Bool; return json.Unmarshal([]byte(t), &a) }},
		{"sda", func(t string) error { var a oidc.SpaceDelimitedArray; return json.Unmarshal([]byte(t), &a) }},
		{"locale", func(t string) error { var a oidc.Locale; return json.Unmarshal([]byte(t), &a) }},
		{"locales", func(t string) error { var a oidc.Locales; return json.Unmarshal([]byte(t), &a) }},
	}
	// the decoders called directly as well (UnmarshalJSON on arbitrary bytes, not pre-validated by encoding/json)
	direct := []leaf{
		{"aud", func(t string) error { var a oidc.Audience; return a.UnmarshalJSON([]byte(t)) }},
		{"time", func(t string) error { var a oidc.Time; return a.UnmarshalJSON([]byte(t)) }},
		{"bool", func(t string) error { var a oidc.Bool; return a.UnmarshalJSON([]byte(t)) }},
		{"sda", func(t string) error { var a oidc.SpaceDelimitedArray; return a.UnmarshalJSON([]byte(t)) }},
		{"locale", func(t string) error { var a oidc.Locale; return a.UnmarshalJSON([]byte(t)) }},
		{"locales", func(t string) error { var a oidc.Locales; return a.UnmarshalJSON([]byte(t)) }},
	}
	docs := append([]string{}, c09Docs...)
	for i := 0; i < n; i++ {
		switch r.Intn(5) {
		case 0:
			docs = append(docs, fmt.Sprint(int64(r.U64()>>uint(r.Intn(64)))-int64(r.Intn(2))*int64(r.U64()>>uint(1+r.Intn(63)))))
		case 1:
			docs = append(docs, fmt.Sprintf("%d.%de%d", r.Intn(1000), r.Intn(1000), r.Intn(60)-20))
		case 2:
			var ms []string
			for k := r.Intn(4); k >= 0; k-- {
				ms = append(ms, hx.Pick(r, `"a"`, `"b c"`, "1", "null", "true", "[]", "{}", `"en"`, "1.5"))
			}
			docs = append(docs, "["+strings.Join(ms, ",")+"]")
		case 3:
			docs = append(docs, `"`+hx.Pick(r, "a", "en", "de-CH", "x y z", "  ", "2021-02-03T04:05:06+01:00", "2021-02-03T04:05:06", "true", "false", "zz-ZZ-zz", "i-klingon")+`"`)
		default:
			d := c09Docs[r.Intn(len(c09Docs))]
			if len(d) > 0 && len(d) < 1000 {
				d = d[:r.Intn(len(d))] // truncated
			}
			docs = append(docs, d)
		}
	}
	for _, text := range docs {
		d := c09Describe(text)
		for li, lf := range leaves {
			for mode, fn := range []func(string) error{lf.f, direct[li].f} {
				if mode == 1 && !d.valid {
					// UnmarshalJSON is specified for valid JSON; called directly on other bytes it is still sampled (no model)
				}
				obs, pv := c09Guard(func() error { return fn(text) })
				l := hx.NewLine("C09").S("kind", "dec").S("type", lf.name).S("mode", []string{"json", "direct"}[mode]).B("json", d.valid).S("ptype", d.ptype).
					S("doc.t", d.t).L("doc", d.atoms).S("obs", obs)
				if lf.name == "time" && d.ptype == "str" {
					var s string
					json.Unmarshal([]byte(text), &s)
					if tt, err := time.Parse(time.RFC3339, s); err == nil {
						l.I("rfc", tt.Unix())
					}
				}
				if lf.name == "locale" && d.ptype == "str" {
					var s string
					json.Unmarshal([]byte(text), &s)
					_, err := language.Parse(s)
					lang := "ok"
					if err != nil {
						var ve language.ValueError
						if errorsAs(err, &ve) {
							lang = "value"
						} else {
							lang = "syntax"
						}
					}
					l.S("lang", lang)
				}
				if pv != "" {
					l.S("pv", clip(pv, 120))
				}
				l.S("raw", clip(text, 200))
				emit(l)
				stats["dec."+lf.name+"."+obs]++
			}
		}
	}
}

func errorsAs(err error, target *language.ValueError) bool {
	for err != nil {
		if v, ok := err.(language.ValueError); ok {
			*target = v
			return true
		}
		u, ok := err.(interface{ Unwrap() error })
		if !ok {
			return false
		}
		err = u.Unwrap()
	}
	return false
}

// aud member of a payload object, described for the model
func c09AudOf(payload string) (has bool, d c09Doc) {
	var m map[string]json.RawMessage
	if json.Unmarshal([]byte(payload), &m) != nil {
		return false, d
	}
	raw, ok := m["aud"]
	if !ok {
		return false, d
	}
	return true, c09Describe(string(raw))
}

func c09ClaimsStream(r *hx.Rand, emit func(*hx.Line), stats map[string]int) {
	types := []struct {
		name string
		f    func(b []byte) error
	}{
		{"IDTokenClaims", func(b []byte) error { return json.Unmarshal(b, new(oidc.IDTokenClaims)) }},
		{"AccessTokenClaims", func(b []byte) error { return json.Unmarshal(b, new(oidc.AccessTokenClaims)) }},
		{"UserInfo", func(b []byte) error { return json.Unmarshal(b, new(oidc.UserInfo)) }},
		{"IntrospectionResponse", func(b []byte) error { return json.Unmarshal(b, new(oidc.IntrospectionResponse)) }},
		{"JWTTokenRequest", func(b []byte) error { return json.Unmarshal(b, new(oidc.JWTTokenRequest)) }},
		{"JWTProfileAssertionClaims", func(b []byte) error { return json.Unmarshal(b, new(oidc.JWTProfileAssertionClaims)) }},
		{"RequestObject", func(b []byte) error { return json.Unmarshal(b, new(oidc.RequestObject)) }},
		{"AccessTokenResponse", func(b []byte) error { return json.Unmarshal(b, new(oidc.AccessTokenResponse)) }},
		{"TokenExchangeResponse", func(b []byte) error { return json.Unmarshal(b, new(oidc.TokenExchangeResponse)) }},
		{"DiscoveryConfiguration", func(b []byte) error { return json.Unmarshal(b, new(oidc.DiscoveryConfiguration)) }},
		{"DeviceAuthorizationResponse", func(b []byte) error { return json.Unmarshal(b, new(oidc.DeviceAuthorizationResponse)) }},
		{"Error", func(b []byte) error { return json.Unmarshal(b, new(oidc.Error)) }},
		{"ActorClaims", func(b []byte) error { return json.Unmarshal(b, new(oidc.ActorClaims)) }},
		{"LogoutTokenClaims", func(b []byte) error { return json.Unmarshal(b, new(oidc.LogoutTokenClaims)) }},
		// as members of an outer document: UnmarshalJSON of a VALUE is called with `null`
		{"nested.DeviceAuthorizationResponse", func(b []byte) error {
			var o struct {
				V oidc.DeviceAuthorizationResponse
			}
			return json.Unmarshal([]byte(`{"V":`+string(b)+`}`), &o)
		}},
		{"nested.IDTokenClaims", func(b []byte) error {
			var o struct{ V oidc.IDTokenClaims }
			return json.Unmarshal([]byte(`{"V":`+string(b)+`}`), &o)
		}},
		{"nested.UserInfo", func(b []byte) error {
			var o struct{ V []oidc.UserInfo }
			return json.Unmarshal([]byte(`{"V":[`+string(b)+`]}`), &o)
		}},
	}
	for _, p := range c09Payloads {
		d := c09Describe(p)
		hasAud, aud := c09AudOf(p)
		for _, t := range types {
			obs, pv := c09Guard(func() error { return t.f([]byte(p)) })
			l := hx.NewLine("C09").S("kind", "claims").S("type", t.name).B("json", d.valid).S("ptype", d.ptype).B("hasAud", hasAud).S("doc.t", aud.t).L("doc", aud.atoms).S("obs", obs)
			if pv != "" {
				l.S("pv", clip(pv, 120))
			}
			l.S("raw", clip(p, 200))
			emit(l)
			stats["claims."+obs]++
		}
	}
}

func c09VerifyStream(r *hx.Rand, n int, emit func(*hx.Line), stats map[string]int) {
	ctx := context.Background()
	ks := c09KeySet{}
	verifiers := []struct {
		name string // the function whose decode site the model looks up
		f    func(tok string) error
	}{
		{"rp.VerifyIDToken", func(tok string) error {
			_, err := rp.VerifyIDToken[*oidc.IDTokenClaims](ctx, tok, rp.NewIDTokenVerifier("https://op.example", "web", ks))
			return err
		}},
		{"rp.VerifyIDToken", func(tok string) error { // a value-typed claims type: nothing to be left nil
			_, err := rp.VerifyIDToken[*oidc.IDTokenClaims](ctx, tok, rp.NewIDTokenVerifier("https://op.example", "web", ks, rp.WithNonce(func(context.Context) string { return "n" })))
			return err
		}},
		{"rp.VerifyIDToken", func(tok string) error { // through rp.VerifyTokens
			_, err := rp.VerifyTokens[*oidc.IDTokenClaims](ctx, "at", tok, rp.NewIDTokenVerifier("https://op.example", "web", ks))
			return err
		}},
		{"op.VerifyIDTokenHint", func(tok string) error {
			_, err := op.VerifyIDTokenHint[*oidc.IDTokenClaims](ctx, tok, op.NewIDTokenHintVerifier("https://op.example", ks))
			return err
		}},
		{"op.VerifyAccessToken", func(tok string) error {
			_, err := op.VerifyAccessToken[*oidc.AccessTokenClaims](ctx, tok, op.NewAccessTokenVerifier("https://op.example", ks))
			return err
		}},
		{"op.VerifyJWTAssertion", func(tok string) error {
			_, err := op.VerifyJWTAssertion(ctx, tok, op.NewJWTProfileVerifier(c09KeyStorage{}, "https://op.example", time.Hour, 0))
			return err
		}},
		{"op.VerifyJWTAssertion", func(tok string) error {
			_, err := op.VerifyJWTAssertion(ctx, tok, op.NewJWTProfileVerifierKeySet(ks, "https://op.example", time.Hour, 0))
			return err
		}},
		{"oidc.ParseToken", func(tok string) error { c := new(oidc.IDTokenClaims); _, err := oidc.ParseToken(tok, &c); return err }},
		{"oidc.ParseToken", func(tok string) error { c := new(oidc.IDTokenClaims); _, err := oidc.ParseToken(tok, c); return err }},
		{"oidc.ParseToken", func(tok string) error { var c map[string]any; _, err := oidc.ParseToken(tok, &c); return err }},
		{"oidc.CheckSignature", func(tok string) error {
			return oidc.CheckSignature(ctx, tok, []byte("{}"), new(oidc.IDTokenClaims), nil, ks)
		}},
		{"oidc.DecryptToken", func(tok string) error { _, err := oidc.DecryptToken(tok); return err }},
		{"op.ParseRequestObject", func(tok string) error {
			return op.ParseRequestObject(ctx, &oidc.AuthRequest{RequestParam: tok, ClientID: "web"}, nil, "https://op.example")
		}},
	}
	toks := c09HostileTokens(r)
	for _, p := range c09Payloads {
		toks = append(toks, c09Signed(p, "sig1"), c09Signed(p, ""))
	}
	for i := 0; i < n; i++ {
		// random structural variants: segment counts, corrupted base64, random payload from the pool
		p := c09Payloads[r.Intn(len(c09Payloads))]
		segs := []string{c09B64(`{"alg":"` + hx.Pick(r, "RS256", "none", "HS256", "ES256", "") + `"}`), c09B64(p), hx.Pick(r, "c2ln", "", "!", strings.Repeat("A", 342))}
		switch r.Intn(6) {
		case 0:
			segs = segs[:r.Intn(3)]
		case 1:
			segs = append(segs, "x", "y")[:3+r.Intn(3)]
		case 2:
			segs[1] = segs[1] + hx.Pick(r, "=", "==", "!", " ", "\n")
		case 3:
			if len(segs[1]) > 1 {
				segs[1] = segs[1][:r.Intn(len(segs[1]))]
			}
		}
		toks = append(toks, strings.Join(segs, "."))
	}
	for _, tok := range toks {
		parts := strings.Split(tok, ".")
		b64ok, payload := false, ""
		if len(parts) == 3 {
			if raw, err := base64.RawURLEncoding.DecodeString(parts[1]); err == nil {
				b64ok, payload = true, string(raw)
			}
		}
		d := c09Describe(payload)
		hasAud, aud := c09AudOf(payload)
		for _, v := range verifiers {
			obs, pv := c09Guard(func() error { return v.f(tok) })
			l := hx.NewLine("C09").S("kind", "verify").S("fn", v.name).I("parts", int64(len(parts))).B("b64", b64ok).B("json", d.valid).S("ptype", d.ptype).
				B("hasAud", hasAud).S("doc.t", aud.t).L("doc", aud.atoms).S("obs", obs)
			if pv != "" {
				l.S("pv", clip(pv, 120))
			}
			l.S("tok", clip(tok, 200)).S("payload", clip(payload, 120))
			emit(l)
			stats["verify."+obs]++
			stats["verify.ptype."+d.ptype]++
		}
	}
}

// c09HintCallerStream: the two callers of op.VerifyIDTokenHint that go on with the claims after an "expired" error,
// called directly with correctly signed hints of EVERY time class, with the plain and the age-checking verifier
func c09HintCallerStream(emit func(*hx.Line), stats map[string]int) {
	now := time.Now().Unix()
	for _, maxAge := range []bool{false, true} {
		cb := c09NewBed("provider", maxAge)
		ctx := op.ContextWithIssuer(context.Background(), opbed.Issuer)
		var opts []op.IDTokenHintVerifierOpt
		if maxAge {
			opts = append(opts, c09HintMaxAge)
		}
		callers := []struct {
			name string
			f    func(tok string) error
		}{
			{"op.ValidateAuthReqIDTokenHint", func(tok string) error {
				_, err := op.ValidateAuthReqIDTokenHint(ctx, tok, op.NewIDTokenHintVerifier(opbed.Issuer, c09KeySet{}, opts...))
				return err
			}},
			{"op.ValidateEndSessionRequest", func(tok string) error {
				_, err := op.ValidateEndSessionRequest(ctx, &oidc.EndSessionRequest{IdTokenHint: tok}, cb.bed.Provider)
				return err
			}},
		}
		for _, c := range c09TimeClasses(true) {
			tok := c09TimedToken("idt", c, now)
			for _, cl := range callers {
				obs, pv := c09Guard(func() error { return cl.f(tok) })
				if obs == "val" {
					obs = "ok"
				}
				l := hx.NewLine("C09").S("kind", "hint").S("caller", cl.name).B("maxage", maxAge).S("tcls", c.String()).S("tcheck", c09HintCheck(c, maxAge)).S("obs", obs)
				if pv != "" {
					l.S("pv", clip(pv, 120))
				}
				l.S("tok", clip(tok, 120))
				emit(l)
				stats["hint."+obs]++
				chk := c09HintCheck(c, maxAge)
				if chk == "" {
					chk = "accepted"
				}
				stats["hint.check."+chk]++
			}
		}
	}
}

// ---------------------------------------------------------------- (iii) client helpers against a hostile provider

type c09RT struct {
	status int
	body   string
	hdr    http.Header
	calls  int
}

func (t *c09RT) RoundTrip(req *http.Request) (*http.Response, error) {
	t.calls++
	if req.Body != nil {
		io.Copy(io.Discard, req.Body)
		req.Body.Close()
	}
	h := http.Header{"Content-Type": {"application/json"}}
	for k, v := range t.hdr {
		h[k] = v
	}
	return &http.Response{StatusCode: t.status, Status: fmt.Sprintf("%d %s", t.status, http.StatusText(t.status)), Proto: "HTTP/1.1", ProtoMajor: 1, ProtoMinor: 1,
		Header: h, Body: io.NopCloser(strings.NewReader(t.body)), ContentLength: int64(len(t.body)), Request: req}, nil
}

type c09Caller struct {
	hc  *http.Client
	url string
}

func (c c09Caller) TokenEndpoint() string                  { return c.url }
func (c c09Caller) HttpClient() *http.Client               { return c.hc }
func (c c09Caller) GetDeviceAuthorizationEndpoint() string { return c.url }
func (c c09Caller) GetEndSessionEndpoint() string          { return c.url }
func (c c09Caller) GetRevokeEndpoint() string              { return c.url }
func (c c09Caller) IntrospectionURL() string               { return c.url }
func (c c09Caller) AuthFn() (any, error)                   { return httphelper.AuthorizeBasic("c", "s"), nil }

const c09Iss = "https://fake.example"

var c09Bodies = []string{"null", " null\n", "[]", "[1]", "[null]", "1", "1.5", `"x"`, "true", "{}", `{"keys":null}`, `{"keys":[null]}`, `{"keys":[{}]}`, `{"keys":[1]}`, `{"keys":"x"}`,
	`{"keys":[{"kty":"RSA"}]}`, `{"keys":[{"kty":"XYZ","kid":"a"}]}`, `{"issuer":1}`, `{"issuer":null}`, `{"issuer":"` + c09Iss + `"}`,
	`{"issuer":"` + c09Iss + `","authorization_endpoint":1}`, `{"issuer":"` + c09Iss + `","jwks_uri":null,"token_endpoint":null,"id_token_signing_alg_values_supported":null}`,
	`{"issuer":"` + c09Iss + `","id_token_signing_alg_values_supported":[1]}`, `{"issuer":"` + c09Iss + `","ui_locales_supported":["xx-@@",1]}`,
	`{"access_token":1}`, `{"access_token":"at","token_type":"Bearer","expires_in":"x"}`, `{"access_token":"at","expires_in":1e300}`, `{"access_token":"at","expires_in":-1}`,
	`{"access_token":"at","token_type":"Bearer","expires_in":3600,"id_token":"e30.bnVsbA.x"}`, `{"access_token":"at","token_type":"Bearer","id_token":1}`,
	`{"access_token":"at","token_type":"Bearer","id_token":null,"refresh_token":null}`, `{"access_token":"at","token_type":"Bearer","id_token":"a.b"}`,
	`{"access_token":"","token_type":""}`, `{"sub":1}`, `{"sub":null}`, `{"sub":"user1"}`, `{"sub":"user1","email_verified":"x","locale":1}`, `{"sub":"user1","address":[]}`, `{"sub":"user1","updated_at":1e300}`,
	`{"active":"yes"}`, `{"active":true,"aud":["a",1]}`, `{"active":true,"exp":1.5,"scope":1}`, `{"active":true,"scope":"a b","aud":"x"}`, `{"active":null}`,
	`{"device_code":1}`, `{"device_code":"dc","user_code":"uc","verification_uri":null,"expires_in":"x"}`, `{"device_code":"dc","user_code":"uc","verification_url":"https://x","expires_in":5,"interval":1}`,
	`{"error":"invalid_request"}`, `{"error":"authorization_pending"}`, `{"error":"slow_down"}`, `{"error":1}`, `{"error":null}`, `{"error":"x","error_description":1}`, `{"error":""}`,
	`{"issuer":"` + c09Iss, `{"access_token":"a`, "", " ", "<html>502</html>", "\xff\xfe", strings.Repeat("a", 1<<20), `{"issuer":"` + strings.Repeat("i", 1<<20) + `"}`,
	`{"a":` + strings.Repeat("[", 5000) + strings.Repeat("]", 5000) + `}`, `{"issuer":"` + c09Iss + `","issuer":null}`}

var c09Statuses = []int{200, 200, 200, 201, 204, 301, 302, 400, 401, 403, 404, 429, 500, 503}

func c09Nil(v any) bool {
	if v == nil {
		return true
	}
	switch x := v.(type) {
	case *oidc.DiscoveryConfiguration:
		return x == nil
	case *oauth2.Token:
		return x == nil
	case *oidc.TokenExchangeResponse:
		return x == nil
	case *oidc.DeviceAuthorizationResponse:
		return x == nil
	case *oidc.AccessTokenResponse:
		return x == nil
	case *oidc.UserInfo:
		return x == nil
	case *oidc.IntrospectionResponse:
		return x == nil
	case *oidc.Tokens[*oidc.IDTokenClaims]:
		return x == nil
	case rp.RelyingParty:
		return x == nil
	}
	return false
}

// c09Helper: one client-side helper of the library under test; site = the function whose decode site the model composes
// ("" = none), nilOK = a nil value with a nil error is the helper's contract, f = nil: runs in a child process (JWKS)
type c09Helper struct {
	name, site string
	nilOK      bool
	f          func(hc *http.Client) (any, error)
}

// c09ClientHelpers: every client-side helper that reads a provider response (shared by the client stream and the
// hostile-provider stream of c09prov.go)
func c09ClientHelpers() []c09Helper {
	ctx := context.Background()
	type helper = c09Helper
	oauthCfg := func() *oauth2.Config {
		return &oauth2.Config{ClientID: "c", ClientSecret: "s", RedirectURL: "https://rp.example/cb", Scopes: []string{"openid"},
			Endpoint: oauth2.Endpoint{AuthURL: c09Iss + "/authorize", TokenURL: c09Iss + "/token", DeviceAuthURL: c09Iss + "/device"}}
	}
	newRP := func(hc *http.Client) rp.RelyingParty {
		p, err := rp.NewRelyingPartyOAuth(oauthCfg(), rp.WithHTTPClient(hc))
		if err != nil {
			panic(err)
		}
		return p
	}
	helpers := []helper{
		{"client.Discover", "client.Discover", false, func(hc *http.Client) (any, error) { return client.Discover(ctx, c09Iss, hc) }},
		{"client.Discover.custom-url", "client.Discover", false, func(hc *http.Client) (any, error) { return client.Discover(ctx, c09Iss, hc, c09Iss+"/custom") }},
		{"rp.NewRelyingPartyOIDC", "client.Discover", false, func(hc *http.Client) (any, error) {
			return rp.NewRelyingPartyOIDC(ctx, c09Iss, "c", "s", "https://rp.example/cb", []string{"openid"}, rp.WithHTTPClient(hc), rp.WithSigningAlgsFromDiscovery())
		}},
		{"rs.NewResourceServerClientCredentials", "client.Discover", false, func(hc *http.Client) (any, error) {
			return rs.NewResourceServerClientCredentials(ctx, c09Iss, "c", "s", rs.WithClient(hc))
		}},
		{"client.CallTokenEndpoint", "client.callTokenEndpoint", false, func(hc *http.Client) (any, error) {
			return client.CallTokenEndpoint(ctx, &oidc.AccessTokenRequest{Code: "c"}, c09Caller{hc, c09Iss + "/token"})
		}},
		{"client.JWTProfileExchange", "client.callTokenEndpoint", false, func(hc *http.Client) (any, error) {
			return client.JWTProfileExchange(ctx, oidc.NewJWTProfileGrantRequest("a.b.c", "openid"), c09Caller{hc, c09Iss + "/token"})
		}},
		{"rp.RefreshTokens", "client.callTokenEndpoint", false, func(hc *http.Client) (any, error) {
			return rp.RefreshTokens[*oidc.IDTokenClaims](ctx, newRP(hc), "rt", "", "")
		}},
		{"rp.CodeExchange", "", false, func(hc *http.Client) (any, error) {
			return rp.CodeExchange[*oidc.IDTokenClaims](ctx, "code", newRP(hc))
		}},
		{"rp.ClientCredentials", "", false, func(hc *http.Client) (any, error) { return rp.ClientCredentials(ctx, newRP(hc), nil) }},
		{"client.CallTokenExchangeEndpoint", "client.CallTokenExchangeEndpoint", false, func(hc *http.Client) (any, error) {
			return client.CallTokenExchangeEndpoint(ctx, &oidc.TokenExchangeRequest{SubjectToken: "t"}, nil, c09Caller{hc, c09Iss + "/token"})
		}},
		{"client.CallDeviceAuthorizationEndpoint", "client.CallDeviceAuthorizationEndpoint", false, func(hc *http.Client) (any, error) {
			return client.CallDeviceAuthorizationEndpoint(ctx, &oidc.ClientCredentialsRequest{ClientID: "c", ClientSecret: "s"}, c09Caller{hc, c09Iss + "/device"}, nil)
		}},
		{"rp.DeviceAuthorization", "client.CallDeviceAuthorizationEndpoint", false, func(hc *http.Client) (any, error) {
			return rp.DeviceAuthorization(ctx, []string{"openid"}, c09RPWithUserinfo{newRP(hc)}, nil)
		}},
		{"client.CallDeviceAccessTokenEndpoint", "client.CallDeviceAccessTokenEndpoint", false, func(hc *http.Client) (any, error) {
			return client.CallDeviceAccessTokenEndpoint(ctx, &client.DeviceAccessTokenRequest{ClientCredentialsRequest: &oidc.ClientCredentialsRequest{ClientID: "c"},
				DeviceAccessTokenRequest: oidc.DeviceAccessTokenRequest{GrantType: oidc.GrantTypeDeviceCode, DeviceCode: "dc"}}, c09Caller{hc, c09Iss + "/token"})
		}},
		{"client.PollDeviceAccessTokenEndpoint", "client.CallDeviceAccessTokenEndpoint", false, func(hc *http.Client) (any, error) {
			c, cancel := context.WithTimeout(ctx, 30*time.Millisecond)
			defer cancel()
			return client.PollDeviceAccessTokenEndpoint(c, time.Millisecond, &client.DeviceAccessTokenRequest{ClientCredentialsRequest: &oidc.ClientCredentialsRequest{ClientID: "c"},
				DeviceAccessTokenRequest: oidc.DeviceAccessTokenRequest{GrantType: oidc.GrantTypeDeviceCode, DeviceCode: "dc"}}, c09Caller{hc, c09Iss + "/token"})
		}},
		{"client.CallEndSessionEndpoint", "", true, func(hc *http.Client) (any, error) {
			return client.CallEndSessionEndpoint(ctx, &oidc.EndSessionRequest{IdTokenHint: "x"}, nil, c09Caller{hc, c09Iss + "/end"})
		}},
		{"client.CallRevokeEndpoint", "", true, func(hc *http.Client) (any, error) {
			return nil, client.CallRevokeEndpoint(ctx, &client.RevokeRequest{Token: "t"}, nil, c09Caller{hc, c09Iss + "/revoke"})
		}},
		{"rp.Userinfo", "rp.Userinfo", false, func(hc *http.Client) (any, error) {
			p, err := rp.NewRelyingPartyOAuth(oauthCfg(), rp.WithHTTPClient(hc))
			if err != nil {
				return nil, err
			}
			return rp.Userinfo[*oidc.UserInfo](ctx, "at", "Bearer", "user1", c09RPWithUserinfo{p})
		}},
		{"rs.Introspect", "rs.Introspect", false, func(hc *http.Client) (any, error) {
			return rs.Introspect[*oidc.IntrospectionResponse](ctx, c09RS{c09Caller{hc, c09Iss + "/introspect"}}, "tok")
		}},
		// the remote key set downloads in a goroutine of its own: a panic there cannot be recovered and takes the whole
		// process down, so this helper runs in a child process (see c09JWKSChild)
		{"rp.RemoteKeySet.VerifySignature", "", true, nil},
		{"httphelper.HttpRequest.ptr", "", true, func(hc *http.Client) (any, error) {
			req, _ := http.NewRequest(http.MethodGet, c09Iss+"/x", nil)
			return nil, httphelper.HttpRequest(hc, req, new(oidc.AccessTokenResponse))
		}},
		{"httphelper.HttpRequest.any", "", true, func(hc *http.Client) (any, error) {
			req, _ := http.NewRequest(http.MethodGet, c09Iss+"/x", nil)
			var v any
			return nil, httphelper.HttpRequest(hc, req, &v)
		}},
	}
	return helpers
}

func c09ClientStream(r *hx.Rand, n int, emit func(*hx.Line), stats map[string]int) {
	type helper = c09Helper
	helpers := c09ClientHelpers()
	jwksTok := c09Signed(`{"sub":"a"}`, "sig1")
	run := func(h helper, status int, body string, hdr http.Header) {
		rt := &c09RT{status: status, body: body, hdr: hdr}
		hc := &http.Client{Transport: rt}
		var val any
		var err error
		pv := ""
		if h.f == nil {
			switch out := c09RunJWKSChild(jwksTok, status, body); {
			case out == "ok":
			case out == "err":
				err = fmt.Errorf("err")
			default:
				pv = out
			}
		} else {
			func() {
				defer func() {
					if p := recover(); p != nil {
						pv = fmt.Sprint(p)
					}
				}()
				val, err = h.f(hc)
			}()
		}
		obs := "ok"
		switch {
		case pv != "":
			obs = "panic"
		case err != nil:
			obs = "err"
		case !h.nilOK && c09Nil(val):
			obs = "nilnil"
		}
		d := c09Describe(body)
		l := hx.NewLine("C09").S("kind", "client").S("helper", h.name).S("fn", h.site).I("status", int64(status)).B("json", d.valid).S("ptype", d.ptype).S("obs", obs)
		if pv != "" {
			l.S("pv", clip(pv, 120))
		}
		l.S("body", clip(body, 160)).I("blen", int64(len(body)))
		emit(l)
		stats["client."+obs]++
		stats[fmt.Sprintf("client.status.%d", status)]++
	}
	// exhaustive: every helper x {200, 400} x every body; then random status / header combinations
	for _, h := range helpers {
		for _, b := range c09Bodies {
			run(h, 200, b, nil)
			if len(b) < 4096 {
				run(h, 400, b, nil)
			}
		}
	}
	for i := 0; i < n; i++ {
		h := helpers[r.Intn(len(helpers))]
		b := c09Bodies[r.Intn(len(c09Bodies))]
		if r.Chance(20) && len(b) > 1 && len(b) < 4096 {
			b = b[:r.Intn(len(b))]
		}
		st := c09Statuses[r.Intn(len(c09Statuses))]
		var hdr http.Header
		if r.Chance(30) {
			hdr = http.Header{}
			hdr.Set(hx.Pick(r, "Location", "Content-Type", "Retry-After", "WWW-Authenticate"), hx.Pick(r, "https://rp.example/x", "://bad", "text/html", "", "\x00"))
		}
		run(h, st, b, hdr)
	}
}

type c09RPWithUserinfo struct{ rp.RelyingParty }

func (c09RPWithUserinfo) UserinfoEndpoint() string               { return c09Iss + "/userinfo" }
func (c09RPWithUserinfo) GetDeviceAuthorizationEndpoint() string { return c09Iss + "/device" }

type c09RS struct{ c09Caller }

// ---------------------------------------------------------------- the stream

var c09FullBytes bool

func c09Stream(r *hx.Rand, tier string, n int, w *bufio.Writer) map[string]int {
	if n == 0 {
		n = 6000
		if tier == "thorough" {
			n = 200000
		}
	}
	big := 1 << 16
	if tier == "thorough" {
		big = 1 << 20
	}
	stats := map[string]int{}
	id := 0
	emit := func(l *hx.Line) {
		s := l.String()
		// the case id goes first so that replay (-only) finds it
		fmt.Fprintf(w, "C09 case=%d %s\n", id, strings.TrimPrefix(s, "C09 "))
		id++
	}
	// the byte-class streams (raw, prov) run their full cross only in a real thorough run: a search after a broken proof
	// (tier thorough with a small case budget, see check) gets the rotating schedule of the quick tier
	c09FullBytes = tier == "thorough" && n >= 100000
	// C09_TIMING=1: wall time per sub-stream on stderr
	t0 := time.Now()
	lap := func(name string) {
		if os.Getenv("C09_TIMING") != "" {
			fmt.Fprintf(os.Stderr, "c09 timing %s %dms (%d lines)\n", name, time.Since(t0).Milliseconds(), id)
		}
		t0 = time.Now()
	}
	c09HandlerStream(r, n*45/100, big, tier == "thorough", emit, stats)
	lap("handler")
	c09DecoderStream(r, n/100, emit, stats)
	c09BytesStream(r, n/100, emit, stats)
	c09ClaimsStream(r, emit, stats)
	lap("dec+bytes+claims")
	c09VerifyStream(r, n*3/100, emit, stats)
	lap("verify")
	c09JoseVerifyStream(r, c09FullBytes, emit, stats)
	lap("jose-verify")
	c09HintCallerStream(emit, stats)
	c09ClientStream(r, n*20/100, emit, stats)
	lap("hint+client")
	c09ProviderStream(r, c09FullBytes, emit, stats)
	lap("provider")
	c09RPHandlerStream(r, n/100, emit, stats)
	lap("rph")
	return stats
}
