package main

import (
	"bufio"
	"context"
	"encoding/json"
	"fmt"
	"net/http"
	"net/http/httptest"
	"net/url"
	"sort"
	"strings"
	"time"

	jose "github.com/go-jose/go-jose/v4"
	"github.com/zitadel/oidc/v3/pkg/client/rp"
	"github.com/zitadel/oidc/v3/pkg/crypto"
	"github.com/zitadel/oidc/v3/pkg/oidc"
	"github.com/zitadel/oidc/v3/pkg/op"

	"verifharness/internal/hx"
	"verifharness/internal/opbed"
	"verifharness/internal/refstore"
)

func init() { streams["C06"] = c06Stream }

var registeredIDClaims = map[string]bool{"iss": true, "sub": true, "aud": true, "exp": true, "iat": true, "auth_time": true, "nonce": true, "acr": true, "amr": true,
	"azp": true, "client_id": true, "at_hash": true, "c_hash": true, "act": true, "sid": true, "nbf": true, "jti": true}

func c06Stream(r *hx.Rand, tier string, n int, w *bufio.Writer) map[string]int {
	if n == 0 {
		n = 1200
		if tier == "thorough" {
			n = 20000
		}
	}
	stats := map[string]int{}
	sy := newSymbols()
	// a signing key of EVERY algorithm the library supports for signing (RS/PS/ES 256-384-512, EdDSA); the first key pair of the
	// ring that can sign with it (c06hist.go: hx.Keys plus P-384 / P-521 / further pairs generated once per run)
	type c06Signer struct {
		k   *hx.Key
		alg string
	}
	var signers []c06Signer
	for _, alg := range c06Algs {
		signers = append(signers, c06Signer{c06KeysFor(alg)[0], alg})
	}
	// RS256 stays the most frequent one (the modal class of the stream)
	signers = append(signers, signers[0], signers[0])
	flows := []string{"code", "code", "implicit", "implicit-idonly", "refresh", "device", "exchange-id", "jwt-bearer", "client-credentials"}
	var hist *c06Hist // the running history (nil: the next case starts a new one)
	histSeq := 0
	for i := 0; i < n; i++ {
		// ---- every case is one issuance step of a HISTORY (c06hist.go); the classic case is a history of one step over a fresh provider
		if hist == nil {
			histSeq++
			if r.Chance(30) {
				hist = c06NewHist(r, histSeq, 2+r.Intn(5), 1+r.Intn(2))
			} else {
				router := hx.Pick(r, "provider", "legacy")
				sg := signers[r.Intn(len(signers))]
				bed, err := opbed.New(opbed.Config{Router: router, S256: true, Post: true, PrivateKeyJWT: true, Refresh: true, SignKey: sg.k, SignAlg: sg.alg,
					Caps: refstore.Caps{CC: true, TE: true, Device: true, UserinfoFromReq: r.Chance(50)}})
				if err != nil {
					panic(err)
				}
				bed.Store.UserinfoInIDToken = r.Chance(50)
				if r.Chance(35) {
					// key-rotation window: a retired key of the same type (and curve) is still published
					for _, old := range c06KeysFor(sg.alg) {
						if old != sg.k {
							bed.Store.AddPublishedKey("retired", jose.SignatureAlgorithm(sg.alg), old.Pub, "sig")
							break
						}
					}
				}
				hist = &c06Hist{id: histSeq, steps: 1, beds: []*opbed.Bed{bed}, srvs: []*httptest.Server{httptest.NewServer(bed.Handler)},
					cur: []*c06Cur{{k: sg.k, alg: sg.alg, kid: "sig1"}}}
			}
		}
		h := hist
		prov := r.Intn(len(h.beds))
		bed, srv, cur := h.beds[prov], h.srvs[prov], h.cur[prov]
		router := bed.Cfg.Router
		// a key-change event of this step: before its flow starts, or right before its token-issuing request
		evName, evWhen := "none", "-"
		evChance := 12
		if h.steps > 1 {
			evChance = 55
			if h.step == 0 {
				evChance = 20
			}
		}
		if r.Chance(evChance) {
			evWhen = hx.Pick(r, "before", "mid", "inside", "inside")
			if evWhen == "before" {
				evName = h.event(r, prov)
			}
		}
		var inside *c06Inside // a rotation scheduled INSIDE the token-issuing request (c06hist.go)
		preIssue := func() {
			if evWhen == "mid" && evName == "none" {
				evName = h.event(r, prov)
			}
			if evWhen == "inside" && inside == nil {
				inside = h.scheduleInside(r, prov)
			}
		}
		h.step++
		if h.step >= h.steps {
			hist = nil
		}
		endCase := func() {
			if hist != h {
				h.close()
			}
		}
		cls := flowClients()
		fc := cls[0]
		if r.Chance(25) {
			fc = cls[2] // public
		}
		skew := hx.Pick(r, 0, 0, 5*time.Second, 2*time.Minute)
		lifetime := hx.Pick(r, 5*time.Minute, time.Hour)
		jwtAT := r.Chance(50)
		fc.c.Skew, fc.c.IDLifetime, fc.c.AssertUserinfo = skew, lifetime, r.Chance(40)
		if jwtAT {
			fc.c.TokenType = op.AccessTokenTypeJWT
		}
		for _, c := range cls {
			bed.Store.AddClient(c.c)
		}
		bed.Store.AddUser("user1", map[string]any{"name": "User One"})
		flow := flows[r.Intn(len(flows))]
		if fc.c.Auth == oidc.AuthMethodNone && (strings.HasPrefix(flow, "implicit") || flow == "exchange-id" || flow == "client-credentials" || flow == "jwt-bearer") {
			flow = "code"
		}
		scopeSet := hx.Pick(r, "openid", "openid profile", "openid profile email custom_scope", "openid email phone custom_scope custom_scope2",
			"openid offline_access profile custom_scope", "openid custom_scope2", "openid custom_scope custom_scope2")
		if flow == "refresh" && !strings.Contains(scopeSet, "offline_access") {
			scopeSet += " offline_access"
		}
		// the client's registration restricts which granted scopes yield claims, separately for ID tokens and for access tokens
		restrict := hx.Pick(r, "identity", "identity", "id-drops-custom", "at-drops-custom", "both-drop-custom", "cross", "cross-rev", "id-drops-email")
		switch restrict {
		case "id-drops-custom":
			fc.c.IDTokenScopeDrop = []string{refstore.CustomScope}
		case "at-drops-custom":
			fc.c.AccessTokenScopeDrop = []string{refstore.CustomScope}
		case "both-drop-custom":
			fc.c.IDTokenScopeDrop, fc.c.AccessTokenScopeDrop = []string{refstore.CustomScope}, []string{refstore.CustomScope}
		case "cross":
			fc.c.IDTokenScopeDrop, fc.c.AccessTokenScopeDrop = []string{refstore.CustomScope}, []string{refstore.CustomScope2}
		case "cross-rev":
			fc.c.IDTokenScopeDrop, fc.c.AccessTokenScopeDrop = []string{refstore.CustomScope2}, []string{refstore.CustomScope}
		case "id-drops-email":
			fc.c.IDTokenScopeDrop = []string{"email"}
		}
		nonce := hx.Pick(r, "", "n-7")
		redirect := fc.c.Redirects[0]
		authQ := func(respType string) url.Values {
			q := url.Values{"client_id": {fc.c.ID}, "redirect_uri": {redirect}, "response_type": {respType}, "scope": {scopeSet}, "state": {"s"}}
			if nonce != "" {
				q.Set("nonce", nonce)
			}
			if fc.c.Auth == oidc.AuthMethodNone {
				q.Set("code_challenge", oidc.NewSHACodeChallenge("verifier-FFFFFFFFFFFFFFFFFFFFFFFFFFFFFFFFFFFFFFFFFFF"))
				q.Set("code_challenge_method", "S256")
			}
			return q
		}
		var tokenResp map[string]any // the members of the response that carries tokens
		code := ""
		var reqAuthTime int64
		reqSubject, reqAMR := "user1", []string{"pwd"}
		markFn := func() {} // set below: remembers how often the scope-driven storage methods were called so far
		loginAndCallback := func(respType string) *opbed.Resp {
			resp := bed.Do(bed.Get("/authorize", authQ(respType), ""))
			if resp.Loc == nil {
				return resp
			}
			id := resp.Loc.Query().Get("authRequestID")
			bed.Store.CompleteAuthRequest(id, "user1")
			if ar := bed.Store.GetAuthRequest(id); ar != nil {
				reqAuthTime = ar.AuthTime.Unix()
			}
			markFn()
			if respType != "code" {
				preIssue() // implicit: the callback issues the tokens
			}
			return bed.Do(bed.Get("/authorize/callback", url.Values{"id": {id}}, ""))
		}
		codeExchange := func() *opbed.Resp {
			cb := loginAndCallback("code")
			if cb.Loc != nil {
				code = cb.Loc.Query().Get("code")
			}
			f := url.Values{"grant_type": {"authorization_code"}, "code": {code}, "redirect_uri": {redirect}}
			if fc.c.Auth == oidc.AuthMethodNone {
				f.Set("code_verifier", "verifier-FFFFFFFFFFFFFFFFFFFFFFFFFFFFFFFFFFFFFFFFFFF")
			}
			markFn()
			if flow == "code" {
				preIssue()
			}
			return bed.Do(bed.Form("/oauth/token", f, ownAuth(sy, fc)))
		}
		withAT := true
		// the scope lists the storage is asked about DURING the token-issuing request (not during the requests that prepare it)
		asked := map[string]int{}
		mark := func() {
			for _, m := range []string{"SetUserinfoFromScopes", "SetUserinfoFromRequest", "GetPrivateClaimsFromScopes"} {
				asked[m] = len(bed.Store.ScopesAsked(m))
			}
		}
		askedSince := func(m string) string {
			all := bed.Store.ScopesAsked(m)
			if len(all) <= asked[m] {
				return "-"
			}
			return strings.Join(all[len(all)-1], "+")
		}
		markFn = mark
		switch flow {
		case "code":
			tokenResp = codeExchange().JSON
		case "implicit", "implicit-idonly":
			rt := "id_token token"
			if flow == "implicit-idonly" {
				rt = "id_token"
				withAT = false
			}
			cb := loginAndCallback(rt)
			code = ""
			if cb.Loc != nil {
				vals, _ := url.ParseQuery(cb.Loc.Fragment)
				tokenResp = map[string]any{}
				for k, v := range vals {
					tokenResp[k] = v[0]
				}
			}
		case "refresh":
			first := codeExchange()
			code = ""
			mark()
			preIssue() // the first exchange has already signed tokens with the previous key
			tokenResp = bed.Do(bed.Form("/oauth/token", url.Values{"grant_type": {"refresh_token"}, "refresh_token": {first.Str("refresh_token")}}, ownAuth(sy, fc))).JSON
			nonce = "" // a refresh request carries no nonce
		case "device":
			da := bed.Do(bed.Form("/device_authorization", url.Values{"scope": {scopeSet}}, ownAuth(sy, fc)))
			if uc := da.Str("user_code"); uc != "" {
				bed.Store.ApproveDevice(uc, "user1")
			}
			mark()
			preIssue()
			tokenResp = bed.Do(bed.Form("/oauth/token", url.Values{"grant_type": {string(oidc.GrantTypeDeviceCode)}, "device_code": {da.Str("device_code")}}, ownAuth(sy, fc))).JSON
			nonce, reqAuthTime = "", 0
			reqAMR = nil
			if e := bed.Store.DeviceByUserCode(da.Str("user_code")); e != nil && e.State != nil {
				reqAuthTime = e.State.AuthTime.Unix()
				if e.State.AuthTime.IsZero() {
					reqAuthTime = 0
				}
				reqAMR = e.State.AMR
			}
		case "exchange-id":
			first := codeExchange()
			code = ""
			f := url.Values{"grant_type": {string(oidc.GrantTypeTokenExchange)}, "subject_token": {first.Str("refresh_token")}, "subject_token_type": {ttRefresh},
				"requested_token_type": {ttID}, "scope": {scopeSet}}
			if first.Str("refresh_token") == "" {
				f.Set("subject_token", first.Str("access_token"))
				f.Set("subject_token_type", ttAccess)
			}
			mark()
			preIssue()
			ex := bed.Do(bed.Form("/oauth/token", f, ownAuth(sy, fc)))
			tokenResp = map[string]any{}
			if ex.Status == 200 {
				tokenResp["id_token"] = ex.Str("access_token")
			}
			withAT, nonce, reqAMR = false, "", nil
			reqAuthTime = -1 // set by the framework at exchange time: not compared
		case "jwt-bearer":
			now := time.Now().Unix()
			l := hx.NewLine("x")
			a := assertion(sy, l, cls[4].key, cls[4].kid, "pk", "pk", []string{opbed.Issuer}, now-5, now+300)
			preIssue()
			tokenResp = bed.Do(bed.Form("/oauth/token", url.Values{"grant_type": {string(oidc.GrantTypeBearer)}, "assertion": {a}, "scope": {scopeSet}}, opbed.Auth{Kind: "none"})).JSON
			reqSubject = "pk"
			skew = 0 // the jwt-bearer grant has no registered client whose clock skew would apply
		case "client-credentials":
			preIssue()
			tokenResp = bed.Do(bed.Form("/oauth/token", url.Values{"grant_type": {"client_credentials"}, "scope": {scopeSet}}, ownAuth(sy, fc))).JSON
			reqSubject = fc.c.ID
		}
		if inside != nil {
			inside.finish(bed.Store)
			if inside.fired {
				evName = inside.ev
			} else {
				evWhen = "-" // the request made fewer storage calls / no such call: nothing happened
				stats["inside-rotation-not-reached"]++
			}
		}
		str := func(k string) string {
			s, _ := tokenResp[k].(string)
			return s
		}
		idToken, accessToken := str("id_token"), str("access_token")
		sgAlg := cur.alg // the algorithm of the signing key the storage returns at the token-issuing request
		l := hx.NewLine("C06").I("case", int64(i)).S("router", router).S("flow", flow).S("alg", sgAlg).S("r.iss", opbed.Issuer).S("r.client", fc.c.ID).
			S("r.sub", reqSubject).S("r.nonce", nonce).I("r.authtime", reqAuthTime).L("r.amr", reqAMR).L("r.scopes", strings.Split(scopeSet, " ")).
			I("r.lifetime", int64(lifetime/time.Second)).I("r.skew", int64(skew/time.Second)).B("r.assert", fc.c.AssertUserinfo).B("r.withat", withAT && accessToken != "")
		// the granted scopes as the client's registration restricts them per token kind (reference filter, not the client's function).
		// Token exchange hands the REQUEST to the storage (SetUserinfoFromTokenExchangeRequest): the restriction is the storage's there;
		// the jwt-bearer grant has no registered client (identity).
		granted := strings.Split(scopeSet, " ")
		idScopes, atScopes := refDrop(granted, fc.c.IDTokenScopeDrop), refDrop(granted, fc.c.AccessTokenScopeDrop)
		if flow == "exchange-id" {
			idScopes = granted
		}
		if flow == "jwt-bearer" {
			atScopes = granted
		}
		fillsID := bed.Store.UserinfoInIDToken || bed.Cfg.Caps.UserinfoFromReq || flow == "exchange-id"
		l.S("restrict", restrict).L("r.iddrop", fc.c.IDTokenScopeDrop).L("r.atdrop", fc.c.AccessTokenScopeDrop).L("r.idscopes", idScopes).L("r.atscopes", atScopes).
			B("r.fillsid", fillsID).B("r.fillsat", true).B("cap.uireq", bed.Cfg.Caps.UserinfoFromReq).B("r.code", code != "" && flow == "code").
			S("j.ui", askedSince("SetUserinfoFromScopes")).S("j.uireq", askedSince("SetUserinfoFromRequest")).S("j.priv", askedSince("GetPrivateClaimsFromScopes"))
		// the history this issuance belongs to, the key-change event of this step, and the signing key the reference storage returns NOW
		l.I("h.id", int64(h.id)).I("h.step", int64(h.step)).I("h.steps", int64(h.steps)).I("h.prov", int64(prov)).I("h.nprov", int64(len(h.beds))).
			S("h.ev", evName).S("h.when", evWhen).I("k.cur", int64(cur.k.No)).S("k.kid", cur.kid).S("k.alg", cur.alg)
		atAlgs := []string{sgAlg}
		if inside != nil && inside.fired {
			// the key that was current when the request began (it stays published), where the rotation fell, and the storage calls of the request
			l.L("k.also", []string{fmt.Sprintf("%d/%s", inside.prev.k.No, inside.prev.alg)}).I("k.prev", int64(inside.prev.k.No)).S("k.prevkid", inside.prev.kid).
				S("k.prevalg", inside.prev.alg).S("h.sched", inside.spec).I("h.at", int64(inside.at)).S("h.atcall", inside.method).
				I("h.sigbefore", int64(inside.sigBefore)).S("j.calls", strings.Join(inside.calls, "+"))
			atAlgs = append(atAlgs, inside.prev.alg)
		}
		if idToken == "" && accessToken == "" {
			l.S("obs", "no-tokens")
			stats["no-tokens-"+flow]++
			fmt.Fprintln(w, l.String())
			endCase()
			continue
		}
		l.S("obs", "tokens")
		var idUser []string
		// ---- the ID token through the library's own RP verifier, against the provider's PUBLISHED key set
		if idToken != "" {
			algs := []string{}
			if d := bed.Do(bed.Get("/.well-known/openid-configuration", nil, "")); d.JSON != nil {
				if a, ok := d.JSON["id_token_signing_alg_values_supported"].([]any); ok {
					for _, x := range a {
						if s, ok := x.(string); ok {
							algs = append(algs, s)
						}
					}
				}
			}
			ks := rp.NewRemoteKeySet(http.DefaultClient, srv.URL+"/keys")
			v := rp.NewIDTokenVerifier(opbed.Issuer, fc.c.ID, ks, rp.WithNonce(func(context.Context) string { return nonce }), rp.WithSupportedSigningAlgorithms(algs...))
			var claims *oidc.IDTokenClaims
			var verr error
			if accessToken != "" && withAT {
				claims, verr = rp.VerifyTokens[*oidc.IDTokenClaims](context.Background(), accessToken, idToken, v)
			} else {
				claims, verr = rp.VerifyIDToken[*oidc.IDTokenClaims](context.Background(), idToken, v)
			}
			l.B("o.idtoken", true).B("o.rpverifies", verr == nil)
			sno, skid, salg := c06SignedBy(idToken)
			l.I("o.idsigner", sno).S("o.idkid", skid).S("o.idalg", salg)
			// at_hash / c_hash are judged against a reference computed with the standard library only (hx.RefClaimHash), by the
			// algorithm the HEADER of this ID token names (OIDC Core 3.1.3.6 / 3.3.2.11)
			hashAlg := salg
			if hashAlg == "" {
				hashAlg = sgAlg
			}
			if verr != nil {
				l.S("o.rperr", verr.Error())
			}
			if claims == nil {
				claims = new(oidc.IDTokenClaims)
				if m, ok := opbed.DecodeJWT(idToken); ok {
					b, _ := json.Marshal(m)
					json.Unmarshal(b, claims)
				}
			}
			hx.ClaimsKV(l, "c.", claims)
			l.L("o.amr", claims.AuthenticationMethodsReferences)
			// c_hash
			chOK := true
			if claims.CodeHash != "" || code != "" && flow == "code" {
				want := hx.RefClaimHash(code, hashAlg)                   // reference hash: standard library only
				chOK = claims.CodeHash == "" || claims.CodeHash == want // c_hash is optional in the token response
			}
			l.B("o.chash", chOK)
			// at_hash: when present it must be the spec hash of the access token of this very response
			l.B("o.athash", claims.AccessTokenHash == "" || accessToken == "" || claims.AccessTokenHash == hx.RefClaimHash(accessToken, hashAlg))
			// the hashes in the symbolic spelling of the model: over the access token, the code, or something else
			canon := func(h string) string {
				fam := hx.HashFamily(hashAlg)
				switch {
				case h == "":
					return ""
				case accessToken != "" && h == hx.RefClaimHash(accessToken, hashAlg):
					return "H(" + fam + "/2,AT)"
				case code != "" && h == hx.RefClaimHash(code, hashAlg):
					return "H(" + fam + "/2,CODE)"
				case h == hx.RefClaimHash(accessToken+code, hashAlg):
					return "H(" + fam + "/2,ATCODE)"
				case h == hx.RefClaimHash(code+accessToken, hashAlg):
					return "H(" + fam + "/2,CODEAT)"
				}
				return "other"
			}
			l.S("o.athashsym", canon(claims.AccessTokenHash)).S("o.chashsym", canon(claims.CodeHash))
			// user claims present
			var user []string
			if m, ok := opbed.DecodeJWT(idToken); ok {
				for k := range m {
					if !registeredIDClaims[k] {
						user = append(user, k)
					}
				}
			}
			sort.Strings(user)
			l.L("o.userclaims", user)
			idUser = user
		}
		// ---- the access token
		if accessToken != "" {
			if strings.Count(accessToken, ".") == 2 {
				av := op.NewAccessTokenVerifier(opbed.Issuer, &op.OpenIDKeySet{Storage: bed.Storage}, op.WithSupportedAccessTokenSigningAlgorithms(atAlgs...))
				ac, aerr := op.VerifyAccessToken[*oidc.AccessTokenClaims](context.Background(), accessToken, av)
				l.B("o.jwtat", true).B("o.atverifies", aerr == nil)
				sno, skid, salg := c06SignedBy(accessToken)
				l.I("o.atsigner", sno).S("o.atkid", skid).S("o.atalg", salg)
				if ac != nil {
					l.S("a.iss", ac.Issuer).S("a.sub", ac.Subject)
				}
				// private (non-registered) claims of the JWT access token
				var priv []string
				if m, ok := opbed.DecodeJWT(accessToken); ok {
					for k := range m {
						if !registeredIDClaims[k] && k != "scope" {
							priv = append(priv, k)
						}
					}
				}
				sort.Strings(priv)
				l.L("o.atuserclaims", priv)
				for _, cs := range [][2]string{{refstore.CustomScope, refstore.CustomClaim}, {refstore.CustomScope2, refstore.CustomClaim2}} {
					if !containsStr(granted, cs[0]) || idToken == "" || !fillsID {
						continue
					}
					inID, inAT := containsStr(idUser, cs[1]), containsStr(priv, cs[1])
					switch {
					case inID && !inAT:
						stats["cross-claim-in-id_token-only"]++
					case !inID && inAT:
						stats["cross-claim-in-access_token-only"]++
					case inID && inAT:
						stats["cross-claim-in-both"]++
					default:
						stats["cross-claim-in-neither"]++
					}
				}
			} else {
				ok := false
				if plain, err := crypto.DecryptAES(accessToken, string(bed.CryptoKey[:])); err == nil {
					parts := strings.Split(plain, ":")
					if len(parts) == 2 {
						if rec := bed.Store.Token(parts[0]); rec != nil && rec.Subject == parts[1] {
							ok = true
						}
					}
				}
				if other, err := crypto.DecryptAES(accessToken, "0123456789abcdef0123456789abcdef"); err == nil {
					if parts := strings.Split(other, ":"); len(parts) == 2 && bed.Store.Token(parts[0]) != nil {
						ok = false // decrypts under a foreign key to a stored token
					}
				}
				l.B("o.opaque", ok)
			}
			// expires_in / scope against the storage
			ids := bed.Store.TokenIDs()
			if len(ids) > 0 {
				rec := bed.Store.Token(ids[len(ids)-1])
				if ei, ok := tokenResp["expires_in"].(float64); ok && rec != nil {
					want := time.Until(rec.Expiration).Seconds() + skew.Seconds()
					l.B("o.expiresin", ei >= want-3 && ei <= want+3)
				}
				if sc, ok := tokenResp["scope"].(string); ok && rec != nil {
					l.B("o.scope", sc == strings.Join(rec.Scopes, " "))
				}
			}
		}
		stats["flow-"+flow]++
		stats["alg-"+sgAlg]++
		stats["restrict-"+restrict]++
		if h.steps > 1 {
			stats[fmt.Sprintf("history-step-providers%d", len(h.beds))]++
			if h.step == h.steps {
				stats[fmt.Sprintf("history-of-%d-steps", h.steps)]++
			}
		}
		if evName != "none" {
			stats["key-event-"+evName+"-"+evWhen]++
			stats["key-event-in-flow-"+flow]++
		}
		if inside != nil && inside.fired {
			stats["inside-before-"+inside.method]++
			stats["inside-in-flow-"+flow]++
			stats[fmt.Sprintf("inside-after-%d-SigningKey-calls", inside.sigBefore)]++
			if hx.HashFamily(inside.prev.alg) != hx.HashFamily(cur.alg) {
				stats["inside-hash-function-changes"]++
			}
		}
		if strings.Count(accessToken, ".") == 2 {
			stats["restrict-"+restrict+"-with-jwt-at"]++
		}
		fmt.Fprintln(w, l.String())
		endCase()
	}
	return stats
}

// refDrop: scopes without the dropped ones (reference for what a client's restriction function must yield)
func refDrop(scopes, drop []string) []string {
	out := []string{}
	for _, s := range scopes {
		if !containsStr(drop, s) {
			out = append(out, s)
		}
	}
	return out
}
