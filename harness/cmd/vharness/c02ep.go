package main

// C02, parts 5 and 6 of the stream (round 3).
//
// part 5 - DERIVED verifiers at the token-consuming endpoints.  A real op.Provider (both routers) is configured with
// op.WithAccessTokenVerifierOpts(op.WithSupportedAccessTokenSigningAlgorithms(..)) / op.WithIDTokenHintVerifierOpts(..) (or with no
// such option: the library default) over a storage whose published key set holds keys of several types; JWT access tokens
// and ID tokens, hand-signed with every algorithm of every ring key (keys of the set and foreign ones, allowed and
// disallowed algorithms) are presented at revocation, introspection, userinfo, token exchange (subject / actor token of
// type access_token, subject token of type id_token), end_session (id_token_hint) and authorize (id_token_hint).  Whether
// the endpoint BELIEVED the token is read off the storage call the belief leads to (RevokeToken with the token's jti,
// SetIntrospectionFromToken, SetUserinfoFromToken, ValidateTokenExchangeRequest, TerminateSession, CreateAuthRequest with
// the hint's subject); the monitor judges that answer against the CONFIGURED allow-list and the published key set.
//
// part 6 - REUSED verifier objects.  Histories of 3-5 tokens through ONE *op.JWTProfileVerifier (assertions of different
// issuers, some signed with another client's registered key), ONE *op.AccessTokenVerifier / *op.IDTokenHintVerifier over ONE
// *op.OpenIDKeySet whose storage changes its published keys between the steps.  Every answer is judged on its own
// (the key set of THIS assertion's issuer, the keys published NOW); the driver threads the model's verifier object.

import (
	"context"
	"crypto/sha256"
	"encoding/json"
	"fmt"
	"net/url"
	"strings"
	"time"

	jose "github.com/go-jose/go-jose/v4"
	"github.com/zitadel/oidc/v3/pkg/oidc"
	"github.com/zitadel/oidc/v3/pkg/op"

	"verifharness/internal/hx"
	"verifharness/internal/opbed"
	"verifharness/internal/refstore"
)

// ---------------------------------------------------------------- part 5: the storage that records what an endpoint believed

type c02Belief struct {
	method      string // storage method the belief led to
	id, subject string
	client      string // the client the request was authenticated as (where the storage is told)
}

// c02epStore: the reference storage (with the token-exchange part), recording the calls a believed token leads to.
type c02epStore struct {
	op.Storage
	op.TokenExchangeStorage
	seen []c02Belief
}

func (s *c02epStore) RevokeToken(ctx context.Context, tokenOrID, userID, clientID string) *oidc.Error {
	s.seen = append(s.seen, c02Belief{"RevokeToken", tokenOrID, userID, clientID})
	return s.Storage.RevokeToken(ctx, tokenOrID, userID, clientID)
}

func (s *c02epStore) SetUserinfoFromToken(ctx context.Context, ui *oidc.UserInfo, tokenID, subject, origin string) error {
	s.seen = append(s.seen, c02Belief{"SetUserinfoFromToken", tokenID, subject, ""})
	return s.Storage.SetUserinfoFromToken(ctx, ui, tokenID, subject, origin)
}

func (s *c02epStore) SetIntrospectionFromToken(ctx context.Context, resp *oidc.IntrospectionResponse, tokenID, subject, clientID string) error {
	s.seen = append(s.seen, c02Belief{"SetIntrospectionFromToken", tokenID, subject, clientID})
	return s.Storage.SetIntrospectionFromToken(ctx, resp, tokenID, subject, clientID)
}

func (s *c02epStore) ValidateTokenExchangeRequest(ctx context.Context, req op.TokenExchangeRequest) error {
	s.seen = append(s.seen, c02Belief{"ValidateTokenExchangeRequest/subject", req.GetExchangeSubjectTokenIDOrToken(), req.GetExchangeSubject(), req.GetClientID()})
	s.seen = append(s.seen, c02Belief{"ValidateTokenExchangeRequest/actor", req.GetExchangeActorTokenIDOrToken(), req.GetExchangeActor(), req.GetClientID()})
	return s.TokenExchangeStorage.ValidateTokenExchangeRequest(ctx, req)
}

func (s *c02epStore) TerminateSession(ctx context.Context, userID, clientID string) error {
	s.seen = append(s.seen, c02Belief{"TerminateSession", "", userID, clientID})
	return s.Storage.TerminateSession(ctx, userID, clientID)
}

func (s *c02epStore) CreateAuthRequest(ctx context.Context, r *oidc.AuthRequest, userID string) (op.AuthRequest, error) {
	s.seen = append(s.seen, c02Belief{"CreateAuthRequest", "", userID, r.ClientID})
	return s.Storage.CreateAuthRequest(ctx, r, userID)
}

func (s *c02epStore) ValidateJWTProfileScopes(ctx context.Context, userID string, scopes []string) ([]string, error) {
	s.seen = append(s.seen, c02Belief{"ValidateJWTProfileScopes", "", userID, userID})
	return s.Storage.ValidateJWTProfileScopes(ctx, userID, scopes)
}

type c02epBed struct {
	*opbed.Bed
	st     *c02epStore
	router string
	algs   []string // configured allow-list (nil: no option given)
	set    []pubKey // the published key set, in the order Storage.KeySet returns it
	cfg    *c02cfg  // part 7: the construction call of this provider (nil: parts 5 / 6)
}

// c02epNewBed: a provider with the given allow-list for BOTH derived verifiers; the storage publishes ring key 0 (the
// signing key, kid sig1) followed by `extra`.
func c02epNewBed(router string, algs []string, extra []pubKey) *c02epBed {
	var opts []op.Option
	if algs != nil {
		opts = append(opts, op.WithAccessTokenVerifierOpts(op.WithSupportedAccessTokenSigningAlgorithms(algs...)),
			op.WithIDTokenHintVerifierOpts(op.WithSupportedIDTokenHintSigningAlgorithms(algs...)))
	}
	cb := c02epNewBedOpts(router, opts, extra)
	cb.algs = algs
	return cb
}

// c02epNewBedOpts: the same provider, constructed with the given option list (after the harness' own WithLogger)
func c02epNewBedOpts(router string, opts []op.Option, extra []pubKey) *c02epBed {
	key := hx.Keys()[0]
	st := refstore.New(refstore.SigningKeySpec{Kid: "sig1", Alg: jose.RS256, Priv: key.Priv, Pub: key.Pub})
	set := []pubKey{{key, "sig1", "sig"}}
	for _, k := range extra {
		st.AddPublishedKey(k.kid, jose.SignatureAlgorithm(k.k.Algs[0]), k.k.Pub, k.use)
		set = append(set, k)
	}
	web := opbed.WebClient("web", "secret", "https://rp.example/cb")
	st.AddClient(web)
	// a client that authenticates with private_key_jwt / uses the jwt-bearer grant: four registered keys of four types
	jwtc := opbed.WebClient(c02AssertionClient, "", "https://rp.example/cb")
	jwtc.Auth = oidc.AuthMethodPrivateKeyJWT
	for _, k := range c02AssertionKeys() {
		jwtc.Keys = append(jwtc.Keys, refstore.ClientKey{Kid: k.kid, Pub: k.k.Pub})
	}
	st.AddClient(jwtc)
	st.AddUser("user-1", map[string]any{"name": "U One"})
	base := st.With(refstore.Caps{TE: true})
	ws := &c02epStore{Storage: base, TokenExchangeStorage: base.(op.TokenExchangeStorage)}
	cryptoKey := sha256.Sum256([]byte("verif-crypto-key"))
	oc := &op.Config{CryptoKey: cryptoKey, DefaultLogoutRedirectURI: "https://op.example/logged-out", CodeMethodS256: true, AuthMethodPost: true,
		AuthMethodPrivateKeyJWT: true, GrantTypeRefreshToken: true, SupportedClaims: op.DefaultSupportedClaims}
	p, err := op.NewProvider(oc, ws, op.StaticIssuer(opbed.Issuer), append([]op.Option{op.WithLogger(c08Discard)}, opts...)...)
	if err != nil {
		panic(err)
	}
	b := &opbed.Bed{Cfg: opbed.Config{Router: router}, Store: st, Storage: ws, CryptoKey: cryptoKey, SignKey: key, Provider: p}
	if router == "legacy" {
		b.Handler = op.RegisterLegacyServer(op.NewLegacyServer(p, *op.DefaultEndpoints), op.AuthorizeCallbackHandler(p), op.WithFallbackLogger(c08Discard))
	} else {
		b.Handler = p
	}
	return &c02epBed{Bed: b, st: ws, router: router, set: set}
}

const c02AssertionClient = "jwtc"

// the keys registered for the assertion client (the per-client key registry the statement's key set is taken from)
func c02AssertionKeys() []pubKey {
	keys := hx.Keys()
	return []pubKey{{keys[0], "ck-rsa", "sig"}, {keys[2], "ck-ec", "sig"}, {keys[4], "ck-ec384", "sig"}, {keys[5], "ck-ed", "sig"}}
}

var c02AssertionEndpoints = []string{"assert-introspection", "assert-revocation", "assert-jwt-bearer"}

var c02Endpoints = []string{"revocation", "introspection", "userinfo", "exchange-subject-at", "exchange-actor-at", "exchange-subject-idt", "end-session", "authorize"}

// c02epPresent sends `tok` to the endpoint and reports whether it was believed (and as what)
func (cb *c02epBed) present(ep, tok string) (believed bool, b c02Belief, note string) {
	cb.st.seen = nil
	basic := opbed.Auth{Kind: "basic", ID: "web", Secret: "secret"}
	var resp *opbed.Resp
	find := func(method string) (c02Belief, bool) {
		for _, s := range cb.st.seen {
			if s.method == method {
				return s, true
			}
		}
		return c02Belief{}, false
	}
	switch ep {
	case "revocation":
		resp = cb.Do(cb.Form("/revoke", url.Values{"token": {tok}}, basic))
		if s, ok := find("RevokeToken"); ok && s.id != tok {
			return true, s, ""
		}
	case "introspection":
		resp = cb.Do(cb.Form("/oauth/introspect", url.Values{"token": {tok}}, basic))
		if s, ok := find("SetIntrospectionFromToken"); ok {
			return true, s, ""
		}
	case "userinfo":
		resp = cb.Do(cb.Get("/userinfo", nil, tok))
		if s, ok := find("SetUserinfoFromToken"); ok {
			return true, s, ""
		}
	case "exchange-subject-at", "exchange-actor-at", "exchange-subject-idt":
		form := url.Values{"grant_type": {string(oidc.GrantTypeTokenExchange)}, "requested_token_type": {string(oidc.AccessTokenType)}}
		// the OTHER role is played by an opaque access token of the provider's own making (believed whenever it decrypts)
		opaque, err := cb.Provider.Crypto().Encrypt("at-opaque:user-1")
		if err != nil {
			return false, c02Belief{}, "encrypt:" + err.Error()
		}
		role := "subject"
		switch ep {
		case "exchange-subject-at":
			form.Set("subject_token", tok)
			form.Set("subject_token_type", string(oidc.AccessTokenType))
		case "exchange-subject-idt":
			form.Set("subject_token", tok)
			form.Set("subject_token_type", string(oidc.IDTokenType))
		default:
			role = "actor"
			form.Set("subject_token", opaque)
			form.Set("subject_token_type", string(oidc.AccessTokenType))
			form.Set("actor_token", tok)
			form.Set("actor_token_type", string(oidc.AccessTokenType))
		}
		resp = cb.Do(cb.Form("/oauth/token", form, basic))
		if s, ok := find("ValidateTokenExchangeRequest/" + role); ok {
			return true, s, ""
		}
		if d := resp.Str("error_description"); !strings.Contains(d, role+"_token is invalid") {
			return false, c02Belief{}, fmt.Sprintf("status-%d:%s:%s", resp.Status, resp.OAuthError(), d)
		}
	case "assert-introspection", "assert-revocation":
		// the assertion authenticates the client; the token it asks about is an opaque one of the provider's own making
		opaque, err := cb.Provider.Crypto().Encrypt("at-opaque:user-1")
		if err != nil {
			return false, c02Belief{}, "encrypt:" + err.Error()
		}
		asrt := opbed.Auth{Kind: "assertion", Assertion: tok}
		if ep == "assert-introspection" {
			resp = cb.Do(cb.Form("/oauth/introspect", url.Values{"token": {opaque}}, asrt))
			if s, ok := find("SetIntrospectionFromToken"); ok {
				return true, s, ""
			}
		} else {
			resp = cb.Do(cb.Form("/revoke", url.Values{"token": {opaque}}, asrt))
			if s, ok := find("RevokeToken"); ok {
				return true, s, ""
			}
		}
		if resp.Status < 400 {
			return false, c02Belief{}, fmt.Sprintf("status-%d-without-storage-call", resp.Status)
		}
	case "assert-jwt-bearer":
		resp = cb.Do(cb.Form("/oauth/token", url.Values{"grant_type": {string(oidc.GrantTypeBearer)}, "assertion": {tok}, "scope": {"openid"}}, opbed.Auth{Kind: "none"}))
		if s, ok := find("ValidateJWTProfileScopes"); ok {
			return true, s, ""
		}
		if resp.Status < 400 {
			return false, c02Belief{}, fmt.Sprintf("status-%d-without-storage-call", resp.Status)
		}
	case "end-session":
		resp = cb.Do(cb.Get("/end_session", url.Values{"id_token_hint": {tok}}, ""))
		if s, ok := find("TerminateSession"); ok {
			return true, s, ""
		}
	case "authorize":
		q := url.Values{"client_id": {"web"}, "redirect_uri": {"https://rp.example/cb"}, "response_type": {"code"}, "scope": {"openid"},
			"state": {"st"}, "id_token_hint": {tok}}
		resp = cb.Do(cb.Get("/authorize", q, ""))
		if s, ok := find("CreateAuthRequest"); ok && s.subject != "" {
			return true, s, ""
		}
	}
	if resp != nil && resp.Panicked {
		return false, c02Belief{}, "panic"
	}
	return false, c02Belief{}, ""
}

func c02epIsHint(ep string) bool {
	return ep == "exchange-subject-idt" || ep == "end-session" || ep == "authorize"
}

// one case of part 5
type c02epCase struct {
	ep     string
	signer *hx.Key
	alg    string
	kid    string
	mut    int // 0: none, else a c02Mutate kind
	expiry string
}

func (e *c02Env) endpointCase(r *hx.Rand, cb *c02epBed, c c02epCase) {
	waitClearOfSecondEdge()
	sec := time.Now().Unix()
	jti := fmt.Sprintf("jwt-at-%d", *e.caseNo)
	exp, iat := sec+600, sec-5
	if c.expiry == "expired" {
		exp, iat = sec-60, sec-700
	}
	var claims map[string]any
	if c02epIsHint(c.ep) {
		claims = map[string]any{"iss": opbed.Issuer, "sub": "user-1", "aud": []string{"web"}, "azp": "web", "exp": exp, "iat": iat, "auth_time": iat}
		jti = ""
	} else {
		claims = map[string]any{"iss": opbed.Issuer, "sub": "user-1", "aud": []string{"web"}, "azp": "web", "exp": exp, "iat": iat, "jti": jti,
			"client_id": "web", "scope": "openid"}
	}
	payload, _ := json.Marshal(claims)
	claims["sub"] = "admin"
	evil, _ := json.Marshal(claims)
	tok, err := e.sy.sign(c.signer, c.alg, c.kid, payload)
	if err != nil {
		e.stats["p5-sign-error"]++
		return
	}
	if c.mut != 0 {
		tok = c02Mutate(r, e.sy, c.mut, tok, payload, evil, c.signer, hx.Keys()[1], c.alg, c.kid)
	}
	vk := "at"
	if c02epIsHint(c.ep) {
		vk = "hint"
	}
	l := hx.NewLine("C02").I("case", int64(*e.caseNo)).S("verifier", vk).S("ep", c.ep).S("router", cb.router)
	*e.caseNo++
	t0 := time.Now()
	believed, b, note := cb.present(c.ep, tok)
	t1 := time.Now()
	l.S("v.iss", opbed.Issuer)
	if cb.algs != nil {
		l.S("v.cfg", "1")
	}
	if cb.cfg != nil {
		cb.cfg.line(l)
		cb.cfg.count(e.stats, c02epIsHint(c.ep), c.signer, believed)
	}
	ksLinePub(l, "published", cb.set)
	l.I("now0", t0.UnixNano()).I("now1", t1.UnixNano()).L("v.algs", cb.algs).S("t.jti", jti)
	l.S("g.alg", c.alg).I("g.signer", int64(c.signer.No)).I("g.mut", int64(c.mut)).S("g.exp", c.expiry)
	e.sy.tokenKV(l, tok)
	inSet := false
	for _, k := range cb.set {
		if k.k.No == c.signer.No {
			inSet = true
		}
	}
	allowed := cb.algs == nil && (c.alg == "RS256" || c.alg == "ES256" || c.alg == "PS256")
	for _, a := range cb.algs {
		if a == c.alg {
			allowed = true
		}
	}
	cls := "disallowed-alg"
	if allowed {
		cls = "allowed-alg"
	}
	if inSet {
		cls += "-trusted-key"
	} else {
		cls += "-foreign-key"
	}
	e.stats["p5-"+cls]++
	e.stats["p5-ep-"+c.ep+"-"+cb.router]++
	switch {
	case note == "panic":
		l.S("obs", "panic")
		e.stats["p5-obs-panic"]++
	case note != "":
		l.S("obs", "err").S("o.err", "harness").S("o.note", note)
		e.stats["p5-obs-harness-problem"]++
	case believed:
		l.S("obs", "ok").S("o.sub", b.subject).S("o.jti", b.id).S("o.via", b.method)
		e.stats["p5-believed"]++
		e.stats["p5-believed-"+cls]++
	default:
		l.S("obs", "err").S("o.err", "not-believed")
		e.stats["p5-refused"]++
	}
	fmt.Fprintln(e.w, l.String())
}

// one assertion presented as client authentication (introspection, revocation) or as a jwt-bearer grant
func (e *c02Env) assertionEndpointCase(r *hx.Rand, cb *c02epBed, ep string, signer *hx.Key, alg, kid, iss string, mut int) {
	waitClearOfSecondEdge()
	sec := time.Now().Unix()
	claims := map[string]any{"iss": iss, "sub": iss, "aud": []string{opbed.Issuer}, "exp": sec + 600, "iat": sec - 5, "jti": fmt.Sprintf("asrt-%d", *e.caseNo)}
	payload, _ := json.Marshal(claims)
	claims["sub"], claims["iss"] = "web", "web"
	evil, _ := json.Marshal(claims)
	tok, err := e.sy.sign(signer, alg, kid, payload)
	if err != nil {
		e.stats["p5-sign-error"]++
		return
	}
	if mut != 0 {
		tok = c02Mutate(r, e.sy, mut, tok, payload, evil, signer, hx.Keys()[1], alg, kid)
	}
	l := hx.NewLine("C02").I("case", int64(*e.caseNo)).S("verifier", "assertion").S("ep", ep).S("router", cb.router)
	*e.caseNo++
	t0 := time.Now()
	believed, b, note := cb.present(ep, tok)
	t1 := time.Now()
	l.S("v.iss", opbed.Issuer).I("v.maxiat", int64(time.Hour)).I("v.off", int64(time.Second))
	reg := c02AssertionKeys()
	l.I("st.n", int64(len(reg)))
	for i, k := range reg {
		p := fmt.Sprintf("st.%d.", i)
		l.S(p+"client", c02AssertionClient).S(p+"kid", k.kid).S(p+"use", k.use).S(p+"kty", k.k.Kty).I(p+"no", int64(k.k.No))
	}
	l.I("now0", t0.UnixNano()).I("now1", t1.UnixNano()).L("v.algs", nil).S("t.jti", "")
	l.S("g.alg", alg).I("g.signer", int64(signer.No)).I("g.mut", int64(mut)).L("g.atlist", cb.algs)
	e.sy.tokenKV(l, tok)
	allowed := alg == "RS256" || alg == "ES256" || alg == "PS256"
	cls := "assertion-disallowed-alg"
	if allowed {
		cls = "assertion-allowed-alg"
	}
	e.stats["p5-"+cls]++
	e.stats["p5-ep-"+ep+"-"+cb.router]++
	switch {
	case note == "panic":
		l.S("obs", "panic")
		e.stats["p5-obs-panic"]++
	case note != "":
		l.S("obs", "err").S("o.err", "harness").S("o.note", note)
		e.stats["p5-obs-harness-problem"]++
	case believed:
		// the claims the endpoint went on with: the assertion's, with the client it told the storage as subject
		l.S("obs", "ok").S("o.sub", b.client).S("o.jti", "").S("o.via", b.method)
		e.stats["p5-believed"]++
		e.stats["p5-believed-"+cls]++
	default:
		l.S("obs", "err").S("o.err", "not-believed")
		e.stats["p5-refused"]++
	}
	fmt.Fprintln(e.w, l.String())
}

func c02EndpointStream(r *hx.Rand, e *c02Env, n int) {
	keys := hx.Keys()
	// the published set besides the signing key: an EC P-256 key, an EC P-384 key, an Ed25519 key, a second RSA key published for encryption only
	extraFull := []pubKey{{keys[2], "ec1", "sig"}, {keys[4], "ec384", ""}, {keys[5], "ed1", "sig"}, {keys[1], "rsa-enc", "enc"}}
	lists := [][]string{nil, {"ES256"}, {"RS256"}, {"EdDSA", "ES384"}, {"PS256", "ES256"}, {"HS256"}}
	type signing struct {
		k        *hx.Key
		alg, kid string
	}
	signings := []signing{{keys[0], "RS256", "sig1"}, {keys[0], "PS256", "sig1"}, {keys[0], "RS384", "sig1"}, {keys[2], "ES256", "ec1"},
		{keys[4], "ES384", "ec384"}, {keys[5], "EdDSA", "ed1"}, {keys[1], "RS256", "rsa-enc"}, {keys[3], "ES256", "ec1"}}
	beds := map[string]*c02epBed{}
	bed := func(router string, li int) *c02epBed {
		k := fmt.Sprintf("%s/%d", router, li)
		if b, ok := beds[k]; ok {
			return b
		}
		b := c02epNewBed(router, lists[li], extraFull)
		beds[k] = b
		return b
	}
	// the grid of the finite dimensions: endpoint x router x allow-list x (key, algorithm)
	for _, ep := range c02Endpoints {
		for _, router := range []string{"provider", "legacy"} {
			for li := range lists {
				for _, sg := range signings {
					e.endpointCase(r, bed(router, li), c02epCase{ep: ep, signer: sg.k, alg: sg.alg, kid: sg.kid})
				}
			}
		}
	}
	// assertions: endpoint x router x (registered key, algorithm); the access-token allow-list of the provider (none / ES256 only)
	// must not leak into the assertion verifier, whose list is the library default
	asrtSignings := []signing{{keys[0], "RS256", "ck-rsa"}, {keys[0], "PS256", "ck-rsa"}, {keys[0], "RS384", "ck-rsa"}, {keys[0], "PS512", "ck-rsa"},
		{keys[2], "ES256", "ck-ec"}, {keys[4], "ES384", "ck-ec384"}, {keys[5], "EdDSA", "ck-ed"}, {keys[1], "RS256", "ck-rsa"}, {keys[3], "ES256", "ck-ec"}}
	for _, ep := range c02AssertionEndpoints {
		for _, router := range []string{"provider", "legacy"} {
			for _, li := range []int{0, 1} {
				for _, sg := range asrtSignings {
					e.assertionEndpointCase(r, bed(router, li), ep, sg.k, sg.alg, sg.kid, c02AssertionClient, 0)
				}
			}
		}
	}
	e.stats["p5-grid"] = len(c02Endpoints)*2*len(lists)*len(signings) + len(c02AssertionEndpoints)*2*2*len(asrtSignings)
	// random cases: key id placement, serialisation-level manipulations, expired tokens, smaller published sets
	for i := 0; i < n; i++ {
		router := hx.Pick(r, "provider", "legacy")
		li := r.Intn(len(lists))
		cb := bed(router, li)
		if r.Chance(25) {
			// a provider of its own with a random subset of the extra keys
			var extra []pubKey
			for _, k := range extraFull {
				if r.Chance(50) {
					extra = append(extra, pubKey{k.k, hx.Pick(r, k.kid, k.kid, ""), hx.Pick(r, k.use, "sig", "")})
				}
			}
			cb = c02epNewBed(router, lists[li], extra)
		}
		if r.Chance(20) {
			// an assertion: any registered key id, sometimes a serialisation manipulation, sometimes naming another client
			sg := asrtSignings[r.Intn(len(asrtSignings))]
			kid, iss, mut := sg.kid, c02AssertionClient, 0
			if r.Chance(25) {
				kid = hx.Pick(r, "", "ck-rsa", "ck-ec", "zz")
			}
			if r.Chance(15) {
				iss = "web" // a client without registered keys
			}
			if r.Chance(25) {
				mut = hx.Pick(r, 1, 2, 3, 4, 5, 9)
			}
			e.assertionEndpointCase(r, cb, c02AssertionEndpoints[r.Intn(len(c02AssertionEndpoints))], sg.k, sg.alg, kid, iss, mut)
			continue
		}
		sg := signings[r.Intn(len(signings))]
		c := c02epCase{ep: c02Endpoints[r.Intn(len(c02Endpoints))], signer: sg.k, alg: sg.alg, kid: sg.kid}
		if r.Chance(25) {
			c.kid = hx.Pick(r, "", "sig1", "ec1", "zz")
		}
		if r.Chance(25) {
			c.mut = hx.Pick(r, 1, 2, 3, 4, 5, 9)
		}
		if r.Chance(10) {
			c.expiry = "expired"
		}
		e.endpointCase(r, cb, c)
	}
}

// ---------------------------------------------------------------- part 6: one verifier object, many tokens

func c02ReuseStream(r *hx.Rand, e *c02Env, histories int) {
	keys := hx.Keys()
	const issuer, cid = c02Issuer, c02ClientID
	for h := 0; h < histories; h++ {
		kind := hx.Pick(r, "assertion", "assertion", "assertion", "assertion-ks", "at", "hint")
		h0 := *e.caseNo
		switch kind {
		case "assertion", "assertion-ks":
			// the registry: three clients with one key each; client-M's key id may coincide with client-A's
			kidM := hx.Pick(r, "km", "ka")
			reg := []struct {
				client string
				pk     pubKey
			}{{"client-A", pubKey{keys[0], "ka", "sig"}}, {"client-B", pubKey{keys[2], "kb", "sig"}}, {"client-M", pubKey{keys[1], kidM, "sig"}}}
			cs := &clientKeyStore{}
			for _, g := range reg {
				cs.clients = append(cs.clients, g.client)
				cs.keys = append(cs.keys, g.pk)
			}
			ru := &c02Reuse{cstore: cs, store: &keyStore{}}
			var explicitSet []pubKey
			if kind == "assertion-ks" {
				// an explicit key set for every assertion, whoever issued it (NewJWTProfileVerifierKeySet)
				ru.explicit = true
				explicitSet = []pubKey{reg[r.Intn(3)].pk}
				ru.store.keys = explicitSet
				ru.jv = op.NewJWTProfileVerifierKeySet(&op.OpenIDKeySet{Storage: ru.store}, issuer, time.Hour, time.Second)
			} else {
				ru.jv = op.NewJWTProfileVerifier(cs, issuer, time.Hour, time.Second)
			}
			type step struct{ iss, signer int }
			var steps []step
			if r.Chance(45) {
				// directed: M authenticates, then an assertion NAMING another client signed with M's key, then that client itself
				victim := r.Intn(2)
				steps = []step{{2, 2}, {victim, 2}, {victim, victim}, {1 - victim, 1 - victim}}
				if r.Bool() {
					steps = steps[:3]
				}
			} else {
				for s, ns := 0, 3+r.Intn(3); s < ns; s++ {
					iss := r.Intn(3)
					sg := iss
					if r.Chance(30) {
						sg = r.Intn(3)
					}
					steps = append(steps, step{iss, sg})
				}
			}
			e.stats[fmt.Sprintf("p6-%s-history-len-%d", kind, len(steps))]++
			for si, st := range steps {
				waitClearOfSecondEdge()
				sec := time.Now().Unix()
				claims := map[string]any{"iss": reg[st.iss].client, "sub": reg[st.iss].client, "aud": []string{cid, issuer}, "azp": cid, "exp": sec + 600, "iat": sec - 5}
				payload, _ := json.Marshal(claims)
				signer := reg[st.signer].pk
				tok, err := e.sy.sign(signer.k, signer.k.Algs[0], signer.kid, payload)
				if err != nil {
					e.stats["p6-sign-error"]++
					continue
				}
				if st.iss == st.signer {
					e.stats["p6-assertion-own-key"]++
				} else {
					e.stats["p6-assertion-other-clients-key"]++
				}
				e.verify(c02Case{verifier: "assertion", set: explicitSet, tok: tok, reuse: ru, part: "p6-",
					tags: []string{"h0", fmt.Sprint(h0), "g.step", fmt.Sprint(si), "reuse", kind}})
			}
		default:
			// ONE verifier over ONE OpenIDKeySet; the storage rotates what it publishes, the allow-list is the history's
			ring := []pubKey{{keys[0], "a", "sig"}, {keys[2], "b", "sig"}, {keys[5], hx.Pick(r, "c", ""), "sig"}, {keys[1], "d", hx.Pick(r, "sig", "enc")}}
			algs := hx.Pick[[]string](r, nil, []string{"ES256"}, []string{"RS256", "EdDSA"}, []string{"EdDSA", "ES256", "PS256"})
			ru := &c02Reuse{store: &keyStore{}}
			ks := &op.OpenIDKeySet{Storage: ru.store}
			if kind == "at" {
				var o []op.AccessTokenVerifierOpt
				if algs != nil {
					o = append(o, op.WithSupportedAccessTokenSigningAlgorithms(algs...))
				}
				ru.at = op.NewAccessTokenVerifier(issuer, ks, o...)
			} else {
				var o []op.IDTokenHintVerifierOpt
				if algs != nil {
					o = append(o, op.WithSupportedIDTokenHintSigningAlgorithms(algs...))
				}
				ru.hint = op.NewIDTokenHintVerifier(issuer, ks, o...)
			}
			ns := 3 + r.Intn(3)
			e.stats[fmt.Sprintf("p6-%s-history-len-%d", kind, ns)]++
			prevSigner := -1
			for si := 0; si < ns; si++ {
				waitClearOfSecondEdge()
				sec := time.Now().Unix()
				var set []pubKey
				for _, k := range ring {
					if r.Chance(55) {
						set = append(set, k)
					}
				}
				sg := r.Intn(len(ring))
				if prevSigner >= 0 && r.Chance(35) {
					sg = prevSigner // the key that signed the previous token again (it may have been withdrawn meanwhile)
				}
				prevSigner = sg
				signer := ring[sg]
				alg := signer.k.Algs[0]
				if signer.k.Kty == "RSA" {
					alg = hx.Pick(r, "RS256", "PS256", "RS384")
				}
				kid := signer.kid
				if r.Chance(15) {
					kid = hx.Pick(r, "", "a", "b")
				}
				claims := map[string]any{"iss": issuer, "sub": "user-1", "aud": []string{cid}, "azp": cid, "exp": sec + 600, "iat": sec - 5}
				payload, _ := json.Marshal(claims)
				tok, err := e.sy.sign(signer.k, alg, kid, payload)
				if err != nil {
					e.stats["p6-sign-error"]++
					continue
				}
				published := false
				for _, k := range set {
					if k.k.No == signer.k.No {
						published = true
					}
				}
				if published {
					e.stats["p6-"+kind+"-signer-published"]++
				} else {
					e.stats["p6-"+kind+"-signer-not-published"]++
				}
				e.verify(c02Case{verifier: kind, set: set, algs: algs, tok: tok, reuse: ru, part: "p6-",
					tags: []string{"h0", fmt.Sprint(h0), "g.step", fmt.Sprint(si), "reuse", kind}})
			}
		}
	}
}
