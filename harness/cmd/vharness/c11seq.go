package main

// C11, sequences (kind `seq`): several form_post authorization responses, one after the other, through the SAME
// process (so through the same package-level state of pkg/op), each written to a ResponseWriter that may break:
//   - `err k`   Write accepts k bytes in total, then returns (n, error) and stays dead (client hung up, stream reset),
//   - `short k` Write accepts k bytes in total, then returns (n, nil) with n < len(p) and stays dead,
//   - `enc`     the schema encoder fails (nothing can be rendered at all),
//   - none.
// Every step is one line; what is observed is what the ResponseWriter RECEIVED (the bytes the user agent gets):
// `obs=form` for a completely delivered page, `obs=partial` for a page that was cut off by the fault.  The monitor judges
// every delivered body on its own, against the request of that step only.

import (
	"bufio"
	"bytes"
	"encoding/hex"
	"errors"
	"fmt"
	"log/slog"
	"net/http"
	"net/http/httptest"
	"net/url"

	httphelper "github.com/zitadel/oidc/v3/pkg/http"
	"github.com/zitadel/oidc/v3/pkg/oidc"
	"github.com/zitadel/oidc/v3/pkg/op"

	"verifharness/internal/hx"
	"verifharness/internal/opbed"
)

var errC11Broken = errors.New("write: broken pipe")

// c11FaultWriter is the connection to one user agent.
type c11FaultWriter struct {
	header http.Header
	status int
	body   []byte
	dead   bool
	kind   string // "", "err", "short"
	k      int
	writes int
}

func (w *c11FaultWriter) Header() http.Header { return w.header }
func (w *c11FaultWriter) WriteHeader(c int) {
	if w.status == 0 {
		w.status = c
	}
}
func (w *c11FaultWriter) Write(p []byte) (int, error) {
	w.writes++
	if w.status == 0 {
		w.status = http.StatusOK
	}
	if w.dead {
		return 0, errC11Broken
	}
	if w.kind == "" || len(w.body)+len(p) <= w.k {
		w.body = append(w.body, p...)
		return len(p), nil
	}
	n := w.k - len(w.body)
	w.body = append(w.body, p[:n]...)
	w.dead = true
	if w.kind == "err" {
		return n, errC11Broken
	}
	return n, nil
}

// c11SeqEncoder: the real schema encoder; keeps what it wrote on its FIRST call of a step (a handler that fails to
// deliver calls it a second time for the error answer) and can be told to fail.
type c11SeqEncoder struct {
	real  httphelper.Encoder
	first map[string][]string
	fail  bool
}

func (e *c11SeqEncoder) Encode(src any, dst map[string][]string) error {
	if e.fail {
		return errors.New("schema: encoder failure")
	}
	err := e.real.Encode(src, dst)
	if e.first == nil {
		e.first = map[string][]string{}
		for k, v := range dst {
			e.first[k] = append([]string(nil), v...)
		}
	}
	return err
}

// URIs of the sequences: mostly ones whose scheme html/template lets through, a few custom ones (F-C11b stays visible)
var c11SeqURIs = []c11URI{
	{"https://rp.example/cb", "plain"},
	{"https://alice-rp.example/callback", "plain"},
	{"https://bob-rp.example/callback?tenant=1", "query"},
	{"https://rp.example/cb?a=1&a=2&b=", "query"},
	{"https://rp.example/cb?q=\"x\"&r='y'", "query-quote"},
	{"https://rp.example/app?tenant=acme#/login/callback", "query+fragment"},
	{"http://127.0.0.1:8080/cb", "loopback"},
	{"https://rp.example/c%20b/x'y", "path-special"},
	{"HTTPS://RP.example/CB", "upper"},
	{"myapp://callback", "custom"},
}

// c11SeqRun emits one sequence; returns the number of lines written
func c11SeqRun(r *hx.Rand, tier string, seqNo int, w *bufio.Writer, stats map[string]int, base op.Authorizer, web op.Client) int {
	steps := 2 + r.Intn(5)
	enc := &c11SeqEncoder{real: oidc.NewEncoder()}
	authz := &c11SeqAuthorizer{Authorizer: base, enc: enc}
	val := func() string {
		for {
			v := c11Value(r, true, tier)
			if c11HTMLSafe(v.s) {
				return v.s
			}
		}
	}
	faulted := false
	for step := 0; step < steps; step++ {
		u := c11SeqURIs[r.Intn(len(c11SeqURIs))]
		if u.shape == "custom" && !r.Chance(40) {
			u = c11SeqURIs[r.Intn(3)]
		}
		entry := hx.Pick(r, "direct", "direct", "code", "token")
		fw := &c11FaultWriter{header: make(http.Header)}
		fkind := ""
		switch k := r.Intn(100); {
		case k < 32:
			fkind = "err"
		case k < 52:
			fkind = "short"
		case k < 58 && entry == "direct":
			fkind = "enc"
		}
		// the last step of a sequence that had a fault is more often delivered whole: that is where leftovers show
		if step == steps-1 && faulted && r.Chance(60) {
			fkind = ""
		}
		if fkind == "err" || fkind == "short" {
			fw.kind = fkind
			fw.k = hx.Pick(r, 0, 0, 1+r.Intn(40), 40+r.Intn(200), 100+r.Intn(600), 200+r.Intn(400), 100000)
		}
		enc.first, enc.fail = nil, fkind == "enc"
		rtype := oidc.ResponseTypeCode
		req := httptest.NewRequest(http.MethodGet, "/authorize/callback?id=x", nil)
		panicked := false
		func() {
			defer func() {
				if p := recover(); p != nil {
					panicked = true
				}
			}()
			switch entry {
			case "direct":
				var resp any
				if r.Bool() {
					resp = &c11CodeResponse{Code: val(), State: val(), SessionState: hx.Pick(r, "", val())}
				} else {
					rtype = oidc.ResponseTypeIDToken
					resp = &oidc.AccessTokenResponse{AccessToken: val(), TokenType: oidc.BearerToken, IDToken: val(), State: val(), ExpiresIn: uint64(r.Intn(4000))}
				}
				// a caller that gets an error back has nothing more to say to this user agent
				_ = op.AuthResponseFormPost(fw, u.s, resp, enc)
			case "code":
				ar := &c11AuthReq{id: fmt.Sprintf("ar-seq-%d-%d", seqNo, step), clientID: "web", uri: u.s, state: val(), sessionState: hx.Pick(r, "", val()), rtype: oidc.ResponseTypeCode, mode: oidc.ResponseModeFormPost}
				code := val()
				if code == "" {
					code = "c"
				}
				authz.crypto = fixedCrypto{code}
				op.AuthResponseCode(fw, req, ar, authz)
			case "token":
				rtype = hx.Pick(r, oidc.ResponseTypeIDToken, oidc.ResponseTypeIDTokenOnly)
				ar := &c11AuthReq{id: fmt.Sprintf("ar-seq-%d-%d", seqNo, step), clientID: "web", uri: u.s, state: val(), sessionState: hx.Pick(r, "", val()), rtype: rtype, mode: oidc.ResponseModeFormPost}
				ctx := op.ContextWithIssuer(req.Context(), opbed.Issuer)
				op.AuthResponseToken(fw, req.WithContext(ctx), ar, authz, web)
			}
		}()
		hit := fw.dead || fkind == "enc"
		prevFaulted := faulted
		if hit {
			faulted = true
		}
		obs := "form"
		switch {
		case panicked:
			obs = "panic"
		case hit:
			obs = "partial"
		case fw.status != http.StatusOK:
			obs = "refused"
		}
		l := hx.NewLine("C11").I("case", int64(1000000+seqNo*10+step)).S("kind", "seq").S("sub", entry).S("mode", string(oidc.ResponseModeFormPost)).S("rtype", string(rtype)).B("err", false).
			S("shape", u.shape).S("uri", c11Hex(u.s))
		if pu, perr := url.Parse(u.s); perr == nil {
			b := *pu
			b.RawQuery, b.ForceQuery, b.Fragment, b.RawFragment = "", false, "", ""
			l.B("u.ok", true).S("u.base", c11Hex(b.String())).S("u.rawq", c11Hex(pu.RawQuery)).B("u.fq", pu.ForceQuery).
				S("u.frag", c11Hex(pu.Fragment)).S("u.rawfrag", c11Hex(pu.RawFragment))
		} else {
			l.B("u.ok", false)
		}
		l.L("p", c11Produced(enc.first))
		l.B("pct", false).B("safe", c11SafeScheme(u.s)).B("direct", entry == "direct")
		l.I("seq", int64(seqNo)).I("step", int64(step)).S("f.kind", fkind).I("f.k", int64(fw.k)).B("f.hit", hit)
		l.S("obs", obs)
		switch obs {
		case "form":
			l.S("o.body", hex.EncodeToString(fw.body)).L("ua", c11UAView(fw.body))
		case "partial":
			l.S("o.body", hex.EncodeToString(fw.body)).L("ua", c11UAView(c11WithoutOpenTag(fw.body)))
		case "refused":
			l.I("o.status", int64(fw.status))
		}
		fmt.Fprintln(w, l.String())
		stats["kind-seq"]++
		stats["seq-entry:"+entry]++
		fk := fkind
		if fk == "" {
			fk = "none"
		} else if fk != "enc" && !fw.dead {
			fk += "-not-reached"
		}
		stats["seq-fault:"+fk]++
		if step > 0 {
			stats["seq-after-fault:"+map[bool]string{true: "yes", false: "no"}[prevFaulted]+"/"+obs]++
		}
		stats["obs-"+obs]++
		stats["mode-form_post_"]++
		stats["shape-"+u.shape]++
	}
	stats["seq-length:"+fmt.Sprint(steps)]++
	return steps
}

type c11SeqAuthorizer struct {
	op.Authorizer
	enc    *c11SeqEncoder
	crypto op.Crypto
}

func (a *c11SeqAuthorizer) Encoder() httphelper.Encoder { return a.enc }
func (a *c11SeqAuthorizer) Logger() *slog.Logger          { return c11Discard }
func (a *c11SeqAuthorizer) Crypto() op.Crypto {
	if a.crypto != nil {
		return a.crypto
	}
	return a.Authorizer.Crypto()
}

// c11WithoutOpenTag: a page that was cut off inside a tag ends in `<…` without its `>`; that unfinished tag is no text
// (the escapers never let `<` or `>` into an attribute value, so the last `<` without a `>` after it is the begin of a tag)
func c11WithoutOpenTag(body []byte) []byte {
	i := bytes.LastIndexByte(body, '<')
	if i >= 0 && bytes.IndexByte(body[i:], '>') < 0 {
		return body[:i]
	}
	return body
}
