package main

// C02 stream, part 8 (round 5): JWKS DOCUMENTS as the provider publishes them (bytes), read by a fresh rp.NewRemoteKeySet.
//
// Parts 1-7 hand the relying party key LISTS (marshalled by go-jose, hence always well-formed).  Here the endpoint serves a
// document assembled member by member: per key kty / kid / alg / use / key_ops / crv / x / y / n / e plus the optional certificate
// members x5c / x5t / x5t#S256 / x5u in well-formed and malformed variants, unknown and duplicate members, entries go-jose refuses
// entirely, `use` in {absent, sig, enc, other}, and documents whose top level is unusual or unreadable.
//
// Two readings of the served bytes go on the line:
//   - `doc.<i>.h.*`  the harness's OWN reading of the document (encoding/json token stream, exact member names; independent of
//     go-jose): declared kid / use / kty and the key material (matched against the key ring -> key number);
//   - `doc.<i>.v`, `doc.<i>.o.*`  go-jose's per-key parser as ORACLE (does it accept the raw entry; what it reads), which the
//     model's regenerated jsonWebKeySet.UnmarshalJSON is run with; the driver cross-checks o.* = h.* on accepted entries.
//
// The key set of the statement (`ks.`): the entries that are valid JWKs (oracle) with readable key material, AS DECLARED (harness
// reading) - a key counts as published for signatures iff its declared use is absent or `sig`.  `ksall.`: all entries with readable
// key material, valid JWK or not (the other possible reading of "published key set"; a belief is flagged only if NEITHER reading
// justifies it).  A token signed by a key whose published use is `enc` must be rejected whatever else is wrong with its JWK.

import (
	"bytes"
	"crypto/ecdsa"
	"crypto/ed25519"
	"crypto/elliptic"
	"crypto/rand"
	"crypto/rsa"
	"crypto/sha1"
	"crypto/sha256"
	"crypto/x509"
	"crypto/x509/pkix"
	"encoding/base64"
	"encoding/json"
	"fmt"
	"io"
	"math/big"
	"net/http"
	"reflect"
	"strings"
	"time"

	jose "github.com/go-jose/go-jose/v4"
	"github.com/zitadel/oidc/v3/pkg/client/rp"

	"verifharness/internal/hx"
)

// ---- the document under construction

type jdMember struct{ name, raw string } // raw: JSON text of the value

type jdEntry struct {
	key     *hx.Key
	members []jdMember
	literal string // non-empty: the entry is this JSON text (not an object built from members)
	// what the generator meant (statistics / directed signer choice only; the line carries the READING of the bytes)
	kid, use, defect string
	materialFine     bool
}

type c02Doc struct {
	body    []byte
	entries []jdEntry
	top     string // how the top level was written
}

func jstr(s string) string { b, _ := json.Marshal(s); return string(b) }

var jdCertCache = map[int][]byte{}

// jdCert: a self-signed certificate (DER) for a key of the ring
func jdCert(k *hx.Key) []byte {
	if der, ok := jdCertCache[k.No]; ok {
		return der
	}
	tmpl := &x509.Certificate{SerialNumber: big.NewInt(int64(1000 + k.No)), Subject: pkix.Name{CommonName: fmt.Sprintf("key-%d", k.No)},
		NotBefore: time.Now().Add(-time.Hour), NotAfter: time.Now().Add(24 * time.Hour)}
	der, err := x509.CreateCertificate(rand.Reader, tmpl, tmpl, k.Pub, k.Priv)
	if err != nil {
		panic(err)
	}
	jdCertCache[k.No] = der
	return der
}

func jdCurveName(c elliptic.Curve) string {
	switch c {
	case elliptic.P256():
		return "P-256"
	case elliptic.P384():
		return "P-384"
	case elliptic.P521():
		return "P-521"
	}
	return "?"
}

// jdMaterial: the public-key members of a key of the ring
func jdMaterial(k *hx.Key) []jdMember {
	switch p := k.Pub.(type) {
	case *rsa.PublicKey:
		return []jdMember{{"kty", `"RSA"`}, {"n", jstr(b64(p.N.Bytes()))}, {"e", jstr(b64(big.NewInt(int64(p.E)).Bytes()))}}
	case *ecdsa.PublicKey:
		size := (p.Curve.Params().BitSize + 7) / 8
		return []jdMember{{"kty", `"EC"`}, {"crv", jstr(jdCurveName(p.Curve))}, {"x", jstr(b64(p.X.FillBytes(make([]byte, size))))},
			{"y", jstr(b64(p.Y.FillBytes(make([]byte, size))))}}
	case ed25519.PublicKey:
		return []jdMember{{"kty", `"OKP"`}, {"crv", `"Ed25519"`}, {"x", jstr(b64(p))}}
	}
	return nil
}

func (en *jdEntry) set(name, raw string) {
	for i := range en.members {
		if en.members[i].name == name {
			en.members[i].raw = raw
			return
		}
	}
	en.members = append(en.members, jdMember{name, raw})
}

func (en *jdEntry) drop(name string) {
	out := en.members[:0]
	for _, m := range en.members {
		if m.name != name {
			out = append(out, m)
		}
	}
	en.members = out
}

func (en *jdEntry) json() string {
	if en.literal != "" {
		return en.literal
	}
	var b strings.Builder
	b.WriteByte('{')
	for i, m := range en.members {
		if i > 0 {
			b.WriteByte(',')
		}
		b.WriteString(jstr(m.name) + ":" + m.raw)
	}
	b.WriteByte('}')
	return b.String()
}

// the defects: what is wrong with the JWK.  `cert*` / `x5*`: the key material is fine, go-jose refuses the entry all the same.
var jdDefects = []string{
	"none", "none", "none", "none", "none", "none",
	"wellformed-x5c", "wellformed-x5t", "wellformed-x5tS256", "wellformed-x5u", "wellformed-all",
	"x5t-padded-std", "x5t-std-alphabet", "x5t-wrong-length", "x5t-not-the-cert", "x5t-hex-bad", "x5tS256-padded-std", "x5tS256-wrong-length", "x5tS256-not-the-cert",
	"x5c-garbage", "x5c-not-base64", "x5c-other-key", "x5c-not-array", "x5u-bad-url", "x5u-not-string",
	"dup-member", "dup-use", "use-not-string", "alg-not-string", "kid-not-string",
	"kty-unknown", "kty-missing", "kty-lowercase", "material-not-base64", "material-truncated", "material-missing", "crv-unknown", "foreign-material",
	"not-an-object-string", "not-an-object-number", "not-an-object-null", "not-an-object-array", "empty-object",
}

// the defects that leave the key material intact but make go-jose refuse the entry
var jdCertDefects = []string{"x5t-padded-std", "x5t-std-alphabet", "x5t-wrong-length", "x5t-not-the-cert", "x5t-hex-bad", "x5tS256-padded-std",
	"x5tS256-wrong-length", "x5tS256-not-the-cert", "x5c-garbage", "x5c-not-base64", "x5c-other-key", "x5c-not-array", "x5u-bad-url", "x5u-not-string",
	"dup-member", "dup-use", "alg-not-string"}

func jdBuildEntry(r *hx.Rand, k *hx.Key, kid, use, defect string, ring []*hx.Key) jdEntry {
	en := jdEntry{key: k, kid: kid, use: use, defect: defect, materialFine: true}
	en.members = jdMaterial(k)
	if kid != "" {
		en.members = append(en.members, jdMember{"kid", jstr(kid)})
	}
	if use != "" {
		en.members = append(en.members, jdMember{"use", jstr(use)})
	}
	// optional members that no reading of the statement looks at
	if r.Chance(40) {
		en.members = append(en.members, jdMember{"alg", jstr(hx.Pick(r, k.Algs[0], k.Algs[0], "RS256", "ES256", "RSA-OAEP", "none"))})
	}
	if r.Chance(25) {
		en.members = append(en.members, jdMember{"key_ops", hx.Pick(r, `["verify"]`, `["sign","verify"]`, `["encrypt"]`, `["wrapKey","unwrapKey"]`, `[]`)})
	}
	if r.Chance(25) {
		en.members = append(en.members, jdMember{hx.Pick(r, "foo", "Use", "KID", "ext", "x5t#S512", "exp"), hx.Pick(r, `"enc"`, `"sig"`, `true`, `{"a":[1,2]}`, `1700000000`, `null`)})
	}
	der := jdCert(k)
	s1, s256 := sha1.Sum(der), sha256.Sum256(der)
	x5c := func(d []byte) string { return `[` + jstr(base64.StdEncoding.EncodeToString(d)) + `]` }
	switch defect {
	case "none":
	case "wellformed-x5c":
		en.set("x5c", x5c(der))
	case "wellformed-x5t":
		en.set("x5t", jstr(b64(s1[:])))
	case "wellformed-x5tS256":
		en.set("x5t#S256", jstr(b64(s256[:])))
	case "wellformed-x5u":
		en.set("x5u", `"https://op.example/certs/key.pem"`)
	case "wellformed-all":
		en.set("x5c", x5c(der))
		en.set("x5t", jstr(b64(s1[:])))
		en.set("x5t#S256", jstr(b64(s256[:])))
		en.set("x5u", `"https://op.example/certs/key.pem"`)
	case "x5t-padded-std":
		en.set("x5t", jstr(base64.StdEncoding.EncodeToString(s1[:]))) // 20 bytes -> 28 characters ending in '='
	case "x5t-std-alphabet":
		en.set("x5t", jstr(strings.Replace(b64(s1[:])[:26], "-", "+", -1)+"+/")) // characters outside the url alphabet
	case "x5t-wrong-length":
		en.set("x5t", jstr(b64(s1[:hx.Pick(r, 10, 16, 19)])))
	case "x5t-not-the-cert":
		en.set("x5c", x5c(der))
		o := sha1.Sum([]byte("another certificate"))
		en.set("x5t", jstr(b64(o[:])))
	case "x5t-hex-bad":
		en.set("x5t", jstr(b64([]byte(strings.Repeat("zz", 20))))) // 40 bytes that are not hex digits
	case "x5tS256-padded-std":
		en.set("x5t#S256", jstr(base64.StdEncoding.EncodeToString(s256[:]))) // 32 bytes -> 44 characters ending in '='
	case "x5tS256-wrong-length":
		en.set("x5t#S256", jstr(b64(s256[:hx.Pick(r, 16, 20, 31)])))
	case "x5tS256-not-the-cert":
		en.set("x5c", x5c(der))
		o := sha256.Sum256([]byte("another certificate"))
		en.set("x5t#S256", jstr(b64(o[:])))
	case "x5c-garbage":
		en.set("x5c", x5c([]byte("this is not a DER certificate")))
	case "x5c-not-base64":
		en.set("x5c", `["@@@not base64@@@"]`)
	case "x5c-other-key":
		other := ring[(indexOfKey(ring, k)+1+r.Intn(len(ring)-1))%len(ring)]
		en.set("x5c", x5c(jdCert(other)))
	case "x5c-not-array":
		en.set("x5c", jstr(base64.StdEncoding.EncodeToString(der)))
	case "x5u-bad-url":
		en.set("x5u", jstr(hx.Pick(r, "://no-scheme", "https://op.example/%zz", "http://[::1", "\x7f://x")))
	case "x5u-not-string":
		en.set("x5u", `["https://op.example/certs"]`)
	case "dup-member":
		// a member twice with the SAME value (go-jose's JSON decoder refuses duplicate members; what is declared is not in doubt)
		m := en.members[r.Intn(len(en.members))]
		en.members = append(en.members, m)
	case "dup-use":
		if use != "" {
			en.members = append(en.members, jdMember{"use", jstr(use)})
		} else {
			en.members = append(en.members, jdMember{"kty", en.members[0].raw})
		}
	case "use-not-string":
		en.set("use", hx.Pick(r, `5`, `["sig"]`, `{"sig":true}`, `true`))
	case "alg-not-string":
		en.set("alg", hx.Pick(r, `256`, `["RS256"]`))
	case "kid-not-string":
		en.set("kid", hx.Pick(r, `7`, `["a"]`))
	case "kty-unknown":
		en.set("kty", jstr(hx.Pick(r, "XYZ", "oct-pair", "DH", "")))
		en.materialFine = false
	case "kty-missing":
		en.drop("kty")
		en.materialFine = false
	case "kty-lowercase":
		en.set("kty", strings.ToLower(en.members[0].raw))
		en.materialFine = false
	case "material-not-base64":
		en.set(hx.Pick(r, "n", "x"), `"***"`)
		en.materialFine = false
	case "material-truncated":
		for i := range en.members {
			if n := en.members[i].name; n == "n" || n == "x" {
				v := en.members[i].raw
				en.members[i].raw = v[:len(v)/2] + `"`
			}
		}
		en.materialFine = false
	case "material-missing":
		en.drop(hx.Pick(r, "n", "x", "e", "y"))
		en.materialFine = false // (when the dropped member is not one of this key's, the material stays fine: the reading decides)
	case "crv-unknown":
		en.set("crv", jstr(hx.Pick(r, "P-257", "secp256k1", "X25519", "")))
		en.materialFine = false
	case "foreign-material":
		// a well-formed RSA key nobody of the ring holds
		en.members = []jdMember{{"kty", `"RSA"`}, {"n", jstr(b64(bytes.Repeat([]byte{0xC3}, 256)))}, {"e", `"AQAB"`}}
		if kid != "" {
			en.members = append(en.members, jdMember{"kid", jstr(kid)})
		}
		if use != "" {
			en.members = append(en.members, jdMember{"use", jstr(use)})
		}
		en.materialFine = false
	case "not-an-object-string":
		en.literal = `"` + b64([]byte("a key, allegedly")) + `"`
		en.materialFine = false
	case "not-an-object-number":
		en.literal = `42`
		en.materialFine = false
	case "not-an-object-null":
		en.literal = `null`
		en.materialFine = false
	case "not-an-object-array":
		en.literal = `[` + (&jdEntry{members: en.members}).json() + `]`
		en.materialFine = false
	case "empty-object":
		en.literal = `{}`
		en.materialFine = false
	}
	// member order carries no meaning
	if r.Chance(60) {
		for i := len(en.members) - 1; i > 0; i-- {
			j := r.Intn(i + 1)
			en.members[i], en.members[j] = en.members[j], en.members[i]
		}
	}
	return en
}

func indexOfKey(ring []*hx.Key, k *hx.Key) int {
	for i, x := range ring {
		if x.No == k.No {
			return i
		}
	}
	return 0
}

func jdBuildDoc(r *hx.Rand, entries []jdEntry, plain bool) *c02Doc {
	if plain {
		return jdBuildDocTop(r, entries, 39)
	}
	return jdBuildDocTop(r, entries, r.Intn(40))
}

// jdBuildDocTop: the document with top-level variant `variant` (0-7: the unusual / unreadable ones; anything else: plain)
func jdBuildDocTop(r *hx.Rand, entries []jdEntry, variant int) *c02Doc {
	var parts []string
	for i := range entries {
		parts = append(parts, entries[i].json())
	}
	arr := "[" + strings.Join(parts, ",") + "]"
	d := &c02Doc{entries: entries, top: "plain"}
	switch variant {
	case 0:
		d.top, d.body = "extra-members", []byte(`{"issuer":"https://op.example","keys":`+arr+`,"cache":{"keys":[1,2]},"n":3}`)
	case 1:
		d.top, d.body = "whitespace", []byte("\n {\t\"keys\" :\n  "+arr+"\n}\n")
	case 2:
		d.top, d.body = "keys-missing", []byte(`{"jwks":`+arr+`}`)
	case 3:
		d.top, d.body = "keys-null", []byte(`{"keys":null}`)
	case 4:
		d.top, d.body = "keys-not-array", []byte(`{"keys":{"0":`+hx.Pick(r, `1`, `[]`)+`}}`)
	case 5:
		d.top, d.body = "truncated", []byte(`{"keys":`+arr[:len(arr)-1-r.Intn(len(arr)/2+1)])
	case 6:
		d.top, d.body = "top-array", []byte(arr)
	case 7:
		d.top, d.body = "trailing-garbage", []byte(`{"keys":`+arr+`} x`)
	default:
		d.body = []byte(`{"keys":` + arr + `}`)
	}
	return d
}

// ---- the harness's OWN reading of the served bytes (encoding/json token stream; exact member names; no go-jose)

type jdReading struct {
	mat           bool   // the entry declares readable key material
	kid, use, kty string // declared (use: "" = absent; a `use` that is not a string reads as "?not-a-string")
	no            int    // key of the ring the material belongs to; 900+i: well-formed material nobody of the ring holds
}

// jdObjectMembers: the members of a JSON object in document order, duplicates kept
func jdObjectMembers(raw []byte) ([]jdMember, bool) {
	dec := json.NewDecoder(bytes.NewReader(raw))
	tok, err := dec.Token()
	if err != nil || tok != json.Delim('{') {
		return nil, false
	}
	var out []jdMember
	for dec.More() {
		kt, err := dec.Token()
		if err != nil {
			return nil, false
		}
		name, ok := kt.(string)
		if !ok {
			return nil, false
		}
		var v json.RawMessage
		if err := dec.Decode(&v); err != nil {
			return nil, false
		}
		out = append(out, jdMember{name, string(v)})
	}
	if tok, err = dec.Token(); err != nil || tok != json.Delim('}') {
		return nil, false
	}
	if _, err = dec.Token(); err != io.EOF {
		return nil, false // something after the object
	}
	return out, true
}

// jdStrings: the values of all members called `name`; ok=false when one of them is not a JSON string
func jdStrings(ms []jdMember, name string) (vals []string, ok bool) {
	ok = true
	for _, m := range ms {
		if m.name != name {
			continue
		}
		var s string
		if !strings.HasPrefix(strings.TrimSpace(m.raw), `"`) || json.Unmarshal([]byte(m.raw), &s) != nil {
			ok = false
			continue
		}
		vals = append(vals, s)
	}
	return
}

// jdOne: the single declared value of a string member ("" = absent); ok=false: not a string, or declared twice differently
func jdOne(ms []jdMember, name string) (string, bool) {
	vals, ok := jdStrings(ms, name)
	if !ok {
		return "", false
	}
	for _, v := range vals {
		if v != vals[0] {
			return "", false
		}
	}
	if len(vals) == 0 {
		return "", true
	}
	return vals[0], true
}

func jdBytes(ms []jdMember, name string) ([]byte, bool) {
	s, ok := jdOne(ms, name)
	if !ok || s == "" {
		return nil, false
	}
	b, err := base64.RawURLEncoding.DecodeString(s)
	if err != nil || len(b) == 0 {
		return nil, false
	}
	return b, true
}

// jdTopLevel: the raw entries of the member called exactly "keys" of the top-level object (ok=false: the document is not a JSON
// object / not JSON at all / "keys" is not an array); a document without that member, or with null, publishes no key
func jdTopLevel(body []byte) ([]json.RawMessage, bool) {
	ms, ok := jdObjectMembers(body)
	if !ok {
		return nil, false
	}
	var entries []json.RawMessage
	for _, m := range ms {
		if m.name != "keys" {
			continue
		}
		if strings.TrimSpace(m.raw) == "null" {
			continue
		}
		var arr []json.RawMessage
		if err := json.Unmarshal([]byte(m.raw), &arr); err != nil {
			return nil, false
		}
		entries = arr
	}
	return entries, true
}

func jdReadEntry(raw json.RawMessage, idx int, ring []*hx.Key) jdReading {
	rd := jdReading{no: 900 + idx}
	ms, ok := jdObjectMembers(raw)
	if !ok {
		return rd
	}
	// declared use: absent / the string / not a string.  Declared twice with different values (never generated): the one that is not `sig`
	useVals, useOK := jdStrings(ms, "use")
	switch {
	case !useOK:
		rd.use = "?not-a-string"
	case len(useVals) > 0:
		rd.use = useVals[0]
		for _, v := range useVals {
			if v != "sig" {
				rd.use = v
				break
			}
		}
	}
	if kid, ok := jdOne(ms, "kid"); ok {
		rd.kid = kid
	} else {
		rd.kid = "?not-a-string"
	}
	kty, ok := jdOne(ms, "kty")
	if !ok {
		return rd
	}
	rd.kty = kty
	switch kty {
	case "RSA":
		n, ok1 := jdBytes(ms, "n")
		e, ok2 := jdBytes(ms, "e")
		if !ok1 || !ok2 {
			return rd
		}
		rd.mat = true
		N, E := new(big.Int).SetBytes(n), new(big.Int).SetBytes(e)
		for _, k := range ring {
			if p, isRSA := k.Pub.(*rsa.PublicKey); isRSA && p.N.Cmp(N) == 0 && E.IsInt64() && int64(p.E) == E.Int64() {
				rd.no = k.No
			}
		}
	case "EC":
		crv, ok0 := jdOne(ms, "crv")
		x, ok1 := jdBytes(ms, "x")
		y, ok2 := jdBytes(ms, "y")
		size := map[string]int{"P-256": 32, "P-384": 48, "P-521": 66}[crv]
		if !ok0 || !ok1 || !ok2 || size == 0 || len(x) != size || len(y) != size {
			return rd
		}
		rd.mat = true
		X, Y := new(big.Int).SetBytes(x), new(big.Int).SetBytes(y)
		for _, k := range ring {
			if p, isEC := k.Pub.(*ecdsa.PublicKey); isEC && jdCurveName(p.Curve) == crv && p.X.Cmp(X) == 0 && p.Y.Cmp(Y) == 0 {
				rd.no = k.No
			}
		}
	case "OKP":
		crv, ok0 := jdOne(ms, "crv")
		x, ok1 := jdBytes(ms, "x")
		if !ok0 || !ok1 || crv != "Ed25519" || len(x) != ed25519.PublicKeySize {
			return rd
		}
		rd.mat = true
		for _, k := range ring {
			if p, isEd := k.Pub.(ed25519.PublicKey); isEd && bytes.Equal(p, x) {
				rd.no = k.No
			}
		}
	}
	return rd
}

// ---- the oracle: go-jose's per-key parser on one raw entry

type jdOracle struct {
	valid         bool
	kid, use, kty string
	no            int
}

func jdOracleEntry(raw json.RawMessage, idx int, ring []*hx.Key) jdOracle {
	var k jose.JSONWebKey
	if err := k.UnmarshalJSON(raw); err != nil {
		return jdOracle{}
	}
	o := jdOracle{valid: true, kid: k.KeyID, use: k.Use, no: 900 + idx, kty: "other"}
	switch k.Key.(type) {
	case *rsa.PublicKey:
		o.kty = "RSA"
	case *ecdsa.PublicKey:
		o.kty = "EC"
	case ed25519.PublicKey:
		o.kty = "OKP"
	}
	for _, rk := range ring {
		if reflect.DeepEqual(rk.Pub, k.Key) {
			o.no = rk.No
		}
	}
	return o
}

// readings: the harness's own reading of the served bytes: `strict` = the entries that declare readable key material AND are valid
// JWKs (oracle verdict only), `all` = all entries that declare readable key material; per entry of the own top-level reading `per`
func (d *c02Doc) readings() (strict, all []jdReading, per []jdReading, ownOK bool) {
	if d == nil {
		return nil, nil, nil, true
	}
	ring := hx.Keys()
	own, ok := jdTopLevel(d.body)
	if !ok {
		return nil, nil, nil, false
	}
	for i, raw := range own {
		rd := jdReadEntry(raw, i, ring)
		per = append(per, rd)
		if !rd.mat {
			continue
		}
		all = append(all, rd)
		if jdOracleEntry(raw, i, ring).valid {
			strict = append(strict, rd)
		}
	}
	return strict, all, per, true
}

func jdPutReadings(l *hx.Line, pre string, rs []jdReading) {
	l.S(pre+"kind", "published").I(pre+"n", int64(len(rs)))
	for i, rd := range rs {
		p := fmt.Sprintf("%s%d.", pre, i)
		l.S(p+"kid", rd.kid).S(p+"use", rd.use).S(p+"kty", rd.kty).I(p+"no", int64(rd.no))
	}
}

// readingKV / readingAllKV: the key set of the statement as the document publishes it (nil document: nothing was ever served)
func (d *c02Doc) readingKV(l *hx.Line, pre string) {
	strict, _, _, _ := d.readings()
	jdPutReadings(l, pre, strict)
}
func (d *c02Doc) readingAllKV(l *hx.Line, pre string) {
	_, all, _, _ := d.readings()
	jdPutReadings(l, pre, all)
}

// oracleKV: the document itself, the ORACLES' view of it (encoding/json on the top level asked the way the library asks it; go-jose's
// per-key parser on every raw entry) and the harness's own reading per entry (`doc.<i>.h.*`)
func (d *c02Doc) oracleKV(l *hx.Line, stats map[string]int, part string) {
	ring := hx.Keys()
	l.S("doc.top", d.top).S("doc.body", string(d.body))
	var top struct {
		Keys []json.RawMessage `json:"keys"`
	}
	topOK := json.Unmarshal(d.body, &top) == nil
	_, _, per, ownOK := d.readings()
	l.B("doc.ok", topOK).B("doc.h.ok", ownOK)
	if topOK != ownOK || (topOK && len(per) != len(top.Keys)) {
		stats[part+"reader-disagrees-top-level"]++
	}
	if !topOK {
		l.I("doc.n", 0)
	} else {
		l.I("doc.n", int64(len(top.Keys)))
		for i, raw := range top.Keys {
			p := fmt.Sprintf("doc.%d.", i)
			o := jdOracleEntry(raw, i, ring)
			l.B(p+"v", o.valid)
			if o.valid {
				l.S(p+"o.kid", o.kid).S(p+"o.use", o.use).S(p+"o.kty", o.kty).I(p+"o.no", int64(o.no))
				stats[part+"entry-valid"]++
			} else {
				stats[part+"entry-refused"]++
			}
		}
	}
	for i, rd := range per {
		p := fmt.Sprintf("doc.%d.", i)
		l.B(p+"h.mat", rd.mat)
		if rd.mat {
			l.S(p+"h.kid", rd.kid).S(p+"h.use", rd.use).S(p+"h.kty", rd.kty).I(p+"h.no", int64(rd.no))
		}
	}
}

// docKV writes both readings of the served bytes and the two key sets of the statement onto the line (a fresh remote key set: the
// document published now is the one served)
func (d *c02Doc) docKV(l *hx.Line, stats map[string]int, part string) {
	d.oracleKV(l, stats, part)
	d.readingKV(l, "ks.")
	d.readingAllKV(l, "ksall.")
}

// ---- the stream

func c02DocStream(r *hx.Rand, e *c02Env, n int) {
	ring := hx.Keys()[:7]
	const issuer, cid = c02Issuer, c02ClientID
	kids := []string{"", "a", "b", "c"}
	pickUse := func() string {
		switch v := r.Intn(100); {
		case v < 20:
			return ""
		case v < 52:
			return "sig"
		case v < 88:
			return "enc"
		}
		return hx.Pick(r, "tls", "SIG", "signature", "sig ", "enc,sig")
	}
	one := func(entries []jdEntry, signer *hx.Key, kid string, algs []string, top int, tags ...string) {
		waitClearOfSecondEdge()
		sec := time.Now().Unix()
		alg := signer.Algs[0]
		if signer.Kty == "RSA" {
			alg = hx.Pick(r, "RS256", "RS256", "PS256")
		}
		if algs == nil && r.Chance(70) {
			algs = []string{alg, "ES384"}
		}
		claims := map[string]any{"iss": issuer, "sub": "user-1", "aud": []string{cid}, "azp": cid, "exp": sec + 600, "iat": sec - 5}
		payload, _ := json.Marshal(claims)
		tok, err := e.sy.sign(signer, alg, kid, payload)
		if err != nil {
			e.stats["p8-sign-error"]++
			return
		}
		if top < 0 {
			top = r.Intn(40)
		}
		doc := jdBuildDocTop(r, entries, top)
		e.stats["p8-top-"+doc.top]++
		// statistics: how the signer stands in the document (by the generator's intent; the verdict uses the reading of the bytes)
		cls := "p8-signer-not-in-document"
		for _, en := range entries {
			if en.key.No == signer.No && en.materialFine {
				u := en.use
				if u != "" && u != "sig" && u != "enc" {
					u = "other"
				}
				if u == "" {
					u = "absent"
				}
				cls = "p8-signer-use-" + u + "-jwk-" + map[bool]string{true: "refused-material-fine", false: "as-is"}[containsStr(jdCertDefects, en.defect)]
				break
			}
		}
		e.stats[cls]++
		var desc []string
		for _, en := range entries {
			desc = append(desc, fmt.Sprintf("k%d/%s/%s/%s", en.key.No, en.kid, en.use, en.defect))
		}
		e.verify(c02Case{verifier: "rp", tok: tok, doc: doc, part: "p8-", algs: algs,
			tags: append([]string{"g.doc", strings.Join(desc, "+"), "g.signer", fmt.Sprintf("k%d", signer.No), "g.cls", strings.TrimPrefix(cls, "p8-")}, tags...)})
	}

	// ---- grid (every tier): ONE key of each type, published with each use, with each defect that leaves the material intact (and the
	// well-formed certificate members, and no defect), the token signed by that key and naming it; next to it a plain signing key
	for _, k := range []*hx.Key{ring[0], ring[2], ring[5]} {
		for _, use := range []string{"", "sig", "enc", "tls"} {
			for _, defect := range append([]string{"none", "wellformed-x5c", "wellformed-x5t", "wellformed-x5tS256", "wellformed-x5u", "wellformed-all"}, jdCertDefects...) {
				entries := []jdEntry{jdBuildEntry(r, ring[1], "s", "sig", "none", ring), jdBuildEntry(r, k, "k", use, defect, ring)}
				if r.Bool() {
					entries[0], entries[1] = entries[1], entries[0]
				}
				one(entries, k, "k", []string{"RS256", "PS256", "ES256", "EdDSA"}, 39, "g.grid", "1")
			}
		}
	}

	// every unusual / unreadable top level once per key type, around a plain signing key that signs the token (a document that does
	// not carry a "keys" array publishes nothing, whatever else it carries)
	for _, k := range []*hx.Key{ring[0], ring[2], ring[5]} {
		for top := 0; top <= 7; top++ {
			one([]jdEntry{jdBuildEntry(r, k, "k", hx.Pick(r, "sig", ""), "none", ring)}, k, "k", []string{"RS256", "PS256", "ES256", "EdDSA"}, top, "g.grid", "top")
		}
	}

	// ---- random documents
	for i := 0; i < n; i++ {
		m := 1 + r.Intn(4)
		entries := make([]jdEntry, 0, m)
		for j := 0; j < m; j++ {
			entries = append(entries, jdBuildEntry(r, ring[r.Intn(len(ring))], hx.Pick(r, kids...), pickUse(), hx.Pick(r, jdDefects...), ring))
		}
		var signer *hx.Key
		kid := ""
		switch v := r.Intn(100); {
		case v < 35:
			// directed: an entry whose material is fine, whose JWK go-jose refuses, published for something else than signatures
			en := jdBuildEntry(r, ring[r.Intn(len(ring))], hx.Pick(r, "a", "b", "c", ""), hx.Pick(r, "enc", "enc", "tls", "sig", ""), hx.Pick(r, jdCertDefects...), ring)
			entries[r.Intn(len(entries))] = en
			signer, kid = en.key, en.kid
		case v < 85:
			en := entries[r.Intn(len(entries))]
			signer, kid = en.key, en.kid
			if r.Chance(15) {
				kid = hx.Pick(r, kids...)
			}
		default:
			signer, kid = ring[r.Intn(len(ring))], hx.Pick(r, kids...)
		}
		one(entries, signer, kid, nil, -1)
	}
}

// part 8, histories: ONE long-lived remote key set whose endpoint publishes another DOCUMENT before each call (top level always
// readable: every download succeeds).  The key set of the statement is the reading of the document it was served last.
func c02DocHistoryStream(r *hx.Rand, e *c02Env, histories int) {
	ring := hx.Keys()[:7]
	const issuer, cid = c02Issuer, c02ClientID
	for h := 0; h < histories; h++ {
		// the OP's key ring for this history: three keys with fixed key ids
		ks := []*hx.Key{ring[r.Intn(2)], ring[2+r.Intn(2)], ring[5+r.Intn(2)]}
		kid := []string{"a", "b", hx.Pick(r, "c", "c", "")}
		type step struct {
			entries []jdEntry
			signer  int
			kid     string
		}
		entry := func(i int, use, defect string) jdEntry { return jdBuildEntry(r, ks[i], kid[i], use, defect, ring) }
		var steps []step
		if r.Chance(45) {
			// directed: A (fine, sig) is cached; then the document also carries B, published for encryption, with a JWK go-jose refuses
			// although the material is fine, and a token signed by B arrives; then B is presented again with A alone published
			a, b := 0, 1+r.Intn(2)
			use := hx.Pick(r, "enc", "enc", "tls", "sig", "")
			defect := hx.Pick(r, jdCertDefects...)
			steps = []step{
				{[]jdEntry{entry(a, "sig", "none")}, a, kid[a]},
				{[]jdEntry{entry(a, "sig", "none"), entry(b, use, defect)}, b, kid[b]},
				{[]jdEntry{entry(a, "sig", "none")}, b, kid[b]},
			}
			if r.Chance(50) {
				steps = append(steps, step{[]jdEntry{entry(a, "sig", "none"), entry(b, "enc", "none")}, b, kid[b]})
			}
		} else {
			ns := 3 + r.Intn(3)
			for s := 0; s < ns; s++ {
				var entries []jdEntry
				for i := range ks {
					if r.Chance(60) {
						use := hx.Pick(r, "sig", "sig", "", "enc", "enc", "tls")
						defect := "none"
						if r.Chance(45) {
							defect = hx.Pick(r, jdDefects...)
						}
						entries = append(entries, entry(i, use, defect))
					}
				}
				sg := r.Intn(len(ks))
				k := kid[sg]
				if r.Chance(15) {
					k = hx.Pick(r, "", "a", "b")
				}
				steps = append(steps, step{entries, sg, k})
			}
		}
		rem := &c02Remote{ks: rp.NewRemoteKeySet(http.DefaultClient, e.jwks.srv.URL)}
		h0 := *e.caseNo
		e.stats[fmt.Sprintf("p8h-history-len-%d", len(steps))]++
		for si, st := range steps {
			waitClearOfSecondEdge()
			sec := time.Now().Unix()
			signer := ks[st.signer]
			alg := signer.Algs[0]
			claims := map[string]any{"iss": issuer, "sub": "user-1", "aud": []string{cid}, "azp": cid, "exp": sec + 600, "iat": sec - 5}
			payload, _ := json.Marshal(claims)
			tok, err := e.sy.sign(signer, alg, st.kid, payload)
			if err != nil {
				e.stats["p8h-sign-error"]++
				continue
			}
			doc := jdBuildDoc(r, st.entries, true)
			var desc []string
			for _, en := range st.entries {
				desc = append(desc, fmt.Sprintf("k%d/%s/%s/%s", en.key.No, en.kid, en.use, en.defect))
			}
			e.verify(c02Case{verifier: "rp", tok: tok, doc: doc, remote: rem, part: "p8h-", algs: []string{"RS256", "ES256", "EdDSA"},
				tags: []string{"h0", fmt.Sprint(h0), "g.step", fmt.Sprint(si), "g.doc", strings.Join(desc, "+"), "g.signer", fmt.Sprintf("k%d", signer.No)}})
		}
	}
}
