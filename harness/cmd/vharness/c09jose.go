package main

// C09, round 5 — the JOSE HEADER as a dimension of its own.
//
// A JOSE header is just JSON: nothing forces a sender to make `typ` a string or `crit` an array. Every registered header
// parameter (RFC 7515 §4.1, RFC 7516 §4.1, RFC 7797) and unknown / wrong-case ones, each with a value of every JSON type,
// in the PROTECTED header of a compact JWS and in the protected / unprotected headers of the JSON serialisations,
// combined with payloads that pass the checks each verifier makes BEFORE it verifies the signature, with a garbage and
// with a genuine signature:
//   verify  – every token verifier of the library called directly (RP: rp.VerifyIDToken / rp.VerifyTokens; OP:
//             op.VerifyAccessToken, op.VerifyIDTokenHint, op.VerifyJWTAssertion with a storage and with a key set,
//             op.ParseRequestObject; oidc.CheckSignature itself, the only one the plain JSON serialisations reach)
//   handler – every token-consuming endpoint of both routers (assertion of the jwt-bearer grant, client_assertion at the
//             token / introspection / revocation / device authorization endpoints, JWT access token as Bearer / in the body
//             of userinfo, at introspection, revocation and as token-exchange subject, id_token_hint at authorize and
//             end_session, ID token as token-exchange subject, request object at authorize)
// A JSON serialisation reaches the full verifiers too: `{"protected":…,"payload":…,"signature":…,"z":".<payload>."}` has
// exactly three dot-separated parts, the middle one is the base64url payload (oidc.ParseToken is satisfied), and the
// whole string is a JSON-serialised JWS for jose.ParseSigned ("dotted" serialisations).

import (
	"context"
	"crypto"
	"crypto/rand"
	"crypto/rsa"
	"crypto/sha256"
	"encoding/base64"
	"encoding/json"
	"fmt"
	"net/http"
	"net/url"
	"strings"
	"time"

	"github.com/zitadel/oidc/v3/pkg/client/rp"
	"github.com/zitadel/oidc/v3/pkg/oidc"
	"github.com/zitadel/oidc/v3/pkg/op"

	"verifharness/internal/hx"
	"verifharness/internal/opbed"
)

var c09HdrNames = []string{"alg", "kid", "typ", "cty", "crit", "jku", "jwk", "x5u", "x5c", "x5t", "x5t#S256", "b64", "zip", "enc",
	"nonce", "epk", "p2c", "foo", "TYP", "Alg", "Kid", ""}

type c09HdrVal struct{ cls, jtype, text string }

// one value per JSON type first (the representatives the handler stream crosses with every place), then variants
var c09HdrVals = []c09HdrVal{
	{"str", "str", `"JWT"`}, {"num", "num", "7"}, {"true", "bool", "true"}, {"null", "null", "null"}, {"arr-str", "arr", `["JWT"]`}, {"obj-nested", "obj", `{"a":{"b":"JWT"}}`},
	{"dup-str-num", "dup", "7"}, {"deep", "arr", strings.Repeat("[", 300) + strings.Repeat("]", 300)},
	{"str-empty", "str", `""`}, {"str-mime", "str", `"application/at+jwt"`}, {"str-bad-utf8", "str", "\"\xff\xfe\""}, {"num-frac", "num", "1.5"}, {"num-neg", "num", "-1"},
	{"num-big", "num", "12345678901234567890123"}, {"num-huge", "num", "1e400"}, {"false", "bool", "false"}, {"arr-empty", "arr", "[]"}, {"arr-num", "arr", "[1]"},
	{"obj-empty", "obj", "{}"}, {"dup-num-str", "dup", "7"}, {"huge-str", "str", `"` + strings.Repeat("J", 70000) + `"`},
}

const c09HdrReps = 8 // the first c09HdrReps values: one per JSON type (+ duplicate member, + deep nesting)

// c09HeaderMembers: the members of the header object; the parameter under test replaces the default member of that
// name (alg, kid) or is appended; duplicate classes render it twice (string first / number first)
func c09HeaderMembers(kid, name string, v c09HdrVal) [][2]string {
	ms := [][2]string{{"alg", `"RS256"`}, {"kid", `"` + kid + `"`}}
	var mine [][2]string
	def := `"JWT"`
	for _, m := range ms {
		if m[0] == name {
			def = m[1]
		}
	}
	switch v.cls {
	case "dup-str-num":
		mine = [][2]string{{name, def}, {name, v.text}}
	case "dup-num-str":
		mine = [][2]string{{name, v.text}, {name, def}}
	default:
		mine = [][2]string{{name, v.text}}
	}
	var out [][2]string
	for _, m := range ms {
		if m[0] != name {
			out = append(out, m)
		}
	}
	return append(out, mine...)
}

func c09Object(ms [][2]string) string {
	var parts []string
	for _, m := range ms {
		k, _ := json.Marshal(m[0])
		parts = append(parts, string(k)+":"+m[1])
	}
	return "{" + strings.Join(parts, ",") + "}"
}

var c09SigCache = map[string][]byte{} // RS256 signatures already computed (key, signing input)

var c09JoseSers = []string{"compact", "flat", "flat-unprot", "general", "general-unprot", "general-two", "dotted-flat", "dotted-flat-unprot"}

// c09JoseToken: the serialised JWS. The parameter under test sits in the protected header, or (…-unprot) in the
// unprotected `header` member; genuine: an RS256 signature by `key` over the protected header and the payload
func c09JoseToken(ser string, key *hx.Key, kid, name string, v c09HdrVal, payload string, genuine bool) string {
	enc := base64.RawURLEncoding
	ms := c09HeaderMembers(kid, name, v)
	prot, unprot := ms, [][2]string(nil)
	if strings.HasSuffix(ser, "-unprot") {
		prot, unprot = nil, nil
		for _, m := range ms {
			if m[0] == name {
				unprot = append(unprot, m)
			} else {
				prot = append(prot, m)
			}
		}
	}
	p64, b64 := enc.EncodeToString([]byte(c09Object(prot))), enc.EncodeToString([]byte(payload))
	sig := []byte("not-a-signature")
	if genuine {
		if pk, ok := key.Priv.(*rsa.PrivateKey); ok {
			h := sha256.Sum256([]byte(p64 + "." + b64))
			ck := fmt.Sprintf("%d/%x", key.No, h)
			if s, ok := c09SigCache[ck]; ok {
				sig = s
			} else if s, err := rsa.SignPKCS1v15(rand.Reader, pk, crypto.SHA256, h[:]); err == nil {
				sig, c09SigCache[ck] = s, s
			}
		}
	}
	s64 := enc.EncodeToString(sig)
	one := `"protected":"` + p64 + `"`
	if unprot != nil {
		one += `,"header":` + c09Object(unprot)
	}
	one += `,"signature":"` + s64 + `"`
	switch ser {
	case "compact":
		return p64 + "." + b64 + "." + s64
	case "flat", "flat-unprot":
		return `{"payload":"` + b64 + `",` + one + `}`
	case "general", "general-unprot":
		return `{"payload":"` + b64 + `","signatures":[{` + one + `}]}`
	case "general-two":
		return `{"payload":"` + b64 + `","signatures":[{` + one + `},{` + one + `}]}`
	case "dotted-flat", "dotted-flat-unprot":
		return `{"payload":"` + b64 + `",` + one + `,"z":".` + b64 + `."}`
	}
	return ""
}

type c09JosePayloads struct{ at, idt, assertion, reqobj string }

func c09JosePayloadsAt(now int64) c09JosePayloads {
	j := func(m map[string]any) string { b, _ := json.Marshal(m); return string(b) }
	return c09JosePayloads{
		at: j(map[string]any{"iss": opbed.Issuer, "sub": "user1", "aud": []string{"web"}, "exp": now + 3600, "iat": now - 5, "jti": "at-jose", "client_id": "web", "scope": "openid profile"}),
		idt: j(map[string]any{"iss": opbed.Issuer, "sub": "user1", "aud": []string{"web"}, "azp": "web", "exp": now + 3600, "iat": now - 5, "auth_time": now - 5, "nonce": "n",
			"amr": []string{"pwd"}}),
		assertion: j(map[string]any{"iss": "pk", "sub": "pk", "aud": []string{opbed.Issuer}, "iat": now - 5, "exp": now + 300}),
		reqobj: j(map[string]any{"iss": "pk", "client_id": "pk", "aud": []string{opbed.Issuer}, "response_type": "code", "scope": "openid", "redirect_uri": "https://rp.example/cb",
			"state": "st"}),
	}
}

// ---------------------------------------------------------------- verifiers called directly

func c09JoseVerifyStream(r *hx.Rand, full bool, emit func(*hx.Line), stats map[string]int) {
	ctx := context.Background()
	keys := hx.Keys()
	ks := c09KeySet{}
	cb := c09NewBed("provider", true)
	pl := c09JosePayloadsAt(time.Now().Unix())
	type verifier struct {
		name, payload, kid string
		key               *hx.Key
		f                 func(tok string) error
	}
	verifiers := []verifier{
		{"rp.VerifyIDToken", pl.idt, "sig1", keys[0], func(tok string) error {
			_, err := rp.VerifyIDToken[*oidc.IDTokenClaims](ctx, tok, rp.NewIDTokenVerifier(opbed.Issuer, "web", ks))
			return err
		}},
		{"rp.VerifyIDToken", pl.idt, "sig1", keys[0], func(tok string) error { // through rp.VerifyTokens (at_hash is absent: refused after the signature)
			_, err := rp.VerifyTokens[*oidc.IDTokenClaims](ctx, "at", tok, rp.NewIDTokenVerifier(opbed.Issuer, "web", ks))
			return err
		}},
		{"op.VerifyIDTokenHint", pl.idt, "sig1", keys[0], func(tok string) error {
			_, err := op.VerifyIDTokenHint[*oidc.IDTokenClaims](ctx, tok, op.NewIDTokenHintVerifier(opbed.Issuer, ks))
			return err
		}},
		{"op.VerifyAccessToken", pl.at, "sig1", keys[0], func(tok string) error {
			_, err := op.VerifyAccessToken[*oidc.AccessTokenClaims](ctx, tok, op.NewAccessTokenVerifier(opbed.Issuer, ks))
			return err
		}},
		{"op.VerifyJWTAssertion", pl.assertion, "pk1", keys[0], func(tok string) error {
			_, err := op.VerifyJWTAssertion(ctx, tok, op.NewJWTProfileVerifier(c09KeyStorage{}, opbed.Issuer, time.Hour, 0))
			return err
		}},
		{"op.VerifyJWTAssertion", pl.assertion, "pk1", keys[0], func(tok string) error {
			_, err := op.VerifyJWTAssertion(ctx, tok, op.NewJWTProfileVerifierKeySet(ks, opbed.Issuer, time.Hour, 0))
			return err
		}},
		{"op.ParseRequestObject", pl.reqobj, "pk1", keys[1], func(tok string) error {
			return op.ParseRequestObject(ctx, &oidc.AuthRequest{RequestParam: tok, ClientID: "pk", ResponseType: "code"}, cb.bed.Store, opbed.Issuer)
		}},
		{"oidc.CheckSignature", pl.idt, "sig1", keys[0], func(tok string) error {
			return oidc.CheckSignature(ctx, tok, []byte(pl.idt), new(oidc.IDTokenClaims), nil, ks)
		}},
	}
	run := func(v verifier, ser, name string, hv c09HdrVal, genuine bool) {
		tok := c09JoseToken(ser, v.key, v.kid, name, hv, v.payload, genuine)
		parts := strings.Split(tok, ".")
		b64ok, payload := false, ""
		if len(parts) == 3 {
			if raw, err := base64.RawURLEncoding.DecodeString(parts[1]); err == nil {
				b64ok, payload = true, string(raw)
			}
		}
		d := c09Describe(payload)
		hasAud, aud := c09AudOf(payload)
		obs, pv := c09Guard(func() error { return v.f(tok) })
		sig := "garbage"
		if genuine {
			sig = "genuine"
		}
		l := hx.NewLine("C09").S("kind", "verify").S("fn", v.name).I("parts", int64(len(parts))).B("b64", b64ok).B("json", d.valid).S("ptype", d.ptype).
			B("hasAud", hasAud).S("doc.t", aud.t).L("doc", aud.atoms).S("hname", name).S("hcls", hv.cls).S("htype", hv.jtype).S("hser", ser).S("hsig", sig).S("obs", obs)
		if pv != "" {
			l.S("pv", clip(pv, 120))
		}
		l.S("tok", clip(tok, 300)).S("header", clip(c09Object(c09HeaderMembers(v.kid, name, hv)), 200)).S("payload", clip(payload, 160))
		emit(l)
		stats["jose.verify."+obs]++
		stats["jose.verify.name."+name]++
		stats["jose.verify.type."+hv.jtype]++
		stats["jose.verify.ser."+ser]++
		stats["jose.verify.sig."+sig]++
		stats["jose.verify.fn."+v.name]++
	}
	i := 0
	for _, name := range c09HdrNames {
		for vi, hv := range c09HdrVals {
			i++
			// the compact serialisation through every verifier; one signature in three is genuine
			for k, v := range verifiers {
				if full {
					run(v, "compact", name, hv, false)
					run(v, "compact", name, hv, true)
				} else {
					run(v, "compact", name, hv, (i+k)%3 == 0)
				}
			}
			// the JSON serialisations: oidc.CheckSignature is the one the plain ones reach; the dotted ones pass oidc.ParseToken
			// and go through the full verifiers (quick: two of them in rotation)
			for s, ser := range c09JoseSers[1:] {
				if !full && vi >= c09HdrReps && s != i%(len(c09JoseSers)-1) {
					continue // quick: the variants beyond one value per JSON type get one JSON serialisation each, in rotation
				}
				if !strings.HasPrefix(ser, "dotted-") {
					run(verifiers[len(verifiers)-1], ser, name, hv, (i+s)%3 == 0)
					continue
				}
				for k, v := range verifiers {
					if full || k == (i+s)%len(verifiers) || k == (i+s+3)%len(verifiers) {
						run(v, ser, name, hv, (i+k)%3 == 0)
					}
				}
			}
		}
	}
}

// ---------------------------------------------------------------- every token-consuming endpoint

type c09JosePlace struct {
	name, fn, payload string // fn: the verifier the endpoint hands the token to
	client            bool   // signed by the client's key (pk / pk1) instead of the provider's
	reqObjOnly        bool
	build             func(q *c09Req, tok string)
}

const c09AssertionType = "urn:ietf:params:oauth:client-assertion-type:jwt-bearer"

func c09JosePlaces() []c09JosePlace {
	webAuth := basic("web:secret-web")
	withAssertion := func(path string, form url.Values) func(q *c09Req, tok string) {
		return func(q *c09Req, tok string) {
			q.path, q.form = path, url.Values{"client_assertion_type": {c09AssertionType}, "client_assertion": {tok}}
			for k, v := range form {
				q.form[k] = v
			}
		}
	}
	return []c09JosePlace{
		{"token-jwt-bearer-assertion", "op.VerifyJWTAssertion", "assertion", true, false, func(q *c09Req, tok string) {
			q.path, q.form = "/oauth/token", url.Values{"grant_type": {"urn:ietf:params:oauth:grant-type:jwt-bearer"}, "assertion": {tok}, "scope": {"openid"}}
		}},
		{"token-client_assertion", "op.VerifyJWTAssertion", "assertion", true, false, withAssertion("/oauth/token", url.Values{"grant_type": {"refresh_token"}, "refresh_token": {"x"}})},
		{"token-code-client_assertion", "op.VerifyJWTAssertion", "assertion", true, false,
			withAssertion("/oauth/token", url.Values{"grant_type": {"authorization_code"}, "code": {"x"}, "redirect_uri": {"https://rp.example/cb"}})},
		{"introspect-client_assertion", "op.VerifyJWTAssertion", "assertion", true, false, withAssertion("/oauth/introspect", url.Values{"token": {"x"}})},
		{"revoke-client_assertion", "op.VerifyJWTAssertion", "assertion", true, false, withAssertion("/revoke", url.Values{"token": {"x"}})},
		{"device_authorization-client_assertion", "op.VerifyJWTAssertion", "assertion", true, false, withAssertion("/device_authorization", url.Values{"scope": {"openid"}})},
		{"exchange-client_assertion", "op.VerifyJWTAssertion", "assertion", true, false,
			withAssertion("/oauth/token", url.Values{"grant_type": {"urn:ietf:params:oauth:grant-type:token-exchange"}, "subject_token": {"x"}, "subject_token_type": {"urn:ietf:params:oauth:token-type:access_token"}})},
		{"userinfo-bearer", "op.VerifyAccessToken", "at", false, false, func(q *c09Req, tok string) {
			q.method, q.ctype, q.path = http.MethodGet, "", "/userinfo"
			q.headers = [][2]string{{"Authorization", "Bearer " + tok}}
		}},
		{"userinfo-post-body", "op.VerifyAccessToken", "at", false, false, func(q *c09Req, tok string) {
			q.path, q.form = "/userinfo", url.Values{"access_token": {tok}}
		}},
		{"introspect-token", "op.VerifyAccessToken", "at", false, false, func(q *c09Req, tok string) {
			q.path, q.headers, q.form = "/oauth/introspect", [][2]string{webAuth}, url.Values{"token": {tok}}
		}},
		{"revoke-token", "op.VerifyAccessToken", "at", false, false, func(q *c09Req, tok string) {
			q.path, q.headers, q.form = "/revoke", [][2]string{webAuth}, url.Values{"token": {tok}, "token_type_hint": {"access_token"}}
		}},
		{"exchange-subject-access_token", "op.VerifyAccessToken", "at", false, false, func(q *c09Req, tok string) {
			q.path, q.headers = "/oauth/token", [][2]string{webAuth}
			q.form = url.Values{"grant_type": {"urn:ietf:params:oauth:grant-type:token-exchange"}, "subject_token": {tok}, "subject_token_type": {"urn:ietf:params:oauth:token-type:access_token"}}
		}},
		{"exchange-subject-id_token", "op.VerifyIDTokenHint", "idt", false, false, func(q *c09Req, tok string) {
			q.path, q.headers = "/oauth/token", [][2]string{webAuth}
			q.form = url.Values{"grant_type": {"urn:ietf:params:oauth:grant-type:token-exchange"}, "subject_token": {tok}, "subject_token_type": {"urn:ietf:params:oauth:token-type:id_token"}}
		}},
		{"end_session-hint-get", "op.VerifyIDTokenHint", "idt", false, false, func(q *c09Req, tok string) {
			q.method, q.ctype, q.path = http.MethodGet, "", "/end_session"
			q.query = url.Values{"id_token_hint": {tok}, "post_logout_redirect_uri": {"https://rp.example/logged-out"}, "state": {"s"}}
		}},
		{"end_session-hint-post", "op.VerifyIDTokenHint", "idt", false, false, func(q *c09Req, tok string) {
			q.path, q.form = "/end_session", url.Values{"id_token_hint": {tok}, "client_id": {"web"}}
		}},
		{"authorize-hint", "op.VerifyIDTokenHint", "idt", false, false, func(q *c09Req, tok string) {
			q.method, q.ctype, q.path = http.MethodGet, "", "/authorize"
			q.query = url.Values{"client_id": {"web"}, "redirect_uri": {"https://rp.example/cb"}, "response_type": {"code"}, "scope": {"openid"}, "state": {"st"}, "id_token_hint": {tok}}
		}},
		{"authorize-request-object", "op.ParseRequestObject", "reqobj", true, true, func(q *c09Req, tok string) {
			q.method, q.ctype, q.path = http.MethodGet, "", "/authorize"
			q.query = url.Values{"client_id": {"pk"}, "redirect_uri": {"https://rp.example/cb"}, "response_type": {"code"}, "scope": {"openid"}, "state": {"st"}, "request": {tok}}
		}},
	}
}

// joseHeaderCases: header parameter x value x place on this bed. quick (full = false): every name x one value per JSON
// type x every place, compact serialisation, plus the remaining values and the dotted JSON serialisations rotating over
// the places; the signature alternates. full: every value x every place x compact x {garbage, genuine} + one dotted.
// `sel` chooses which of the rotating cases this bed gets (so that two beds share them).
func (cb *c09Bed) joseHeaderCases(full bool, sel, of int) []*c09Req {
	keys := hx.Keys()
	pl := c09JosePayloadsAt(time.Now().Unix())
	payloads := map[string]string{"at": pl.at, "idt": pl.idt, "assertion": pl.assertion, "reqobj": pl.reqobj}
	places := c09JosePlaces()
	var out []*c09Req
	n := 0
	mk := func(p c09JosePlace, ser, name string, hv c09HdrVal, genuine bool) {
		if p.reqObjOnly && !cb.hintMaxAge { // (the beds with request objects switched on are the ones with the hint age checks)
			return
		}
		n++
		if !full && n%of != sel {
			return
		}
		key, kid := keys[0], "sig1"
		if p.client {
			key, kid = keys[1], "pk1"
		}
		q := &c09Req{method: http.MethodPost, query: url.Values{}, form: url.Values{}, ctype: "application/x-www-form-urlencoded", hlen: -1, lbytes: -1}
		p.build(q, c09JoseToken(ser, key, kid, name, hv, payloads[p.payload], genuine))
		q.hplace, q.hfn, q.hname, q.hcls, q.htype, q.hser = p.name, p.fn, name, hv.cls, hv.jtype, ser
		q.hsig = "garbage"
		if genuine {
			q.hsig = "genuine"
		}
		q.hheader = c09Object(c09HeaderMembers(kid, name, hv))
		q.muts = []string{"jose-header:" + p.name}
		out = append(out, q)
	}
	i := 0
	for _, name := range c09HdrNames {
		for vi, hv := range c09HdrVals {
			i++
			for k, p := range places {
				switch {
				case full:
					mk(p, "compact", name, hv, false)
					mk(p, "compact", name, hv, true)
					mk(p, c09JoseSers[6+(i+k)%2], name, hv, (i+k)%2 == 0)
				case vi < c09HdrReps:
					mk(p, "compact", name, hv, (i+k)%2 == 0)
				case k%6 == i%6:
					mk(p, "compact", name, hv, (i+k)%2 == 0)
				}
				if !full && k%8 == i%8 {
					mk(p, c09JoseSers[6+(i/6)%2], name, hv, (i+k)%2 == 1)
				}
			}
		}
	}
	return out
}

func c09JoseStat(stats map[string]int, q *c09Req, o c09Obs) {
	stats["jose.handler.place."+q.hplace]++
	stats["jose.handler.name."+q.hname]++
	stats["jose.handler.type."+q.htype]++
	stats["jose.handler.ser."+q.hser]++
	stats["jose.handler.sig."+q.hsig]++
	if o.panicked {
		stats["jose.handler.outcome.panic"]++
	} else {
		stats[fmt.Sprintf("jose.handler.outcome.%dxx", o.status/100)]++
	}
}
