package main

// deep5-C07: the storage's OWN slices and audiences that are not the client (flow.go shares its closures).
//
// "The new tokens keep the original subject, audience and authentication time."  Two things were constant in the stream:
//   - the granted audience was always [client_id] (refstore, like the repo's example storage), so a provider that loses, adds or
//     reorders audiences had nothing to lose;
//   - every slice the reference storage handed out was exactly sized, so a provider that WRITES INTO the slice it gets from
//     RefreshTokenRequest.GetAudience() / GetScopes() / GetAMR() (slices.Insert / Delete / Sort, an index assignment, an append to
//     a re-slice) wrote into a private copy made by append's reallocation - never into the storage's record.
// c07aSetup picks, per history: the granted audience (the client itself / one, two or three resource servers / resource servers
// and the client, client first, last or in the middle) and whether the storage keeps its records in slices with spare capacity and
// hands out THOSE (refstore.Store.OwnSlices: what a storage does that built them with append, decoded them from JSON or
// scanned them from a database array).  The rotation of the reference storage keeps the record (the grant lives on under the new
// token string), so damage done while serving one refresh is what the next refresh of the chain is served from.
//   - reset line: st.own, st.aud (flavour);  exchange line: g.aud = the audience the storage grants to the code's client (an INPUT:
//     the configuration of the storage; the model's storage records it with the refresh token it mints);
//   - refresh line: o.auds=1, o.jwt.aud (aud claim of a JWT access token), o.idt.aud (aud claim of the ID token); o.aud (flow.go) is
//     the audience of the access-token record the storage created = of the token request it was handed for rotation.
//   Spec/C07Aud.lean compares all of them with the audience of the ORIGINAL grant, which the onlooker remembers from the code
//   exchange (not with what the storage holds now).
//   - c07aScenarios: a scripted chain of at least three plain refreshes in a row on one grant (the first damages, the later ones show).

import (
	"verifharness/internal/hx"
	"verifharness/internal/opbed"
)

type c07aState struct {
	own     bool
	flavour string
	stats   map[string]int
}

var c07aServers = []string{"https://orders.example", "https://billing.example", "https://reports.example"}

func c07aAudience(flavour, clientID string) []string {
	switch flavour {
	case "rs1":
		return []string{c07aServers[0]}
	case "rs2":
		return []string{c07aServers[0], c07aServers[1]}
	case "rs3":
		return []string{c07aServers[0], c07aServers[1], c07aServers[2]}
	case "client-first":
		return []string{clientID, c07aServers[0], c07aServers[1]}
	case "client-last":
		return []string{c07aServers[0], c07aServers[1], clientID}
	case "client-middle":
		return []string{c07aServers[0], clientID, c07aServers[1]}
	}
	return []string{clientID}
}

func c07aSetup(r *hx.Rand, bed *opbed.Bed, stats map[string]int) *c07aState {
	a := &c07aState{stats: stats, flavour: "client"}
	if r.Chance(65) {
		a.flavour = hx.Pick(r, "rs1", "rs2", "rs2", "rs3", "rs3", "client-first", "client-last", "client-middle")
	}
	a.own = r.Chance(45)
	fl := a.flavour
	bed.Store.GrantAudience = func(clientID string) []string { return c07aAudience(fl, clientID) }
	bed.Store.OwnSlices = a.own
	stats["storage-audience-"+a.flavour]++
	if a.own {
		stats["storage-own-slices"]++
		stats["storage-own-slices-audience-"+a.flavour]++
	} else {
		stats["storage-exact-slices"]++
	}
	return a
}

func (a *c07aState) describe(l *hx.Line) { l.B("st.own", a.own).S("st.aud", a.flavour) }

// grantLine: the audience the storage grants to an authorization request of this client
func (a *c07aState) grantLine(l *hx.Line, clientID string) { l.L("g.aud", c07aAudience(a.flavour, clientID)) }

func c07aAudClaim(m map[string]any) ([]string, bool) {
	switch aud := m["aud"].(type) {
	case string:
		return []string{aud}, true
	case []any:
		out := []string{}
		for _, x := range aud {
			s, _ := x.(string)
			out = append(out, s)
		}
		return out, true
	}
	return nil, false
}

// observe: the audiences the tokens of a refresh response carry
func (a *c07aState) observe(l *hx.Line, resp *opbed.Resp) {
	if resp.Panicked || resp.Status != 200 || resp.Str("access_token") == "" {
		return
	}
	l.B("o.auds", true)
	if m, ok := opbed.DecodeJWT(resp.Str("access_token")); ok {
		if aud, ok := c07aAudClaim(m); ok {
			l.L("o.jwt.aud", aud)
			a.stats["refresh-ok-jwt-access-token-audience-seen"]++
		}
	}
	if m, ok := opbed.DecodeJWT(resp.Str("id_token")); ok {
		if aud, ok := c07aAudClaim(m); ok {
			l.L("o.idt.aud", aud)
			a.stats["refresh-ok-id-token-audience-seen"]++
		}
	}
	a.stats["refresh-ok-on-audience-"+a.flavour]++
	if a.own {
		a.stats["refresh-ok-on-own-slices"]++
	}
}

// c07aScenarios: one grant, then at least three refreshes in a row that ask for the grant as it is (what a provider did to the
// storage's record while it served the first is what the second and third are served from)
func c07aScenarios(x *c07fCtx, a *c07aState) {
	r := x.r
	if !r.Chance(40) {
		return
	}
	fc, cur := x.grant(hx.Pick(r, "openid offline_access", "openid email offline_access", "openid profile email offline_access"))
	if cur == nil {
		return
	}
	x.stats["scripted-plain-refresh-chain"]++
	n := 3 + r.Intn(3)
	for i := 0; i < n && cur != nil; i++ {
		var sc []string
		if r.Chance(25) {
			sc = cur.scopes
		}
		nrt := x.doRefresh(cur, cur.token, fc, sc)
		if nrt == nil {
			break
		}
		cur = nrt
		x.stats["scripted-plain-refresh-chain-steps"]++
		if a.own {
			x.stats["scripted-plain-refresh-chain-steps-on-own-slices"]++
		}
	}
}
