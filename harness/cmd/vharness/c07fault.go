package main

// deep4-C07: storage faults and concurrency inside the refresh chains of the C07 histories (flow.go shares its closures).
//
//   * c07fState.arm / observe - a refresh during which the k-th storage call of the request fails (refstore.FailAt), k ranging over
//     EVERY call index of the request (reads of the validation phase, the rotation call CreateAccessAndRefreshTokens itself,
//     the calls CreateAccessToken / CreateIDToken make after the rotation), with the error kinds a storage produces: a plain
//     error, op.ErrInvalidRefreshToken (the presented token was rotated / expired in the meantime), context.Canceled,
//     context.DeadlineExceeded.  The line says where the fault hit (fault.at / fault.method / fault.k / fault.kind).
//   * every refresh line says what the HTTP answer literally carried (o.http, o.b.at, o.b.rt, o.b.idt) and what the storage did
//     while serving THIS request: the rotation it performed (o.rot.cur -> o.rot.new, read off the storage: the refresh token that
//     exists now and did not before) and whether anything was created (o.created).
//   * c07fScenarios - scripted openings: a fault sweep (one grant; the same refresh with a fault at call 1, 2, 3, ... until the
//     index is beyond the request's last call; after every fault the client retries), and two refreshes with the SAME token served
//     concurrently under a chosen interleaving of (lookup, rotation) x 2 (c07Gate parks the handlers at their storage calls).

import (
	"context"
	"encoding/json"
	"errors"
	"fmt"
	"net/http/httptest"
	"strings"
	"sync"
	"time"

	"github.com/zitadel/oidc/v3/pkg/oidc"
	"github.com/zitadel/oidc/v3/pkg/op"

	"verifharness/internal/hx"
	"verifharness/internal/opbed"
)

// ---------------------------------------------------------------- faults

type c07fState struct {
	prop   string
	stats  map[string]int
	failAt int    // the next refresh: its failAt-th storage call fails (0 = none)
	kind   string // error kind of that fault
	// snapshot taken when the request is sent
	rtsBefore []string
	atsBefore []string
	armed     int
	armedKind string
}

var c07fKinds = []string{"plain", "invalid-refresh-token", "ctx-canceled", "ctx-deadline"}

func c07fErr(kind string) error {
	switch kind {
	case "invalid-refresh-token":
		return fmt.Errorf("%w: rotated meanwhile", op.ErrInvalidRefreshToken)
	case "ctx-canceled":
		return context.Canceled
	case "ctx-deadline":
		return context.DeadlineExceeded
	}
	return errors.New("injected storage failure")
}

// arm is called right before a refresh request is sent: snapshots the storage and arms the pending fault, if any.  Never on a
// request that presents a parameter with two different values (it may be served as another grant), and only on requests that
// ask for the grant as it is (no scope parameter, or exactly the granted scopes): "a request that fails only because of its
// scope is answered invalid_scope" says nothing about a storage that fails, and a narrowing request that fails AFTER its
// validation has already narrowed the stored grant (SetCurrentScopes writes through in the reference storage and in the repo's
// example storage) - see notes/DEEP4_C07.md, remaining gaps.
func (f *c07fState) arm(bed *opbed.Bed, r *hx.Rand, wireShape string, plainScopes bool) {
	f.rtsBefore, f.atsBefore = bed.Store.RefreshTokens(), bed.Store.TokenIDs()
	if f.failAt == 0 && r.Chance(7) {
		f.failAt, f.kind = 1+r.Intn(9), c07fKinds[r.Intn(len(c07fKinds))]
	}
	f.armed, f.armedKind = f.failAt, f.kind
	f.failAt, f.kind = 0, ""
	if strings.HasPrefix(wireShape, "dup-diff") || !plainScopes {
		f.armed = 0
	}
	if f.armed > 0 {
		bed.Store.FailAt(f.armed, c07fErr(f.armedKind))
	}
}

// observe is called after the answer was described: where the fault hit, what the body carried, what the storage did
func (f *c07fState) observe(bed *opbed.Bed, l *hx.Line, resp *opbed.Resp, rts *[]*issuedRT, jwtClient func(id string) bool) {
	bed.Store.ClearFaults()
	c07fBody(l, resp)
	if tok := c07fStorageDiff(bed, l, f.rtsBefore, f.atsBefore); tok != "" && !(resp.Status == 200 && resp.Str("access_token") != "") {
		// the storage rotated, the request ended without tokens: the successor exists and was never delivered
		if rec := bed.Store.Refresh(tok); rec != nil {
			l.S("o.minted", tok).L("o.rtscopes", rec.Scopes).S("o.rtclient", rec.ClientID).S("o.rtsub", rec.Subject).
				I("o.rtauthtime", rec.AuthTime.Unix()).L("o.rtaud", rec.Audience)
			*rts = append(*rts, &issuedRT{token: tok, client: rec.ClientID, scopes: rec.Scopes, orphan: true})
			f.stats["refresh-left-orphan-refresh-token"]++
		}
	}
	if f.armed == 0 {
		return
	}
	if len(resp.Journal) < f.armed {
		f.stats["fault-index-beyond-journal"]++
		return
	}
	call := resp.Journal[f.armed-1]
	method, _, _ := strings.Cut(call, "(")
	at := "validation:" + method
	rotIdx := -1
	for i, c := range resp.Journal {
		if strings.HasPrefix(c, "CreateAccessAndRefreshTokens(") || strings.HasPrefix(c, "CreateAccessToken(") {
			rotIdx = i
			break
		}
	}
	switch {
	case rotIdx == f.armed-1:
		at = "createTokens"
	case rotIdx >= 0 && rotIdx < f.armed-1:
		// a call after the rotation: the calls CreateAccessToken makes for a JWT access token come before those of CreateIDToken
		at = "in:CreateIDToken"
		if method == "GetPrivateClaimsFromScopes" || method == "GetPrivateClaimsFromRequest" || method == "SigningKey" {
			seen := false
			for _, c := range resp.Journal[rotIdx+1 : f.armed-1] {
				if strings.HasPrefix(c, method+"(") {
					seen = true
				}
			}
			cid := ""
			if parts := strings.Split(strings.TrimSuffix(strings.SplitN(resp.Journal[rotIdx], "(", 2)[1], ")"), ","); len(parts) > 1 {
				cid = parts[1]
			}
			if jwtClient(cid) && !seen {
				at = "in:CreateAccessToken"
			}
		}
	}
	l.S("fault.at", at).I("fault.k", int64(f.armed)).S("fault.method", method).S("fault.kind", f.armedKind)
	f.stats["refresh-fault"]++
	f.stats["refresh-fault-at-"+method]++
	f.stats["refresh-fault-index-"+fmt.Sprint(f.armed)]++
	f.stats["refresh-fault-kind-"+f.armedKind]++
	site := at
	if strings.HasPrefix(at, "validation:") {
		site = "validation"
	}
	f.stats[fmt.Sprintf("refresh-fault-%s-http%d", site, resp.Status)]++
	if resp.Status == 200 {
		f.stats["refresh-fault-ANSWERED-200"]++
	}
}

// c07fBody: what the HTTP answer literally carried
func c07fBody(l *hx.Line, resp *opbed.Resp) {
	l.I("o.http", int64(resp.Status))
	l.B("o.b.at", resp.Str("access_token") != "").B("o.b.idt", resp.Str("id_token") != "")
	if rt := resp.Str("refresh_token"); rt != "" {
		l.S("o.b.rt", rt)
	}
}

// c07fStorageDiff: what the storage did while it served the request - the refresh token that exists now and did not before is the
// one the storage created in THIS request's rotation call (refstore mints rt<n> with a counter: never a string seen before)
func c07fStorageDiff(bed *opbed.Bed, l *hx.Line, rtsBefore, atsBefore []string) string {
	created, newTok := false, ""
	for _, tok := range bed.Store.RefreshTokens() {
		if !containsStr(rtsBefore, tok) {
			l.S("o.rot.new", tok)
			created, newTok = true, tok
			break
		}
	}
	for _, id := range bed.Store.TokenIDs() {
		if !containsStr(atsBefore, id) {
			created = true
		}
	}
	l.B("o.created", created)
	return newTok
}

// ---------------------------------------------------------------- scripted openings

type c07fCtx struct {
	prop, tier string
	r          *hx.Rand
	bed        *opbed.Bed
	sy         *symbols
	cls        []*flowClient
	byID       map[string]*flowClient
	stats      map[string]int
	f          *c07fState
	gate       *c07Gate
	emit       func(*hx.Line)
	caseNo     *int
	rts        *[]*issuedRT
	grant      func(scopes string) (*flowClient, *issuedRT) // authorize + login + callback + exchange by a refresh-capable client
	doRefresh  func(rt *issuedRT, tok string, caller *flowClient, scopes []string) *issuedRT
}

func c07fScenarios(x *c07fCtx) {
	r := x.r
	// (1) the fault sweep: one grant, the same refresh with a fault at call 1, 2, 3, ... - every storage call of the request
	// fails once; after each fault the client retries without one (a refused refresh must have left the grant usable unless
	// the storage had already rotated the token; an answered one must carry what the storage handed out)
	if r.Chance(30) {
		fc, cur := x.grant(hx.Pick(r, "openid offline_access", "openid email offline_access", "openid profile email offline_access"))
		if cur != nil {
			x.stats["scripted-fault-sweep"]++
			kind := c07fKinds[r.Intn(len(c07fKinds))]
			for k := 1; k <= 12 && cur != nil; k++ {
				if r.Chance(35) {
					kind = c07fKinds[r.Intn(len(c07fKinds))]
				}
				x.f.failAt, x.f.kind = k, kind
				var sc []string
				if r.Chance(30) {
					sc = cur.scopes // exactly the granted scopes
				}
				before := x.stats["fault-index-beyond-journal"]
				nrt := x.doRefresh(cur, cur.token, fc, sc)
				beyond := x.stats["fault-index-beyond-journal"] != before
				if nrt != nil {
					cur = nrt
				} else if x.bed.Store.Refresh(cur.token) == nil {
					// the presented token is gone although nothing was delivered: the storage rotated it before the fault hit
					cur = nil
					for _, t := range *x.rts {
						if t.orphan && !t.dead && t.client == fc.c.ID && x.bed.Store.Refresh(t.token) != nil {
							cur = t // the undelivered successor (the onlooker knows it from the storage)
						}
					}
				}
				if beyond {
					break
				}
				if cur != nil && r.Chance(50) { // the retry
					if nrt := x.doRefresh(cur, cur.token, fc, nil); nrt != nil {
						cur = nrt
					}
				}
			}
		}
	}
	// (2) two refreshes with the same token served concurrently
	if x.gate != nil && r.Chance(60) {
		x.race()
	}
}

// ---------------------------------------------------------------- concurrent schedules

type c07HandlerKey struct{}

// c07Gate wraps the storage of a C07 history.  Idle it passes every call through.  During a race it parks a handler at each of
// its two storage-relevant calls (TokenRequestByRefreshToken = the lookup, CreateAccessAndRefreshTokens = the rotation) until the
// scheduler releases it, so that exactly one handler runs at any time.
type c07Gate struct {
	op.Storage
	mu      sync.Mutex
	racing  bool
	ev      chan c07Event
	release [3]chan struct{}
}

type c07Event struct {
	h        int
	finished bool
}

func newC07Gate() *c07Gate { return &c07Gate{} }

func (g *c07Gate) wrap(s op.Storage) op.Storage {
	g.Storage = s
	return g
}

func (g *c07Gate) park(ctx context.Context) {
	g.mu.Lock()
	racing := g.racing
	g.mu.Unlock()
	if !racing {
		return
	}
	h, _ := ctx.Value(c07HandlerKey{}).(int)
	if h == 0 {
		return
	}
	g.ev <- c07Event{h: h}
	<-g.release[h]
}

func (g *c07Gate) TokenRequestByRefreshToken(ctx context.Context, refreshToken string) (op.RefreshTokenRequest, error) {
	g.park(ctx)
	return g.Storage.TokenRequestByRefreshToken(ctx, refreshToken)
}

func (g *c07Gate) CreateAccessAndRefreshTokens(ctx context.Context, request op.TokenRequest, currentRefreshToken string) (string, string, time.Time, error) {
	g.park(ctx)
	return g.Storage.CreateAccessAndRefreshTokens(ctx, request, currentRefreshToken)
}

type c07RaceReq struct {
	tok    string
	scopes []string
	caller *flowClient
	wr     *wireReq
	secret string
	kind   string
	resp   *opbed.Resp
}

// race: a grant, then two refreshes with the SAME token at once under a random interleaving of (lookup, rotation) x 2; the second
// request sometimes narrows the scope.  The reference storage rotates strictly (a token that no longer resolves is refused at
// the rotation), so the overtaken request meets a failing CreateAccessAndRefreshTokens after a successful lookup.
func (x *c07fCtx) race() {
	r := x.r
	fc, cur := x.grant(hx.Pick(x.r, "openid offline_access", "openid email offline_access"))
	if cur == nil || fc.c.Auth == oidc.AuthMethodPrivateKeyJWT {
		return
	}
	mk := func(scopes []string) *c07RaceReq {
		q := &c07RaceReq{tok: cur.token, scopes: scopes, caller: fc}
		params := []wkv{{k: "grant_type", v: "refresh_token"}, {k: "refresh_token", v: cur.token}}
		if len(scopes) > 0 {
			params = append(params, wkv{k: "scope", v: strings.Join(scopes, " ")})
		}
		q.wr = &wireReq{shape: "body"}
		switch fc.c.Auth {
		case oidc.AuthMethodNone:
			q.kind = "id-only"
			params = append(params, wkv{k: "client_id", v: fc.c.ID})
		case oidc.AuthMethodPost:
			q.kind, q.secret = "post", fc.c.Secret
			params = append(params, wkv{k: "client_id", v: fc.c.ID}, wkv{k: "client_secret", v: fc.c.Secret})
		default:
			q.kind, q.secret = "basic", fc.c.Secret
			q.wr.basic = &[2]string{fc.c.ID, fc.c.Secret}
		}
		q.wr.body = params
		return q
	}
	a := mk(nil)
	var bsc []string
	if r.Chance(40) {
		bsc = cur.scopes
	}
	b := mk(bsc)
	sched := []int{1, 1, 2, 2}
	for i := len(sched) - 1; i > 0; i-- {
		j := r.Intn(i + 1)
		sched[i], sched[j] = sched[j], sched[i]
	}
	x.stats["scripted-refresh-race"]++

	g := x.gate
	g.mu.Lock()
	g.racing = true
	g.ev = make(chan c07Event)
	g.release[1], g.release[2] = make(chan struct{}), make(chan struct{})
	g.mu.Unlock()

	reqs := [3]*c07RaceReq{nil, a, b}
	rtsBefore, atsBefore := x.bed.Store.RefreshTokens(), x.bed.Store.TokenIDs()
	waitClearOfSecondEdge()
	t0 := time.Now()
	state := [3]string{"", "new", "new"}
	journal := [3][]string{}
	mark := len(x.bed.Store.Journal())
	collect := func(h int) {
		j := x.bed.Store.Journal()
		if mark <= len(j) {
			journal[h] = append(journal[h], j[mark:]...)
		}
		mark = len(j)
	}
	// what the storage created while handler h ran: attributed at every hand-over
	newRT := [3]string{}
	seenRT := append([]string{}, rtsBefore...)
	attribute := func(h int) {
		for _, tok := range x.bed.Store.RefreshTokens() {
			if !containsStr(seenRT, tok) {
				seenRT = append(seenRT, tok)
				newRT[h] = tok
			}
		}
	}
	var order []int
	serve := func(h int) {
		q := reqs[h]
		req := q.wr.request("/oauth/token")
		req = req.WithContext(context.WithValue(req.Context(), c07HandlerKey{}, h))
		w := httptest.NewRecorder()
		out := &opbed.Resp{}
		func() {
			defer func() {
				if p := recover(); p != nil {
					out.Panicked, out.PanicValue = true, p
				}
			}()
			x.bed.Handler.ServeHTTP(w, req)
		}()
		out.Status, out.Header, out.Body = w.Code, w.Header(), w.Body.Bytes()
		var m map[string]any
		if json.Unmarshal(out.Body, &m) == nil {
			out.JSON = m
		}
		q.resp = out
		g.ev <- c07Event{h: h, finished: true}
	}
	wait := func() {
		e := <-g.ev
		collect(e.h)
		attribute(e.h)
		if e.finished {
			state[e.h] = "finished"
			order = append(order, e.h)
		} else {
			state[e.h] = "parked"
		}
	}
	// one slot = one storage-relevant step of that handler: the first slot runs the handler through its lookup up to the gate in
	// front of the rotation (a handler refused before or at the lookup finishes in that slot), the second through the rotation
	// to its end
	step := func(h int) {
		switch state[h] {
		case "new":
			state[h] = "running"
			go serve(h)
			wait()
			if state[h] == "parked" { // parked in front of the lookup: let it through
				state[h] = "running"
				g.release[h] <- struct{}{}
				wait()
			}
		case "parked":
			state[h] = "running"
			g.release[h] <- struct{}{}
			wait()
		}
	}
	for _, h := range sched {
		step(h)
	}
	for _, h := range []int{1, 1, 1, 2, 2, 2} {
		step(h)
	}
	t1 := time.Now()
	g.mu.Lock()
	g.racing = false
	g.mu.Unlock()
	if len(order) != 2 {
		panic("c07 race: a handler did not finish")
	}
	first := order[0]
	var schedAB []string
	for _, h := range sched {
		if h == first {
			schedAB = append(schedAB, "A")
		} else {
			schedAB = append(schedAB, "B")
		}
	}
	ok := 0
	describe := func(l *hx.Line, pfx string, q *c07RaceReq) {
		l.S(pfx+"auth", q.kind).S(pfx+"cid", q.caller.c.ID).S(pfx+"secret", q.secret)
	}
	for n, h := range []int{order[0], order[1]} {
		q, other := reqs[h], reqs[3-h]
		q.resp.Journal = journal[h]
		l := hx.NewLine(x.prop).I("case", int64(*x.caseNo)).S("op", "refresh").S("rt", q.tok).L("scopes", q.scopes).S("shape", "race").S("caller", q.caller.c.ID)
		describe(l, "", q)
		q.wr.describe(l)
		l.I("now0", t0.UnixNano()).I("now1", t1.UnixNano())
		l.S("conc", "same-token").L("conc.sched", schedAB)
		if n == 0 {
			describe(l, "c2.", other)
			items := make([]string, len(other.wr.body))
			for i, p := range other.wr.body {
				items[i] = p.k + "=" + p.label()
			}
			l.L("c2.w.body", items)
		} else {
			l.B("conc.second", true)
		}
		nrt := flowTokenObs(x.bed, l, q.resp, x.rts)
		c07fBody(l, q.resp)
		if newRT[h] != "" {
			l.S("o.rot.new", newRT[h])
		}
		l.B("o.created", newRT[h] != "")
		_ = atsBefore
		if nrt != nil {
			ok++
		}
		if q.resp.Status == 200 {
			x.stats["refresh-race-http200"]++
		}
		x.stats["op-refresh"]++
		x.stats["refresh-"+obsClass(q.resp)]++
		x.stats["refresh-race-"+obsClass(q.resp)]++
		x.emit(l)
	}
	for _, t := range *x.rts {
		if !t.dead && x.bed.Store.Refresh(t.token) == nil {
			t.dead = true
		}
	}
	x.stats[fmt.Sprintf("refresh-race-%s-%d-ok", strings.Join(schedAB, ""), ok)]++
	// afterwards, sequentially: the raced token again (a replay), then the newest one
	x.doRefresh(cur, cur.token, fc, nil)
	for i := len(*x.rts) - 1; i >= 0; i-- {
		if t := (*x.rts)[i]; !t.dead && t.client == fc.c.ID {
			x.doRefresh(t, t.token, fc, nil)
			break
		}
	}
}
