package main

// round 4c (C04): authorization requests that carry a signed REQUEST OBJECT (OIDC Core 6.1; Config.RequestObjectSupported, every
// registration with a request-object key), with the PKCE parameters split in every way between the query and the object:
//
//	code_challenge          query only / object only / both agreeing / both disagreeing / nowhere
//	code_challenge_method   query only / object only / both agreeing / both disagreeing / nowhere
//
// The line describes what the client SENT (`ro=1`, `q.cc`, `q.ccm`, `ro.cc`, `ro.ccm`, `ro.sig`); the monitor (Driver/FlowMon.lean ->
// C04.effectiveChallenge of Spec/C04.lean) decides from that which challenge "the request carried": the object's when the accepted
// object sets one, else the query's - the documented override rule, proved for the unchanged code as C19.copy_char /
// c19_object_parameter_honoured and composed with the exchange theorem in Proofs/C04RO.lean. The model (Model/FlowC04RO.lean)
// computes what is stored with the REGENERATED GenHon.ParseRequestObject / CopyRequestObjectToAuthRequest.
//
// The object is minted as in c19hon.go (hx.Sign, ES256, a key registered for the client in the reference storage).
// A SHA-256 challenge of a known verifier v is ALWAYS written "S256(v)" on these lines (the model's symbolic hash); no verifier
// presented by the stream is ever such a string, so the symbolic and the real comparison agree also when challenge and method
// do not fit together.

import (
	"encoding/json"
	"net/url"

	"github.com/zitadel/oidc/v3/pkg/oidc"

	"verifharness/internal/hx"
	"verifharness/internal/opbed"
	"verifharness/internal/refstore"
)

type c04roPlan struct {
	chal string // where the code_challenge travels: query | object | both-agree | both-disagree | none
	meth string // where the code_challenge_method travels: query | object | both-agree | both-disagree | none
	sig  string // ok | wrong-key
}

type c04roState struct {
	r     *hx.Rand
	stats map[string]int
	next  *c04roPlan // the plan of the NEXT authorization request (scripted openings); nil: drawn
	// the effective challenge of the last request as it travelled, and as the line writes it
	lastReal, lastSym string
}

// c04roSent: the PKCE parameters as they travelled
type c04roSent struct {
	plan       c04roPlan
	qc, qm     string // query: code_challenge (symbolic), code_challenge_method
	oc, om     string // object
	effVerifer string
}

const c04roVA = "verifier-AAAAAAAAAAAAAAAAAAAAAAAAAAAAAAAAAAAAAAAAAAA"
const c04roVB = "verifier-BBBBBBBBBBBBBBBBBBBBBBBBBBBBBBBBBBBBBBBBBBB"

var c04roChalKinds = []string{"query", "object", "both-agree", "both-disagree", "none"}
var c04roMethKinds = []string{"query", "object", "both-agree", "both-disagree", "none"}

// c04roSetup registers a request-object key for every client (after every other change to the registrations)
func c04roSetup(r *hx.Rand, cls []*flowClient, stats map[string]int) *c04roState {
	ec := hx.Keys()[2]
	for _, fc := range cls {
		fc.c.Keys = append(fc.c.Keys, refstore.ClientKey{Kid: "ro-" + fc.c.ID, Pub: ec.Pub})
	}
	stats["ro-history"]++
	return &c04roState{r: r, stats: stats}
}

// rekey: a re-registration (c07wire.go reregister) resets the keys of a registration
func (s *c04roState) rekey(fc *flowClient) {
	for _, k := range fc.c.Keys {
		if k.Kid == "ro-"+fc.c.ID {
			return
		}
	}
	fc.c.Keys = append(fc.c.Keys, refstore.ClientKey{Kid: "ro-" + fc.c.ID, Pub: hx.Keys()[2].Pub})
}

func (s *c04roState) draw(hasPKCE bool) c04roPlan {
	r := s.r
	p := c04roPlan{sig: "ok"}
	if r.Chance(6) {
		p.sig = "wrong-key"
	}
	if !hasPKCE {
		// nothing drawn for the query: mostly an object without PKCE parameters, sometimes one that carries a method alone
		p.chal, p.meth = "none", hx.Pick(r, "none", "none", "object")
		return p
	}
	p.chal = hx.Pick(r, "query", "query", "object", "object", "both-agree", "both-disagree")
	p.meth = hx.Pick(r, "query", "object", "object", "both-agree", "both-disagree", "none")
	return p
}

func c04roImage(method, v string) (real, sym string) {
	if method == "S256" {
		return oidc.NewSHACodeChallenge(v), "S256(" + v + ")"
	}
	return v, v
}

// apply rewrites the PKCE part of the query `q` of an authorization request of client `fc` according to a plan, adds the signed
// object, and says which verifier (if any) meets the EFFECTIVE challenge. `verifier`, `method`: what doAuthorize drew ("" = no PKCE).
func (s *c04roState) apply(q url.Values, fc *flowClient, verifier, method string) *c04roSent {
	plan := s.draw(verifier != "")
	if s.next != nil {
		plan = *s.next
		s.next = nil
		if plan.chal != "none" && verifier == "" {
			verifier, method = hx.Pick(s.r, c04roVA, c04roVB), hx.Pick(s.r, "S256", "S256", "plain")
		}
	}
	q.Del("code_challenge")
	q.Del("code_challenge_method")
	if method == "" {
		method = "S256"
	}
	otherV := c04roVA
	if verifier == c04roVA {
		otherV = c04roVB
	}
	otherM := "plain"
	if method == "plain" {
		otherM = "S256"
	}
	out := &c04roSent{plan: plan}
	// the method: the one that counts is `method`; where both disagree the QUERY carries the other one
	var qmReal, omReal string
	switch plan.meth {
	case "query":
		qmReal = method
	case "object":
		omReal = method
	case "both-agree":
		qmReal, omReal = method, method
	case "both-disagree":
		qmReal, omReal = otherM, method
	}
	effM := omReal
	if effM == "" {
		effM = qmReal
	}
	// the challenge: computed for the method that will count, so that most flows can be completed; where both disagree the QUERY
	// carries the challenge of the other verifier
	var qcReal, ocReal string
	right, rightSym := c04roImage(effM, verifier)
	wrong, wrongSym := c04roImage(effM, otherV)
	switch plan.chal {
	case "query":
		qcReal, out.qc = right, rightSym
	case "object":
		ocReal, out.oc = right, rightSym
	case "both-agree":
		qcReal, out.qc, ocReal, out.oc = right, rightSym, right, rightSym
	case "both-disagree":
		qcReal, out.qc, ocReal, out.oc = wrong, wrongSym, right, rightSym
	}
	out.qm, out.om = qmReal, omReal
	s.lastReal, s.lastSym = "", ""
	if plan.chal != "none" {
		s.lastReal, s.lastSym = right, rightSym
	}
	if qcReal != "" {
		q.Set("code_challenge", qcReal)
	}
	if qmReal != "" {
		q.Set("code_challenge_method", qmReal)
	}
	claims := map[string]any{"iss": fc.c.ID, "aud": []string{opbed.Issuer}, "client_id": fc.c.ID, "response_type": "code"}
	if s.r.Chance(30) {
		delete(claims, "response_type")
	}
	if ocReal != "" {
		claims["code_challenge"] = ocReal
	}
	if omReal != "" {
		claims["code_challenge_method"] = omReal
	}
	payload, _ := json.Marshal(claims)
	key := hx.Keys()[2]
	if plan.sig == "wrong-key" {
		key = hx.Keys()[3]
	}
	tok, _ := hx.Sign(key, "ES256", "ro-"+fc.c.ID, payload)
	q.Set("request", tok)
	if plan.chal != "none" {
		out.effVerifer = verifier
	}
	s.stats["ro-authorize"]++
	s.stats["ro-authorize-challenge-"+plan.chal+"-method-"+plan.meth]++
	s.stats["ro-authorize-sig-"+plan.sig]++
	return out
}

func (o *c04roSent) describe(l *hx.Line) {
	l.I("ro", 1).S("ro.sig", o.plan.sig).S("ro.plan", o.plan.chal+"/"+o.plan.meth).
		S("q.cc", o.qc).S("q.ccm", o.qm).S("ro.cc", o.oc).S("ro.ccm", o.om)
}

// c04roScenarios: a scripted opening that walks through the split matrix: per (challenge, method) placement one authorization
// request with an object, login, callback, and exchanges without / with a wrong / with the right verifier
func c04roScenarios(x *c04xCtx, s *c04roState, doAuthorize func(fc *flowClient, scopes string, dropChallenge, forcePKCE bool, hintKind string) string) {
	if s == nil || !x.r.Chance(45) {
		return
	}
	r := x.r
	rounds := 2 + r.Intn(3)
	if x.tier == "thorough" {
		rounds = 3 + r.Intn(6)
	}
	elig := x.eligible(func(fc *flowClient) bool { return true })
	if len(elig) == 0 {
		return
	}
	x.stats["scripted-request-object-pkce"]++
	for i := 0; i < rounds; i++ {
		fc := elig[r.Intn(len(elig))]
		plan := c04roPlan{chal: c04roChalKinds[r.Intn(4)], meth: c04roMethKinds[r.Intn(5)], sig: "ok"}
		if r.Chance(50) { // the placements in which ONE of the two parameters sits in the object alone
			plan = hx.Pick(r, c04roPlan{"query", "object", "ok"}, c04roPlan{"object", "query", "ok"}, c04roPlan{"query", "object", "ok"})
		}
		s.next = &plan
		id := doAuthorize(fc, "openid", false, true, "")
		s.next = nil
		chalReal, chalSym := s.lastReal, s.lastSym
		if id == "" {
			x.stats["ro-scripted-authorize-refused"]++
			continue
		}
		x.doLogin(id)
		ic := x.doCallback(id, false)
		if ic == nil {
			continue
		}
		v := ic.verifier
		wrongV := c04roVA
		if v == c04roVA {
			wrongV = c04roVB
		}
		// "challenge": the challenge string itself as it travelled on the front channel (right only if the method that counts is not S256)
		order := hx.Pick(r, []string{"none", "wrong", "right"}, []string{"wrong", "challenge", "none", "right"}, []string{"none", "challenge", "right"},
			[]string{"wrong", "right", "none"}, []string{"challenge", "right"})
		for _, k := range order {
			pv := ""
			switch k {
			case "wrong":
				pv = hx.Pick(r, wrongV, v+"x")
			case "right":
				pv = v
			case "challenge":
				pv = chalReal
				if chalReal != chalSym {
					if x.verifierSym == nil {
						x.verifierSym = map[string]string{}
					}
					x.verifierSym[chalReal] = chalSym
				}
			}
			resp := x.exchange(ic.real, ic.label, ic.redirect, pv, fc, 0)
			res := "refused"
			if resp.Status == 200 {
				res = "ok"
			}
			x.stats["ro-exchange-"+plan.chal+"/"+plan.meth+"-"+k+"-verifier-"+res]++
			if resp.Status == 200 && k != "right" && !(k == "challenge" && pv == v) {
				x.stats["ro-CODE-REDEEMED-WITHOUT-THE-VERIFIER"]++
			}
		}
	}
}
