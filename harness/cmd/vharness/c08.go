package main

// C08 stream: random histories on both routers over the reference storage, mixing
//   * token issuance through the real code flow (opaque and JWT access tokens, with refresh tokens) and through the refresh grant,
//   * expiry, userinfo, introspection, revocation, end_session, token exchange, the refresh grant,
// along these dimensions (each visible in the evidence's generator_distribution):
//   * the presented string: genuine / bit-flipped (really decrypted: CFB malleability) / re-encrypted under another key / garbage /
//     JWT of a foreign key / JWT signed with the provider's key but expired or naming another issuer,
//   * refresh tokens as first-class tokens: presented at revocation with hint ∈ {absent, access_token, refresh_token, garbage} ×
//     caller ∈ {owner, foreign, public}, afterwards used at the refresh grant and as token-exchange subject, and the access token of the
//     same grant at userinfo / introspection (`after-revoke-*`),
//   * the shape of the refresh-token strings the storage hands out: short ids (never decrypt), opaque base64url blobs (always decrypt
//     under AES-CFB, to garbage), blobs that decrypt to `x:y` (`rt-shape-*`),
//   * the issuer: static, or derived from the request (op.IssuerFromHost / IssuerFromForwardedOrHost) with 2-3 virtual issuers on ONE
//     provider; tokens of issuer A are presented at issuer B and vice versa, in both orders (`cross-issuer-*`),
//     over a storage that partitions its records by the issuer of the context (`storage-partitioned`) or keeps ONE table for all
//     issuers (`storage-flat`, `flat-cross-issuer-*`: opaque / refresh tokens are then found under every issuer, JWT access tokens
//     must still be refused elsewhere by the library's own check of the `iss` claim),
//   * TIME: the lifetimes the storage gives its access / refresh tokens (`ttl-*`: default 5 min / 5 h; `past`: the stored expiration is
//     already behind the clock when the token is handed out; `short`: 0.3-0.9 s, with requests placed just before / at / just after the
//     expiry edges - the storage's expiration, the second the exp claim of a JWT is cut to, and the same shifted by the client's clock
//     skew (`edge-*`)), per-client op.Client.ClockSkew() != 0 (`skew-*`), and a storage that keeps no expiry index for self-contained
//     (JWT) access tokens but leaves their expiry to the exp claim the framework writes and verifies (`storage-expiry-by-claim`),
//   * storage FAULTS at a chosen call of a request of the history: TerminateSession / TerminateSessionFromRequest at end_session,
//     RevokeToken / GetRefreshTokenInfo at revocation, TokenRequestByRefreshToken at the refresh grant and at token exchange
//     (`fault-*`), on storages with and without the optional op.CanTerminateSessionFromRequest (`storage-termfromreq`); afterwards the
//     tokens concerned are used again,
//   * SUBJECTS: users whose subject identifier contains the separator of the opaque token format (`<token id>:<subject>`) once or
//     several times (URN / DID / idp:id style), at its start or end, percent-encoded, next to other separator-like bytes
//     (`sub-*`), for every token kind (opaque, JWT, refresh, exchange-issued), in revoke -> use sequences at every endpoint,
//   * tokens ISSUED BY TOKEN EXCHANGE are tokens of the provider like any other: they are registered (`issue` line, `via=exchange`)
//     and used / revoked / tampered with afterwards; some exchanges ask for scopes (`exchange-scope-*`).
//
// Reproducibility: every history draws from its own PRNG (seeded from the stream's PRNG, one draw per history), case ids are
// <history index> * c08Stride + <line of the history>, crypto/rand.Reader (AES IVs of the opaque tokens: what a bit flip decrypts to)
// is replaced by a per-history deterministic reader for the duration of the stream, and no random choice is skipped or added
// depending on the clock.  `vharness -only <case>` therefore replays exactly the history of that case (and only runs that one).
// What stays clock dependent is the outcome of requests placed on an expiry edge (`ttl-short` / `ttl-past` histories).

import (
	"bufio"
	"context"
	crand "crypto/rand"
	"crypto/sha256"
	"encoding/base64"
	"encoding/hex"
	"encoding/json"
	"errors"
	"fmt"
	"io"
	"log/slog"
	"net/http"
	"net/url"
	"os"
	"slices"
	"sort"
	"strconv"
	"strings"
	"time"

	jose "github.com/go-jose/go-jose/v4"
	"github.com/zitadel/oidc/v3/pkg/crypto"
	"github.com/zitadel/oidc/v3/pkg/oidc"
	"github.com/zitadel/oidc/v3/pkg/op"

	"verifharness/internal/hx"
	"verifharness/internal/opbed"
	"verifharness/internal/refstore"
)

func init() { streams["C08"] = c08Stream }

var c08Discard = slog.New(slog.NewTextHandler(io.Discard, nil))

// ---------------------------------------------------------------- storage wrapper: the refresh-token strings handed out

// c08Store is the reference storage with one freedom a real storage has: what its refresh-token STRINGS look like.
// Everything else is forwarded unchanged (op.Storage + TokenExchangeStorage).
type c08Store struct {
	op.Storage
	op.TokenExchangeStorage
	in, out map[string]string // outer -> inner, inner -> outer
	mint    func(inner string) string
}

func (s *c08Store) inner(tok string) string {
	if v, ok := s.in[tok]; ok {
		return v
	}
	return tok
}

func (s *c08Store) outer(tok string) string {
	if v, ok := s.out[tok]; ok {
		return v
	}
	o := s.mint(tok)
	s.in[o], s.out[tok] = tok, o
	return o
}

func (s *c08Store) CreateAccessAndRefreshTokens(ctx context.Context, request op.TokenRequest, current string) (string, string, time.Time, error) {
	at, rt, exp, err := s.Storage.CreateAccessAndRefreshTokens(ctx, request, s.inner(current))
	if err == nil && rt != "" {
		rt = s.outer(rt)
	}
	return at, rt, exp, err
}

func (s *c08Store) TokenRequestByRefreshToken(ctx context.Context, tok string) (op.RefreshTokenRequest, error) {
	return s.Storage.TokenRequestByRefreshToken(ctx, s.inner(tok))
}

func (s *c08Store) GetRefreshTokenInfo(ctx context.Context, clientID, tok string) (string, string, error) {
	userID, tokenID, err := s.Storage.GetRefreshTokenInfo(ctx, clientID, s.inner(tok))
	if err == nil {
		tokenID = s.outer(tokenID)
	}
	return userID, tokenID, err
}

func (s *c08Store) RevokeToken(ctx context.Context, tokenOrID, userID, clientID string) *oidc.Error {
	return s.Storage.RevokeToken(ctx, s.inner(tokenOrID), userID, clientID)
}

// c08StoreTerm: the same storage, additionally implementing the optional op.CanTerminateSessionFromRequest
type c08StoreTerm struct {
	*c08Store
	op.CanTerminateSessionFromRequest
}

// c08Opts: the storage-side freedoms of one history
type c08Opts struct {
	attl, rttl    time.Duration // lifetimes the storage gives access / refresh tokens (0: refstore defaults)
	expiryByClaim bool          // refstore.Store.JWTExpiryByClaim
	termFromReq   bool          // the storage implements op.CanTerminateSessionFromRequest
	sigAlg        string        // the algorithm the provider signs its tokens with ("" = RS256, the verifiers' default)
	flat          bool          // multi-issuer provider over ONE token table: the storage does not partition its records by issuer
}

// ---------------------------------------------------------------- reproducibility

const c08Stride = 1000 // case id = history index * c08Stride + line within the history

// c08Entropy: crypto/rand.Reader for the duration of one history (AES IVs, so that a replayed history hands out the same opaque
// token strings and a flipped character decrypts to the same plaintext)
type c08Entropy struct{ r *hx.Rand }

func (e *c08Entropy) Read(p []byte) (int, error) {
	for i := range p {
		p[i] = byte(e.r.U64() >> 17)
	}
	return len(p), nil
}

// c08OnlyHistory: the history a replay (`vharness -only <case id>`) asks for, -1 = all
func c08OnlyHistory() int {
	for i, a := range os.Args {
		v := ""
		switch {
		case (a == "-only" || a == "--only") && i+1 < len(os.Args):
			v = os.Args[i+1]
		case strings.HasPrefix(a, "-only="):
			v = strings.TrimPrefix(a, "-only=")
		case strings.HasPrefix(a, "--only="):
			v = strings.TrimPrefix(a, "--only=")
		}
		if n, err := strconv.Atoi(v); err == nil && v != "" {
			return n / c08Stride
		}
	}
	return -1
}

func c08Hash(s string) uint64 {
	h := sha256.Sum256([]byte(s))
	var v uint64
	for _, b := range h[:8] {
		v = v<<8 | uint64(b)
	}
	return v
}

// c08Subjects: the users of a history. Beside two plain ones, identifiers that contain the separator of the opaque access-token
// format and other bytes a parser might trip over
var c08OddSubjects = []string{
	"urn:example:user:alice", // URN: several colons
	"did:web:example.com:bob", // DID
	"idp:42",                  // one colon (federated "provider:id")
	"a%3Ab",                   // a percent-encoded colon: nobody may decode it
	"carol|t1;x=y&z+w",        // other separator-like bytes
	"dave:",                   // ends with the separator
	":erin",                   // starts with it
	"at1:user1",               // looks like the content of another opaque token
}

func c08SubKind(sub string) string {
	switch n := strings.Count(sub, ":"); {
	case n == 0 && strings.ContainsAny(sub, "%|;&+="):
		return "sepbytes"
	case n == 0:
		return "plain"
	case n == 1:
		return "one-colon"
	}
	return "many-colons"
}

// ---------------------------------------------------------------- the bed: one provider, possibly several virtual issuers

type c08Bed struct {
	*opbed.Bed
	st      *c08Store
	issMode string   // static | host | forwarded
	hosts   []string // dynamic: the virtual hosts; static: [""]
}

func c08NewBed(router, issMode string, hosts []string, mint func(string) string, o c08Opts) *c08Bed {
	key := hx.Keys()[0]
	alg := key.Algs[0]
	if o.sigAlg != "" {
		alg = o.sigAlg
	}
	st := refstore.New(refstore.SigningKeySpec{Kid: "sig1", Alg: jose.SignatureAlgorithm(alg), Priv: key.Priv, Pub: key.Pub})
	// request-derived issuers: the storage partitions its records by op.IssuerFromContext(ctx) (as the repo's multi-issuer example) -
	// or, `flat`, keeps one table for all virtual issuers: the documented Storage contract does not demand partitioning, and for
	// self-contained (JWT) access tokens the LIBRARY checks the `iss` claim against the issuer of the request
	st.MultiTenant = issMode != "static" && !o.flat
	st.JWTExpiryByClaim = o.expiryByClaim
	if o.attl != 0 {
		st.AccessTTL = o.attl
	}
	if o.rttl != 0 {
		st.RefreshTTL = o.rttl
	}
	base := st.With(refstore.Caps{TE: true})
	ws := &c08Store{Storage: base, TokenExchangeStorage: base.(op.TokenExchangeStorage), in: map[string]string{}, out: map[string]string{}, mint: mint}
	cfg := opbed.Config{Router: router, S256: true, Post: true, PrivateKeyJWT: true, Refresh: true, SignKey: key, SignAlg: alg}
	b := &opbed.Bed{Cfg: cfg, Store: st, Storage: ws, CryptoKey: sha256.Sum256([]byte("verif-crypto-key")), SignKey: key}
	oc := &op.Config{CryptoKey: b.CryptoKey, DefaultLogoutRedirectURI: "https://op.example/logged-out", CodeMethodS256: true, AuthMethodPost: true,
		AuthMethodPrivateKeyJWT: true, GrantTypeRefreshToken: true, SupportedClaims: op.DefaultSupportedClaims}
	issuer := op.StaticIssuer(opbed.Issuer)
	switch issMode {
	case "host":
		issuer = op.IssuerFromHost("")
	case "forwarded":
		issuer = op.IssuerFromForwardedOrHost("")
	}
	var storage op.Storage = ws
	if o.termFromReq {
		storage = &c08StoreTerm{c08Store: ws, CanTerminateSessionFromRequest: refstore.TermFromReqPart{S: st}}
	}
	b.Storage = storage
	opts := []op.Option{op.WithLogger(c08Discard)}
	if alg != "RS256" {
		// a provider that signs with a non-default algorithm tells its verifiers so
		opts = append(opts, op.WithAccessTokenVerifierOpts(op.WithSupportedAccessTokenSigningAlgorithms(alg)),
			op.WithIDTokenHintVerifierOpts(op.WithSupportedIDTokenHintSigningAlgorithms(alg)))
	}
	p, err := op.NewProvider(oc, storage, issuer, opts...)
	if err != nil {
		panic(err)
	}
	b.Provider = p
	if router == "legacy" {
		b.Handler = op.RegisterLegacyServer(op.NewLegacyServer(p, *op.DefaultEndpoints), op.AuthorizeCallbackHandler(p), op.WithFallbackLogger(c08Discard))
	} else {
		b.Handler = p
	}
	return &c08Bed{Bed: b, st: ws, issMode: issMode, hosts: hosts}
}

// issuerOf: the issuer a request sent to `host` is served under
func (cb *c08Bed) issuerOf(host string) string {
	if cb.issMode == "static" {
		return opbed.Issuer
	}
	return "https://" + host
}

// at addresses a request to one of the virtual hosts
func (cb *c08Bed) at(r *http.Request, host string) *http.Request {
	switch cb.issMode {
	case "host":
		r.Host = host
	case "forwarded":
		r.Host = "proxy.internal"
		r.Header.Set("Forwarded", "for=192.0.2.1;host="+host+";proto=https")
	}
	return r
}

type c08Token struct {
	label, id, client, subject string // the access token
	access, refresh, idToken   string // the strings handed out
	rtLabel, grant, host       string
	jwt                        bool
	exp, rtExp                 time.Time     // the expirations the STORAGE gave the access / refresh token
	skew                       time.Duration // ClockSkew() of the client
	rtRevokedWithATHint        bool // the owner revoked the refresh token with token_type_hint=access_token
	gone                       bool // replaced at the refresh grant
}

func c08Raw(tok string) string {
	if len(tok) <= 64 {
		return tok
	}
	h := sha256.Sum256([]byte(tok))
	return "~" + hex.EncodeToString(h[:6])
}

// adopt records the provenance of a signature the PROVIDER made (verified with its public key), so that the symbolic
// description of one of its JWT access tokens says who signed it
func (s *symbols) adopt(tok string, k *hx.Key) {
	jws, err := jose.ParseSigned(tok, allAlgs)
	if err != nil || len(jws.Signatures) != 1 {
		return
	}
	payload, err := jws.Verify(k.Pub)
	if err != nil {
		return
	}
	sg := jws.Signatures[0]
	s.sigs[string(sg.Signature)] = sigRecord{signer: k.No, alg: sg.Header.Algorithm, kid: sg.Header.KeyID, payload: s.pid(payload)}
}

// presentedKV describes a presented string for the model: what Decrypt makes of it (really decrypted with the provider's key, so
// malleability is exercised), else how go-jose / ParseToken see it, and its jti.  Returns the class of the string.
func (cb *c08Bed) presentedKV(l *hx.Line, sy *symbols, tok string, isRefresh bool) string {
	l.S("raw", c08Raw(tok))
	if plain, err := crypto.DecryptAES(tok, string(cb.CryptoKey[:])); err == nil {
		l.S("p.kind", "decrypts").S("p.plain", plain).I("p.parts", int64(len(strings.Split(plain, ":"))))
		return "decrypts"
	}
	sy.tokenKV(l, tok)
	kind := "nothing"
	if parts := strings.Split(tok, "."); len(parts) == 3 {
		if _, err := jose.ParseSigned(tok, allAlgs); err == nil {
			kind = "jwt"
			if m, ok := opbed.DecodeJWT(tok); ok {
				if j, ok := m["jti"].(string); ok {
					l.S("p.jti", j)
				}
			}
		}
	}
	if isRefresh {
		kind = "refresh"
	}
	l.S("p.kind", kind)
	return kind
}

func c08Stream(r *hx.Rand, tier string, n int, w *bufio.Writer) map[string]int {
	if n == 0 {
		n = 250
		if tier == "thorough" {
			n = 5000
		}
	}
	stats := map[string]int{}
	var sy *symbols
	caseNo := 0
	h0 := 0
	emit := func(l *hx.Line) {
		fmt.Fprintln(w, l.String())
		caseNo++
	}
	hx.Keys() // the key ring is made with the real entropy source, before it is replaced
	master, only := r, c08OnlyHistory()
	realEntropy := crand.Reader
	defer func() { crand.Reader = realEntropy }()
	line := func(opName string) *hx.Line {
		return hx.NewLine("C08").I("case", int64(caseNo)).I("h0", int64(h0)).S("op", opName)
	}
	maxOps := 16
	if tier == "thorough" {
		maxOps = 40
	}
	for h := 0; h < n; h++ {
		// every history has its own PRNG and its own entropy; a replay runs only the history asked for
		hseed := master.U64()
		if only >= 0 && h != only {
			continue
		}
		r := hx.NewRand(hseed)
		crand.Reader = &c08Entropy{r: hx.NewRand(hseed ^ 0xC08C08)}
		sy = newSymbols()
		caseNo = h * c08Stride
		router := hx.Pick(r, "provider", "legacy")
		issMode := hx.Pick(r, "static", "static", "static", "static", "host", "host", "host", "forwarded")
		hosts := []string{""}
		if issMode != "static" {
			hosts = []string{"a.example", "b.example", "c.example"}[:2+r.Intn(2)]
		}
		rtShape := hx.Pick(r, "short", "short", "short", "short", "short", "blob", "blob", "blob", "collide")
		var cb *c08Bed
		mint := func(inner string) string { return inner }
		switch rtShape {
		case "blob": // an opaque random string, as most storages hand out: under AES-CFB it always "decrypts" (to garbage)
			mint = func(inner string) string { // (a function of the history and the inner id, not of the order of the calls)
				rr := hx.NewRand(hseed ^ c08Hash(inner))
				b := make([]byte, 32)
				for i := range b {
					b[i] = byte(rr.Intn(256))
				}
				return base64.RawURLEncoding.EncodeToString(b)
			}
		case "collide": // a blob whose garbage happens to have exactly one ':' (here: constructed, so that the case is hit on purpose)
			mint = func(inner string) string {
				enc, _ := crypto.EncryptAES("zz"+inner+":yy", string(cb.CryptoKey[:]))
				return enc
			}
		}
		// time and faults: what the storage does with lifetimes, who checks the expiry of a JWT access token, optional capability
		ttl := "default"
		var o c08Opts
		switch k := r.Intn(40); {
		case k == 0: // short lifetimes, requests placed around the expiry edges (real waiting, bounded per history)
			ttl = "short"
			o.attl = time.Duration(300+r.Intn(600)) * time.Millisecond
			if r.Chance(40) {
				o.rttl = time.Duration(500+r.Intn(600)) * time.Millisecond
			}
		case k <= 6: // the stored expiration is already in the past when the token is handed out
			ttl = "past"
			o.attl = -hx.Pick(r, time.Second, 2*time.Second, 20*time.Second, time.Hour)
			if r.Chance(30) {
				o.rttl = -30 * time.Second
			}
		}
		o.expiryByClaim = r.Chance(60)
		o.termFromReq = r.Chance(30)
		o.sigAlg = hx.Pick(r, "", "", "", "", "", "RS512", "RS384", "PS256")
		o.flat = r.Chance(35) && issMode != "static" // (drawn for every history)
		skewJWT := hx.Pick(r, 0, 0, time.Second, 2*time.Second, 30*time.Second, 30*time.Second, time.Hour, time.Hour)
		skewWeb := hx.Pick(r, 0, 0, 0, 30*time.Second)
		skewPub := hx.Pick(r, 0, 0, 5*time.Second)
		cb = c08NewBed(router, issMode, hosts, mint, o)
		bed := cb.Bed
		stats["ttl-"+ttl]++
		if o.rttl != 0 {
			stats["ttl-refresh-"+ttl]++
		}
		if o.expiryByClaim {
			stats["storage-expiry-by-claim"]++
		}
		if o.termFromReq {
			stats["storage-termfromreq"]++
		}
		if o.flat {
			stats["storage-flat"]++
		} else if issMode != "static" {
			stats["storage-partitioned"]++
		}
		if o.sigAlg != "" {
			stats["provider-sigalg-"+o.sigAlg]++
		}
		if skewJWT != 0 {
			stats["skew-jwt-client-"+skewJWT.String()]++
		}
		if skewWeb != 0 || skewPub != 0 {
			stats["skew-opaque-client"]++
		}
		sleepLeft := 900 * time.Millisecond
		faultPct := 14
		stats["issuer-mode-"+issMode]++
		stats[fmt.Sprintf("issuers-%d", len(hosts))]++
		stats["rt-shape-"+rtShape]++
		stats["router-"+router]++
		cls := flowClients()
		webjwt := opbed.WebClient("webjwt", "secret-jwt", "https://rp.example/cb")
		webjwt.TokenType = op.AccessTokenTypeJWT
		webjwt.Skew = skewJWT
		cls = append(cls, &flowClient{c: webjwt})
		for _, fc := range cls {
			switch fc.c.ID {
			case "web":
				fc.c.Skew = skewWeb
			case "pub":
				fc.c.Skew = skewPub
			}
		}
		for _, fc := range cls {
			bed.Store.AddClient(fc.c)
		}
		// the users: two plain subjects and three identifiers with separator bytes
		subjects := []string{"user1", "user2"}
		for len(subjects) < 5 {
			if s := hx.Pick(r, c08OddSubjects...); !slices.Contains(subjects, s) {
				subjects = append(subjects, s)
			}
		}
		for _, s := range subjects {
			bed.Store.AddUser(s, nil)
		}
		byID := map[string]*flowClient{}
		for _, fc := range cls {
			byID[fc.c.ID] = fc
		}
		h0 = caseNo
		l := line("reset").S("router", router).S("issuer", opbed.Issuer).S("issmode", issMode).L("hosts", hosts).S("rtshape", rtShape).
			S("ttl", ttl).S("sigalg", bed.Cfg.SignAlg).B("flat", o.flat).B("byclaim", o.expiryByClaim).B("termfromreq", o.termFromReq).S("default", "https://op.example/logged-out")
		clientsKV(l, cls)
		ksLinePub(l, "published", []pubKey{{k: bed.SignKey, kid: "sig1", use: "sig"}})
		emit(l)
		var toks []*c08Token
		nGrant := 0
		issuers := []*flowClient{byID["web"], byID["webjwt"], byID["webjwt"], byID["web2"], byID["pub"]}
		if issMode != "static" {
			issuers = []*flowClient{byID["web"], byID["webjwt"], byID["webjwt"], byID["web2"], byID["pub"]}
		}
		do := func(req *http.Request, host string) *opbed.Resp { return bed.Do(cb.at(req, host)) }
		// register the tokens of a successful token response
		register := func(tr *opbed.Resp, host string, jwt bool, via string) *c08Token {
			ids := bed.Store.TokenIDs()
			rec := bed.Store.Token(ids[len(ids)-1])
			nGrant++
			t := &c08Token{label: fmt.Sprintf("t%d", len(toks)+1), id: rec.ID, client: rec.ClientID, subject: rec.Subject, host: host, grant: fmt.Sprintf("g%d", nGrant),
				access: tr.Str("access_token"), refresh: tr.Str("refresh_token"), idToken: tr.Str("id_token"), jwt: jwt}
			t.exp = rec.Expiration
			if fc := byID[t.client]; fc != nil {
				t.skew = fc.c.Skew
			}
			il := line("issue")
			if t.refresh != "" {
				t.rtLabel = "r" + t.label[1:]
				if rr := bed.Store.Refresh(cb.st.inner(t.refresh)); rr != nil {
					t.rtExp = rr.Expiration
					il.I("rtexp", t.rtExp.UnixNano())
				}
			}
			if jwt {
				sy.adopt(t.access, bed.SignKey)
				// the exp claim the framework wrote into the token (observed), next to the expiration the storage gave it
				if m, ok := opbed.DecodeJWT(t.access); ok {
					if e, ok := m["exp"].(float64); ok {
						il.I("jwtexp", int64(e))
					}
				}
			}
			if t.idToken != "" {
				sy.adopt(t.idToken, bed.SignKey)
			}
			toks = append(toks, t)
			// `openid`: the token carries the scope under which the reference storage hands out the `sub` claim at userinfo
			emit(il.S("label", t.label).S("id", t.id).S("client", t.client).S("sub", t.subject).L("aud", rec.Audience).B("jwt", t.jwt).
				S("iss", cb.issuerOf(host)).S("rt", t.refresh).S("rtlabel", t.rtLabel).S("grant", t.grant).S("via", via).
				B("openid", slices.Contains(rec.Scopes, oidc.ScopeOpenID)).
				I("exp", t.exp.UnixNano()).I("skew", int64(t.skew)).I("now0", time.Now().UnixNano()))
			stats["issued-"+c08What(t, false)+"-sub-"+c08SubKind(t.subject)]++
			return t
		}
		live := func() []*c08Token {
			var out []*c08Token
			for _, t := range toks {
				if !t.gone {
					out = append(out, t)
				}
			}
			if len(out) == 0 {
				return toks
			}
			return out
		}
		// the host a token is presented at: mostly its own issuer, sometimes another one
		hostFor := func(t *c08Token, opName, what string) (string, bool) {
			if len(hosts) > 1 && r.Chance(35) {
				for {
					if h := hosts[r.Intn(len(hosts))]; h != t.host {
						stats["cross-issuer-"+opName+"-"+what]++
						if o.flat {
							stats["flat-cross-issuer-"+opName+"-"+what]++
						}
						return h, true
					}
				}
			}
			return t.host, false
		}
		// findings recorded in known-findings.jsonl are matched on these input-shape keys
		shapeKV := func(l *hx.Line, t *c08Token) {
			if t.refresh == "" {
				return
			}
			if plain, err := crypto.DecryptAES(t.refresh, string(bed.CryptoKey[:])); err == nil && len(strings.Split(plain, ":")) == 2 {
				l.S("rt.shape", "decrypts-to-two-parts")
			}
			if t.rtRevokedWithATHint {
				l.S("rt.revhint", "access_token")
			}
		}

		// a storage fault for the duration of ONE request: the named storage method fails; returns the cleanup
		withFault := func(l *hx.Line, forced bool, methods ...string) (func(), bool) {
			if !forced && !r.Chance(faultPct) {
				return func() {}, false
			}
			m := methods[r.Intn(len(methods))]
			bed.Store.FailMethod(m, errors.New("storage unavailable"))
			l.S("fault", m)
			stats["fault-"+m]++
			return bed.Store.ClearFaults, true
		}
		// short lifetimes: wait until just before / at / just after one of the expiry edges of the token (bounded per history)
		place := func(t *c08Token, refreshTok bool) {
			if ttl != "short" {
				return
			}
			// (all draws first: what is drawn must not depend on the clock)
			wanted, edgeNo, offNo := r.Chance(70), r.Intn(6), r.Intn(3)
			if sleepLeft <= 0 || !wanted {
				return
			}
			exp := t.exp
			if refreshTok {
				exp = t.rtExp
			}
			if exp.IsZero() {
				return
			}
			edges := []time.Time{exp}
			if !refreshTok && t.jwt {
				edges = append(edges, exp.Truncate(time.Second), exp.Add(t.skew).Truncate(time.Second))
			}
			e := edges[edgeNo%len(edges)]
			off, name := -40*time.Millisecond, "before"
			switch offNo {
			case 1:
				off, name = 2*time.Millisecond, "at"
			case 2:
				off, name = 45*time.Millisecond, "after"
			}
			d := time.Until(e.Add(off))
			if d <= 0 || d > sleepLeft {
				stats["edge-out-of-reach"]++
				return
			}
			time.Sleep(d)
			sleepLeft -= d
			stats["edge-"+name]++
		}

		subStat := func(t *c08Token, opName string) {
			if k := c08SubKind(t.subject); k != "plain" {
				stats["sub-"+k+"-at-"+opName]++
			}
		}
		var forceActor *c08Token // follow-ups: the token just revoked / logged out is presented as ACTOR of the next exchange
		var opUserinfo, opIntrospect, opExchange, opRefresh func(t *c08Token, after string)
		opUserinfo = func(t *c08Token, after string) {
			presented, label, variant := c08Forge(r, sy, cb, t)
			stats["presented-"+variant]++
			host, cross := hostFor(t, "userinfo", c08What(t, false))
			l := line("userinfo").S("tok", label).S("iss", cb.issuerOf(host)).B("cross", cross)
			cb.presentedKV(l, sy, presented, false)
			shapeKV(l, t)
			place(t, false)
			t0 := time.Now()
			resp := do(bed.Get("/userinfo", nil, presented), host)
			l.I("now0", t0.UnixNano()).I("now1", time.Now().UnixNano()).I("o.status", int64(resp.Status))
			if resp.Status == 200 && resp.JSON != nil {
				if s, ok := resp.JSON["sub"].(string); ok {
					l.S("o.sub", s)
				}
			}
			if resp.Status >= 200 && resp.Status < 300 {
				// the claims the answer carries (names of the members of its JSON body; a body that is no JSON object counts as one claim)
				claims := []string{}
				if resp.JSON != nil {
					for k := range resp.JSON {
						claims = append(claims, k)
					}
					sort.Strings(claims)
				} else if len(strings.TrimSpace(string(resp.Body))) > 0 {
					claims = append(claims, "?")
				}
				l.L("o.claims", claims)
			}
			if resp.Panicked {
				l.S("obs", "panic")
			}
			subStat(t, "userinfo")
			stats["op-userinfo"]++
			if after != "" {
				stats["after-"+after+"-userinfo"]++
			}
			emit(l)
		}
		opIntrospect = func(t *c08Token, after string) {
			presented, label, variant := c08Forge(r, sy, cb, t)
			stats["presented-"+variant]++
			caller := hx.Pick(r, byID[t.client], byID[t.client], byID["web2"], byID["pub"], byID["pk"])
			host, cross := hostFor(t, "introspect", c08What(t, false))
			l := line("introspect").S("tok", label).S("iss", cb.issuerOf(host)).B("cross", cross)
			kind := cb.presentedKV(l, sy, presented, false)
			if caller == nil || (caller.key != nil && (issMode != "static" || kind != "decrypts")) {
				// a private_key_jwt caller needs the line's token keys for its assertion (and a static audience): use a secret client instead
				caller = byID["web"]
			}
			shapeKV(l, t)
			auth := flowAuth(r, sy, l, caller, cls)
			if ttl != "short" {
				waitClearOfSecondEdge()
			}
			place(t, false)
			t0 := time.Now()
			resp := do(bed.Form("/oauth/introspect", url.Values{"token": {presented}}, auth), host)
			l.I("now0", t0.UnixNano()).I("now1", time.Now().UnixNano()).I("o.status", int64(resp.Status))
			active := false
			var members []string
			if resp.JSON != nil {
				if a, ok := resp.JSON["active"].(bool); ok {
					active = a
				}
				for k := range resp.JSON {
					members = append(members, k)
				}
				sort.Strings(members)
			}
			l.B("o.active", active)
			if resp.Status == 200 {
				l.L("o.members", members)
			}
			if resp.Panicked {
				l.S("obs", "panic")
			}
			subStat(t, "introspect")
			stats["op-introspect"]++
			if after != "" {
				stats["after-"+after+"-introspect"]++
			}
			emit(l)
		}
		opExchange = func(t *c08Token, after string) {
			asRefresh := t.refresh != "" && (after == "revoke-rt" || r.Chance(35))
			presented, label, stype := t.access, t.label, "access"
			if asRefresh {
				presented, label, stype = t.refresh, t.rtLabel, "refresh"
			} else {
				var variant string
				presented, label, variant = c08Forge(r, sy, cb, t)
				stats["presented-"+variant]++
			}
			host, cross := hostFor(t, "exchange", c08What(t, asRefresh))
			f := url.Values{"grant_type": {string(oidc.GrantTypeTokenExchange)}, "subject_token": {presented},
				"subject_token_type": {string(oidc.AccessTokenType)}, "requested_token_type": {string(oidc.AccessTokenType)}}
			if asRefresh {
				f.Set("subject_token_type", string(oidc.RefreshTokenType))
			}
			// some exchanges ask for scopes: the token they issue then carries claims at userinfo
			if exScope := hx.Pick(r, "", "", "", "openid", "openid profile"); exScope != "" {
				f.Set("scope", exScope)
				stats["exchange-scope-"+strings.ReplaceAll(exScope, " ", "+")]++
			}
			l := line("exchange").S("tok", label).S("stype", stype).S("iss", cb.issuerOf(host)).B("cross", cross)
			cb.presentedKV(l, sy, presented, asRefresh)
			shapeKV(l, t)
			// delegation: an ACTOR token next to the subject token - an opaque access token of this provider whose liveness is
			// independent of the subject's (live / revoked / expired / session terminated / rotated away), half of the time a dead one
			// (all draws first: which tokens are dead depends on the clock, what is drawn must not)
			withActor, preferDead, pickNo, garbageActor := r.Chance(35), r.Chance(50), int(r.U64()>>1), r.Chance(12)
			if forceActor != nil || withActor {
				a := forceActor
				if a == nil {
					var opaque, dead []*c08Token
					for _, c := range toks {
						if !c.jwt {
							opaque = append(opaque, c)
							if !bed.Store.TokenLive(c.id) {
								dead = append(dead, c)
							}
						}
					}
					if len(dead) > 0 && preferDead {
						a = dead[pickNo%len(dead)]
					} else if len(opaque) > 0 {
						a = opaque[pickNo%len(opaque)]
					}
				}
				if forceActor == nil && garbageActor {
					// an actor token that is no token of this provider at all
					f.Set("actor_token", "garbage-actor-token")
					f.Set("actor_token_type", string(oidc.AccessTokenType))
					l.S("atok", "").S("a.raw", "garbage-actor-token")
					stats["exchange-actor-garbage"]++
				} else if a != nil && !a.jwt {
					if plain, err := crypto.DecryptAES(a.access, string(cb.CryptoKey[:])); err == nil {
						f.Set("actor_token", a.access)
						f.Set("actor_token_type", string(oidc.AccessTokenType))
						l.S("atok", a.label).S("a.raw", c08Raw(a.access)).S("a.plain", plain)
						state := "live"
						if !bed.Store.TokenLive(a.id) {
							state = "dead"
						}
						stats["exchange-actor-"+state]++
						if a.host != host {
							stats["exchange-actor-other-issuer"]++
						}
					}
				}
			}
			clear := func() {}
			if asRefresh {
				clear, _ = withFault(l, false, "TokenRequestByRefreshToken")
			}
			place(t, asRefresh)
			t0 := time.Now()
			resp := do(bed.Form("/oauth/token", f, ownAuth(sy, byID["web"])), host)
			l.I("now0", t0.UnixNano()).I("now1", time.Now().UnixNano())
			clear()
			l.I("o.status", int64(resp.Status)).B("o.success", resp.Status == 200 && resp.Str("access_token") != "").S("o.err", resp.OAuthError())
			if resp.Panicked {
				l.S("obs", "panic")
			}
			subStat(t, "exchange")
			stats["op-exchange-"+stype]++
			if after != "" {
				stats["after-"+after+"-exchange-"+stype]++
			}
			emit(l)
			// the access token a token exchange issues is a token of this provider like any other: from now on it is used, revoked and
			// tampered with like the ones of the code flow (only when it names a registered user: an exchange accepted on a tampered
			// subject token - F-C08a - takes the garbled subject from it, and the reference storage knows no such user)
			if resp.Status == 200 && resp.Str("access_token") != "" {
				ids := bed.Store.TokenIDs()
				if rec := bed.Store.Token(ids[len(ids)-1]); rec != nil && slices.Contains(subjects, rec.Subject) {
					register(resp, host, false, "exchange")
					stats["op-issue-by-exchange"]++
				}
			}
		}
		opRefresh = func(t *c08Token, after string) {
			if t.refresh == "" {
				opUserinfo(t, after)
				return
			}
			owner := byID[t.client]
			host, cross := hostFor(t, "refresh", "rt")
			f := url.Values{"grant_type": {"refresh_token"}, "refresh_token": {t.refresh}}
			l := line("refresh").S("tok", t.rtLabel).S("iss", cb.issuerOf(host)).B("cross", cross)
			cb.presentedKV(l, sy, t.refresh, true)
			shapeKV(l, t)
			clear, _ := withFault(l, false, "TokenRequestByRefreshToken")
			place(t, true)
			t0 := time.Now()
			resp := do(bed.Form("/oauth/token", f, ownAuth(sy, owner)), host)
			l.I("now0", t0.UnixNano()).I("now1", time.Now().UnixNano())
			clear()
			ok := resp.Status == 200 && resp.Str("access_token") != ""
			rotated := ok && resp.Str("refresh_token") != "" && resp.Str("refresh_token") != t.refresh
			l.I("o.status", int64(resp.Status)).B("o.success", ok).B("o.rotated", rotated).S("o.err", resp.OAuthError())
			if resp.Panicked {
				l.S("obs", "panic")
			}
			stats["op-refresh"]++
			if after != "" {
				stats["after-"+after+"-refresh"]++
			}
			emit(l)
			if ok {
				if rotated {
					t.gone = true
				}
				register(resp, host, t.jwt, "refresh")
				stats["op-issue-by-refresh"]++
			}
		}

		// the token (just revoked / expired / logged out) as ACTOR of a delegation exchange whose subject is another token
		opExchangeAsActor := func(a *c08Token, after string) {
			if a.jwt {
				opExchange(a, after)
				return
			}
			forceActor = a
			opExchange(hx.Pick(r, live()...), after+"-as-actor")
			forceActor = nil
		}

		nops := 5 + r.Intn(maxOps)
		for oi := 0; oi < nops; oi++ {
			kind := r.Intn(15)
			if len(toks) == 0 {
				kind = 0
			}
			switch {
			case kind <= 1: // issue through a real code flow, at one of the issuers
				fc := issuers[r.Intn(len(issuers))]
				host := hosts[r.Intn(len(hosts))]
				sub := subjects[r.Intn(2)]
				if r.Chance(45) {
					sub = subjects[2+r.Intn(len(subjects)-2)]
				}
				redirect := fc.c.Redirects[0]
				q := url.Values{"client_id": {fc.c.ID}, "redirect_uri": {redirect}, "response_type": {"code"}, "scope": {"openid profile offline_access"}, "state": {"s"}}
				verifier := ""
				if fc.c.Auth == oidc.AuthMethodNone {
					verifier = "verifier-DDDDDDDDDDDDDDDDDDDDDDDDDDDDDDDDDDDDDDDDDDD"
					q.Set("code_challenge", oidc.NewSHACodeChallenge(verifier))
					q.Set("code_challenge_method", "S256")
				}
				resp := do(bed.Get("/authorize", q, ""), host)
				if resp.Loc == nil {
					continue
				}
				id := resp.Loc.Query().Get("authRequestID")
				bed.Store.CompleteAuthRequest(id, sub)
				cbk := do(bed.Get("/authorize/callback", url.Values{"id": {id}}, ""), host)
				if cbk.Loc == nil {
					continue
				}
				f := url.Values{"grant_type": {"authorization_code"}, "code": {cbk.Loc.Query().Get("code")}, "redirect_uri": {redirect}}
				if verifier != "" {
					f.Set("code_verifier", verifier)
				}
				tr := do(bed.Form("/oauth/token", f, ownAuth(sy, fc)), host)
				if tr.Status != 200 {
					continue
				}
				register(tr, host, fc.c.TokenType == op.AccessTokenTypeJWT, "code")
				stats["op-issue"]++
				stats["sub-"+c08SubKind(sub)]++
			case kind == 2: // expire an access or a refresh token
				t := hx.Pick(r, live()...)
				if o.expiryByClaim && t.jwt && t.refresh == "" {
					opUserinfo(t, "")
					continue
				}
				if t.refresh != "" && (r.Chance(40) || (o.expiryByClaim && t.jwt)) {
					bed.Store.ExpireToken(cb.st.inner(t.refresh))
					emit(line("expire").S("label", t.rtLabel).S("id", t.refresh).S("kind", "rt"))
					stats["op-expire-rt"]++
				} else {
					bed.Store.ExpireToken(t.id)
					emit(line("expire").S("label", t.label).S("id", t.id).S("kind", "at"))
					stats["op-expire-at"]++
					if r.Chance(50) {
						switch r.Intn(3) {
						case 0:
							opUserinfo(t, "expire")
						case 1:
							opIntrospect(t, "expire")
						default:
							opExchangeAsActor(t, "expire")
						}
					}
				}
			case kind <= 4:
				opUserinfo(hx.Pick(r, live()...), "")
			case kind <= 6:
				opIntrospect(hx.Pick(r, live()...), "")
			case kind <= 9: // revocation of an access or a refresh token; afterwards the tokens of that grant are used again
				t := hx.Pick(r, live()...)
				asRefresh := t.refresh != "" && r.Chance(50)
				presented, label, what := t.access, t.label, "at"
				if asRefresh {
					presented, label, what = t.refresh, t.rtLabel, "rt"
					if r.Chance(8) {
						presented, label = "garbage-refresh-token", ""
					}
				} else {
					var variant string
					presented, label, variant = c08Forge(r, sy, cb, t)
					stats["presented-"+variant]++
				}
				who, caller := "owner", byID[t.client]
				switch r.Intn(8) {
				case 0, 1:
					who, caller = "foreign", byID["web2"]
					if t.client == "web2" {
						caller = byID["web"]
					}
				case 2:
					who, caller = "public", byID["pub"]
					if t.client == "pub" {
						who = "owner"
					}
				}
				f := url.Values{"token": {presented}}
				hint, hintName := hx.Pick(r, "", "access_token", "refresh_token", "bogus"), "garbage"
				switch hint {
				case "":
					hintName = "absent"
				case "access_token":
					hintName = "at"
				case "refresh_token":
					hintName = "rt"
				}
				if hint != "" {
					f.Set("token_type_hint", hint)
				}
				stats["revoke-"+what+"-hint-"+hintName]++
				stats["revoke-"+what+"-by-"+who]++
				stats["revoke-"+what+"-hint-"+hintName+"-"+who]++
				host, cross := hostFor(t, "revoke", c08What(t, asRefresh)) // at another issuer the token is unknown: 200, nothing happens
				l := line("revoke").S("tok", label).S("what", what).S("hint", hint).S("who", who).S("iss", cb.issuerOf(host)).B("cross", cross)
				cb.presentedKV(l, sy, presented, asRefresh)
				shapeKV(l, t)
				auth := flowAuth(r, sy, l, caller, cls)
				if ttl != "short" {
					waitClearOfSecondEdge()
				}
				// is the genuine access token usable right now (does userinfo at its own issuer honour the string)
				probe := func() bool { return do(bed.Get("/userinfo", nil, presented), t.host).Status == 200 }
				genuineAT := !asRefresh && label != ""
				if genuineAT {
					l.B("o.usable", probe())
				}
				clear, faulted := withFault(l, false, "RevokeToken", "RevokeToken", "GetRefreshTokenInfo")
				t0 := time.Now()
				resp := do(bed.Form("/revoke", f, auth), host)
				clear()
				l.I("now0", t0.UnixNano()).I("now1", time.Now().UnixNano()).I("o.status", int64(resp.Status))
				performed := false
				for _, j := range resp.Journal {
					if strings.HasPrefix(j, "RevokeToken(") {
						performed = true
					}
				}
				l.B("o.performed", performed).L("journal", resp.Journal)
				if label != "" {
					// ground truth after the request: does the storage still hold the token as usable
					if asRefresh {
						l.B("o.effect", bed.Store.Refresh(cb.st.inner(t.refresh)) == nil)
					} else {
						// the storage no longer holds it as usable - or the provider does not honour the string (any more)
						l.B("o.effect", !bed.Store.TokenLive(t.id) || !probe())
					}
				}
				if resp.Panicked {
					l.S("obs", "panic")
				}
				subStat(t, "revoke")
				stats["op-revoke"]++
				emit(l)
				if asRefresh && label != "" && who == "owner" && hint == "access_token" && resp.Status == 200 && !cross {
					t.rtRevokedWithATHint = true
				}
				// afterwards: the refresh grant, token exchange with the refresh / access token as subject, userinfo, introspection
				if faulted || r.Chance(75) {
					after := "revoke-" + what
					for k := 1 + r.Intn(3); k > 0; k-- {
						switch r.Intn(5) {
						case 0:
							opRefresh(t, after)
						case 1:
							opExchange(t, after)
						case 2:
							opUserinfo(t, after)
						case 3:
							opExchangeAsActor(t, after)
						default:
							opIntrospect(t, after)
						}
						if t.gone {
							break
						}
					}
				}
			case kind == 10: // logout with the id token as hint (at the issuer that made it)
				t := hx.Pick(r, live()...)
				if t.idToken == "" {
					opUserinfo(t, "")
					continue
				}
				hint := t.idToken
				if r.Chance(45) {
					// an EXPIRED but validly signed ID token of this provider is still a valid logout hint
					now := time.Now().Unix()
					claims, _ := json.Marshal(map[string]any{"iss": cb.issuerOf(t.host), "sub": t.subject, "aud": []string{t.client}, "azp": t.client,
						"exp": now - 3600, "iat": now - 7200, "auth_time": now - 7200})
					if exp, err := sy.sign(bed.SignKey, bed.Cfg.SignAlg, "sig1", claims); err == nil {
						hint = exp
						stats["endsession-expired-hint"]++
					}
				}
				el := line("endsession").S("sub", t.subject).S("client", t.client).S("iss", cb.issuerOf(t.host))
				sy.tokenKV(el, hint)
				// a storage fault at the call that ends the session (mostly the one this storage is asked through)
				effective, other := "TerminateSession", "TerminateSessionFromRequest"
				if o.termFromReq {
					effective, other = other, effective
				}
				clear, faulted := withFault(el, false, effective, effective, effective, effective, effective, other)
				nTerm := len(bed.Store.Terminated)
				t0 := time.Now()
				resp := do(bed.Get("/end_session", url.Values{"id_token_hint": {hint}}, ""), t.host)
				clear()
				// terminated: the storage was asked to end THIS session and did so (a failed call has ended nothing)
				terminated := false
				if tt := bed.Store.Terminated; len(tt) > nTerm && tt[len(tt)-1] == [2]string{t.subject, t.client} {
					terminated = true
				}
				emit(el.I("now0", t0.UnixNano()).I("now1", time.Now().UnixNano()).
					I("o.status", int64(resp.Status)).B("o.terminated", terminated).L("journal", resp.Journal))
				stats["op-endsession"]++
				if faulted || r.Chance(60) {
					switch r.Intn(4) {
					case 0:
						opRefresh(t, "logout")
					case 1:
						opUserinfo(t, "logout")
					case 2:
						opExchangeAsActor(t, "logout")
					default:
						opExchange(t, "logout")
					}
				}
			case kind <= 12:
				opExchange(hx.Pick(r, live()...), "")
			default:
				opRefresh(hx.Pick(r, live()...), "")
			}
		}
	}
	return stats
}

func c08What(t *c08Token, asRefresh bool) string {
	switch {
	case asRefresh:
		return "rt"
	case t.jwt:
		return "jwt"
	}
	return "opaque"
}

// c08Forge picks the presented access-token string: genuine (label = the token's label) or one of several forgeries (label "")
func c08Forge(r *hx.Rand, sy *symbols, cb *c08Bed, t *c08Token) (presented, label, variant string) {
	now := time.Now().Unix()
	jwtClaims := func(iss string, exp int64) []byte {
		b, _ := json.Marshal(map[string]any{"iss": iss, "sub": t.subject, "aud": []string{t.client}, "exp": exp, "iat": now - 5, "nbf": now - 5, "jti": t.id, "client_id": t.client})
		return b
	}
	switch r.Intn(14) {
	case 0: // bit flip in the middle of the string
		b := []byte(t.access)
		if len(b) > 10 {
			i := 5 + r.Intn(len(b)-10)
			if t.jwt {
				// a JWT is tampered in its payload or signature (a changed protected header is C02's subject), and never in the last
				// character of a segment: its unused bits would give a different string for the same bytes
				first := strings.IndexByte(t.access, '.')
				for i <= first || b[i] == '.' || i+1 == len(b) || b[i+1] == '.' {
					i = first + 1 + r.Intn(len(b)-first-2)
				}
			}
			if b[i] == 'A' {
				b[i] = 'B'
			} else {
				b[i] = 'A'
			}
		}
		return string(b), "", "bitflip"
	case 1:
		return "garbage", "", "garbage"
	case 2: // re-encrypted under another key: "id:sub" of a live token, but not sealed by this provider
		enc, _ := crypto.EncryptAES(t.id+":"+t.subject, "0123456789abcdef0123456789abcdef")
		return enc, "", "reencrypted"
	case 3: // JWT access token of the right shape signed by a foreign key
		forged, _ := sy.sign(hx.Keys()[1], "RS256", "sig1", jwtClaims(cb.issuerOf(t.host), now+300))
		return forged, "", "foreignkey-jwt"
	case 4: // signed with the provider's own key and naming a live token, but EXPIRED
		tok, _ := sy.sign(cb.SignKey, cb.Cfg.SignAlg, "sig1", jwtClaims(cb.issuerOf(t.host), now-3600))
		return tok, "", "expired-jwt"
	case 5: // signed with the provider's own key, unexpired, but naming an issuer this provider does not serve
		tok, _ := sy.sign(cb.SignKey, cb.Cfg.SignAlg, "sig1", jwtClaims("https://evil.example", now+300))
		return tok, "", "otherissuer-jwt"
	}
	if t.jwt {
		return t.access, t.label, "genuine-jwt"
	}
	return t.access, t.label, "genuine-opaque"
}
