package main

import (
	"bufio"
	"fmt"
	"net/url"
	"sort"
	"strings"
	"time"

	"github.com/zitadel/oidc/v3/pkg/crypto"
	"github.com/zitadel/oidc/v3/pkg/oidc"
	"github.com/zitadel/oidc/v3/pkg/op"

	"verifharness/internal/hx"
	"verifharness/internal/opbed"
	"verifharness/internal/refstore"
)

func init() { streams["C08"] = c08Stream }

type c08Token struct {
	label, id, client, subject string
	access, refresh, idToken   string
	jwt                        bool
}

// presentedKV classifies a presented access-token string for the model: what Decrypt makes of it
// (really decrypted with the provider's key, so malleability is exercised) or whether it is one of
// the provider's own JWT access tokens.
func presentedKV(l *hx.Line, bed *opbed.Bed, tok string, genuineJWT *c08Token) {
	if plain, err := crypto.DecryptAES(tok, string(bed.CryptoKey[:])); err == nil {
		l.S("p.kind", "decrypts").S("p.plain", plain)
		return
	}
	if genuineJWT != nil && tok == genuineJWT.access {
		l.S("p.kind", "jwt").S("p.jti", genuineJWT.id).S("p.sub", genuineJWT.subject)
		return
	}
	l.S("p.kind", "nothing")
}

func c08Stream(r *hx.Rand, tier string, n int, w *bufio.Writer) map[string]int {
	if n == 0 {
		n = 250
		if tier == "thorough" {
			n = 5000
		}
	}
	stats := map[string]int{}
	sy := newSymbols()
	caseNo := 0
	emit := func(l *hx.Line) {
		fmt.Fprintln(w, l.String())
		caseNo++
	}
	maxOps := 16
	if tier == "thorough" {
		maxOps = 40
	}
	for h := 0; h < n; h++ {
		router := hx.Pick(r, "provider", "legacy")
		cfg := opbed.Config{Router: router, S256: true, Post: true, PrivateKeyJWT: true, Refresh: true, Caps: refstore.Caps{CC: true, TE: true, Device: true}}
		bed, err := opbed.New(cfg)
		if err != nil {
			panic(err)
		}
		cls := flowClients()
		webjwt := opbed.WebClient("webjwt", "secret-jwt", "https://rp.example/cb")
		webjwt.TokenType = op.AccessTokenTypeJWT
		cls = append(cls, &flowClient{c: webjwt})
		for _, fc := range cls {
			bed.Store.AddClient(fc.c)
		}
		bed.Store.AddUser("user1", nil)
		bed.Store.AddUser("user2", nil)
		byID := map[string]*flowClient{}
		for _, fc := range cls {
			byID[fc.c.ID] = fc
		}
		l := hx.NewLine("C08").I("case", int64(caseNo)).S("op", "reset").S("router", router).S("issuer", opbed.Issuer)
		clientsKV(l, cls)
		emit(l)
		var toks []*c08Token
		issuers := []*flowClient{byID["web"], byID["web"], byID["webjwt"], byID["web2"], byID["pub"]}
		nops := 5 + r.Intn(maxOps)
		for o := 0; o < nops; o++ {
			kind := r.Intn(12)
			if len(toks) == 0 {
				kind = 0
			}
			switch {
			case kind <= 1: // issue through a real code flow
				fc := issuers[r.Intn(len(issuers))]
				sub := hx.Pick(r, "user1", "user2")
				redirect := fc.c.Redirects[0]
				q := url.Values{"client_id": {fc.c.ID}, "redirect_uri": {redirect}, "response_type": {"code"}, "scope": {"openid profile offline_access"}, "state": {"s"}}
				verifier := ""
				if fc.c.Auth == oidc.AuthMethodNone {
					verifier = "verifier-DDDDDDDDDDDDDDDDDDDDDDDDDDDDDDDDDDDDDDDDDDD"
					q.Set("code_challenge", oidc.NewSHACodeChallenge(verifier))
					q.Set("code_challenge_method", "S256")
				}
				resp := bed.Do(bed.Get("/authorize", q, ""))
				if resp.Loc == nil {
					continue
				}
				id := resp.Loc.Query().Get("authRequestID")
				bed.Store.CompleteAuthRequest(id, sub)
				cb := bed.Do(bed.Get("/authorize/callback", url.Values{"id": {id}}, ""))
				if cb.Loc == nil {
					continue
				}
				f := url.Values{"grant_type": {"authorization_code"}, "code": {cb.Loc.Query().Get("code")}, "redirect_uri": {redirect}}
				if verifier != "" {
					f.Set("code_verifier", verifier)
				}
				tr := bed.Do(bed.Form("/oauth/token", f, ownAuth(sy, fc)))
				if tr.Status != 200 {
					continue
				}
				ids := bed.Store.TokenIDs()
				rec := bed.Store.Token(ids[len(ids)-1])
				t := &c08Token{label: fmt.Sprintf("t%d", len(toks)+1), id: rec.ID, client: rec.ClientID, subject: rec.Subject,
					access: tr.Str("access_token"), refresh: tr.Str("refresh_token"), idToken: tr.Str("id_token"), jwt: fc.c.TokenType == op.AccessTokenTypeJWT}
				toks = append(toks, t)
				aud := append([]string{}, rec.Audience...)
				sort.Strings(aud)
				l := hx.NewLine("C08").I("case", int64(caseNo)).S("op", "issue").S("label", t.label).S("id", t.id).S("client", t.client).
					S("sub", t.subject).L("aud", rec.Audience).B("jwt", t.jwt)
				stats["op-issue"]++
				emit(l)
			case kind == 2: // expire
				t := toks[r.Intn(len(toks))]
				bed.Store.ExpireToken(t.id)
				emit(hx.NewLine("C08").I("case", int64(caseNo)).S("op", "expire").S("label", t.label).S("id", t.id))
				stats["op-expire"]++
			default:
				t := toks[r.Intn(len(toks))]
				// the presented string: genuine, or one of several forgeries
				presented, genuine := t.access, t
				switch r.Intn(10) {
				case 0: // bit flip in the middle of the string
					b := []byte(presented)
					if len(b) > 10 {
						i := 5 + r.Intn(len(b)-10)
						if b[i] == 'A' {
							b[i] = 'B'
						} else {
							b[i] = 'A'
						}
					}
					presented, genuine = string(b), nil
				case 1:
					presented, genuine = "garbage", nil
				case 2: // re-encrypted under another key: "id:sub" of a live token, but not sealed by this provider
					enc, _ := crypto.EncryptAES(t.id+":"+t.subject, "0123456789abcdef0123456789abcdef")
					presented, genuine = enc, nil
				case 3: // JWT access token of the right shape signed by a foreign key
					claims := fmt.Sprintf(`{"iss":"%s","sub":"%s","aud":["%s"],"exp":%d,"iat":%d,"jti":"%s"}`, opbed.Issuer, t.subject, t.client, time.Now().Unix()+300, time.Now().Unix()-5, t.id)
					forged, _ := hx.Sign(hx.Keys()[1], "RS256", "sig1", []byte(claims))
					presented, genuine = forged, nil
				}
				label := ""
				if genuine != nil {
					label = genuine.label
				}
				var jwtTok *c08Token
				if genuine != nil && genuine.jwt {
					jwtTok = genuine
				}
				switch {
				case kind <= 4: // userinfo
					l := hx.NewLine("C08").I("case", int64(caseNo)).S("op", "userinfo").S("tok", label)
					presentedKV(l, bed, presented, jwtTok)
					resp := bed.Do(bed.Get("/userinfo", nil, presented))
					l.I("o.status", int64(resp.Status))
					if resp.Status == 200 && resp.JSON != nil {
						if s, ok := resp.JSON["sub"].(string); ok {
							l.S("o.sub", s)
						}
					}
					if resp.Panicked {
						l.S("obs", "panic")
					}
					stats["op-userinfo"]++
					emit(l)
				case kind <= 6: // introspection
					caller := hx.Pick(r, byID[t.client], byID[t.client], byID["web2"], byID["pub"], byID["pk"])
					if caller == nil {
						caller = byID["web"]
					}
					l := hx.NewLine("C08").I("case", int64(caseNo)).S("op", "introspect").S("tok", label)
					presentedKV(l, bed, presented, jwtTok)
					auth := flowAuth(r, sy, l, caller, cls)
					waitClearOfSecondEdge()
					t0 := time.Now()
					resp := bed.Do(bed.Form("/oauth/introspect", url.Values{"token": {presented}}, auth))
					l.I("now0", t0.UnixNano()).I("now1", time.Now().UnixNano()).I("o.status", int64(resp.Status))
					active := false
					var members []string
					if resp.JSON != nil {
						if a, ok := resp.JSON["active"].(bool); ok {
							active = a
						}
						for k := range resp.JSON {
							members = append(members, k)
						}
						sort.Strings(members)
					}
					l.B("o.active", active)
					if resp.Status == 200 {
						l.L("o.members", members)
					}
					if resp.Panicked {
						l.S("obs", "panic")
					}
					stats["op-introspect"]++
					emit(l)
				case kind <= 8: // revocation
					caller := hx.Pick(r, byID[t.client], byID[t.client], byID["web2"], byID["pub"])
					if caller == nil {
						caller = byID["web"]
					}
					f := url.Values{"token": {presented}}
					if hint := hx.Pick(r, "", "", "access_token", "refresh_token", "bogus"); hint != "" {
						f.Set("token_type_hint", hint)
					}
					l := hx.NewLine("C08").I("case", int64(caseNo)).S("op", "revoke").S("tok", label).S("hint", f.Get("token_type_hint"))
					presentedKV(l, bed, presented, jwtTok)
					auth := flowAuth(r, sy, l, caller, cls)
					waitClearOfSecondEdge()
					t0 := time.Now()
					resp := bed.Do(bed.Form("/revoke", f, auth))
					l.I("now0", t0.UnixNano()).I("now1", time.Now().UnixNano()).I("o.status", int64(resp.Status))
					performed := false
					for _, j := range resp.Journal {
						if strings.HasPrefix(j, "RevokeToken(") {
							performed = true
						}
					}
					l.B("o.performed", performed).L("journal", resp.Journal)
					if resp.Panicked {
						l.S("obs", "panic")
					}
					stats["op-revoke"]++
					emit(l)
				case kind == 9 && genuine != nil && genuine.idToken != "": // logout with the id token as hint
					hint := genuine.idToken
					if r.Chance(45) {
						// an EXPIRED but validly signed ID token of this provider is still a valid logout hint
						now := time.Now().Unix()
						claims := fmt.Sprintf(`{"iss":"%s","sub":"%s","aud":["%s"],"azp":"%s","exp":%d,"iat":%d,"auth_time":%d}`,
							opbed.Issuer, genuine.subject, genuine.client, genuine.client, now-3600, now-7200, now-7200)
						if exp, err := hx.Sign(bed.SignKey, bed.Cfg.SignAlg, "sig1", []byte(claims)); err == nil {
							hint = exp
							stats["endsession-expired-hint"]++
						}
					}
					q := url.Values{"id_token_hint": {hint}}
					resp := bed.Do(bed.Get("/end_session", q, ""))
					terminated := false
					for _, j := range resp.Journal {
						if strings.HasPrefix(j, "TerminateSession("+genuine.subject+","+genuine.client) {
							terminated = true
						}
					}
					l := hx.NewLine("C08").I("case", int64(caseNo)).S("op", "endsession").S("sub", genuine.subject).S("client", genuine.client).
						I("o.status", int64(resp.Status)).B("o.terminated", terminated).L("journal", resp.Journal)
					stats["op-endsession"]++
					emit(l)
				default: // token exchange with the access token as subject token
					caller := byID["web"]
					f := url.Values{"grant_type": {string(oidc.GrantTypeTokenExchange)}, "subject_token": {presented},
						"subject_token_type": {string(oidc.AccessTokenType)}, "requested_token_type": {string(oidc.AccessTokenType)}}
					l := hx.NewLine("C08").I("case", int64(caseNo)).S("op", "exchange").S("tok", label)
					presentedKV(l, bed, presented, jwtTok)
					resp := bed.Do(bed.Form("/oauth/token", f, ownAuth(sy, caller)))
					l.I("o.status", int64(resp.Status)).B("o.success", resp.Status == 200 && resp.Str("access_token") != "").S("o.err", resp.OAuthError())
					if resp.Panicked {
						l.S("obs", "panic")
					}
					stats["op-exchange"]++
					emit(l)
				}
			}
		}
	}
	return stats
}
