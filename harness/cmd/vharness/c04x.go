package main

// deep3-C04: additions to the C04 history stream that live outside flow.go (which C07 shares):
//   * c04xPrepare     - per history, some registrations issue JWT access tokens (op.AccessTokenTypeJWT) instead of opaque ones;
//   * c04xTokenObs    - every single token of a token response is decoded and described on the line: the ID token's payload
//                       (o.idt.*), the access token (o.at.*: a JWT's own claims; an opaque token is decrypted with the provider's
//                       key to "<token id>:<subject>" and resolved in the storage), the refresh token's record (o.rt*, as before);
//   * c04xScenarios   - scripted openings (see there).

import (
	"context"
	"errors"
	"fmt"
	"net/http"
	"net/http/httptest"
	"net/url"
	"strings"
	"sync"
	"time"

	"encoding/json"

	"github.com/zitadel/oidc/v3/pkg/oidc"
	"github.com/zitadel/oidc/v3/pkg/op"

	"verifharness/internal/hx"
	"verifharness/internal/opbed"
	"verifharness/internal/refstore"
)

// c04xPrepare: access-token type per registration (about a third JWT)
func c04xPrepare(r *hx.Rand, cls []*flowClient, stats map[string]int) {
	for _, fc := range cls {
		if r.Chance(35) {
			fc.c.TokenType = op.AccessTokenTypeJWT
			stats["registrations-with-jwt-access-tokens"]++
		}
	}
}

// c04xTokenObs describes the single tokens of a successful token response
func c04xTokenObs(bed *opbed.Bed, l *hx.Line, resp *opbed.Resp) {
	if idt := resp.Str("id_token"); idt != "" {
		if m, ok := opbed.DecodeJWT(idt); ok {
			sub, _ := m["sub"].(string)
			azp, _ := m["azp"].(string)
			nonce, _ := m["nonce"].(string)
			client := azp
			if client == "" { // no azp: a single audience names the client
				switch aud := m["aud"].(type) {
				case string:
					client = aud
				case []any:
					if len(aud) == 1 {
						client, _ = aud[0].(string)
					}
				}
			}
			l.S("o.idt.sub", sub).S("o.idt.client", client).S("o.idt.nonce", nonce)
		}
	}
	at := resp.Str("access_token")
	if at == "" {
		return
	}
	if m, ok := opbed.DecodeJWT(at); ok {
		// a JWT access token carries subject and client itself; its scopes are those of the record its jti names
		sub, _ := m["sub"].(string)
		cid, _ := m["client_id"].(string)
		l.S("o.at.kind", "jwt").S("o.at.sub", sub).S("o.at.client", cid)
		if jti, _ := m["jti"].(string); jti != "" {
			if rec := bed.Store.Token(jti); rec != nil {
				l.L("o.at.scopes", rec.Scopes)
				if rec.Subject != sub || rec.ClientID != cid {
					l.S("o.at.record", rec.Subject+"|"+rec.ClientID) // claims and record disagree (the monitor sees the claims)
				}
			}
		}
		return
	}
	// opaque: AES-sealed "<token id>:<subject>"
	plain, err := bed.Provider.Crypto().Decrypt(at)
	if err != nil {
		l.S("o.at.kind", "undecodable")
		return
	}
	id, sub, _ := strings.Cut(plain, ":")
	l.S("o.at.kind", "opaque").S("o.at.sub", sub)
	if rec := bed.Store.Token(id); rec != nil {
		l.S("o.at.client", rec.ClientID).L("o.at.scopes", rec.Scopes)
		if rec.Subject != sub {
			l.S("o.at.record", rec.Subject+"|"+rec.ClientID)
		}
	} else {
		l.S("o.at.client", "")
	}
}

// ---------------------------------------------------------------- scripted openings

type c04xCtx struct {
	prop, tier string
	r          *hx.Rand
	bed        *opbed.Bed
	sy         *symbols
	cls        []*flowClient
	byID       map[string]*flowClient
	stats      map[string]int
	gate       *c04xGate
	emit       func(*hx.Line)
	caseNo     *int
	doLogin    func(id string)
	doCallback func(id string, keepPending bool) *issuedCode
	// round 4c: a presented verifier that IS the SHA-256 challenge of a known verifier v is written "S256(v)" on the line (c04ro.go)
	verifierSym map[string]string
}

func (x *c04xCtx) symV(v string) string {
	if s, ok := x.verifierSym[v]; ok {
		return s
	}
	return v
}

// pkce describes the PKCE part of an authorization request: what is sent, and how the model sees it
type c04xPKCE struct {
	verifier  string // what the client will present ("" = no PKCE)
	challenge string // code_challenge as sent
	method    string // code_challenge_method as sent
	sendM     bool   // send the method parameter at all
}

func c04xMakePKCE(r *hx.Rand, kind string) c04xPKCE {
	verifiers := []string{
		"v",                                           // 1 character (RFC 7636 asks for 43..128; the library has no length rule)
		"verifier-AAAAAAAAAAAAAAAAAAAAAAAAAAAAAAAAAAAAAAAAAAA", // 52
		strings.Repeat("a-._~Z9", 19),                 // 133 characters of the unreserved set
		strings.Repeat("x", 200),                      // longer than the RFC allows
		"with space+plus%25percent&amp=eq",            // characters outside the RFC's set
		"vérifier-ünicode-κωδικός",                    // multi-byte UTF-8
	}
	v := verifiers[r.Intn(len(verifiers))]
	switch kind {
	case "s256":
		return c04xPKCE{verifier: v, challenge: oidc.NewSHACodeChallenge(v), method: "S256", sendM: true}
	case "plain":
		return c04xPKCE{verifier: v, challenge: v, method: "plain", sendM: true}
	case "method-absent": // a challenge without code_challenge_method: compared as plain
		return c04xPKCE{verifier: v, challenge: v, method: "", sendM: false}
	case "method-empty":
		return c04xPKCE{verifier: v, challenge: v, method: "", sendM: true}
	case "method-unknown": // e.g. "s256": not S256, hence plain - the SHA-256 challenge can only be met by presenting the challenge string itself
		return c04xPKCE{verifier: v, challenge: oidc.NewSHACodeChallenge(v), method: "s256", sendM: true}
	}
	return c04xPKCE{}
}

// c04xAuthorize: an authorization request built here (own PKCE), described like flow.go's authorize lines
func (x *c04xCtx) authorize(fc *flowClient, scopes string, pk c04xPKCE) (id, redirect string) {
	r := x.r
	redirect = fc.c.Redirects[r.Intn(len(fc.c.Redirects))]
	nonce := hx.Pick(r, "", "n-1", "n-2")
	q := url.Values{"client_id": {fc.c.ID}, "redirect_uri": {redirect}, "response_type": {"code"}, "scope": {scopes}, "state": {"st"}}
	if nonce != "" {
		q.Set("nonce", nonce)
	}
	if pk.challenge != "" {
		q.Set("code_challenge", pk.challenge)
		if pk.sendM {
			q.Set("code_challenge_method", pk.method)
		}
	}
	resp := x.bed.Do(x.bed.Get("/authorize", q, ""))
	l := hx.NewLine(x.prop).I("case", int64(*x.caseNo)).S("op", "authorize").S("client", fc.c.ID).S("redirect", redirect).
		L("scopes", strings.Split(scopes, " ")).S("nonce", nonce).S("state", "st")
	if pk.challenge != "" {
		sym := pk.challenge
		if pk.method == "S256" {
			sym = "S256(" + pk.verifier + ")"
		}
		l.S("chal.m", pk.method).S("chal.c", sym)
	}
	if resp.Loc != nil && strings.HasPrefix(resp.Loc.Path, "/login") {
		id = resp.Loc.Query().Get("authRequestID")
	}
	if id != "" {
		l.S("obs", "login").S("o.id", id)
		if ar := x.bed.Store.GetAuthRequest(id); ar != nil {
			l.S("o.presub", ar.Subject)
		}
	} else {
		l.S("obs", "err").I("o.status", int64(resp.Status))
		if resp.Loc != nil {
			l.S("o.error", resp.Loc.Query().Get("error"))
		} else {
			l.S("o.error", resp.OAuthError())
		}
	}
	x.stats["op-authorize"]++
	x.stats["authorize-by-"+regName(fc.c)]++
	x.emit(l)
	return id, redirect
}

// credentials of a caller that authenticates CORRECTLY as itself (basic / post / id-only; assertion clients mint a fresh valid assertion)
func (x *c04xCtx) auth(l *hx.Line, pfx string, caller *flowClient) opbed.Auth {
	c := caller.c
	l.S(pfx+"caller", c.ID)
	switch c.Auth {
	case oidc.AuthMethodNone:
		l.S(pfx+"auth", "id-only").S(pfx+"cid", c.ID)
		return opbed.Auth{Kind: "id-only", ID: c.ID}
	case oidc.AuthMethodPrivateKeyJWT:
		now := time.Now().Unix()
		tok := assertion(x.sy, l, caller.key, caller.kid, c.ID, c.ID, []string{opbed.Issuer}, now-5, now+300)
		l.S(pfx+"auth", "assertion")
		return opbed.Auth{Kind: "assertion", Assertion: tok}
	case oidc.AuthMethodPost:
		l.S(pfx+"auth", "post").S(pfx+"cid", c.ID).S(pfx+"secret", c.Secret)
		return opbed.Auth{Kind: "post", ID: c.ID, Secret: c.Secret}
	}
	l.S(pfx+"auth", "basic").S(pfx+"cid", c.ID).S(pfx+"secret", c.Secret)
	return opbed.Auth{Kind: "basic", ID: c.ID, Secret: c.Secret}
}

// respObs describes a token response on the line; the access token is resolved to ITS record (not to the newest one: under a
// concurrent schedule another handler may have created a token in between)
func (x *c04xCtx) respObs(l *hx.Line, resp *opbed.Resp) {
	switch {
	case resp.Panicked:
		l.S("obs", "panic")
	case resp.Status == 200 && resp.Str("access_token") != "":
		l.S("obs", "ok")
		at := resp.Str("access_token")
		id := ""
		if m, ok := opbed.DecodeJWT(at); ok {
			id, _ = m["jti"].(string)
		} else if plain, err := x.bed.Provider.Crypto().Decrypt(at); err == nil {
			id, _, _ = strings.Cut(plain, ":")
		}
		if rec := x.bed.Store.Token(id); rec != nil {
			l.S("o.sub", rec.Subject).S("o.client", rec.ClientID).L("o.scopes", rec.Scopes).L("o.aud", rec.Audience)
		}
		if idt := resp.Str("id_token"); idt != "" {
			if m, ok := opbed.DecodeJWT(idt); ok {
				if s, _ := m["nonce"].(string); s != "" {
					l.S("o.nonce", s)
				}
				if s, _ := m["sub"].(string); s != "" {
					l.S("o.idsub", s)
				}
				if s, _ := m["azp"].(string); s != "" {
					l.S("o.azp", s)
				}
			}
		}
		if rt := resp.Str("refresh_token"); rt != "" {
			l.S("o.rt", rt)
			if rec := x.bed.Store.Refresh(rt); rec != nil {
				l.L("o.rtscopes", rec.Scopes).S("o.rtclient", rec.ClientID).S("o.rtsub", rec.Subject).I("o.rtauthtime", rec.AuthTime.Unix()).L("o.rtaud", rec.Audience)
			}
		}
		c04xTokenObs(x.bed, l, resp)
	default:
		l.S("obs", "err").S("o.err", resp.OAuthError()).I("o.status", int64(resp.Status))
	}
	l.L("journal", resp.Journal)
}

// exchange: one code exchange by a correctly authenticating caller; failAt > 0: the failAt-th storage call of the request fails
func (x *c04xCtx) exchange(codeStr, codeLabel, redirect, verifier string, caller *flowClient, failAt int) *opbed.Resp {
	form := url.Values{"grant_type": {"authorization_code"}, "code": {codeStr}, "redirect_uri": {redirect}}
	if verifier != "" {
		form.Set("code_verifier", verifier)
	}
	l := hx.NewLine(x.prop).I("case", int64(*x.caseNo)).S("op", "exchange").S("code", codeLabel).S("redirect", redirect).S("verifier", x.symV(verifier))
	auth := x.auth(l, "", caller)
	before := x.bed.Store.RefreshTokens()
	if failAt > 0 {
		x.bed.Store.FailAt(failAt, errors.New("injected storage failure"))
	}
	waitClearOfSecondEdge()
	t0 := time.Now()
	resp := x.bed.Do(x.bed.Form("/oauth/token", form, auth))
	t1 := time.Now()
	x.bed.Store.ClearFaults()
	l.I("now0", t0.UnixNano()).I("now1", t1.UnixNano())
	if failAt > 0 {
		if len(resp.Journal) >= failAt {
			// the fault fired: the failing call is the failAt-th of this request
			call := resp.Journal[failAt-1]
			method, _, _ := strings.Cut(call, "(")
			at := method
			switch method {
			case "CreateAccessToken", "CreateAccessAndRefreshTokens":
				at = "createTokens"
			case "GetPrivateClaimsFromScopes", "GetPrivateClaimsFromRequest":
				at = "in:CreateAccessToken"
			case "SetUserinfoFromScopes", "SetUserinfoFromRequest":
				at = "in:CreateIDToken"
			case "SigningKey":
				// the JWT access token is signed before the ID token: the first SigningKey call of a JWT client belongs to CreateAccessToken
				first := true
				for _, c := range resp.Journal[:failAt-1] {
					if strings.HasPrefix(c, "SigningKey(") {
						first = false
					}
				}
				if caller.c.TokenType == op.AccessTokenTypeJWT && first {
					at = "in:CreateAccessToken"
				} else {
					at = "in:CreateIDToken"
				}
			case "DeleteAuthRequest":
				at = "in:DeleteAuthRequest"
			}
			l.S("fault.at", at).I("fault.k", int64(failAt)).S("fault.method", method)
			x.stats["fault-at-"+method]++
			x.stats["fault-at-index-"+fmt.Sprint(failAt)]++
			if resp.Status == 200 {
				x.stats["fault-ANSWERED-WITH-TOKENS"]++
			}
		} else {
			x.stats["fault-index-beyond-journal"]++
		}
	}
	x.respObs(l, resp)
	if resp.Status != 200 && !resp.Panicked {
		for _, tok := range x.bed.Store.RefreshTokens() {
			if !containsStr(before, tok) {
				if rec := x.bed.Store.Refresh(tok); rec != nil {
					l.S("o.minted", tok).L("o.rtscopes", rec.Scopes).S("o.rtclient", rec.ClientID).S("o.rtsub", rec.Subject).
						I("o.rtauthtime", rec.AuthTime.Unix()).L("o.rtaud", rec.Audience)
					x.stats["exchange-left-orphan-refresh-token"]++
				}
				break
			}
		}
	}
	x.stats["op-exchange"]++
	x.stats["exchange-"+obsClass(resp)]++
	x.stats["exchange-by-"+regName(caller.c)+"-"+obsClass(resp)]++
	x.emit(l)
	return resp
}

func (x *c04xCtx) eligible(pred func(*flowClient) bool) []*flowClient {
	var out []*flowClient
	for _, fc := range x.cls {
		if containsStr(grantStrings(fc.c.Grants), "authorization_code") && pred(fc) {
			out = append(out, fc)
		}
	}
	return out
}

func c04xScenarios(x *c04xCtx) {
	r := x.r
	// (1) a storage fault at the k-th storage call of a code exchange, k = 1 .. journal length + 1: whichever call it hits, no
	// tokens; the client retries with the same code (must succeed exactly once), then replays it (must fail)
	if r.Chance(30) {
		el := x.eligible(func(*flowClient) bool { return true })
		fc := el[r.Intn(len(el))]
		pk := c04xPKCE{}
		if fc.c.Auth == oidc.AuthMethodNone || r.Chance(40) {
			pk = c04xMakePKCE(r, hx.Pick(r, "s256", "plain"))
		}
		if id, redirect := x.authorize(fc, hx.Pick(r, "openid", "openid offline_access", "openid email offline_access profile"), pk); id != "" {
			x.doLogin(id)
			if ic := x.doCallback(id, false); ic != nil {
				x.stats["scripted-fault-at-index"]++
				nFaults := 1 + r.Intn(2)
				for i := 0; i < nFaults; i++ {
					x.exchange(ic.real, ic.label, redirect, pk.verifier, fc, 1+r.Intn(10))
				}
				x.exchange(ic.real, ic.label, redirect, pk.verifier, fc, 0)
				x.exchange(ic.real, ic.label, redirect, pk.verifier, fc, 0)
			}
		}
	}
	// (2) redirect_uri near-misses: everything right except a redirect_uri that a lenient comparison would accept
	if r.Chance(20) {
		el := x.eligible(func(*flowClient) bool { return true })
		sibling := r.Chance(40) // a client with several registered redirect URIs presents ANOTHER of its own URIs
		if sibling {
			el = x.eligible(func(fc *flowClient) bool { return len(fc.c.Redirects) > 1 })
		}
		fc := el[r.Intn(len(el))]
		pk := c04xPKCE{}
		if fc.c.Auth == oidc.AuthMethodNone {
			pk = c04xMakePKCE(r, "s256")
		}
		if id, redirect := x.authorize(fc, "openid", pk); id != "" {
			x.doLogin(id)
			if ic := x.doCallback(id, false); ic != nil {
				x.stats["scripted-redirect-near-miss"]++
				for i := 0; i < 2; i++ {
					kind := hx.Pick(r, "trailing-slash", "upper-scheme", "upper-host", "pct-encoded-path", "empty-query", "fragment", "trailing-space", "default-port", "dot-segment", "registered-sibling")
					if sibling && i == 0 {
						kind = "registered-sibling"
					}
					near := redirect
					u, _ := url.Parse(redirect)
					switch kind {
					case "trailing-slash":
						near = redirect + "/"
					case "upper-scheme":
						near = strings.ToUpper(u.Scheme) + redirect[len(u.Scheme):]
					case "upper-host":
						near = strings.Replace(redirect, u.Host, strings.ToUpper(u.Host), 1)
					case "pct-encoded-path":
						near = redirect[:len(redirect)-1] + fmt.Sprintf("%%%02X", redirect[len(redirect)-1])
					case "empty-query":
						near = redirect + "?"
					case "fragment":
						near = redirect + "#"
					case "trailing-space":
						near = redirect + " "
					case "default-port":
						if u.Scheme == "https" {
							near = strings.Replace(redirect, u.Host, u.Host+":443", 1)
						} else {
							near = redirect + "/"
						}
					case "dot-segment":
						near = strings.Replace(redirect, u.Host+"/", u.Host+"/./", 1)
					case "registered-sibling": // another URI registered for the SAME client, not the one of this request
						for _, o := range fc.c.Redirects {
							if o != redirect {
								near = o
							}
						}
						if near == redirect {
							near = redirect + "/"
						}
					}
					x.stats["redirect-near-miss-"+kind]++
					if resp := x.exchange(ic.real, ic.label, near, pk.verifier, fc, 0); resp.Status == 200 {
						x.stats["redirect-near-miss-GOT-TOKENS"]++
					}
				}
				x.exchange(ic.real, ic.label, redirect, pk.verifier, fc, 0)
			}
		}
	}
	// (3) PKCE edge cases: plain / S256 / challenge without method / empty method / unknown method; verifiers of 1..200 characters,
	// outside the RFC's character set, multi-byte; near-miss verifiers first, the right one last
	if r.Chance(30) {
		el := x.eligible(func(*flowClient) bool { return true })
		fc := el[r.Intn(len(el))]
		kind := hx.Pick(r, "s256", "plain", "method-absent", "method-empty", "method-unknown")
		pk := c04xMakePKCE(r, kind)
		if id, redirect := x.authorize(fc, hx.Pick(r, "openid", "openid offline_access"), pk); id != "" {
			x.doLogin(id)
			if ic := x.doCallback(id, false); ic != nil {
				x.stats["scripted-pkce-edge"]++
				x.stats["pkce-"+kind]++
				x.stats[fmt.Sprintf("pkce-verifier-len-%d", len(pk.verifier))]++
				v := pk.verifier
				for i := 0; i < 2; i++ {
					nk := hx.Pick(r, "absent", "appended", "truncated", "case", "challenge-itself", "s256-of-verifier", "trailing-space", "pct-encoded")
					near := ""
					switch nk {
					case "appended":
						near = v + "x"
					case "truncated":
						near = v[:len(v)-1]
					case "case":
						near = strings.ToUpper(v)
						if near == v {
							near = strings.ToLower(v)
						}
					case "challenge-itself":
						near = pk.challenge
					case "s256-of-verifier":
						near = oidc.NewSHACodeChallenge(v)
					case "trailing-space":
						near = v + " "
					case "pct-encoded":
						near = fmt.Sprintf("%%%02X", v[0]) + v[1:]
					}
					// the presented string is right after all in a few combinations (plain: the challenge IS the verifier;
					// an unknown method: the challenge string itself is what must be presented) - the model and the monitor decide
					x.stats["pkce-near-miss-"+nk]++
					if resp := x.exchange(ic.real, ic.label, redirect, near, fc, 0); resp.Status == 200 {
						x.stats["pkce-near-miss-"+nk+"-accepted"]++
					}
				}
				x.exchange(ic.real, ic.label, redirect, v, fc, 0)
			}
		}
	}
	// (5) code near-misses: strings that are NOT the code but that a lookup by another key, a prefix match or a case-insensitive
	// comparison would accept - the id of the authorization request (disclosed in the login redirect), the code with a character
	// appended / dropped / in the other case, the callback's `state`, the client id; then the right code
	if r.Chance(15) {
		el := x.eligible(func(fc *flowClient) bool { return fc.c.Auth != oidc.AuthMethodNone })
		fc := el[r.Intn(len(el))]
		if id, redirect := x.authorize(fc, "openid", c04xPKCE{}); id != "" {
			x.doLogin(id)
			if ic := x.doCallback(id, false); ic != nil {
				x.stats["scripted-code-near-miss"]++
				for i := 0; i < 2; i++ {
					kind := hx.Pick(r, "request-id", "appended", "truncated", "other-case", "state", "client-id", "pct-encoded")
					near := ""
					switch kind {
					case "request-id":
						near = id
					case "appended":
						near = ic.real + "A"
					case "truncated":
						near = ic.real[:len(ic.real)-1]
					case "other-case":
						near = strings.ToUpper(ic.real)
						if near == ic.real {
							near = strings.ToLower(ic.real)
						}
					case "state":
						near = "st"
					case "client-id":
						near = fc.c.ID
					case "pct-encoded":
						near = fmt.Sprintf("%%%02X", ic.real[0]) + ic.real[1:]
					}
					label := "garbage"
					if kind == "request-id" || kind == "client-id" || kind == "state" {
						label = near // short identifiers the model knows in other roles: none of them is a code
					}
					x.stats["code-near-miss-"+kind]++
					if near == ic.real {
						continue
					}
					if resp := x.exchange(near, label, redirect, "", fc, 0); resp.Status == 200 {
						x.stats["code-near-miss-GOT-TOKENS"]++
					}
				}
				x.exchange(ic.real, ic.label, redirect, "", fc, 0)
			}
		}
	}
	// (4) two exchanges served concurrently under a chosen interleaving of their storage calls
	if r.Chance(25) {
		x.race()
	}
}

// ---------------------------------------------------------------- concurrent schedules

type c04xHandlerKey struct{}

// c04xGate wraps the storage of a C04 history.  Idle it passes every call through.  During a race it parks a handler at each of
// its three storage-relevant calls (AuthRequestByCode, CreateAccessToken / CreateAccessAndRefreshTokens, DeleteAuthRequest)
// until the scheduler releases it, so that exactly one handler runs at any time; with `strict` set, DeleteAuthRequest is an
// atomic consume: it fails when the request is not stored (any more).
type c04xGate struct {
	op.Storage
	st      *refstore.Store
	mu      sync.Mutex
	racing  bool
	strict  bool
	gen     int // deep4-C04: number of the race in progress
	ev      chan c04xEvent
	release [3]chan struct{}
}

type c04xEvent struct {
	h        int
	finished bool
	resp     *opbed.Resp // deep4-C04: the answer travels with the `finished` event
}

func newC04xGate() *c04xGate { return &c04xGate{} }

func (g *c04xGate) wrap(s op.Storage) op.Storage {
	g.Storage = s
	return g
}

func (g *c04xGate) park(ctx context.Context) {
	g.mu.Lock()
	racing := g.racing
	g.mu.Unlock()
	if !racing {
		return
	}
	hv, _ := ctx.Value(c04xHandlerKey{}).([2]int)
	g.mu.Lock()
	gen, evc := g.gen, g.ev
	g.mu.Unlock()
	h := hv[1]
	if h == 0 || hv[0] != gen { // not a participant of THIS race (deep4-C04: e.g. an abandoned handler of an earlier one)
		return
	}
	rel := g.release[h]
	evc <- c04xEvent{h: h}
	<-rel
}

func (g *c04xGate) AuthRequestByCode(ctx context.Context, code string) (op.AuthRequest, error) {
	g.park(ctx)
	return g.Storage.AuthRequestByCode(ctx, code)
}

func (g *c04xGate) CreateAccessToken(ctx context.Context, request op.TokenRequest) (string, time.Time, error) {
	g.park(ctx)
	return g.Storage.CreateAccessToken(ctx, request)
}

func (g *c04xGate) CreateAccessAndRefreshTokens(ctx context.Context, request op.TokenRequest, currentRefreshToken string) (string, string, time.Time, error) {
	g.park(ctx)
	return g.Storage.CreateAccessAndRefreshTokens(ctx, request, currentRefreshToken)
}

func (g *c04xGate) DeleteAuthRequest(ctx context.Context, id string) error {
	g.park(ctx)
	g.mu.Lock()
	strict := g.strict
	g.mu.Unlock()
	if strict && g.st != nil && g.st.GetAuthRequest(id) == nil {
		// only one handler runs at a time during a race, and a sequential history has one handler: test-and-delete is atomic here
		return errors.New("auth request already consumed")
	}
	return g.Storage.DeleteAuthRequest(ctx, id)
}

type c04xRaceReq struct {
	codeStr, codeLabel, redirect, verifier string
	caller                                  *flowClient
	secret                                  string // deep4-C04: "" = the caller's own secret; otherwise the (wrong) secret presented
	line                                    *hx.Line
	auth                                    opbed.Auth
	resp                                    *opbed.Resp
	hung                                    bool // deep4-C04: the handler never answered (the harness gave up on it)
}

// deep4-C04: how long the scheduler waits for a stepped handler to reach its next storage call or its end before it declares it
// BLOCKED ON THE OTHER HANDLER (which is parked in the gate at that moment).  The unchanged library never blocks, so the
// patience is only ever used up by code that makes one exchange wait for another (a per-code lock, an in-flight group, ...);
// generous at first (a loaded machine must not look like a block), short once blocking has been seen a few times.
var c04xBlocksSeen int

func c04xPatience() time.Duration {
	if c04xBlocksSeen < 3 {
		return 2 * time.Second
	}
	return 300 * time.Millisecond
}

// authAs describes and builds the credentials of a race participant: the caller's own (x.auth), or - secret != "" - its client id
// with a WRONG secret (confidential clients; deep4-C04)
func (x *c04xCtx) authAs(l *hx.Line, pfx string, q *c04xRaceReq) opbed.Auth {
	c := q.caller.c
	if q.secret == "" || c.Auth == oidc.AuthMethodNone || c.Auth == oidc.AuthMethodPrivateKeyJWT {
		return x.auth(l, pfx, q.caller)
	}
	l.S(pfx+"caller", c.ID)
	if c.Auth == oidc.AuthMethodPost {
		l.S(pfx+"auth", "post").S(pfx+"cid", c.ID).S(pfx+"secret", q.secret)
		return opbed.Auth{Kind: "post", ID: c.ID, Secret: q.secret}
	}
	l.S(pfx+"auth", "basic").S(pfx+"cid", c.ID).S(pfx+"secret", q.secret)
	return opbed.Auth{Kind: "basic", ID: c.ID, Secret: q.secret}
}

// race: authorize + login + callback, then two exchanges at once under a random interleaving of (lookup, create, delete) x 2.
// Variants: the same code twice / two codes of one request / codes of two requests; storage contract strict / idempotent.
// deep4-C04: (1) the second request of a same-code pair is, more often than not, one that must be REFUSED on its own account - a
// foreign client authenticating correctly as itself (with the rightful redirect_uri and verifier, or with its own redirect_uri and
// none), the rightful client without / with a wrong code_verifier, with another redirect_uri, with a wrong secret; each of the
// two answers is judged against ITS OWN request.  (2) The scheduler survives a handler that BLOCKS on the other one: every step
// has a watchdog; a handler that neither reaches its next storage call nor finishes while the other one is parked is recorded as
// blocked, the other one is stepped on, and what the blocked one does once it is let go (events arrive whenever they arrive) is
// recorded as it happens.  The schedule written on the lines is the EFFECTIVE one: the storage-relevant steps in the order in
// which they completed.  No case can hang the harness: a handler that has not answered after the drain is written as `obs=hang`.
func (x *c04xCtx) race() {
	r := x.r
	el := x.eligible(func(fc *flowClient) bool { return fc.c.Auth != oidc.AuthMethodPrivateKeyJWT })
	fc := el[r.Intn(len(el))]
	variantWish := r.Intn(10)
	kind := "valid"
	if variantWish >= 2 && r.Chance(65) {
		kind = hx.Pick(r, "foreign-client", "foreign-client-own-redirect", "no-verifier", "wrong-verifier", "wrong-redirect", "wrong-secret")
	}
	if kind == "wrong-secret" {
		conf := x.eligible(func(fc *flowClient) bool {
			return fc.c.Auth != oidc.AuthMethodPrivateKeyJWT && fc.c.Auth != oidc.AuthMethodNone
		})
		if len(conf) == 0 {
			kind = "wrong-redirect"
		} else {
			fc = conf[r.Intn(len(conf))]
		}
	}
	pk := c04xPKCE{}
	if fc.c.Auth == oidc.AuthMethodNone || r.Chance(30) || kind == "no-verifier" || kind == "wrong-verifier" {
		pk = c04xMakePKCE(r, hx.Pick(r, "s256", "plain"))
	}
	scopes := hx.Pick(r, "openid", "openid offline_access")
	id, redirect := x.authorize(fc, scopes, pk)
	if id == "" {
		return
	}
	x.doLogin(id)
	ic := x.doCallback(id, true)
	if ic == nil {
		return
	}
	a := c04xRaceReq{codeStr: ic.real, codeLabel: ic.label, redirect: redirect, verifier: pk.verifier, caller: fc}
	b := a
	variant := "same-code"
	switch k := variantWish; {
	case k == 0: // a second callback: another code for the SAME request
		if ic2 := x.doCallback(id, false); ic2 != nil {
			b.codeStr, b.codeLabel = ic2.real, ic2.label
			variant = "two-codes-one-request"
		}
	case k == 1: // a second request of the same client
		if id2, redirect2 := x.authorize(fc, scopes, pk); id2 != "" {
			x.doLogin(id2)
			if ic2 := x.doCallback(id2, false); ic2 != nil {
				b.codeStr, b.codeLabel, b.redirect = ic2.real, ic2.label, redirect2
				variant = "two-requests"
			}
		}
	}
	// deep4-C04: the intruder's request (same code)
	switch kind {
	case "foreign-client", "foreign-client-own-redirect":
		others := x.eligible(func(o *flowClient) bool { return o.c.Auth != oidc.AuthMethodPrivateKeyJWT && o.c.ID != fc.c.ID })
		if len(others) == 0 {
			kind = "wrong-redirect"
			b.redirect = redirect + "/"
			break
		}
		b.caller = others[r.Intn(len(others))]
		if kind == "foreign-client-own-redirect" {
			b.redirect = b.caller.c.Redirects[r.Intn(len(b.caller.c.Redirects))]
			b.verifier = ""
		}
	case "no-verifier":
		b.verifier = ""
	case "wrong-verifier":
		b.verifier = hx.Pick(r, pk.verifier+"x", pk.challenge+"-", "another-verifier-AAAAAAAAAAAAAAAAAAAAAAAAAAAAAAAAAAAAAAAAA")
	case "wrong-redirect":
		b.redirect = redirect + "/"
		for _, o := range fc.c.Redirects {
			if o != redirect && r.Bool() {
				b.redirect = o
			}
		}
	case "wrong-secret":
		b.secret = fc.c.Secret + "-wrong"
	}
	strict := r.Bool()
	// a random interleaving: three slots for each handler
	sched := []int{1, 1, 1, 2, 2, 2}
	for i := len(sched) - 1; i > 0; i-- {
		j := r.Intn(i + 1)
		sched[i], sched[j] = sched[j], sched[i]
	}
	x.stats["scripted-race"]++
	x.stats["race-"+variant]++
	x.stats["race-second-request-"+kind]++

	g := x.gate
	g.st = x.bed.Store
	g.mu.Lock()
	g.racing, g.strict = true, strict
	g.gen++
	gen := g.gen
	g.ev = make(chan c04xEvent)
	g.release[1], g.release[2] = make(chan struct{}), make(chan struct{})
	g.mu.Unlock()

	reqs := [3]*c04xRaceReq{nil, &a, &b}
	for h := 1; h <= 2; h++ {
		q := reqs[h]
		q.line = hx.NewLine(x.prop)
		// the line is completed when the completion order is known; credentials are described now (an assertion is minted here)
		q.auth = x.authAs(hx.NewLine(x.prop), "", q)
	}
	waitClearOfSecondEdge()
	t0 := time.Now()
	state := [3]string{"", "new", "new"}
	journal := [3][]string{}
	mark := len(x.bed.Store.Journal())
	collect := func(h int) {
		j := x.bed.Store.Journal()
		if mark <= len(j) {
			journal[h] = append(journal[h], j[mark:]...)
		}
		mark = len(j)
	}
	var order []int
	ev := g.ev
	serve := func(h int) {
		q := reqs[h]
		form := url.Values{"grant_type": {"authorization_code"}, "code": {q.codeStr}, "redirect_uri": {q.redirect}}
		if q.verifier != "" {
			form.Set("code_verifier", q.verifier)
		}
		req := x.bed.Form("/oauth/token", form, q.auth)
		req = req.WithContext(context.WithValue(req.Context(), c04xHandlerKey{}, [2]int{gen, h}))
		w := httptest.NewRecorder()
		out := &opbed.Resp{}
		func() {
			defer func() {
				if p := recover(); p != nil {
					out.Panicked, out.PanicValue = true, p
				}
			}()
			x.bed.Handler.ServeHTTP(w, req)
		}()
		out.Status, out.Header, out.Body = w.Code, w.Header(), w.Body.Bytes()
		var m map[string]any
		if json.Unmarshal(out.Body, &m) == nil {
			out.JSON = m
		}
		ev <- c04xEvent{h: h, finished: true, resp: out}
	}
	var (
		released [3]bool // a storage call of h was let through and its completion (the next park / the end) has not been seen yet
		parks    [3]int  // how often h has arrived at the gate
		eff      []int   // the EFFECTIVE schedule: storage-relevant steps in the order in which they completed
		blocked  []string
	)
	process := func(e c04xEvent) {
		collect(e.h)
		// a step of the model's handler: a storage call that was let through has completed, or the handler ended without ever
		// reaching the gate (refused - or answered - before its lookup)
		if released[e.h] || (e.finished && parks[e.h] == 0) {
			eff = append(eff, e.h)
		}
		released[e.h] = false
		if e.finished {
			reqs[e.h].resp = e.resp
			state[e.h] = "finished"
			order = append(order, e.h)
		} else {
			parks[e.h]++
			state[e.h] = "parked"
		}
	}
	// await: the next event of handler h (events of the other handler - one that was blocked and has been let go - are taken as
	// they come); false = nothing from h within d
	await := func(h int, d time.Duration) bool {
		timer := time.NewTimer(d)
		defer timer.Stop()
		for {
			select {
			case e := <-ev:
				process(e)
				if e.h == h {
					return true
				}
			case <-timer.C:
				return false
			}
		}
	}
	markBlocked := func(h int, where string) {
		if state[h] != "blocked" {
			c04xBlocksSeen++
			blocked = append(blocked, fmt.Sprintf("%d@%s:other-%s", h, where, state[3-h]))
			x.stats["race-handler-blocked-"+where+"-while-other-"+state[3-h]]++
		}
		state[h] = "blocked"
	}
	release := func(h int, where string) {
		state[h] = "running"
		released[h] = true
		g.release[h] <- struct{}{}
		if !await(h, c04xPatience()) {
			markBlocked(h, where)
		}
	}
	// one slot of the schedule = one storage-relevant step of that handler.  A handler starts at its first slot: it runs up to its
	// first gate (on the Server router the client is authenticated before it - reads of registrations, which do not change) and
	// straight on through the lookup to the next gate; a handler that is refused before the lookup finishes in that slot.
	step := func(h int) {
		switch state[h] {
		case "new":
			state[h] = "running"
			go serve(h)
			if !await(h, c04xPatience()) {
				markBlocked(h, "before-lookup")
				return
			}
			if state[h] == "parked" {
				release(h, "in-lookup")
			}
		case "parked":
			release(h, fmt.Sprintf("after-park-%d", parks[h]))
		case "blocked":
			// still waiting for the other handler?  (its event may be pending)
			if await(h, 20*time.Millisecond) && state[h] == "parked" {
				release(h, fmt.Sprintf("after-park-%d", parks[h]))
			}
		}
	}
	for _, h := range sched {
		step(h)
	}
	// drain: the first, then the second handler to its end; a handler that is blocked on the other one gets its turn again
	for round := 0; round < 4 && len(order) < 2; round++ {
		for _, h := range []int{1, 1, 1, 1, 2, 2, 2, 2} {
			if len(order) == 2 {
				break
			}
			step(h)
		}
	}
	t1 := time.Now()
	g.mu.Lock()
	g.racing, g.strict = false, false
	g.mu.Unlock()
	for h := 1; h <= 2; h++ {
		if state[h] != "finished" { // never answered: neither judged nor waited for any longer (the goroutine is abandoned)
			reqs[h].hung, reqs[h].resp = true, &opbed.Resp{}
			order = append(order, h)
			x.stats["race-HANDLER-HUNG"]++
		}
	}
	first, second := order[0], order[1]
	// the schedule in terms of the handler that finished first (A) and the other one (B)
	ab := func(h int) string {
		if h == first {
			return "A"
		}
		return "B"
	}
	var schedAB, blockedAB []string
	for _, h := range eff {
		schedAB = append(schedAB, ab(h))
	}
	for _, bl := range blocked {
		blockedAB = append(blockedAB, ab(int(bl[0]-'0'))+bl[1:])
	}
	okBoth := 0
	for n, h := range []int{first, second} {
		q, other := reqs[h], reqs[3-h]
		q.resp.Journal = journal[h]
		l := hx.NewLine(x.prop).I("case", int64(*x.caseNo)).S("op", "exchange").S("code", q.codeLabel).S("redirect", q.redirect).S("verifier", q.verifier)
		x.authAs(l, "", q) // describes the same credentials again (secret clients; assertion clients are excluded from races)
		l.I("now0", t0.UnixNano()).I("now1", t1.UnixNano())
		l.S("conc", variant).B("conc.strict", strict).L("conc.sched", schedAB).S("conc.kind", kind)
		l.I("conc.nblocked", int64(len(blockedAB)))
		if len(blockedAB) > 0 {
			l.L("conc.blocked", blockedAB)
		}
		if n == 0 {
			l.S("c2.code", other.codeLabel).S("c2.redirect", other.redirect).S("c2.verifier", other.verifier)
			x.authAs(l, "c2.", other)
		} else {
			l.B("conc.second", true)
		}
		if q.hung {
			l.S("obs", "hang").L("journal", q.resp.Journal)
		} else {
			x.respObs(l, q.resp)
		}
		if q.resp.Status == 200 {
			okBoth++
			if h == 2 && kind != "valid" {
				x.stats["race-REFUSABLE-REQUEST-GOT-TOKENS"]++
			}
		}
		x.stats["op-exchange"]++
		x.stats["exchange-"+obsClass(q.resp)]++
		x.emit(l)
	}
	contract := "idempotent-delete"
	if strict {
		contract = "strict-delete"
	}
	x.stats[fmt.Sprintf("race-%s-%s-%d-ok", variant, contract, okBoth)]++
	if kind != "valid" {
		x.stats[fmt.Sprintf("race-second-%s-%d-ok", kind, okBoth)]++
	}
	// afterwards, sequentially: the code(s) again
	x.exchange(a.codeStr, a.codeLabel, a.redirect, a.verifier, fc, 0)
}

var _ http.Handler // (net/http is used by httptest's request type)
