package main

// C12, second part of the stream: the tolerant decoders on generic JSON documents (language tags, locales lists,
// audience, time, bool, space-delimited arrays, display), standalone and inside claims documents, with the decode ->
// encode -> decode round trip.  Each line carries the document as a token list (`j`), the answers the real libraries
// gave (oracles: x/text/language, time.Parse, encoding/json on the tag) and what the real decoder answered.

import (
	"crypto/aes"
	"crypto/cipher"
	"encoding/base64"
	"encoding/hex"
	"encoding/json"
	"errors"
	"fmt"
	"math"
	"math/big"
	"sort"
	"strconv"
	"strings"
	"time"

	"github.com/zitadel/oidc/v3/pkg/crypto"
	"github.com/zitadel/oidc/v3/pkg/oidc"
	"golang.org/x/text/language"

	"verifharness/internal/hx"
)

// ---- generic JSON value -> token list (prefix notation, read back by Drv.C12.parseJ)

func f64Tok(x float64) string {
	nan := x != x
	if nan || math.IsInf(x, 0) {
		return "d:0:0:1"
	}
	fl := math.Floor(x)
	frac := fl != x
	bf := new(big.Float).SetFloat64(fl)
	bi, _ := bf.Int(nil)
	return fmt.Sprintf("d:%s:%s:0", bi.String(), map[bool]string{true: "1", false: "0"}[frac])
}

func jTokens(v any, out []string) []string {
	switch x := v.(type) {
	case nil:
		return append(out, "n")
	case bool:
		if x {
			return append(out, "t")
		}
		return append(out, "f")
	case float64:
		return append(out, f64Tok(x))
	case string:
		return append(out, "s:"+x)
	case []any:
		out = append(out, "[")
		for _, e := range x {
			out = jTokens(e, out)
		}
		return append(out, "]")
	case map[string]any:
		out = append(out, "{")
		keys := make([]string, 0, len(x))
		for k := range x {
			keys = append(keys, k)
		}
		sort.Strings(keys)
		for _, k := range keys {
			out = append(out, "k:"+k)
			out = jTokens(x[k], out)
		}
		return append(out, "}")
	}
	return append(out, "n")
}

func docTokens(text string) ([]string, any, bool) {
	var v any
	if err := json.Unmarshal([]byte(text), &v); err != nil {
		return nil, nil, false
	}
	return jTokens(v, nil), v, true
}

// ---- language tags

var (
	langKnown     = []string{"de", "en", "fr", "zh", "sr", "pt", "es", "gsw", "iw", "sh", "tlh", "ja", "nl", "it", "und", "mul"}
	langUnknown   = []string{"gb", "xx", "qz", "xyy", "jp"}
	scriptKnown   = []string{"Latn", "Cyrl", "Hant", "Hans", "Arab", "Zzzz"}
	scriptUnknown = []string{"Aaaa", "Qqqq", "Abcd"}
	regionKnown   = []string{"US", "DE", "CH", "TW", "GB", "419", "001", "AT", "ZZ"}
	regionUnknown = []string{"XJ", "999", "QB"}
	variantKnown  = []string{"1996", "rozaj", "oxendict", "1901", "biske"}
	variantUnk    = []string{"foobar1", "12345", "abcde", "1a2b"}
	extKnown      = []string{"u-ca-gregory", "u-co-phonebk", "x-private", "a-bbb", "t-en", "u-nu-latn"}
	extOdd        = []string{"t-jp", "u-", "x-", "u-ca-foobar12", "t-xx"}
	tagIllFormed  = []string{"", "x", "de-", "-de", "de--DE", "a-b-c-d", "en US", "abcdefghi", "12", "de-1", "de-DE-", "déu", "en-US\n", "en,de", "de-DE-DE-DE-x", "i", "1996", "-"}
	tagFixed      = []string{"de", "en-US", "de-AAAA", "en-US-foobar1", "fr-12345", "gb", "und", "Und", "EN-us", "zh-hant-TW", "de_DE", "i-klingon", "en-GB-oed", "art-lojban",
		"en-t-jp", "de-CH-1996", "sr-Cyrl-RS", "es-419", "und-Latn", "en-001"}
)

func caseVary(r *hx.Rand, s string) string {
	switch r.Intn(6) {
	case 0:
		return strings.ToUpper(s)
	case 1:
		return strings.ToLower(s)
	}
	return s
}

func genTag(r *hx.Rand) string {
	if r.Chance(12) {
		return tagFixed[r.Intn(len(tagFixed))]
	}
	if r.Chance(10) {
		return tagIllFormed[r.Intn(len(tagIllFormed))]
	}
	pick := func(known, unknown []string, pUnknown int) string {
		if r.Chance(pUnknown) {
			return unknown[r.Intn(len(unknown))]
		}
		return known[r.Intn(len(known))]
	}
	parts := []string{caseVary(r, pick(langKnown, langUnknown, 12))}
	if r.Chance(30) {
		parts = append(parts, caseVary(r, pick(scriptKnown, scriptUnknown, 25)))
	}
	if r.Chance(50) {
		parts = append(parts, caseVary(r, pick(regionKnown, regionUnknown, 20)))
	}
	if r.Chance(20) {
		parts = append(parts, caseVary(r, pick(variantKnown, variantUnk, 40)))
	}
	if r.Chance(15) {
		parts = append(parts, pick(extKnown, extOdd, 30))
	}
	sep := "-"
	if r.Chance(5) {
		sep = "_"
	}
	s := strings.Join(parts, sep)
	if r.Chance(4) {
		s += hx.Pick(r, "-", " ", "--x", "-ä")
	}
	return s
}

// tagClass: how x/text reads s without canonicalisation (what Tag.UnmarshalText does): valid / unknown / illformed
func tagClass(s string) (cls string, t language.Tag) {
	t, err := language.Raw.Parse(s)
	if err == nil {
		return "valid", t
	}
	var ve language.ValueError
	if errors.As(err, &ve) {
		return "unknown", t
	}
	return "illformed", t
}

func rootFlag(t language.Tag) string {
	if t.IsRoot() {
		return "1"
	}
	return "0"
}

// tagOracle adds, for every distinct string in ss: its class with the canonical tag (monitor) and what language.Parse
// answers (model of ParseLocales): e.s, e.cls, e.tag, e.root, e.perr, e.ptag, e.proot
func tagOracle(l *hx.Line, ss []string, stats map[string]int, prefix string) {
	seen := map[string]bool{}
	var es, cls, tags, roots, perr, ptag, proot []string
	for _, s := range ss {
		if seen[s] {
			continue
		}
		seen[s] = true
		c, t := tagClass(s)
		stats[prefix+"-tag-"+c]++
		es, cls, tags, roots = append(es, s), append(cls, c), append(tags, t.String()), append(roots, rootFlag(t))
		p, err := language.Parse(s)
		e := ""
		if err != nil {
			e = "other"
			var ve language.ValueError
			if errors.As(err, &ve) {
				e = "language.ValueError"
			}
		}
		perr, ptag, proot = append(perr, e), append(ptag, p.String()), append(proot, rootFlag(p))
	}
	l.L("e.s", es).L("e.cls", cls).L("e.tag", tags).L("e.root", roots).L("e.perr", perr).L("e.ptag", ptag).L("e.proot", proot)
}

// jsonTagOracle: what json.Unmarshal(text, &tag) does to a zero tag: jt.err ("" | language.ValueError | other), jt.s, jt.root
func jsonTagOracle(l *hx.Line, text string) {
	var t language.Tag
	err := json.Unmarshal([]byte(text), &t)
	e := ""
	if err != nil {
		e = "other"
		var ve language.ValueError
		if errors.As(err, &ve) {
			e = "language.ValueError"
		}
	}
	l.S("jt.err", e).S("jt.s", t.String()).S("jt.root", rootFlag(t))
}

func jsonStr(s string) string {
	b, _ := json.Marshal(s)
	return string(b)
}

func genLocaleDoc(r *hx.Rand) string {
	switch {
	case r.Chance(80):
		return jsonStr(genTag(r))
	case r.Chance(30):
		return "\"\\u0064e\"" // an escaped spelling of "de"
	default:
		return hx.Pick(r, `null`, `1`, `true`, `["de"]`, `{}`, `{"tag":"de"}`, `""`, `0`, `[]`, `"de" `)
	}
}

func genLocalesDoc(r *hx.Rand) string {
	n := hx.Pick(r, 0, 1, 1, 2, 2, 3, 4)
	tags := make([]string, n)
	for i := range tags {
		tags[i] = genTag(r)
		if strings.ContainsAny(tags[i], " ") && r.Chance(70) {
			tags[i] = "de"
		}
	}
	switch {
	case r.Chance(45):
		sep := " "
		if r.Chance(10) {
			sep = "  "
		}
		return jsonStr(strings.Join(tags, sep))
	case r.Chance(75):
		var arr []any
		for _, t := range tags {
			arr = append(arr, t)
		}
		if r.Chance(15) {
			arr = append(arr, hx.Pick[any](r, 1.0, nil, true, []any{"de"}, map[string]any{"a": "de"}))
			if r.Chance(50) && len(arr) > 1 {
				arr[0], arr[len(arr)-1] = arr[len(arr)-1], arr[0]
			}
		}
		if arr == nil {
			arr = []any{}
		}
		b, _ := json.Marshal(arr)
		return string(b)
	default:
		return hx.Pick(r, `null`, `1`, `true`, `{}`, `{"de":"en"}`, `1.5`, `false`)
	}
}

// ---- claims documents with a `locale` member

type localeDocCase struct {
	name     string
	base     map[string]any // registered members every document of this type carries (in the form the type re-encodes them)
	decode   func(doc []byte) (loc *oidc.Locale, reenc []byte, err error)
	regNames []string
}

var localeDocCases = []localeDocCase{
	{"UserInfo", map[string]any{"sub": "u1", "name": "N"}, func(doc []byte) (*oidc.Locale, []byte, error) {
		v := new(oidc.UserInfo)
		if err := json.Unmarshal(doc, v); err != nil {
			return nil, nil, err
		}
		out, err := json.Marshal(v)
		return v.Locale, out, err
	}, []string{"sub", "name", "email", "locale"}},
	{"IDTokenClaims", map[string]any{"iss": "https://op", "sub": "u1", "aud": []any{"rp"}, "exp": 1900000000.0, "iat": 1800000000.0, "name": "N"}, func(doc []byte) (*oidc.Locale, []byte, error) {
		v := new(oidc.IDTokenClaims)
		if err := json.Unmarshal(doc, v); err != nil {
			return nil, nil, err
		}
		out, err := json.Marshal(v)
		return v.Locale, out, err
	}, []string{"iss", "sub", "aud", "exp", "iat", "name", "email", "locale"}},
	{"IntrospectionResponse", map[string]any{"active": true, "sub": "u1", "client_id": "rp"}, func(doc []byte) (*oidc.Locale, []byte, error) {
		v := new(oidc.IntrospectionResponse)
		if err := json.Unmarshal(doc, v); err != nil {
			return nil, nil, err
		}
		out, err := json.Marshal(v)
		return v.Locale, out, err
	}, []string{"active", "sub", "client_id", "name", "email", "locale"}},
}

func c12CodecStream(r *hx.Rand, tier string, n int, w func(*hx.Line), caseNo func() int64, stats map[string]int) {
	out := func(l *hx.Line, obsErr error, panicked bool) {
		switch {
		case panicked:
			l.S("obs", "panic")
		case obsErr != nil:
			l.S("obs", "err")
		default:
			l.S("obs", "val")
		}
	}
	// ---- Locale, standalone (the fixed tags first, then generated ones)
	for i := 0; i < n/4+len(tagFixed); i++ {
		text := ""
		if i < len(tagFixed) {
			text = jsonStr(tagFixed[i])
		} else {
			text = genLocaleDoc(r)
		}
		toks, v, ok := docTokens(text)
		if !ok {
			continue
		}
		l := hx.NewLine("C12").I("case", caseNo()).S("kind", "locale").S("type", "Locale").L("j", toks).S("text", text).S("lit", strings.TrimSpace(text))
		if s, isStr := v.(string); isStr {
			tagOracle(l, []string{s}, stats, "locale")
		} else {
			stats["locale-nonstring"]++
			tagOracle(l, nil, stats, "locale")
		}
		jsonTagOracle(l, strings.TrimSpace(text))
		var loc oidc.Locale
		p, err := safeDecode(func() error { return json.Unmarshal([]byte(text), &loc) })
		out(l, err, p)
		if !p && err == nil {
			l.S("o.s", loc.Tag().String()).S("o.root", rootFlag(loc.Tag()))
		}
		w(l)
	}
	// ---- Locales (string and array form) through UnmarshalJSON, and the unquoted form through UnmarshalText
	for i := 0; i < n/4; i++ {
		text := genLocalesDoc(r)
		toks, v, ok := docTokens(text)
		if !ok {
			continue
		}
		form := "json"
		if s, isStr := v.(string); isStr && r.Chance(20) {
			form = "text"
			text = s
		}
		l := hx.NewLine("C12").I("case", caseNo()).S("kind", "locales").S("type", "Locales:"+form).L("j", toks).S("text", text)
		var entries []string
		switch x := v.(type) {
		case string:
			entries = strings.Split(x, " ")
			stats["locales-string"]++
		case []any:
			stats["locales-array"]++
			for _, e := range x {
				if s, ok := e.(string); ok {
					entries = append(entries, s)
				}
			}
		default:
			stats["locales-other"]++
		}
		tagOracle(l, entries, stats, "locales")
		var ls oidc.Locales
		p, err := safeDecode(func() error {
			if form == "text" {
				return ls.UnmarshalText([]byte(text))
			}
			return json.Unmarshal([]byte(text), &ls)
		})
		out(l, err, p)
		if !p && err == nil {
			var ss, rs []string
			for _, t := range ls {
				ss, rs = append(ss, t.String()), append(rs, rootFlag(t))
			}
			l.L("o.s", ss).L("o.root", rs)
		}
		w(l)
	}
	// ---- documents with a locale member: decode -> encode -> decode
	for i := 0; i < n/4; i++ {
		dc := localeDocCases[r.Intn(len(localeDocCases))]
		doc := map[string]json.RawMessage{}
		for k, v := range dc.base {
			b, _ := json.Marshal(v)
			doc[k] = b
		}
		if r.Chance(40) {
			doc["role"] = json.RawMessage(`"admin"`)
		}
		if r.Chance(20) {
			doc["email"] = json.RawMessage(`"a@b"`)
		}
		memberText := ""
		hasMember := r.Chance(92)
		if hasMember {
			memberText = genLocaleDoc(r)
			if i < len(tagFixed) {
				memberText = jsonStr(tagFixed[i])
			}
			if _, _, ok := docTokens(memberText); !ok {
				memberText = `"de"`
			}
			memberText = strings.TrimSpace(memberText)
			doc["locale"] = json.RawMessage(memberText)
		}
		raw, _ := json.Marshal(doc)
		docO, _ := topLevel(raw)
		l := hx.NewLine("C12").I("case", caseNo()).S("kind", "docrt").S("type", dc.name).L("doc", docO).L("regnames", dc.regNames).B("has", hasMember)
		if hasMember {
			toks, v, _ := docTokens(memberText)
			l.L("j", toks).S("text", canon([]byte(memberText))).S("lit", memberText)
			if s, isStr := v.(string); isStr {
				tagOracle(l, []string{s}, stats, "docrt")
			} else {
				stats["docrt-nonstring"]++
				tagOracle(l, nil, stats, "docrt")
			}
			jsonTagOracle(l, memberText)
		} else {
			stats["docrt-absent"]++
			tagOracle(l, nil, stats, "docrt")
		}
		var loc *oidc.Locale
		var reenc []byte
		p, err := safeDecode(func() error {
			var e error
			loc, reenc, e = dc.decode(raw)
			return e
		})
		out(l, err, p)
		if !p && err == nil {
			if loc != nil {
				l.S("o.s", loc.Tag().String()).S("o.root", rootFlag(loc.Tag()))
			}
			obj, _ := topLevel(reenc)
			l.L("o.obj", obj)
			// second decode of the re-encoded document
			loc2, _, e2 := dc.decode(reenc)
			switch {
			case e2 != nil:
				l.S("o.loc2", "err")
			case loc2 == nil:
				l.S("o.loc2", "nil")
			default:
				l.S("o.loc2", "tag:"+loc2.Tag().String())
			}
		}
		stats["docrt-"+dc.name]++
		w(l)
	}
	// ---- the other tolerant decoders on generic documents
	for i := 0; i < n/4; i++ {
		text := docPool[r.Intn(len(docPool))]
		switch {
		case i == 0:
			text = "\"\\u0074rue\"" // regression row of the fixed finding F-C12c (escaped spelling of "true"), always present
		case r.Chance(10):
			text = strconv.Itoa(r.Intn(2000000000) - 1000000)
		case r.Chance(10):
			text = hx.Pick(r, `"true"`, "\"\\u0074rue\"", `9223372036854775808`, `-9223372036854775808`, `-9223372036854777856`, `9223372036854774784`, `9223371974719178752`, `9223371974719179776`, `9223371974719177728`, `9223371974719180800`, `-0.5`, `0.5`,
				`"1700000000"`, `"2023-01-02T03:04:05.999Z"`, `"2262-04-12T00:00:00Z"`, `"9999-12-31T23:59:59Z"`, `"page"`, `"popup"`, `"touch"`, `"wap"`, `"Page"`, `"a  b"`, `" a"`,
				`["a",["b"]]`, `[{"a":"b"}]`, `1e400`)
		}
		toks, v, ok := docTokens(text)
		if !ok {
			continue
		}
		dec := hx.Pick(r, "jaud", "jtime", "jbool", "jspace", "jdisplay")
		if i == 0 {
			dec = "jbool"
		}
		l := hx.NewLine("C12").I("case", caseNo()).S("kind", dec).S("type", dec[1:]).L("j", toks).S("text", text).S("lit", strings.TrimSpace(text))
		switch dec {
		case "jaud":
			var a oidc.Audience
			p, err := safeDecode(func() error { return json.Unmarshal([]byte(text), &a) })
			out(l, err, p)
			if !p && err == nil {
				l.L("o.v", []string(a))
			}
		case "jtime":
			if s, isStr := v.(string); isStr {
				if tt, perr := time.Parse(time.RFC3339, s); perr == nil {
					ns := new(big.Int).Mul(big.NewInt(tt.Unix()), big.NewInt(1000000000))
					ns.Add(ns, big.NewInt(int64(tt.Nanosecond())))
					l.S("tp", ns.String())
				}
			}
			var t oidc.Time
			p, err := safeDecode(func() error { return json.Unmarshal([]byte(text), &t) })
			out(l, err, p)
			if !p && err == nil {
				l.I("o.v", int64(t))
			}
		case "jbool":
			var b oidc.Bool
			p, err := safeDecode(func() error { return json.Unmarshal([]byte(text), &b) })
			out(l, err, p)
			if !p && err == nil {
				l.B("o.v", bool(b))
			}
		case "jspace":
			var s oidc.SpaceDelimitedArray
			p, err := safeDecode(func() error { return json.Unmarshal([]byte(text), &s) })
			out(l, err, p)
			if !p && err == nil {
				l.L("o.v", []string(s))
			}
		case "jdisplay":
			s, isStr := v.(string)
			if !isStr {
				s = text
			}
			l.S("dtext", s)
			var d oidc.Display
			p, err := safeDecode(func() error { return d.UnmarshalText([]byte(s)) })
			out(l, err, p)
			if !p && err == nil {
				l.S("o.v", string(d))
			}
		}
		stats["decoder-"+dec]++
		w(l)
	}
	// ---- DecryptAES on short / damaged sealed strings (length guard, base64)
	for i := 0; i < n/8; i++ {
		klen := hx.Pick(r, 16, 24, 32, 5)
		key := make([]byte, klen)
		for j := range key {
			key[j] = byte(r.U64())
		}
		rlen := hx.Pick(r, 0, 1, 15, 16, 17, 31, 32, 33, r.Intn(48))
		rawb := make([]byte, rlen)
		for j := range rawb {
			rawb[j] = byte(r.U64())
		}
		l := hx.NewLine("C12").I("case", caseNo()).S("kind", "unseal").S("type", "raw"+bucket16(rlen))
		sealLine(l, rawb, key, r.Chance(10))
		stats[fmt.Sprintf("unseal-raw%s", bucket16(rlen))]++
		w(l)
	}
}

func bucket16(n int) string {
	switch {
	case n < 15:
		return "lt15"
	case n <= 17:
		return strconv.Itoa(n)
	}
	return "gt17"
}

// sealLine: DecryptAES(base64(raw), key) with AES's block evaluations as the oracle table
func sealLine(l *hx.Line, rawb, key []byte, damage bool) {
	enc := c12b64(rawb)
	if damage {
		enc += "!"
	}
	l.S("enc", enc).S("raw", hexs(rawb)).I("klen", int64(len(key)))
	if blk, err := aesCipher(key); err == nil {
		l.B("keyok", true)
		if len(rawb) >= 16 {
			l.L("E", blockTable(blk, rawb))
		}
	} else {
		l.B("keyok", false)
	}
	var plain string
	p, err := safeDecode(func() error {
		var e error
		plain, e = crypto.DecryptAES(enc, string(key))
		return e
	})
	switch {
	case p:
		l.S("obs", "panic")
	case err != nil:
		l.S("obs", "err")
	default:
		l.S("obs", "val").S("o.plain", hexs([]byte(plain)))
	}
}

func c12b64(b []byte) string { return base64.RawURLEncoding.EncodeToString(b) }
func hexs(b []byte) string { return hex.EncodeToString(b) }

func aesCipher(key []byte) (cipher.Block, error) { return aes.NewCipher(key) }

// blockTable: E(iv), E(c1), ... for raw = iv ++ c1 ++ c2 ..: the block evaluations CFB makes (hex pairs in, out)
func blockTable(blk cipher.Block, raw []byte) []string {
	var tab []string
	prev := raw[:16]
	ct := raw[16:]
	for off := 0; ; off += 16 {
		out := make([]byte, 16)
		blk.Encrypt(out, prev)
		tab = append(tab, hex.EncodeToString(prev), hex.EncodeToString(out))
		if off+16 <= len(ct) {
			prev = ct[off : off+16]
		} else {
			break
		}
	}
	return tab
}
