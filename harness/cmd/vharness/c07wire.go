package main

// Request SHAPE of the token requests of the C04 / C07 histories: where every parameter travels (body / URL query /
// both, with the same or with different values), and registrations that change in the middle of a history.
//
// A token request is an ordered list of (name, value) pairs in the body and another one in the query of a POST.
// net/http hands the library `r.PostForm` (body pairs) and `r.Form` (body pairs, then query pairs); which of several
// values a handler ends up with is the library's business (`Form.Get`: the first, the schema decoder: the last) and
// part of what the model must reproduce.  The line carries both lists (`w.body`, `w.query`: items `name=value`, the
// value as the model sees it: a code by its label, the client assertion as `A` with the symbolic token in `t.*`).

import (
	"fmt"
	"net/http"
	"net/http/httptest"
	"net/url"
	"strings"
	"time"

	"github.com/zitadel/oidc/v3/pkg/oidc"

	"verifharness/internal/hx"
	"verifharness/internal/opbed"
	"verifharness/internal/refstore"
)

// wkv is one parameter: v travels on the wire, sym is what the line shows for it ("" = v itself)
type wkv struct{ k, v, sym string }

func (p wkv) label() string {
	if p.sym != "" {
		return p.sym
	}
	return p.v
}

type wireReq struct {
	body, query []wkv
	basic       *[2]string // Authorization: Basic (id, secret), sent query-escaped as RFC 6749 2.3.1 asks
	shape       string
}

func encodePairs(ps []wkv) string {
	var b strings.Builder
	for i, p := range ps {
		if i > 0 {
			b.WriteByte('&')
		}
		b.WriteString(url.QueryEscape(p.k))
		b.WriteByte('=')
		b.WriteString(url.QueryEscape(p.v))
	}
	return b.String()
}

func (w *wireReq) request(path string) *http.Request {
	target := path
	if len(w.query) > 0 {
		target += "?" + encodePairs(w.query)
	}
	r := httptest.NewRequest(http.MethodPost, target, strings.NewReader(encodePairs(w.body)))
	r.Header.Set("Content-Type", "application/x-www-form-urlencoded")
	if w.basic != nil {
		r.SetBasicAuth(url.QueryEscape(w.basic[0]), url.QueryEscape(w.basic[1]))
	}
	return r
}

func (w *wireReq) describe(l *hx.Line) {
	items := func(ps []wkv) []string {
		out := make([]string, len(ps))
		for i, p := range ps {
			out[i] = p.k + "=" + p.label()
		}
		return out
	}
	l.S("w.shape", w.shape).L("w.body", items(w.body)).L("w.query", items(w.query))
}

// placeWire decides where the parameters travel.  alts: per parameter name, other values a request may carry next to the
// intended one (for the shape "both, with different values").
func placeWire(r *hx.Rand, params []wkv, alts map[string][]wkv) *wireReq {
	w := &wireReq{}
	switch k := r.Intn(100); {
	case k < 38:
		w.shape = "body"
		w.body = params
	case k < 48:
		w.shape = "query"
		w.query = params
	case k < 60: // only grant_type in the query
		w.shape = "grant-in-query"
		for _, p := range params {
			if p.k == "grant_type" {
				w.query = append(w.query, p)
			} else {
				w.body = append(w.body, p)
			}
		}
	case k < 72: // every parameter on its own
		w.shape = "split"
		for _, p := range params {
			if r.Bool() {
				w.query = append(w.query, p)
			} else {
				w.body = append(w.body, p)
			}
		}
	case k < 80: // one parameter twice, same value
		i := r.Intn(len(params))
		w.shape = "dup-same:" + params[i].k
		w.body = params
		w.query = []wkv{params[i]}
	default: // one parameter twice, DIFFERENT values; the intended one in the body or in the query
		var cand []int
		for i, p := range params {
			if len(alts[p.k]) > 0 {
				cand = append(cand, i)
			}
		}
		if len(cand) == 0 {
			w.shape = "body"
			w.body = params
			break
		}
		i := cand[r.Intn(len(cand))]
		alt := alts[params[i].k][r.Intn(len(alts[params[i].k]))]
		alt.k = params[i].k
		if r.Bool() {
			w.shape = "dup-diff:" + params[i].k + ":alt-in-query"
			w.body = params
			w.query = []wkv{alt}
		} else {
			w.shape = "dup-diff:" + params[i].k + ":alt-in-body"
			for j, p := range params {
				if j == i {
					w.body = append(w.body, alt)
					w.query = append(w.query, p)
				} else {
					w.body = append(w.body, p)
				}
			}
		}
	}
	return w
}

// shapeBase: the shape without the parameter it was applied to
func shapeBase(shape string) string {
	if i := strings.Index(shape, ":"); i >= 0 {
		return shape[:i]
	}
	return shape
}

func shapeClass(shape string) string {
	if i := strings.Index(shape, ":"); i >= 0 {
		parts := strings.Split(shape, ":")
		return parts[0] + ":" + parts[1]
	}
	return shape
}

// flowAuthWire picks how the caller presents itself: the parameters it adds to the request and the Basic header.  `as` overrides
// the method (a client that still presents itself the way an EARLIER registration asked for); "" = the current registration's.
func flowAuthWire(r *hx.Rand, sy *symbols, l *hx.Line, caller *flowClient, cls []*flowClient, as oidc.AuthMethod) ([]wkv, *[2]string) {
	c := caller.c
	l.S("caller", c.ID)
	method := c.Auth
	if as != "" {
		method = as
		l.S("stale-auth", string(as))
	}
	if method == oidc.AuthMethodPrivateKeyJWT && caller.key == nil {
		method = oidc.AuthMethodBasic
	}
	switch method {
	case oidc.AuthMethodNone:
		l.S("auth", "id-only").S("cid", c.ID)
		return []wkv{{k: "client_id", v: c.ID}}, nil
	case oidc.AuthMethodPrivateKeyJWT:
		now := time.Now().Unix()
		key, kid, iss := caller.key, caller.kid, c.ID
		aud := []string{opbed.Issuer}
		iat, exp := now-5, now+300
		switch r.Intn(8) {
		case 0:
			key = hx.Keys()[3] // not the registered key
		case 1:
			aud = []string{"https://other.example"}
		case 2:
			exp = now - 10
		case 3:
			iss = "web" // claims to be another client
		}
		tok := assertion(sy, l, key, kid, iss, iss, aud, iat, exp)
		l.S("auth", "assertion")
		return []wkv{{k: "client_assertion", v: tok, sym: "A"}, {k: "client_assertion_type", v: oidc.ClientAssertionTypeJWTAssertion}}, nil
	default:
		secret := c.Secret
		if r.Chance(15) {
			secret = hx.Pick(r, "wrong", "", cls[0].c.Secret)
		}
		kind := "basic"
		if method == oidc.AuthMethodPost || r.Chance(15) {
			kind = "post"
		}
		l.S("auth", kind).S("cid", c.ID).S("secret", secret)
		if kind == "post" {
			return []wkv{{k: "client_id", v: c.ID}, {k: "client_secret", v: secret}}, nil
		}
		var extra []wkv
		if r.Chance(6) { // a Basic header AND a client_id parameter naming somebody else: the header wins
			extra = []wkv{{k: "client_id", v: cls[r.Intn(len(cls))].c.ID}}
		}
		return extra, &[2]string{c.ID, secret}
	}
}

// reregister changes the registration of one client in the middle of a history and tells the model / the observer
// (methods: the authentication methods the provider has switched on - a token-holding client is not moved to a method it could
// never authenticate with)
func reregister(r *hx.Rand, fc *flowClient, change string, methods []oidc.AuthMethod) string {
	c := fc.c
	keys := hx.Keys()
	has := func(g oidc.GrantType) bool {
		for _, x := range c.Grants {
			if x == g {
				return true
			}
		}
		return false
	}
	drop := func(g oidc.GrantType) {
		var out []oidc.GrantType
		for _, x := range c.Grants {
			if x != g {
				out = append(out, x)
			}
		}
		c.Grants = out
	}
	switch change {
	case "drop-refresh":
		drop(oidc.GrantTypeRefreshToken)
	case "drop-code":
		drop(oidc.GrantTypeCode)
	case "restore":
		if !has(oidc.GrantTypeCode) {
			c.Grants = append(c.Grants, oidc.GrantTypeCode)
		}
		if !has(oidc.GrantTypeRefreshToken) {
			c.Grants = append(c.Grants, oidc.GrantTypeRefreshToken)
		}
	default: // "auth": another authentication method
		var to oidc.AuthMethod
		for {
			to = methods[r.Intn(len(methods))]
			if to != c.Auth {
				break
			}
		}
		change = "auth:" + string(c.Auth) + "->" + string(to)
		c.Auth = to
		fc.key, fc.kid, c.Keys = nil, "", nil
		switch to {
		case oidc.AuthMethodBasic, oidc.AuthMethodPost:
			if c.Secret == "" {
				c.Secret = "secret-" + c.ID
			}
		case oidc.AuthMethodPrivateKeyJWT:
			c.Keys = []refstore.ClientKey{{Kid: c.ID + "-k", Pub: keys[1].Pub}}
			fc.key, fc.kid = keys[1], c.ID+"-k"
		}
	}
	return change
}

func reregisterLine(prop string, caseNo int, fc *flowClient, change string) *hx.Line {
	l := hx.NewLine(prop).I("case", int64(caseNo)).S("op", "reregister").S("client", fc.c.ID).S("change", change)
	clientsKV(l, []*flowClient{fc})
	return l
}

// handedToStorage: the refresh token the storage was handed for rotation while serving the request (journal of the reference
// storage: CreateAccessAndRefreshTokens(refresh,<client>,<subject>,<current token>))
func handedToStorage(journal []string) (string, bool) {
	for _, j := range journal {
		if strings.HasPrefix(j, "CreateAccessAndRefreshTokens(refresh,") && strings.HasSuffix(j, ")") {
			inner := strings.TrimSuffix(strings.TrimPrefix(j, "CreateAccessAndRefreshTokens("), ")")
			parts := strings.Split(inner, ",")
			if len(parts) == 4 {
				return parts[3], true
			}
		}
	}
	return "", false
}

var _ = fmt.Sprintf
