package main

// C19, kind=options: a provider built with a LIST of options - every subset, several orders, repeated options, nil endpoints - on both
// routers, through op.NewProvider or one of the deprecated constructors. Observed from outside: was it constructed, the discovery
// document, the status of a request to every advertised issuer-relative address; through the provider's getters: Insecure(), WHICH key
// set / option list each verifier getter hands on, the order in which the custom interceptors run. The driver judges the observation
// with `C19.monitorOptions` (configured = last option per member, else the documented default) and compares it with the REGENERATED
// `GenOp.NewProvider` applied to the same option list.

import (
	"context"
	"encoding/json"
	"errors"
	"fmt"
	"io"
	"log/slog"
	"net/http"
	"strings"

	jose "github.com/go-jose/go-jose/v4"
	"github.com/rs/cors"
	"github.com/zitadel/oidc/v3/pkg/oidc"
	"github.com/zitadel/oidc/v3/pkg/op"

	"verifharness/internal/hx"
	"verifharness/internal/opbed"
)

type c19KS struct{ id int }

func (c19KS) VerifySignature(context.Context, *jose.JSONWebSignature) ([]byte, error) {
	return nil, errors.New("c19KS: not a real key set")
}

type c19Opt struct {
	Kind string // insecure auth token introspection userinfo revocation endsession keys device eps interceptors atks atopts hintks hintopts cors logger
	E    []epSpec
	ID   int
	L    []int
}

var c19OptEndpointName = map[string]string{"auth": "Authorization", "token": "Token", "introspection": "Introspection", "userinfo": "Userinfo",
	"revocation": "Revocation", "endsession": "EndSession", "keys": "JwksURI", "device": "DeviceAuthorization"}

func c19RandEndpoint(r *hx.Rand, name string) epSpec {
	switch r.Intn(10) {
	case 0:
		return epSpec{Nil: true}
	case 1, 2:
		return epSpec{Path: hx.Pick(r, c19CustomPaths[name]...), URL: "https://" + hx.Pick(r, "ext.example", "login.example") + "/" + strings.ToLower(name)}
	case 3:
		return c19Defaults[name] // the default, said explicitly
	}
	return epSpec{Path: hx.Pick(r, c19CustomPaths[name]...)}
}

func c19RandOpt(r *hx.Rand) c19Opt {
	kinds := []string{"insecure", "auth", "token", "introspection", "userinfo", "revocation", "endsession", "keys", "device", "eps",
		"interceptors", "atks", "atopts", "hintks", "hintopts", "cors", "logger", "token", "auth", "device", "atks", "insecure"}
	o := c19Opt{Kind: hx.Pick(r, kinds...)}
	switch o.Kind {
	case "eps":
		for _, n := range []string{"Authorization", "Token", "Userinfo", "Revocation", "EndSession", "JwksURI"} {
			e := c19RandEndpoint(r, n)
			if e.Nil && r.Chance(70) {
				e = epSpec{Path: hx.Pick(r, c19CustomPaths[n]...)}
			}
			o.E = append(o.E, e)
		}
	case "interceptors", "atopts", "hintopts":
		for k := r.Intn(3); k >= 0; k-- {
			o.L = append(o.L, 1+r.Intn(9))
		}
		if r.Chance(15) {
			o.L = nil
		}
	case "atks", "hintks", "logger":
		o.ID = 1 + r.Intn(5)
	case "cors":
		o.ID = r.Intn(3) // 0 = nil: CORS switched off
	default:
		if n, ok := c19OptEndpointName[o.Kind]; ok {
			o.E = []epSpec{c19RandEndpoint(r, n)}
		}
	}
	return o
}

func (o c19Opt) option(trace *[]string) op.Option {
	ep := func(i int) *op.Endpoint { return o.E[i].endpoint() }
	switch o.Kind {
	case "insecure":
		return op.WithAllowInsecure()
	case "auth":
		return op.WithCustomAuthEndpoint(ep(0))
	case "token":
		return op.WithCustomTokenEndpoint(ep(0))
	case "introspection":
		return op.WithCustomIntrospectionEndpoint(ep(0))
	case "userinfo":
		return op.WithCustomUserinfoEndpoint(ep(0))
	case "revocation":
		return op.WithCustomRevocationEndpoint(ep(0))
	case "endsession":
		return op.WithCustomEndSessionEndpoint(ep(0))
	case "keys":
		return op.WithCustomKeysEndpoint(ep(0))
	case "device":
		return op.WithCustomDeviceAuthorizationEndpoint(ep(0))
	case "eps":
		return op.WithCustomEndpoints(ep(0), ep(1), ep(2), ep(3), ep(4), ep(5))
	case "interceptors":
		var is []op.HttpInterceptor
		for _, id := range o.L {
			id := id
			is = append(is, func(next http.Handler) http.Handler {
				return http.HandlerFunc(func(w http.ResponseWriter, r *http.Request) {
					*trace = append(*trace, fmt.Sprint(id))
					next.ServeHTTP(w, r)
				})
			})
		}
		return op.WithHttpInterceptors(is...)
	case "atks":
		return op.WithAccessTokenKeySet(c19KS{o.ID})
	case "hintks":
		return op.WithIDTokenHintKeySet(c19KS{o.ID})
	case "atopts":
		var vs []op.AccessTokenVerifierOpt
		for _, id := range o.L {
			id := id
			vs = append(vs, func(v *op.AccessTokenVerifier) { v.SupportedSignAlgs = append(v.SupportedSignAlgs, fmt.Sprint(id)) })
		}
		return op.WithAccessTokenVerifierOpts(vs...)
	case "hintopts":
		var vs []op.IDTokenHintVerifierOpt
		for _, id := range o.L {
			id := id
			vs = append(vs, func(v *op.IDTokenHintVerifier) { v.SupportedSignAlgs = append(v.SupportedSignAlgs, fmt.Sprint(id)) })
		}
		return op.WithIDTokenHintVerifierOpts(vs...)
	case "cors":
		if o.ID == 0 {
			return op.WithCORSOptions(nil)
		}
		return op.WithCORSOptions(&cors.Options{AllowedOrigins: []string{fmt.Sprintf("https://o%d.example", o.ID)}})
	}
	return op.WithLogger(slog.New(slog.NewTextHandler(io.Discard, nil)))
}

func c19KSName(ks oidc.KeySet) string {
	switch k := ks.(type) {
	case nil:
		return "nil"
	case *op.OpenIDKeySet:
		return "storage"
	case c19KS:
		return fmt.Sprintf("c%d", k.id)
	}
	return "other"
}

func c19IntsToStrs(l []int) []string {
	out := []string{}
	for _, x := range l {
		out = append(out, fmt.Sprint(x))
	}
	return out
}

func c19RunOptions(r *hx.Rand, caseNo int, stats map[string]int) *hx.Line {
	*op.DefaultEndpoints = c19Pristine
	router := hx.Pick(r, "provider", "provider", "legacy")
	n := r.Intn(8)
	var os []c19Opt
	for k := 0; k < n; k++ {
		os = append(os, c19RandOpt(r))
	}
	if len(os) >= 2 && r.Chance(35) { // the same options in another order / one of them twice
		i, j := r.Intn(len(os)), r.Intn(len(os))
		os[i], os[j] = os[j], os[i]
		if r.Bool() {
			os = append(os, os[r.Intn(len(os))])
		}
	}
	issuer := hx.Pick(r, "https://op.example", "https://op.example/oidc", "http://op.example", "http://op.example/t/1")
	ctor := hx.Pick(r, "NewProvider", "NewProvider", "NewOpenIDProvider")
	l := hx.NewLine("C19").I("case", int64(caseNo)).S("kind", "options").S("router", router).S("ctor", ctor).S("is.kind", "static").S("is.arg", issuer).I("on", int64(len(os)))
	c19ParseKVP(l, issuer, "ip.")
	var trace []string
	var opts []op.Option
	anyNil := false
	for i, o := range os {
		p := fmt.Sprintf("o%d.", i)
		l.S(p+"k", o.Kind)
		for j, e := range o.E {
			q := fmt.Sprintf("%se%d.", p, j)
			if e.Nil {
				l.B(q+"nil", true)
				anyNil = true
			} else {
				l.S(q+"path", e.Path).S(q+"url", e.URL)
			}
		}
		switch o.Kind {
		case "interceptors", "atopts", "hintopts":
			l.L(p+"l", c19IntsToStrs(o.L))
		case "atks", "hintks", "cors", "logger":
			l.I(p+"id", int64(o.ID))
		}
		opts = append(opts, o.option(&trace))
		stats["option-"+o.Kind]++
	}
	stats[fmt.Sprintf("options-per-provider-%d", len(os))]++
	var legEps epSet
	bc := opbed.Config{Router: router, Options: opts}
	if router == "legacy" {
		legEps = c19EndpointSet(r, hx.Pick(r, 0, 1, 3, 4), true)
		legEps.kv(l, "le.")
		ep := legEps.endpoints()
		bc.Endpoints = &ep
	}
	var bed *opbed.Bed
	var err error
	panicked := false
	func() {
		defer func() {
			if p := recover(); p != nil {
				panicked = true
				err = fmt.Errorf("panic: %v", p)
			}
		}()
		if ctor == "NewOpenIDProvider" {
			bc.IssuerFn = nil
			bed, err = c19BedDeprecated(bc, issuer)
		} else {
			bc.IssuerFn = op.StaticIssuer(issuer)
			bed, err = opbed.New(bc)
		}
	}()
	if panicked {
		return l.S("obs", "panic").S("o.err", err.Error())
	}
	if err != nil {
		name := c19ErrName(err)
		if errors.Is(err, op.ErrNilEndpoint) {
			name = "ErrNilEndpoint"
		}
		stats["options-refused-"+name]++
		return l.S("obs", "ok").B("acc", false).S("o.err", name)
	}
	stats["options-accepted"]++
	if anyNil {
		stats["options-accepted-with-nil-endpoint"]++
	}
	l.S("obs", "ok").B("acc", true)
	dresp := bed.Do(bed.Get(oidc.DiscoveryEndpoint, nil, ""))
	if dresp.Panicked {
		return l.S("obs", "panic")
	}
	l.I("d.status", int64(dresp.Status))
	l.L("x.trace", append([]string{}, trace...))
	doc := new(oidc.DiscoveryConfiguration)
	json.Unmarshal(dresp.Body, doc)
	adv := map[string]string{"Authorization": doc.AuthorizationEndpoint, "Token": doc.TokenEndpoint, "Introspection": doc.IntrospectionEndpoint,
		"Userinfo": doc.UserinfoEndpoint, "Revocation": doc.RevocationEndpoint, "EndSession": doc.EndSessionEndpoint,
		"CheckSessionIframe": doc.CheckSessionIframe, "JwksURI": doc.JwksURI, "DeviceAuthorization": doc.DeviceAuthorizationEndpoint}
	l.S("d.issuer", doc.Issuer)
	for _, n := range c19Names {
		l.S("d."+c19Field[n], adv[n])
	}
	var grants, pkce, methods []string
	for _, g := range doc.GrantTypesSupported {
		grants = append(grants, string(g))
	}
	for _, m := range doc.CodeChallengeMethodsSupported {
		pkce = append(pkce, string(m))
	}
	for _, m := range doc.TokenEndpointAuthMethodsSupported {
		methods = append(methods, string(m))
	}
	l.L("d.grants", grants).L("d.pkce", pkce).L("d.authmethods", methods).B("d.reqobj", doc.RequestParameterSupported)
	prefix := strings.TrimSuffix(doc.Issuer, "/")
	for _, n := range c19Names {
		a := adv[n]
		if a == "" || !strings.HasPrefix(a, prefix+"/") {
			continue
		}
		path := a[len(prefix):]
		var req *http.Request
		switch n {
		case "Token", "Introspection", "Revocation", "DeviceAuthorization":
			req = bed.Form(path, nil, opbed.Auth{Kind: "none"})
		default:
			req = bed.Get(path, nil, "")
		}
		resp := bed.Do(req)
		st := resp.Status
		if resp.Panicked {
			st = 599
		}
		l.I("p."+c19Field[n], int64(st))
	}
	// ---- the provider's getters
	p := bed.Provider
	ctx := op.ContextWithIssuer(context.Background(), issuer)
	atv, hv := p.AccessTokenVerifier(ctx), p.IDTokenHintVerifier(ctx)
	l.B("x.insecure", p.Insecure()).S("x.atks", c19KSName(atv.KeySet)).S("x.hintks", c19KSName(hv.KeySet)).
		L("x.atopts", append([]string{}, atv.SupportedSignAlgs...)).L("x.hintopts", append([]string{}, hv.SupportedSignAlgs...)).
		S("x.atiss", atv.Issuer).S("x.hintiss", hv.Issuer)
	if atv.KeySet != nil && c19KSName(atv.KeySet) != "storage" {
		stats["options-custom-access-token-keyset"]++
	}
	return l
}

// the deprecated constructor with a static issuer (same bed as opbed.New otherwise)
func c19BedDeprecated(bc opbed.Config, issuer string) (*opbed.Bed, error) {
	// opbed builds through op.NewProvider; NewOpenIDProvider(issuer, ..) is NewProvider(.., StaticIssuer(issuer), ..): construct once through the
	// deprecated entry point to observe its verdict, then hand the same configuration to the bed
	if _, err := op.NewOpenIDProvider(issuer, &op.Config{}, nil, bc.Options...); err != nil {
		return nil, err
	}
	bc.IssuerFn = op.StaticIssuer(issuer)
	return opbed.New(bc)
}
