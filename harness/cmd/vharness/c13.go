package main

// C13 — schedule replay: the REAL rp.NewRemoteKeySet is driven by N <= 6 concurrent VerifySignature calls
// against a gated fake JWKS transport.  Every goroutine of the library parks at the `verif` schedule points
// (pkg/client/rp/verif_on.go) and the HTTP request parks in the transport, so that the order of cache reads,
// critical sections, download begin / end, faults, rotations, cancellations and `inflight.done` is chosen by
// this scheduler (one PRNG), never by the Go runtime.  One line per schedule: the steps taken and, per step,
// everything that was observed.  The Lean driver replays the steps on the model and judges the observed run.

import (
	"bufio"
	"bytes"
	"context"
	"crypto"
	"crypto/ed25519"
	"encoding/json"
	"errors"
	"fmt"
	"io"
	"net/http"
	"os"
	"os/exec"
	"path/filepath"
	"strconv"
	"strings"
	"sync"
	"sync/atomic"
	"time"

	jose "github.com/go-jose/go-jose/v4"
	"github.com/zitadel/oidc/v3/pkg/client/rp"
	"github.com/zitadel/oidc/v3/pkg/oidc"

	"verifharness/internal/hx"
)

func init() { streams["C13"] = c13Stream }

// ---------------------------------------------------------------- served keys and tokens

type c13Key struct {
	kid, use string
	no       int // index into hx.Keys(); -1 for an entry of unknown key type
	kty      string
	known    bool
}

func (k c13Key) text() string {
	d := func(s string) string {
		if s == "" {
			return "-"
		}
		return s
	}
	kn := "1"
	if !k.known {
		kn = "0"
	}
	return d(k.kid) + "." + d(k.use) + "." + strconv.Itoa(max(k.no, 0)) + "." + k.kty + "." + kn
}

var c13Pool = []c13Key{
	{"k1", "sig", 2, "EC", true},
	{"k2", "sig", 3, "EC", true},
	{"k3", "", 5, "OKP", true},
	{"k4", "enc", 6, "OKP", true}, // published for encryption only: must never verify a signature
	{"", "sig", 4, "EC", true},    // key without kid
	{"k5", "sig", 0, "RSA", true},
	{"k1", "sig", 3, "EC", true}, // the kid k1 re-used for another key
	{"kx", "sig", -1, "XYZ", false},
	{"", "", 5, "OKP", true},
}

func c13Alg(no int) string {
	switch no {
	case 0, 1:
		return "RS256"
	case 2, 3:
		return "ES256"
	case 4:
		return "ES384"
	}
	return "EdDSA"
}

func c13Doc(set []c13Key) []byte {
	var entries []json.RawMessage
	for _, k := range set {
		if !k.known {
			entries = append(entries, json.RawMessage(fmt.Sprintf(`{"kty":"XYZ","kid":%q,"use":%q,"x":"AAAA"}`, k.kid, k.use)))
			continue
		}
		b, err := jose.JSONWebKey{Key: hx.Keys()[k.no].Pub, KeyID: k.kid, Use: k.use}.MarshalJSON()
		if err != nil {
			panic(err)
		}
		entries = append(entries, b)
	}
	if entries == nil {
		entries = []json.RawMessage{}
	}
	b, _ := json.Marshal(map[string]any{"keys": entries})
	return b
}

// ---------------------------------------------------------------- answers of the endpoint

// c13Bodies: the classes of answers. cur = the key set the endpoint serves, alt = another key set.
// What a body IS (well-formed as a whole? which key set does it denote?) is not decided here but by c13Oracle.
var c13Bodies = map[string]func(cur, alt []c13Key) (int, []byte){
	"ok":    func(cur, alt []c13Key) (int, []byte) { return 200, c13Doc(cur) },
	"ok-ws": func(cur, alt []c13Key) (int, []byte) { return 200, []byte(" \n\t" + string(c13Doc(cur)) + "\r\n \n") }, // insignificant whitespace
	"ok-huge": func(cur, alt []c13Key) (int, []byte) {
		return 200, append(c13Doc(cur), bytes.Repeat([]byte(" \n"), 600000)...)
	},
	"ok-casekeys": func(cur, alt []c13Key) (int, []byte) {
		return 200, bytes.Replace(c13Doc(cur), []byte(`"keys"`), []byte(`"KEYS"`), 1)
	},
	"ok-dupkeys": func(cur, alt []c13Key) (int, []byte) { // the member twice: encoding/json takes the last one
		a, b := c13Doc(alt), c13Doc(cur)
		return 200, []byte(string(a[:len(a)-1]) + "," + string(b[1:]))
	},
	"e5xx":      func(cur, alt []c13Key) (int, []byte) { return 500, []byte("boom") },
	"e503-jwks": func(cur, alt []c13Key) (int, []byte) { return 503, c13Doc(cur) }, // a perfect key set, but not a 200
	"e404-jwks": func(cur, alt []c13Key) (int, []byte) { return 404, c13Doc(cur) },
	"notjson":   func(cur, alt []c13Key) (int, []byte) { return 200, []byte("<html><body>maintenance</body></html>") },
	"empty":     func(cur, alt []c13Key) (int, []byte) { return 200, nil },
	"trunc":     func(cur, alt []c13Key) (int, []byte) { d := c13Doc(cur); return 200, d[:len(d)-len(d)/3-1] },
	"null":      func(cur, alt []c13Key) (int, []byte) { return 200, []byte("null") },
	"emptyobj":  func(cur, alt []c13Key) (int, []byte) { return 200, []byte("{}") },
	"keysnull":  func(cur, alt []c13Key) (int, []byte) { return 200, []byte(`{"keys":null}`) },
	"badjson":   func(cur, alt []c13Key) (int, []byte) { return 200, []byte(`{"keys": 5}`) },
	"array":     func(cur, alt []c13Key) (int, []byte) { d := c13Doc(cur); return 200, d[len(`{"keys":`) : len(d)-1] }, // the bare array of keys
	"string":    func(cur, alt []c13Key) (int, []byte) { return 200, []byte(`"keys"`) },
	"trail-junk": func(cur, alt []c13Key) (int, []byte) {
		return 200, append(c13Doc(cur), []byte("\n<!-- served by proxy -->")...)
	},
	"trail-value": func(cur, alt []c13Key) (int, []byte) { return 200, append(c13Doc(cur), []byte(" 42")...) },
	"trail-set":   func(cur, alt []c13Key) (int, []byte) { return 200, append(append(c13Doc(cur), '\n'), c13Doc(alt)...) }, // two key sets
	"trail-half": func(cur, alt []c13Key) (int, []byte) {
		d := c13Doc(cur)
		return 200, append(append(d, '\n'), d[:len(d)/2]...)
	},
	"trail-brace":  func(cur, alt []c13Key) (int, []byte) { return 200, append(c13Doc(cur), '}') },
	"alt-then-cur": func(cur, alt []c13Key) (int, []byte) { return 200, append(c13Doc(alt), c13Doc(cur)...) }, // the served set only comes second
	"bom":          func(cur, alt []c13Key) (int, []byte) { return 200, append([]byte("\xEF\xBB\xBF"), c13Doc(cur)...) },
	"lead-junk":    func(cur, alt []c13Key) (int, []byte) { return 200, append([]byte(")]}',\n"), c13Doc(cur)...) },
	"huge-junk":    func(cur, alt []c13Key) (int, []byte) { return 200, bytes.Repeat([]byte("0123456789abcdef"), 70000) },
}

// weights of the classes in random schedules (per hundred, roughly)
var c13BodyMix = []struct {
	cls string
	w   int
}{
	{"ok", 50}, {"ok-ws", 3}, {"ok-huge", 1}, {"ok-casekeys", 1}, {"ok-dupkeys", 2}, {"e5xx", 7}, {"e503-jwks", 4}, {"e404-jwks", 1}, {"notjson", 2}, {"empty", 1},
	{"trunc", 2}, {"null", 2}, {"emptyobj", 1}, {"keysnull", 2}, {"badjson", 3}, {"array", 1}, {"string", 1}, {"trail-junk", 4}, {"trail-value", 2},
	{"trail-set", 3}, {"trail-half", 2}, {"trail-brace", 1}, {"alt-then-cur", 1}, {"bom", 2}, {"lead-junk", 1}, {"huge-junk", 1},
}

func c13PickBody(r *hx.Rand) string {
	tot := 0
	for _, b := range c13BodyMix {
		tot += b.w
	}
	x := r.Intn(tot)
	for _, b := range c13BodyMix {
		if x < b.w {
			return b.cls
		}
		x -= b.w
	}
	return "ok"
}

// c13Shape: is this JSON value of the JWKS shape as encoding/json reads it, and which entries does it have? (reference decode,
// independent of the code under test: a struct with a `keys` member of raw entries, each entry through go-jose)
func c13Shape(v []byte) ([]c13Key, bool) {
	var d struct {
		Keys []json.RawMessage `json:"keys"`
	}
	if json.Unmarshal(v, &d) != nil {
		return nil, false
	}
	out := []c13Key{}
	for _, raw := range d.Keys {
		var hdr struct {
			Kid string `json:"kid"`
			Use string `json:"use"`
			Kty string `json:"kty"`
		}
		json.Unmarshal(raw, &hdr)
		var k jose.JSONWebKey
		if k.UnmarshalJSON(raw) != nil {
			out = append(out, c13Key{kid: hdr.Kid, use: hdr.Use, no: -1, kty: "XYZ", known: false})
			continue
		}
		no := -1
		for i, hk := range hx.Keys() {
			if eq, ok := hk.Pub.(interface{ Equal(crypto.PublicKey) bool }); ok && eq.Equal(k.Key) {
				no = i
			} else if a, ok := hk.Pub.(ed25519.PublicKey); ok {
				if b, ok := k.Key.(ed25519.PublicKey); ok && a.Equal(b) {
					no = i
				}
			}
		}
		if no < 0 {
			out = append(out, c13Key{kid: k.KeyID, use: k.Use, no: -1, kty: "XYZ", known: false})
			continue
		}
		out = append(out, c13Key{kid: k.KeyID, use: k.Use, no: no, kty: hx.Keys()[no].Kty, known: true})
	}
	return out, true
}

// c13Oracle classifies a body with the real encoding/json: is the WHOLE body one well-formed JSON document (json.Valid), what
// does it denote if it has the JWKS shape, and what does its FIRST JSON value denote (what a streaming decoder would see)
func c13Oracle(body []byte) (wf bool, whole, first string) {
	whole, first = "!", "!"
	wf = json.Valid(body)
	if wf {
		if ks, ok := c13Shape(body); ok {
			whole = c13SetText(ks)
		}
	}
	var raw json.RawMessage
	if json.NewDecoder(bytes.NewReader(body)).Decode(&raw) == nil {
		if ks, ok := c13Shape(raw); ok {
			first = c13SetText(ks)
		}
	}
	return
}

type c13Tok struct {
	kid, alg string
	signer   int
	pid      int
	compact  string
	payload  []byte
}

var c13TokCache = map[string]*c13Tok{}

func c13MakeTok(kid string, signer, pid int) *c13Tok {
	key := fmt.Sprintf("%s/%d/%d", kid, signer, pid)
	if t, ok := c13TokCache[key]; ok {
		return t
	}
	alg := c13Alg(signer)
	payload := []byte(fmt.Sprintf(`{"t":%d}`, pid))
	s, err := hx.Sign(hx.Keys()[signer], alg, kid, payload)
	if err != nil {
		panic(err)
	}
	t := &c13Tok{kid: kid, alg: alg, signer: signer, pid: pid, compact: s, payload: payload}
	c13TokCache[key] = t
	return t
}

var c13Algs = []jose.SignatureAlgorithm{jose.RS256, jose.ES256, jose.ES384, jose.EdDSA}

// ---------------------------------------------------------------- scheduler

type c13CtxKey struct{}

type c13Info struct {
	s  *c13Sched
	id int
}

type c13Ev struct {
	kind string // hook | gate | abort | fin
	who  int    // caller id (hooks of updateKeys carry the id of the call that created the request)
	name string
	park chan struct{}
	fid  int
	out  string
	ctx  context.Context
	rel  chan c13Resp
}

type c13Resp struct {
	status int
	body   []byte
}

type c13Caller struct {
	tok       *c13Tok
	ctx       context.Context
	cancel    context.CancelFunc
	deadline  time.Time // zero: the call's context carries no deadline
	expired   bool      // the scheduler has seen the deadline pass (step `expire`)
	at        string // "", cache, lock, select, done
	park      chan struct{}
	cancelled bool
	joined    int // fetch the call is believed to wait for (-1: unknown)
	fin       bool
}

type c13Fetch struct {
	owner     int
	ctx       context.Context
	rel       chan c13Resp
	ended     bool
	aborted   bool
	at        string // gate, fetched, done, exit
	park      chan struct{}
	seenDone  bool
	seenPub   bool
	seenULock bool
	expectAb  bool
}

type c13Sched struct {
	mu      sync.Mutex
	evCh    chan c13Ev
	aborted atomic.Bool
	frozen  atomic.Bool // given up: every goroutine of this schedule stays where it is (they are leaked on purpose)
	abortCh chan struct{}

	ks      oidc.KeySet
	served  []c13Key
	callers []*c13Caller
	fetches []*c13Fetch
	fidOf   map[int]int // owner -> its fetch
	uLocked map[int]bool

	running int      // released parties that have neither parked nor returned yet
	spawns  int      // `go r.updateKeys` statements seen (schedule point jwks:spawn)
	gates   int      // requests that reached the transport
	obs     []string // observations of the current step
	stuck   bool
	anomaly bool
}

var c13HookOnce sync.Once

func c13Hook(ctx context.Context, name string) {
	info, _ := ctx.Value(c13CtxKey{}).(*c13Info)
	if info == nil {
		return
	}
	info.s.hook(info.id, strings.TrimPrefix(name, "jwks:"))
}

func (s *c13Sched) hook(id int, name string) {
	if s.frozen.Load() {
		select {} // the schedule was given up (stuck call / second download): nothing of it may run any further
	}
	if s.aborted.Load() {
		return
	}
	park := false
	switch name {
	case "cache", "lock", "select", "fetched":
		park = true
	case "ulocked":
		s.mu.Lock()
		s.uLocked[id] = true
		s.mu.Unlock()
	case "done":
		// between inflight.done and the lock this is a schedule point; once the updater holds r.mu it is an observation
		s.mu.Lock()
		park = !s.uLocked[id]
		s.mu.Unlock()
	}
	var ch chan struct{}
	if park {
		ch = make(chan struct{})
	}
	s.evCh <- c13Ev{kind: "hook", who: id, name: name, park: ch}
	if park {
		select {
		case <-ch:
		case <-s.abortCh:
		}
	}
}

// RoundTrip: the JWKS endpoint. The request parks until the scheduler answers it or its context is cancelled.
func (s *c13Sched) RoundTrip(req *http.Request) (*http.Response, error) {
	if s.frozen.Load() {
		select {}
	}
	if s.aborted.Load() {
		return nil, errors.New("schedule aborted")
	}
	owner := -1
	if info, _ := req.Context().Value(c13CtxKey{}).(*c13Info); info != nil {
		owner = info.id
	}
	rel := make(chan c13Resp, 1)
	s.evCh <- c13Ev{kind: "gate", who: owner, ctx: req.Context(), rel: rel}
	select {
	case r := <-rel:
		return &http.Response{StatusCode: r.status, Status: fmt.Sprintf("%d %s", r.status, http.StatusText(r.status)), Proto: "HTTP/1.1", ProtoMajor: 1, ProtoMinor: 1,
			Header: http.Header{"Content-Type": []string{"application/json"}}, Body: io.NopCloser(bytes.NewReader(r.body)), Request: req}, nil
	case <-req.Context().Done():
		s.evCh <- c13Ev{kind: "abort", who: owner}
		return nil, req.Context().Err()
	case <-s.abortCh:
		return nil, errors.New("schedule aborted")
	}
}

func c13Class(payload []byte, err error, tok *c13Tok) string {
	if err == nil {
		if bytes.Equal(payload, tok.payload) {
			return "ok"
		}
		return "okwrong"
	}
	msg := err.Error()
	const pf = "unable to fetch key for signature validation: "
	switch {
	case strings.HasPrefix(msg, pf):
		rest := msg[len(pf):]
		if strings.HasPrefix(rest, "oidc: failed to get keys: ") {
			switch {
			case strings.Contains(rest, "context canceled"):
				return "fe-cancel"
			case strings.Contains(rest, "context deadline exceeded"):
				return "fe-deadline" // the download ended with the deadline of ITS context
			case strings.Contains(rest, "http status not ok"):
				return "fe-5xx"
			case strings.Contains(rest, "failed to unmarshal response"):
				return "fe-json"
			}
			return "fe-other"
		}
		if errors.Is(err, context.Canceled) {
			return "ctx"
		}
		if errors.Is(err, context.DeadlineExceeded) {
			return "ctxdl" // the call's own context error, its deadline has passed
		}
		return "other"
	case strings.HasPrefix(msg, "unable to validate signature: "):
		return "nokey"
	case strings.HasPrefix(msg, "signature verification failed: "):
		return "badsig"
	}
	return "other"
}

// c13Deadline: how far in the future the deadline of a deadline-carrying call lies. The scheduler takes well under a millisecond
// per step, so the deadline passes only where the scheduler says so (step `expire`: it sleeps until the deadline, waits for
// ctx.Done() and for quiescence). c13DeadlineMargin: an unexpired deadline that comes closer than this is expired NOW (the step is
// forced, which is just one more legal schedule); a deadline that passes during another step voids the schedule (its observations
// can no longer be attributed to steps): the line is marked void=1 and dropped by the parent, and counted.
const c13Deadline = 12 * time.Millisecond
const c13DeadlineMargin = 5 * time.Millisecond
const c13DeadlineStep = 9 * time.Millisecond

func (s *c13Sched) startCaller(tok *c13Tok, withDeadline bool) {
	id := len(s.callers)
	base := context.WithValue(context.Background(), c13CtxKey{}, &c13Info{s: s, id: id})
	var ctx context.Context
	var cancel context.CancelFunc
	c := &c13Caller{tok: tok, joined: -1}
	if withDeadline {
		// the way a request handler with a timeout does it: context.WithDeadline / WithTimeout around the caller's context
		// (the k-th deadline of a schedule lies c13DeadlineStep later than the one before, so that two of them never pass together)
		nth := 0
		for _, o := range s.callers {
			if !o.deadline.IsZero() {
				nth++
			}
		}
		c.deadline = time.Now().Add(c13Deadline + time.Duration(nth)*c13DeadlineStep)
		ctx, cancel = context.WithDeadline(base, c.deadline)
	} else {
		ctx, cancel = context.WithCancel(base)
	}
	c.ctx, c.cancel = ctx, cancel
	s.callers = append(s.callers, c)
	jws, err := jose.ParseSigned(tok.compact, c13Algs)
	if err != nil {
		panic(err)
	}
	s.running++
	go func() {
		out := "panic"
		defer func() {
			if r := recover(); r != nil {
				out = "panic"
			}
			if !s.aborted.Load() {
				s.evCh <- c13Ev{kind: "fin", who: id, out: out}
			}
		}()
		payload, err := s.ks.VerifySignature(ctx, jws)
		out = c13Class(payload, err, tok)
	}()
}

const c13Timeout = 1500 * time.Millisecond

// await: wait until every running party is parked or finished
func (s *c13Sched) await() {
	for (s.running > 0 || s.spawns > s.gates) && !s.stuck {
		select {
		case ev := <-s.evCh:
			s.handle(ev)
		case <-time.After(c13Timeout):
			s.stuck = true
		}
	}
}

func (s *c13Sched) openFetch() int {
	for i := len(s.fetches) - 1; i >= 0; i-- {
		if !s.fetches[i].seenPub {
			return i
		}
	}
	return -1
}

func (s *c13Sched) handle(ev c13Ev) {
	switch ev.kind {
	case "fin":
		c := s.callers[ev.who]
		c.fin, c.at = true, "done"
		s.obs = append(s.obs, fmt.Sprintf("fin.c%d.%s", ev.who, ev.out))
		s.running--
	case "gate":
		fid := len(s.fetches)
		f := &c13Fetch{owner: ev.who, ctx: ev.ctx, rel: ev.rel, at: "gate"}
		for _, g := range s.fetches {
			if !g.ended {
				s.anomaly = true // a second download while one is in flight
			}
		}
		s.fetches = append(s.fetches, f)
		s.fidOf[ev.who] = fid
		s.obs = append(s.obs, fmt.Sprintf("g.u%d.c%d", fid, ev.who))
		s.gates++
		if ev.ctx.Err() != nil { // created under an already cancelled context: the transport returns at once
			f.expectAb = true
			s.running++
		}
	case "abort":
		fid, ok := s.fidOf[ev.who]
		if !ok {
			s.anomaly = true
			return
		}
		f := s.fetches[fid]
		f.ended, f.aborted = true, true
		s.obs = append(s.obs, fmt.Sprintf("x.u%d", fid))
		if !f.expectAb {
			s.running++ // not announced by the scheduler's own bookkeeping: still wait for the updater to park
		}
	case "hook":
		switch ev.name {
		case "cache", "lock", "select":
			c := s.callers[ev.who]
			c.at, c.park = ev.name, ev.park
			s.obs = append(s.obs, fmt.Sprintf("h.c%d.%s", ev.who, ev.name))
			s.running--
		case "spawn":
			s.obs = append(s.obs, fmt.Sprintf("h.c%d.spawn", ev.who))
			s.spawns++ // the new updateKeys goroutine runs until its request reaches the transport
		default: // fetched, done, ulocked, published: hooks of updateKeys
			fid, ok := s.fidOf[ev.who]
			if !ok {
				s.anomaly = true
				if ev.park != nil {
					close(ev.park)
				}
				return
			}
			f := s.fetches[fid]
			s.obs = append(s.obs, fmt.Sprintf("h.u%d.%s", fid, ev.name))
			switch ev.name {
			case "done":
				f.seenDone = true
			case "published":
				f.seenPub = true
			case "ulocked":
				f.seenULock = true
			}
			if ev.park != nil {
				f.at, f.park = ev.name, ev.park
				s.running--
			} else if f.seenDone && f.seenPub && f.at != "exit" {
				f.at = "exit"
				s.running--
			}
		}
	}
}

// a step the scheduler can take
type c13Step struct {
	kind string // start go cancel rot resp upd
	id   int
	arg  string
	w    int
}

func (s *c13Sched) ready(c *c13Caller) bool {
	if c.cancelled {
		return true
	}
	return c.joined >= 0 && c.joined < len(s.fetches) && s.fetches[c.joined].seenDone
}

// nextDeadline: the call whose context's deadline passes next (-1: none)
func (s *c13Sched) nextDeadline() int {
	best := -1
	for i, c := range s.callers {
		if !c.deadline.IsZero() && !c.expired && (best < 0 || c.deadline.Before(s.callers[best].deadline)) {
			best = i
		}
	}
	return best
}

func (s *c13Sched) enabled(maxCallers int, cancelsLeft int, rot bool, env bool) []c13Step {
	var st []c13Step
	if env && len(s.callers) < maxCallers {
		st = append(st, c13Step{kind: "start", w: 3})
	}
	for i, c := range s.callers {
		if c.fin {
			continue
		}
		switch c.at {
		case "cache", "lock":
			st = append(st, c13Step{kind: "go", id: i, w: 4})
		case "select":
			if s.ready(c) {
				st = append(st, c13Step{kind: "go", id: i, w: 4})
			}
		}
		if env && !c.cancelled && cancelsLeft > 0 {
			st = append(st, c13Step{kind: "cancel", id: i, w: 1})
		}
	}
	// time is monotone: only the EARLIEST deadline that has not passed yet can pass next (also that of a call that has returned: a
	// download may have been given its deadline)
	if i := s.nextDeadline(); env && i >= 0 {
		w := 1
		if s.callers[i].at == "select" {
			w = 4 // the interesting place: the call waits for the shared download
		}
		st = append(st, c13Step{kind: "expire", id: i, w: w})
	}
	for i, f := range s.fetches {
		switch {
		case f.at == "gate" && !f.ended:
			st = append(st, c13Step{kind: "resp", id: i, w: 3})
		case f.at == "fetched" || f.at == "done":
			st = append(st, c13Step{kind: "upd", id: i, w: 3})
		}
	}
	if rot {
		st = append(st, c13Step{kind: "rot", w: 2})
	}
	return st
}

func c13RandomSet(r *hx.Rand) []c13Key {
	n := hx.Pick(r, 0, 1, 1, 1, 2, 2, 2, 2, 3)
	var set []c13Key
	for i := 0; i < n; i++ {
		set = append(set, c13Pool[r.Intn(len(c13Pool))])
	}
	return set
}

func c13RandomTok(r *hx.Rand, world [][]c13Key, pid int) *c13Tok {
	signer := hx.Pick(r, 2, 2, 3, 3, 4, 5, 6, 0)
	// mostly: a token that is valid under one of the key sets the endpoint serves during this schedule
	if r.Chance(72) {
		set := world[0] // world[0] is replaced by the currently served set by the caller of this function
		if r.Chance(30) {
			set = world[1+r.Intn(len(world)-1)]
		}
		if len(set) > 0 {
			if k := set[r.Intn(len(set))]; k.known {
				return c13MakeTok(k.kid, k.no, pid)
			}
		}
	}
	var kid string
	switch p := r.Intn(100); {
	case p < 55: // the kid of a pool entry with this key
		var cands []string
		for _, k := range c13Pool {
			if k.known && k.no == signer {
				cands = append(cands, k.kid)
			}
		}
		if len(cands) > 0 {
			kid = cands[r.Intn(len(cands))]
		}
	case p < 70:
		kid = ""
	case p < 88: // the kid of another entry: wrong key
		kid = c13Pool[r.Intn(len(c13Pool))].kid
	default:
		kid = hx.Pick(r, "kz", "kx")
	}
	return c13MakeTok(kid, signer, pid)
}

func (s *c13Sched) abort() {
	if s.aborted.Swap(true) {
		return
	}
	close(s.abortCh)
	for _, c := range s.callers {
		c.cancel()
	}
}

// c13ParseSet: the text form of a served key set (kid.use.no.kty.known joined by '/')
func c13ParseSet(txt string) []c13Key {
	var set []c13Key
	if txt == "" {
		return set
	}
	for _, e := range strings.Split(txt, "/") {
		p := strings.Split(e, ".")
		if len(p) != 5 {
			continue
		}
		und := func(x string) string {
			if x == "-" {
				return ""
			}
			return x
		}
		no, _ := strconv.Atoi(p[2])
		k := c13Key{kid: und(p[0]), use: und(p[1]), no: no, kty: p[3], known: p[4] == "1"}
		if !k.known {
			k.no = -1
		}
		set = append(set, k)
	}
	return set
}

// a scripted step: the head of a step as it appears in a line (observations, if any, are ignored);
// `start` may also be written start:<kid>:<signer>
type c13Script struct {
	kind     string
	deadline bool // startd: the call's context carries a deadline
	id     int
	kid    string
	signer int
	set    []c13Key
	resp   string
}

func c13ParseScript(st string) (c13Script, bool) {
	p := strings.Split(st, ":")
	num := func(i int) int {
		if i < len(p) {
			n, _ := strconv.Atoi(p[i])
			return n
		}
		return 0
	}
	und := func(x string) string {
		if x == "-" {
			return ""
		}
		return x
	}
	switch p[0] {
	case "start", "startd":
		if len(p) >= 6 {
			return c13Script{kind: "start", kid: und(p[2]), signer: num(4), deadline: p[0] == "startd"}, true
		}
		if len(p) >= 3 {
			return c13Script{kind: "start", kid: und(p[1]), signer: num(2), deadline: p[0] == "startd"}, true
		}
	case "go", "cancel", "upd", "expire":
		if len(p) >= 2 {
			return c13Script{kind: p[0], id: num(1)}, true
		}
	case "resp":
		if len(p) >= 3 {
			return c13Script{kind: "resp", id: num(1), resp: p[2]}, true
		}
	case "rot":
		if len(p) >= 2 {
			return c13Script{kind: "rot", set: c13ParseSet(p[1])}, true
		}
	}
	return c13Script{}, false
}

// c13RunSchedule executes one schedule on the real code and returns its line. With a script the steps are the given ones
// (a step that is not possible in the current state is skipped), followed by a drain phase; otherwise they are drawn from r.
func c13RunSchedule(r *hx.Rand, caseID string, skip bool, script []string, attempt int, out io.Writer) map[string]int {
	stats := map[string]int{}
	// the line is written step by step, so that a crash of the process (a panic inside a goroutine of the library cannot be
	// recovered by the harness) leaves the schedule that led to it behind
	fmt.Fprintf(out, "C13 case=%s skip=%s", hx.Esc(caseID), map[bool]string{false: "0", true: "1"}[skip])
	nsteps := 0
	put := func(st string) {
		fmt.Fprintf(out, " s%d=%s", nsteps, hx.Esc(st))
		nsteps++
		if f, ok := out.(interface{ Flush() error }); ok {
			f.Flush()
		}
	}
	scripted := script != nil
	s := &c13Sched{evCh: make(chan c13Ev, 1024), abortCh: make(chan struct{}), fidOf: map[int]int{}, uLocked: map[int]bool{}}
	if skip {
		s.ks = rp.NewRemoteKeySet(&http.Client{Transport: s}, "http://jwks.test/keys", rp.SkipRemoteCheck())
	} else {
		s.ks = rp.NewRemoteKeySet(&http.Client{Transport: s}, "http://jwks.test/keys")
	}
	var world [][]c13Key
	maxCallers, maxCancels, maxRot, budget := 6, 6, 99, 0
	maxDeadlines, deadlines, void := 0, 0, false
	if !scripted {
		world = [][]c13Key{c13RandomSet(r), c13RandomSet(r), c13RandomSet(r)}
		s.served = world[0]
		maxCallers = hx.Pick(r, 1, 2, 2, 3, 3, 4, 4, 5, 6)
		maxCancels = hx.Pick(r, 0, 0, 0, 1, 1, 2)
		maxRot = hx.Pick(r, 0, 1, 1, 2, 3)
		budget = 10 + 5*maxCallers + r.Intn(10)
		maxDeadlines = hx.Pick(r, 0, 0, 0, 0, 0, 0, 0, 1, 1, 2) // calls whose context carries a deadline (starter or joiner, as the schedule has it)
		put("rot:" + c13SetText(s.served) + ":")
	}
	cancels, pid, rots, sp := 0, 0, 0, 0
	rotInWindow, overtaken, overtakenAfterRot := false, false, false
	emit := func(head string) {
		put(head + ":" + strings.Join(c13Canon(s.obs), "/"))
		s.obs = nil
	}
	for n := 0; n < 400; n++ {
		env := n < budget || (scripted && sp < len(script))
		en := s.enabled(maxCallers, maxCancels-cancels, env && rots < maxRot, env)
		var st c13Step
		var sc c13Script
		forced := false
		if i := s.nextDeadline(); i >= 0 && time.Until(s.callers[i].deadline) < c13DeadlineMargin {
			// a deadline that is about to pass on its own is made to pass NOW, as a step of the schedule
			st, forced = c13Step{kind: "expire", id: i}, true
			stats["expire-forced"]++
		}
		if forced {
			// fall through to the step
		} else if scripted && sp < len(script) {
			var ok bool
			sc, ok = c13ParseScript(script[sp])
			sp++
			if !ok {
				continue
			}
			found := false
			for _, e := range en {
				if e.kind == sc.kind && (e.kind == "start" || e.kind == "rot" || e.id == sc.id) {
					st, found = e, true
					break
				}
			}
			if !found {
				stats["script-step-skipped"]++
				continue
			}
		} else {
			progress := false
			for _, e := range en {
				if e.kind != "rot" && e.kind != "cancel" && e.kind != "expire" {
					progress = true
				}
			}
			if !progress {
				break
			}
			if env {
				tot := 0
				for _, e := range en {
					tot += e.w
				}
				x := r.Intn(tot)
				for _, e := range en {
					if x < e.w {
						st = e
						break
					}
					x -= e.w
				}
			} else {
				st = en[0] // drain phase: first enabled step, no more environment actions
			}
		}
		switch st.kind {
		case "start":
			pid++
			var tok *c13Tok
			withDl := sc.deadline
			if scripted {
				tok = c13MakeTok(sc.kid, sc.signer, pid)
			} else {
				tok = c13RandomTok(r, append([][]c13Key{s.served}, world...), pid)
				withDl = deadlines < maxDeadlines && r.Chance(60)
			}
			id := len(s.callers)
			s.startCaller(tok, withDl)
			s.await()
			kid := tok.kid
			if kid == "" {
				kid = "-"
			}
			head := "start"
			if withDl {
				head = "startd"
				deadlines++
				stats["start-with-deadline"]++
			}
			emit(fmt.Sprintf("%s:%d:%s:%s:%d:%d", head, id, kid, tok.alg, tok.signer, tok.pid))
			stats["start"]++
		case "go":
			c := s.callers[st.id]
			s.running++
			close(c.park)
			c.park = nil
			c.at = ""
			s.await()
			if c.at == "select" && c.joined < 0 {
				// which request the call waits for: its own if it created one in this step, else the one in flight
				c.joined = s.openFetch()
				for _, o := range s.obs {
					if o == fmt.Sprintf("h.c%d.spawn", st.id) {
						c.joined = s.fidOf[st.id]
					}
				}
			}
			emit(fmt.Sprintf("go:%d", st.id))
		case "cancel":
			c := s.callers[st.id]
			c.cancelled = true
			cancels++
			c.cancel()
			for _, f := range s.fetches {
				if f.at == "gate" && !f.ended && !f.expectAb && f.ctx.Err() != nil {
					f.expectAb = true
					s.running++
				}
			}
			s.await()
			emit(fmt.Sprintf("cancel:%d", st.id))
			stats["cancel"]++
		case "expire":
			// the deadline of this call's context passes: wait for it (real time; the JWKS endpoint holds its answers meanwhile,
			// every other party is parked), see ctx.Done() closed, then see which downloads end with it. A download whose OWN
			// context carries a deadline that has passed by now ends too (its timer is a different one: wait for its Done()).
			c := s.callers[st.id]
			if d := time.Until(c.deadline); d > 0 {
				time.Sleep(d)
			}
			select {
			case <-c.ctx.Done():
			case <-time.After(c13Timeout):
				s.anomaly = true
			}
			c.expired, c.cancelled = true, true
			role := "joiner"
			for _, f := range s.fetches {
				if f.owner == st.id {
					role = "starter"
				}
				if f.at == "gate" && !f.ended && !f.expectAb {
					if dl, ok := f.ctx.Deadline(); ok && !dl.After(time.Now()) {
						select {
						case <-f.ctx.Done():
						case <-time.After(c13Timeout):
						}
					}
					if f.ctx.Err() != nil {
						f.expectAb = true
						s.running++
					}
				}
			}
			if c.fin {
				role = "returned"
			} else if c.at == "" || c.at == "cache" || c.at == "lock" {
				role = "early" // its deadline passes before the call has reached the shared download
			}
			s.await()
			emit(fmt.Sprintf("expire:%d", st.id))
			stats["expire"]++
			stats["expire-"+role]++
		case "rot":
			rots++
			for _, f := range s.fetches {
				if f.at == "fetched" {
					rotInWindow = true // the endpoint has answered this download, its result is not published yet
				}
			}
			if scripted {
				s.served = sc.set
			} else {
				s.served = world[r.Intn(len(world))]
			}
			put("rot:" + c13SetText(s.served) + ":")
			stats["rotate"]++
		case "resp":
			f := s.fetches[st.id]
			kind := sc.resp
			if _, known := c13Bodies[kind]; !known {
				kind = "ok"
				if !scripted {
					kind = c13PickBody(r)
				}
			}
			alt := []c13Key{c13Pool[1]}
			if !scripted {
				alt = world[r.Intn(len(world))]
			}
			status, body := c13Bodies[kind](s.served, alt)
			wf, whole, first := c13Oracle(body)
			f.ended = true
			s.running++
			f.rel <- c13Resp{status, body}
			f.at = ""
			s.await()
			emit(fmt.Sprintf("resp:%d:%s:%d:%s:%s:%s", st.id, kind, status, map[bool]string{false: "0", true: "1"}[wf], whole, first))
			stats["body-"+kind]++
		case "upd":
			f := s.fetches[st.id]
			for _, c := range s.callers {
				if !c.fin && c.at == "lock" {
					overtaken = true // a call between its cache lookup and keysFromRemote's critical section while a download is published
					if rotInWindow {
						overtakenAfterRot = true
					}
				}
			}
			s.running++
			close(f.park)
			f.park = nil
			f.at = ""
			s.await()
			emit(fmt.Sprintf("upd:%d", st.id))
		}
		for _, c := range s.callers {
			// a deadline that passed while another step ran: what was observed can no longer be attributed to steps
			if !c.deadline.IsZero() && !c.expired && !time.Now().Before(c.deadline) {
				void = true
			}
		}
		if void {
			stats["void-deadline-raced"]++
			break
		}
		if s.stuck {
			// whoever was released and neither parked nor returned
			put("stuck::")
			stats["stuck"]++
			break
		}
		if s.anomaly {
			stats["anomaly-abort"]++
			break
		}
	}
	unfinished := 0
	for _, c := range s.callers {
		if !c.fin {
			unfinished++
		}
	}
	if unfinished > 0 && !s.stuck && !s.anomaly && !void {
		put("stuck::")
		stats["unfinished"]++
	}
	if void {
		s.abort()
	} else if s.stuck || s.anomaly || unfinished > 0 {
		// releasing the parked goroutines of a schedule that went wrong could run the library into a panic of its own
		// goroutine (nil request, double close), which would take the harness down: leave them parked
		s.frozen.Store(true)
	} else {
		s.abort()
	}
	if rotInWindow {
		stats["rot-between-answer-and-publication"]++
	}
	if overtaken {
		stats["call-overtaken-before-lock"]++
	}
	if overtakenAfterRot {
		stats["call-overtaken-after-rot-in-window"]++
	}
	stats["callers-"+strconv.Itoa(len(s.callers))]++
	stats["fetches-"+strconv.Itoa(min(len(s.fetches), 5))]++
	if deadlines > 0 {
		stats["schedules-with-deadline-calls"]++
	}
	if void {
		retry := ""
		if scripted && attempt < 3 {
			retry = " retry=1" // a directed schedule is tried again (c13RunJobs); the parent drops every void line
		}
		fmt.Fprintf(out, " ns=%d void=1%s\n", nsteps, retry)
	} else {
		fmt.Fprintf(out, " ns=%d\n", nsteps)
	}
	if f, ok := out.(interface{ Flush() error }); ok {
		f.Flush()
	}
	return stats
}

// c13Canon: within one step the released call and the updateKeys goroutine it spawned run concurrently until both are
// parked; their observations are merged in a fixed order (the updater's right before the call's `spawn` point).
func c13Canon(obs []string) []string {
	var upd, pre, post []string
	seenSpawn := false
	for _, o := range obs {
		isUpd := strings.HasPrefix(o, "g.") || strings.HasPrefix(o, "x.") || strings.HasPrefix(o, "h.u")
		switch {
		case isUpd:
			upd = append(upd, o)
		case strings.HasSuffix(o, ".spawn") || seenSpawn:
			seenSpawn = true
			post = append(post, o)
		default:
			pre = append(pre, o)
		}
	}
	if !seenSpawn {
		return obs
	}
	return append(append(pre, upd...), post...)
}

func c13SetText(set []c13Key) string {
	var p []string
	for _, k := range set {
		p = append(p, k.text())
	}
	return strings.Join(p, "/")
}

// Directed schedules (run first on every run, ids d-<name>): the windows the property speaks about, reached on purpose.
// A step that the current code does not offer (e.g. the second `upd` once `done` happens under the lock) is skipped.
var c13Directed = []struct {
	name   string
	skip   bool
	script []string
}{
	// the call that created the download is cancelled while others wait for it (F-C13a)
	{"cancel-owner", false, []string{"rot:k1.sig.2.EC.1", "start:k1:2", "start:k1:2", "go:0", "go:1", "go:0", "go:1", "cancel:0", "go:0", "resp:0:ok", "upd:0", "upd:0", "go:1"}},
	// the owner's context is already cancelled when it creates the download
	{"cancelled-owner-creates", false, []string{"rot:k1.sig.2.EC.1", "start:k1:2", "cancel:0", "start:k1:2", "go:0", "go:1", "go:0", "go:1", "resp:0:ok", "upd:0", "upd:0", "go:1", "go:0"}},
	// a call starts after the result was announced and before the request was released (F-C13b)
	{"late-joiner", false, []string{"rot:k1.sig.2.EC.1", "start:k9:2", "go:0", "go:0", "resp:0:ok", "upd:0", "rot:k1.sig.2.EC.1/k2.sig.3.EC.1", "start:k2:3", "go:1", "go:1", "go:1", "upd:0", "go:0"}},
	{"late-joiner-error", false, []string{"rot:k1.sig.2.EC.1", "start:k9:2", "go:0", "go:0", "resp:0:e5xx", "upd:0", "start:k1:2", "go:1", "go:1", "go:1", "upd:0", "go:0"}},
	// a failed refresh must not discard cached keys
	{"failed-refresh-keeps-cache", false, []string{"rot:k1.sig.2.EC.1", "start:k1:2", "go:0", "go:0", "resp:0:ok", "upd:0", "upd:0", "go:0",
		"start:k9:2", "go:1", "go:1", "resp:1:e5xx", "upd:1", "upd:1", "go:1", "start:k1:2", "go:2", "go:2", "resp:2:e5xx"}},
	{"badjson-refresh-keeps-cache", false, []string{"rot:k1.sig.2.EC.1", "start:k1:2", "go:0", "go:0", "resp:0:ok", "upd:0", "upd:0", "go:0",
		"start:k9:2", "go:1", "go:1", "resp:1:badjson", "upd:1", "upd:1", "go:1", "start:k1:2", "go:2", "go:2", "resp:2:badjson"}},
	// concurrent cache misses share one download
	{"single-flight", false, []string{"rot:k1.sig.2.EC.1", "start:k1:2", "start:k1:2", "start:k9:2", "go:0", "go:1", "go:2", "go:0", "go:1", "go:2", "resp:0:ok"}},
	// rotation: a token signed with the new key triggers a refresh and verifies; the retired kid is rejected after one refresh
	{"rotation", false, []string{"rot:k1.sig.2.EC.1", "start:k1:2", "go:0", "go:0", "resp:0:ok", "upd:0", "upd:0", "go:0", "rot:k2.sig.3.EC.1",
		"start:k2:3", "go:1", "go:1", "resp:1:ok", "upd:1", "upd:1", "go:1", "start:k1:2", "go:2", "start:k7:2", "go:3", "go:3", "resp:2:ok"}},
	// keys published for encryption only / of unknown type never verify a signature
	{"enc-and-unknown-keys", false, []string{"rot:k4.enc.6.OKP.1/kx.sig.0.XYZ.0", "start:k4:6", "start:kx:2", "go:0", "go:1", "go:0", "go:1", "resp:0:ok"}},
	// kid-less token and a single kid-less key, with and without SkipRemoteCheck
	{"kidless", false, []string{"rot:-.sig.4.EC.1", "start:-:4", "go:0", "go:0", "resp:0:ok", "upd:0", "upd:0", "go:0", "start:-:2", "go:1", "go:1", "resp:1:ok"}},
	{"kidless-skip", true, []string{"rot:-.sig.4.EC.1", "start:-:4", "go:0", "go:0", "resp:0:ok", "upd:0", "upd:0", "go:0", "start:-:2", "go:1", "go:1", "resp:1:ok"}},
	// wrong key under a known kid: rejected from the cache without a refresh
	{"wrong-key-cached", false, []string{"rot:k1.sig.2.EC.1", "start:k1:2", "go:0", "go:0", "resp:0:ok", "upd:0", "upd:0", "go:0", "start:k1:3", "go:1"}},
	// malformed answers with status 200: a key set followed by other bytes is NOT a download (nothing accepted, cache kept)
	{"trailing-junk", false, []string{"rot:k1.sig.2.EC.1", "start:k1:2", "go:0", "go:0", "resp:0:trail-junk", "upd:0", "go:0"}},
	{"trailing-half-keeps-cache", false, []string{"rot:k1.sig.2.EC.1", "start:k1:2", "go:0", "go:0", "resp:0:ok", "upd:0", "go:0", "rot:k2.sig.3.EC.1",
		"start:k2:3", "go:1", "go:1", "resp:1:trail-half", "upd:1", "go:1", "rot:k1.sig.2.EC.1", "start:k1:2", "go:2", "go:2", "resp:2:e5xx", "upd:2", "go:2"}},
	{"two-key-sets", false, []string{"rot:k1.sig.2.EC.1", "start:k1:2", "start:k2:3", "go:0", "go:1", "go:0", "go:1", "resp:0:trail-set", "upd:0", "go:0", "go:1"}},
	{"second-set-is-the-served-one", false, []string{"rot:k1.sig.2.EC.1", "start:k2:3", "go:0", "go:0", "resp:0:alt-then-cur", "upd:0", "go:0"}},
	{"bom-and-lead-junk", false, []string{"rot:k1.sig.2.EC.1", "start:k1:2", "go:0", "go:0", "resp:0:bom", "upd:0", "go:0", "start:k1:2", "go:1", "go:1", "resp:1:lead-junk", "upd:1", "go:1"}},
	// a perfect key set under a status other than 200 is a failed download
	{"status-503-with-key-set", false, []string{"rot:k1.sig.2.EC.1", "start:k1:2", "go:0", "go:0", "resp:0:e503-jwks", "upd:0", "go:0"}},
	// well-formed documents: whitespace around it, `keys` twice (the last one counts), null / {} / {"keys":null} = the empty key set
	{"wellformed-variants", false, []string{"rot:k1.sig.2.EC.1", "start:k1:2", "go:0", "go:0", "resp:0:ok-ws", "upd:0", "go:0", "start:k2:3", "go:1", "go:1", "resp:1:ok-dupkeys", "upd:1", "go:1",
		"start:k1:2", "go:2", "go:2", "resp:2:null", "upd:2", "go:2", "start:k1:2", "go:3", "go:3", "resp:3:ok-casekeys", "upd:3", "go:3"}},
	{"wrong-shapes", false, []string{"rot:k1.sig.2.EC.1", "start:k1:2", "go:0", "go:0", "resp:0:array", "upd:0", "go:0", "start:k1:2", "go:1", "go:1", "resp:1:trunc", "upd:1", "go:1",
		"start:k1:2", "go:2", "go:2", "resp:2:string", "upd:2", "go:2"}},
	// a rotation BETWEEN a download's answer and its publication, and a second call that misses the cache and is OVERTAKEN by that
	// publication between its cache lookup and keysFromRemote's critical section: its token is signed with the rotated-in key, which the
	// endpoint has been serving since before the call began, so the call must trigger a refresh of its own (and then verifies); being
	// answered from the overtaking, older download is a rejection without a refresh. First with an empty cache, then with a filled one,
	// then with two overtaken calls (the second one shares the first one's refresh), then the overtaking download failing.
	{"rotation-overtaken", false, []string{"rot:k1.sig.2.EC.1", "start:k9:2", "go:0", "go:0", "resp:0:ok", "rot:k1.sig.2.EC.1/k2.sig.3.EC.1", "start:k2:3", "go:1",
		"upd:0", "go:1", "resp:1:ok", "upd:1", "go:1", "go:0"}},
	{"rotation-overtaken-filled-cache", false, []string{"rot:k1.sig.2.EC.1", "start:k1:2", "go:0", "go:0", "resp:0:ok", "upd:0", "go:0", "start:k9:2", "go:1", "go:1", "resp:1:ok",
		"rot:k1.sig.2.EC.1/k2.sig.3.EC.1", "start:k2:3", "go:2", "upd:1", "go:2", "go:1", "resp:2:ok", "upd:2", "go:2"}},
	{"rotation-overtaken-two-calls", false, []string{"rot:k1.sig.2.EC.1", "start:k9:2", "go:0", "go:0", "resp:0:ok", "rot:k2.sig.3.EC.1", "start:k2:3", "start:k2:3", "go:1", "go:2",
		"upd:0", "go:1", "go:2", "resp:1:ok", "upd:1", "go:2", "go:1", "go:0"}},
	{"overtaken-by-failed-download", false, []string{"rot:k1.sig.2.EC.1", "start:k9:2", "go:0", "go:0", "resp:0:e5xx", "start:k1:2", "go:1", "upd:0", "go:1", "resp:1:ok", "upd:1", "go:1", "go:0"}},
	// a SUCCESSFUL download of the empty key set replaces the cache: the retired key verifies nothing any more
	{"empty-set-replaces-cache", false, []string{"rot:k1.sig.2.EC.1", "start:k1:2", "go:0", "go:0", "resp:0:ok", "upd:0", "go:0", "rot:", "start:k9:2", "go:1", "go:1", "resp:1:null", "upd:1", "go:1",
		"start:k1:2", "go:2", "go:2", "resp:2:e5xx", "upd:2", "go:2"}},
	// DEADLINES (context.WithDeadline / WithTimeout: a request handler with a timeout). The call that STARTED the shared download carries a
	// deadline, a second call without one joins the download, the endpoint answers only after the starter's deadline has passed: the
	// starter fails with its own context error, the joiner (live context, token signed with a served key) verifies
	{"deadline-starter", false, []string{"rot:k1.sig.2.EC.1", "startd:k1:2", "start:k1:2", "go:0", "go:1", "go:0", "go:1", "expire:0", "go:0", "resp:0:ok", "upd:0", "upd:0", "go:1"}},
	// … the same with two joiners, one of which carries a (later, never reached) deadline of its own
	{"deadline-starter-two-joiners", false, []string{"rot:k1.sig.2.EC.1", "startd:k1:2", "start:k1:2", "go:0", "go:1", "go:0", "go:1", "expire:0", "startd:k1:2", "go:2", "go:2", "go:0",
		"resp:0:ok", "upd:0", "upd:0", "go:1", "go:2"}},
	// the starter's deadline has ALREADY passed when it creates the download (the call still creates the request others will share)
	{"deadline-passed-starter-creates", false, []string{"rot:k1.sig.2.EC.1", "startd:k1:2", "expire:0", "start:k1:2", "go:0", "go:1", "go:0", "go:1", "resp:0:ok", "upd:0", "upd:0", "go:1", "go:0"}},
	// the JOINER carries the deadline: it alone fails (own context error), the download and the starter are untouched
	{"deadline-joiner", false, []string{"rot:k1.sig.2.EC.1", "start:k1:2", "startd:k1:2", "go:0", "go:1", "go:0", "go:1", "expire:1", "go:1", "resp:0:ok", "upd:0", "upd:0", "go:0"}},
	// the starter's deadline passes, the download FAILS afterwards (5xx): the joiner gets the download's error, not a context error
	{"deadline-starter-then-5xx", false, []string{"rot:k1.sig.2.EC.1", "startd:k1:2", "start:k1:2", "go:0", "go:1", "go:0", "go:1", "expire:0", "resp:0:e5xx", "upd:0", "upd:0", "go:1", "go:0"}},
	// a deadline-carrying call served from the cache after its deadline has passed elsewhere in the run; a starter cancelled AND past its deadline
	{"deadline-and-cancel-starter", false, []string{"rot:k1.sig.2.EC.1", "startd:k1:2", "start:k1:2", "go:0", "go:1", "go:0", "go:1", "cancel:0", "expire:0", "go:0", "resp:0:ok", "upd:0", "upd:0", "go:1"}},
	// a waiter's own cancellation fails only itself
	{"cancel-waiter", false, []string{"rot:k1.sig.2.EC.1", "start:k1:2", "start:k1:2", "go:0", "go:1", "go:0", "go:1", "cancel:1", "go:1", "resp:0:ok"}},
}

type c13Job struct {
	id     string
	random bool
	skip   bool
	script []string
}

// the work list of a run: directed schedules, schedules of C13_SCHEDULE=<file with C13 lines> (ad-hoc replay), n random ones
func c13Jobs(n int) []c13Job {
	var jobs []c13Job
	for _, d := range c13Directed {
		jobs = append(jobs, c13Job{id: "d-" + d.name, skip: d.skip, script: d.script})
	}
	if p := os.Getenv("C13_SCHEDULE"); p != "" {
		if data, err := os.ReadFile(p); err == nil {
			for i, ln := range strings.Split(string(data), "\n") {
				if !strings.HasPrefix(ln, "C13 ") {
					continue
				}
				j := c13Job{id: "f-" + strconv.Itoa(i), script: []string{}}
				for _, f := range strings.Fields(ln)[1:] {
					k, v, _ := strings.Cut(f, "=")
					if k == "skip" {
						j.skip = v == "1"
					}
					if len(k) > 1 && k[0] == 's' && k[1] >= '0' && k[1] <= '9' {
						j.script = append(j.script, v)
					}
				}
				jobs = append(jobs, j)
			}
		}
	}
	for i := 0; i < n; i++ {
		jobs = append(jobs, c13Job{id: strconv.Itoa(i), random: true})
	}
	return jobs
}

// every schedule has its own generator derived from the run's seed and its position, so that the run can be resumed after
// the schedule on which the process died
func c13JobRand(base uint64, j int) *hx.Rand {
	return hx.NewRand(base ^ (uint64(j)+1)*0x9E3779B97F4A7C15)
}

func c13RunJobs(base uint64, jobs []c13Job, from int, out io.Writer) map[string]int {
	c13HookOnce.Do(func() { rp.SetVerifPoint(c13Hook) })
	stats := map[string]int{}
	for j := from; j < len(jobs); j++ {
		job := jobs[j]
		r := c13JobRand(base, j)
		skip := job.skip
		if job.random {
			skip = r.Chance(15)
		}
		for attempt := 0; ; attempt++ {
			st := c13RunSchedule(r, job.id, skip, job.script, attempt, out)
			for k, v := range st {
				stats[k] += v
			}
			if st["void-deadline-raced"] == 0 || job.random || attempt >= 3 {
				break
			}
		}
		if !job.random {
			stats["directed"]++
		}
		if stats["stuck"]+stats["unfinished"] >= 20 {
			// every stuck schedule costs a timeout and leaks its goroutines: 20 of them are evidence enough
			stats["stopped-after-20-stuck-schedules"] = 1
			break
		}
	}
	return stats
}

// worker mode (the same binary re-executed by c13Stream): runs the jobs [C13_FROM, end) and writes lines and `#stat` lines
func init() {
	if os.Getenv("C13_WORKER") != "1" {
		return
	}
	base, _ := strconv.ParseUint(os.Getenv("C13_BASE"), 10, 64)
	from, _ := strconv.Atoi(os.Getenv("C13_FROM"))
	n, _ := strconv.Atoi(os.Getenv("C13_N"))
	w := bufio.NewWriter(os.Stdout)
	stats := c13RunJobs(base, c13Jobs(n), from, w)
	for k, v := range stats {
		fmt.Fprintf(w, "#stat %s %d\n", k, v)
	}
	w.Flush()
	os.Exit(0)
}

// c13Stream: the schedules run in a child process; if the child dies (a panic in a goroutine the library spawned), the
// schedule it was executing is completed with the step `crash::` and the run resumes behind it.
func c13Stream(r *hx.Rand, tier string, n int, w *bufio.Writer) map[string]int {
	if n == 0 {
		n = 300
		if tier == "thorough" {
			n = 20000
		}
	}
	base := r.U64()
	jobs := c13Jobs(n)
	if os.Getenv("C13_INPROC") != "" {
		var buf bytes.Buffer
		st := c13RunJobs(base, jobs, 0, &buf)
		for _, ln := range strings.SplitAfter(buf.String(), "\n") {
			if !strings.Contains(ln, " void=1") {
				w.WriteString(ln)
			}
		}
		return st
	}
	stats := map[string]int{}
	exe, err := os.Executable()
	if err != nil {
		exe = os.Args[0]
	}
	// the unscheduled -race soak belongs to the thorough tier proper; the SEARCH after a broken proof obligation in the quick tier
	// (thorough generators, capped number of schedules: `cases.search` in checklib/props.d/C13.json) does without its 20 s + race build
	if tier == "thorough" && os.Getenv("C13_NOSOAK") == "" && n >= 20000 {
		w.WriteString(c13Soak(base) + "\n")
		stats["soak"]++
	}
	crashes := 0
	for j := 0; j < len(jobs) && crashes < 12; {
		cmd := exec.Command(exe, "C13")
		cmd.Env = append(os.Environ(), "C13_WORKER=1", "C13_BASE="+strconv.FormatUint(base, 10), "C13_FROM="+strconv.Itoa(j), "C13_N="+strconv.Itoa(n))
		var errBuf bytes.Buffer
		cmd.Stderr = &errBuf
		pipe, err := cmd.StdoutPipe()
		if err != nil || cmd.Start() != nil {
			fmt.Fprintln(os.Stderr, "c13: cannot start the worker process")
			os.Exit(2)
		}
		rd := bufio.NewReaderSize(pipe, 1<<20)
		partial := ""
		for {
			ln, err := rd.ReadString('\n')
			if strings.HasSuffix(ln, "\n") {
				if strings.HasPrefix(ln, "#stat ") {
					f := strings.Fields(ln)
					if len(f) == 3 {
						v, _ := strconv.Atoi(f[2])
						stats[f[1]] += v
					}
				} else if strings.Contains(ln, " void=1") {
					// a schedule whose deadline raced with another step (harness timing, counted as void-deadline-raced): not a case
					if !strings.Contains(ln, " retry=1") {
						j++
					}
				} else {
					w.WriteString(ln)
					j++
				}
			} else {
				partial = ln
			}
			if err != nil {
				break
			}
		}
		werr := cmd.Wait()
		if werr == nil {
			break // all jobs done, or the worker stopped early on purpose
		}
		// the worker died while executing job j
		crashes++
		stats["worker-crash"]++
		if j < len(jobs) {
			if partial == "" {
				partial = "C13 case=" + hx.Esc(jobs[j].id) + " skip=0"
			}
			k := strings.Count(partial, " s") - strings.Count(partial, " skip=")
			note := "crash"
			for _, l := range strings.Split(errBuf.String(), "\n") {
				if strings.HasPrefix(l, "panic:") || strings.HasPrefix(l, "fatal error:") {
					note = l
					break
				}
			}
			fmt.Fprintf(w, "%s s%d=crash:: ns=%d note=%s\n", partial, k, k+1, hx.Esc(note))
			j++
		}
	}
	return stats
}

// c13Soak (thorough tier, supporting evidence only): cmd/c13soak built with the race detector from the same tree runs the
// key set UNSCHEDULED for 20 s; one line with its counters, the number of data-race reports and of oracle failures.
func c13Soak(base uint64) string {
	dir, err := os.MkdirTemp("", "c13soak")
	if err != nil {
		return "C13 case=soak soak=1 built=0 note=" + hx.Esc(err.Error())
	}
	defer os.RemoveAll(dir)
	bin := filepath.Join(dir, "c13soak")
	if out, err := exec.Command("go", "build", "-race", "-tags", "verif", "-o", bin, "./cmd/c13soak").CombinedOutput(); err != nil {
		return "C13 case=soak soak=1 built=0 note=" + hx.Esc(strings.TrimSpace(string(out)))
	}
	cmd := exec.Command(bin, "-dur", "20s", "-seed", strconv.FormatUint(base%1000000, 10))
	cmd.Env = append(os.Environ(), "GORACE=halt_on_error=0 exitcode=0 log_path="+filepath.Join(dir, "race"))
	out, err := cmd.Output()
	races := 0
	logs, _ := filepath.Glob(filepath.Join(dir, "race.*"))
	for _, l := range logs {
		b, _ := os.ReadFile(l)
		races += strings.Count(string(b), "WARNING: DATA RACE")
	}
	var res struct {
		Calls, Ok, Bad, Ctx, Fetch, Reject, Downloads int
		Notes                                         []string
	}
	if err != nil || json.Unmarshal(bytes.TrimSpace(out), &res) != nil {
		return fmt.Sprintf("C13 case=soak soak=1 built=1 ran=0 races=%d", races)
	}
	return fmt.Sprintf("C13 case=soak soak=1 built=1 ran=1 calls=%d ok=%d reject=%d ctx=%d fetch=%d downloads=%d bad=%d races=%d note=%s",
		res.Calls, res.Ok, res.Reject, res.Ctx, res.Fetch, res.Downloads, res.Bad, races, hx.Esc(strings.Join(res.Notes, "; ")))
}
