package main

// C17 (round 5, seeded C17-P) — relying parties built by rp.NewRelyingPartyOIDC against DISCOVERY DOCUMENTS that vary.
//
// Up to round 4 every relying party of the stream came from rp.NewRelyingPartyOAuth (endpoints handed in, no discovery), so whatever
// the OIDC constructor does with the document it discovers was outside the stream. Here: one fake discovery provider per stream whose
// document is a function of the ISSUER PATH (stateless): `/i/c<ccm>a<algs>x<bits>/<client id>`
//   ccm   code_challenge_methods_supported: absent | [] | [S256] | [plain] | [plain,S256] | [S256,plain] | [S512] | [plain,S512]
//   algs  id_token_signing_alg_values_supported: [RS256] | [RS256,ES256] | [PS256,RS256]
//   bits  optional members present or not: userinfo / introspection+revocation / end_session / device_authorization endpoints,
//         grant_types_supported + token_endpoint_auth_methods_supported
// authorization_endpoint is the fixed URL the model knows, token_endpoint is the stream's recording fake token endpoint (same path
// appended), which for such a path adds an ID Token (RS256, key served at jwks_uri, iss = the issuer, aud = the client id of the path)
// so that the OIDC relying party's verification of the token response succeeds and the application callback can run.
//
// The option list of a relying party (`ropts` on the line) is what the APPLICATION configured: the monitor's "PKCE enabled" is
// "WithPKCE is in that list", never rp.IsPKCE().

import (
	"crypto/rand"
	"crypto/rsa"
	"encoding/json"
	"fmt"
	"net/http"
	"net/http/httptest"
	"net/url"
	"strings"
	"sync"
	"time"

	jose "github.com/go-jose/go-jose/v4"

	"verifharness/internal/hx"
)

var c17CCM = []struct {
	tag     string
	present bool
	methods []string
}{
	{"absent", false, nil},
	{"empty", true, []string{}},
	{"S256", true, []string{"S256"}},
	{"plain", true, []string{"plain"}},
	{"plain+S256", true, []string{"plain", "S256"}},
	{"S256+plain", true, []string{"S256", "plain"}},
	{"S512", true, []string{"S512"}},
	{"plain+S512", true, []string{"plain", "S512"}},
}

var c17DiscAlgs = [][]string{{"RS256"}, {"RS256", "ES256"}, {"PS256", "RS256"}}

const c17AuthURL = "http://op.local/authorize"

type c17Disc struct {
	srv       *httptest.Server
	tokenBase string // URL of the recording fake token endpoint
	signer    jose.Signer
	pub       jose.JSONWebKey
	mu        sync.Mutex
	idTokens  map[string]string // issuer path -> ID Token
}

// the one discovery provider of the process (like c17Signer)
var c17DiscCur *c17Disc

type c17DiscChoice struct {
	ccm, algs, bits int
}

func (d c17DiscChoice) path(clientID string) string {
	return fmt.Sprintf("/i/c%da%dx%d/%s", d.ccm, d.algs, d.bits, url.PathEscape(clientID))
}

func c17ParseDiscPath(p string) (d c17DiscChoice, clientID string, rest string, ok bool) {
	if !strings.HasPrefix(p, "/i/") {
		return
	}
	parts := strings.SplitN(p[3:], "/", 3)
	if len(parts) < 2 {
		return
	}
	if _, err := fmt.Sscanf(parts[0], "c%da%dx%d", &d.ccm, &d.algs, &d.bits); err != nil {
		return
	}
	if d.ccm < 0 || d.ccm >= len(c17CCM) || d.algs < 0 || d.algs >= len(c17DiscAlgs) {
		return
	}
	cid, err := url.PathUnescape(parts[1])
	if err != nil {
		return
	}
	if len(parts) == 3 {
		rest = "/" + parts[2]
	}
	return d, cid, rest, true
}

func newC17Disc(tokenBase string) *c17Disc {
	k, err := rsa.GenerateKey(rand.Reader, 2048)
	if err != nil {
		panic(err)
	}
	s, err := jose.NewSigner(jose.SigningKey{Algorithm: jose.RS256, Key: jose.JSONWebKey{Key: k, KeyID: "c17-op-1"}}, nil)
	if err != nil {
		panic(err)
	}
	d := &c17Disc{tokenBase: tokenBase, signer: s, pub: jose.JSONWebKey{Key: &k.PublicKey, KeyID: "c17-op-1", Use: "sig", Algorithm: "RS256"},
		idTokens: map[string]string{}}
	d.srv = httptest.NewServer(http.HandlerFunc(d.serve))
	return d
}

func (d *c17Disc) issuer(ch c17DiscChoice, clientID string) string { return d.srv.URL + ch.path(clientID) }

func (d *c17Disc) serve(w http.ResponseWriter, r *http.Request) {
	w.Header().Set("Content-Type", "application/json")
	// r.URL.Path is unescaped already: re-escape the client id segment by parsing the RAW path
	raw := r.URL.EscapedPath()
	if raw == "/keys" {
		_ = json.NewEncoder(w).Encode(jose.JSONWebKeySet{Keys: []jose.JSONWebKey{d.pub}})
		return
	}
	ch, cid, rest, ok := c17ParseDiscPath(raw)
	if !ok || (rest != "/.well-known/openid-configuration" && rest != "/alt/discovery") {
		http.NotFound(w, r)
		return
	}
	iss := d.issuer(ch, cid)
	doc := map[string]any{
		"issuer": iss, "authorization_endpoint": c17AuthURL, "token_endpoint": d.tokenBase + ch.path(cid),
		"jwks_uri": d.srv.URL + "/keys", "response_types_supported": []string{"code"}, "subject_types_supported": []string{"public"},
		"id_token_signing_alg_values_supported": c17DiscAlgs[ch.algs],
	}
	if m := c17CCM[ch.ccm]; m.present {
		doc["code_challenge_methods_supported"] = m.methods
	}
	if ch.bits&1 != 0 {
		doc["userinfo_endpoint"] = iss + "/userinfo"
	}
	if ch.bits&2 != 0 {
		doc["introspection_endpoint"] = iss + "/introspect"
		doc["revocation_endpoint"] = iss + "/revoke"
	}
	if ch.bits&4 != 0 {
		doc["end_session_endpoint"] = iss + "/end_session"
		doc["device_authorization_endpoint"] = iss + "/device"
	}
	if ch.bits&8 != 0 {
		doc["grant_types_supported"] = []string{"authorization_code", "refresh_token"}
		doc["token_endpoint_auth_methods_supported"] = []string{"client_secret_basic", "client_secret_post", "private_key_jwt"}
		doc["scopes_supported"] = []string{"openid", "email", "profile", "offline_access"}
	}
	_ = json.NewEncoder(w).Encode(doc)
}

// idTokenFor: the ID Token the token endpoint behind `rawPath` (= /token + issuer path) hands out; "" for any other path
func (d *c17Disc) idTokenFor(rawPath string) string {
	p := strings.TrimPrefix(rawPath, "/token")
	ch, cid, _, ok := c17ParseDiscPath(p)
	if !ok {
		return ""
	}
	key := ch.path(cid)
	d.mu.Lock()
	defer d.mu.Unlock()
	if t, ok := d.idTokens[key]; ok {
		return t
	}
	now := time.Now()
	claims, _ := json.Marshal(map[string]any{"iss": d.issuer(ch, cid), "sub": "user-1", "aud": []string{cid},
		"exp": now.Add(24 * time.Hour).Unix(), "iat": now.Add(-2 * time.Second).Unix()})
	sig, err := d.signer.Sign(claims)
	if err != nil {
		return ""
	}
	t, err := sig.CompactSerialize()
	if err != nil {
		return ""
	}
	d.idTokens[key] = t
	return t
}

func c17DrawDisc(r *hx.Rand) c17DiscChoice {
	return c17DiscChoice{ccm: r.Intn(len(c17CCM)), algs: r.Intn(len(c17DiscAlgs)), bits: r.Intn(16)}
}

// discKV writes the discovery document of the case as the relying party reads it (the members the model's document has)
func (d *c17Disc) discKV(l *hx.Line, ch c17DiscChoice, clientID string) {
	iss := d.issuer(ch, clientID)
	l.S("iss", iss).S("d.ccm", c17CCM[ch.ccm].tag).L("d.algs", c17DiscAlgs[ch.algs]).I("d.bits", int64(ch.bits)).
		S("d.auth", c17AuthURL).S("d.token", d.tokenBase+ch.path(clientID)).S("d.jwks", d.srv.URL+"/keys")
}
