package main

import (
	"bufio"
	"context"
	"errors"
	"fmt"
	"net/url"
	"strings"
	"time"

	jose "github.com/go-jose/go-jose/v4"
	"github.com/zitadel/oidc/v3/pkg/crypto"
	"github.com/zitadel/oidc/v3/pkg/oidc"
	"github.com/zitadel/oidc/v3/pkg/op"

	"verifharness/internal/hx"
	"verifharness/internal/opbed"
	"verifharness/internal/refstore"
)

func init() { streams["C15"] = c15Stream }

const (
	ttAccess  = "urn:ietf:params:oauth:token-type:access_token"
	ttRefresh = "urn:ietf:params:oauth:token-type:refresh_token"
	ttID      = "urn:ietf:params:oauth:token-type:id_token"
	ttJWT     = "urn:ietf:params:oauth:token-type:jwt"
	// registered by RFC 8693 but NOT supported by this provider (oidc.AllTokenTypes)
	ttSAML1 = "urn:ietf:params:oauth:token-type:saml1"
	ttSAML2 = "urn:ietf:params:oauth:token-type:saml2"
)

type c15Tokens struct {
	access, refresh, id string
	atID                string
}

// issue runs a code flow for fc / user and returns the tokens
func c15Issue(bed *opbed.Bed, sy *symbols, fc *flowClient, user string) c15Tokens {
	redirect := fc.c.Redirects[0]
	q := url.Values{"client_id": {fc.c.ID}, "redirect_uri": {redirect}, "response_type": {"code"}, "scope": {"openid profile offline_access"}, "state": {"s"}}
	resp := bed.Do(bed.Get("/authorize", q, ""))
	if resp.Loc == nil {
		return c15Tokens{}
	}
	id := resp.Loc.Query().Get("authRequestID")
	bed.Store.CompleteAuthRequest(id, user)
	cb := bed.Do(bed.Get("/authorize/callback", url.Values{"id": {id}}, ""))
	if cb.Loc == nil {
		return c15Tokens{}
	}
	tr := bed.Do(bed.Form("/oauth/token", url.Values{"grant_type": {"authorization_code"}, "code": {cb.Loc.Query().Get("code")}, "redirect_uri": {redirect}}, ownAuth(sy, fc)))
	ids := bed.Store.TokenIDs()
	t := c15Tokens{access: tr.Str("access_token"), refresh: tr.Str("refresh_token"), id: tr.Str("id_token")}
	if len(ids) > 0 {
		t.atID = ids[len(ids)-1]
	}
	return t
}

// what the access_token member of a response is: kind, liveness, and what the token carries
type c15Issued struct {
	kind     string // "access" | "id" | "other" | ""
	live     bool
	subject  string
	audience []string
	// what the token ITSELF carries when it is self-contained (a JWT access token, an ID token): its own claims
	form             string // "opaque" | "jwt" | "id" | ""
	jsub, jact, jsrc string // sub, act.sub, and which storage hook supplied the claims (c15_src / c15_ui_src)
	jactv            string // deep5: the WHOLE act member of the token (canonical JSON, nested members and all; "" = absent)
}

func c15Act(m map[string]any) string {
	if a, ok := m["act"].(map[string]any); ok {
		sub, _ := a["sub"].(string)
		return sub
	}
	return ""
}

func c15Classify(bed *opbed.Bed, tok string) c15Issued {
	if tok == "" {
		return c15Issued{}
	}
	stored := func(id string) (c15Issued, bool) {
		if rec := bed.Store.Token(id); rec != nil {
			return c15Issued{kind: "access", live: bed.Store.TokenLive(id), subject: rec.Subject, audience: rec.Audience}, true
		}
		return c15Issued{}, false
	}
	if plain, err := crypto.DecryptAES(tok, string(bed.CryptoKey[:])); err == nil {
		// the storage's token ids never contain ':' - the record is found by the FIRST colon, whatever the subject looks like (deep4);
		// live at the provider = live in the storage AND accepted by the provider's own userinfo endpoint (its parser of opaque tokens)
		if id, _, found := strings.Cut(plain, ":"); found {
			if is, ok := stored(id); ok {
				is.form = "opaque"
				if is.live && bed.Do(bed.Get("/userinfo", nil, tok)).Status != 200 {
					is.live = false
				}
				return is
			}
		}
		return c15Issued{kind: "other"}
	}
	m, ok := opbed.DecodeJWT(tok)
	if !ok {
		return c15Issued{kind: "other"}
	}
	jws, err := jose.ParseSigned(tok, allAlgs)
	if err != nil {
		return c15Issued{kind: "other"}
	}
	if _, err := jws.Verify(bed.SignKey.Pub); err != nil {
		return c15Issued{kind: "other"}
	}
	sub, _ := m["sub"].(string)
	if jti, _ := m["jti"].(string); jti != "" {
		if is, ok := stored(jti); ok {
			is.form, is.jsub, is.jact, is.jactv = "jwt", sub, c15Act(m), c15Canon(m["act"])
			is.jsrc, _ = m[c15SrcClaim].(string)
			// live at the provider = known to the storage AND accepted by the provider's own access-token verifier (issuer, signature, times)
			ctx := op.ContextWithIssuer(context.Background(), opbed.Issuer)
			if _, err := op.VerifyAccessToken[*oidc.AccessTokenClaims](ctx, tok, bed.Provider.AccessTokenVerifier(ctx)); err != nil {
				is.live = false
			}
			return is
		}
	}
	var aud []string
	switch a := m["aud"].(type) {
	case string:
		aud = []string{a}
	case []any:
		for _, x := range a {
			if s, ok := x.(string); ok {
				aud = append(aud, s)
			}
		}
	}
	exp, _ := m["exp"].(float64)
	iss, _ := m["iss"].(string)
	uisrc, _ := m[c15UISrcClaim].(string)
	ctx := op.ContextWithIssuer(context.Background(), opbed.Issuer)
	_, verr := op.VerifyIDTokenHint[*oidc.IDTokenClaims](ctx, tok, bed.Provider.IDTokenHintVerifier(ctx))
	return c15Issued{kind: "id", live: iss == opbed.Issuer && int64(exp) > time.Now().Unix() && verr == nil, subject: sub, audience: aud,
		form: "id", jsub: sub, jact: c15Act(m), jsrc: uisrc, jactv: c15Canon(m["act"])}
}

// ---------------------------------------------------------------- one case

type c15Reg struct { // the presenter's registration
	te, rt bool   // registered for the token-exchange / refresh_token grant
	auth   string // basic | post | none | pk
	jwtAT  bool   // its access tokens are JWTs
}

type c15Spec struct {
	router         string
	capTE, capTEV  bool
	capPC, capUI   bool   // the storage also implements CanGetPrivateClaimsFromRequest / CanSetUserinfoFromRequest
	noSubject      bool   // subject_token absent
	aTypeAlone     string // actor_token_type sent WITHOUT an actor_token ("" = not sent)
	storeDefault   string // requested_token_type the storage fills in when absent ("" = refresh_token)
	reg            c15Reg
	cred           string // own | wrong-secret | basic-for-post (a post client sending Basic)
	user           string
	skind, sdecl   string // sdecl "right" = the type the token really has
	akind, adecl   string
	requested      string
	scopes         []string
	audience, rsrc []string
	sshadow        bool   // the verifier storage ALSO knows the provider's own subject / actor token, as other identities:
	ashadow        bool   // the provider's own resolution must win, the storage is only a fallback
	fixed          string // label of a deterministic preamble case ("" = random)
	// deep4
	auser string // whose token the actor token is ("" = actor1)
	pol   string // the exchange storage's policy: "check" (reference: an access token's id must be live in the store) | "trust" (the
	// repository's example storage: the framework's resolution is taken as it is, no lookup of the id)
	// deep5
	actpol string // the exchange storage's policy for the `act` member of the issued token (c15ActModes; "" = by case number)
}

// users whose subject identifier contains ':' (namespaced / URN / DID style); the part after the last colon is the id of ANOTHER known user
var c15ColonUsers = []string{"corp:user2", "urn:user:user2", "did:example:123:actor1", ":user2", "user2:", "a::user1"}

// token kinds whose liveness only the storage's lookup of the token id can establish: never paired with the trusting policy
var c15DeadAT = map[string]bool{"expired-at": true, "revoked-at": true, "revoked-jwt-at": true, "revoked-xchg-at": true}

func c15HasColon(u string) bool { return strings.Contains(u, ":") }

var (
	c15TPKinds = []string{"tp-both", "tp-both-diff", "tp-subj-only", "tp-actor-only", "tp-neither"}
)

func c15Random(r *hx.Rand) c15Spec {
	sp := c15Spec{router: hx.Pick(r, "provider", "legacy"), capTE: r.Chance(90), capTEV: r.Chance(70), capPC: r.Bool(), capUI: r.Bool(),
		storeDefault: hx.Pick(r, "", "", ttAccess, ttID)}
	// the presenter: {token-exchange grant} x {refresh grant} x auth method, mostly with the exchange grant
	sp.reg = c15Reg{te: r.Chance(90), rt: r.Bool(), auth: hx.Pick(r, "basic", "basic", "basic", "basic", "basic", "post", "none", "pk"), jwtAT: r.Chance(45)}
	sp.cred = hx.Pick(r, "own", "own", "own", "own", "own", "own", "own", "own", "own", "own", "own", "own", "own", "wrong-secret")
	sp.user = hx.Pick(r, "user1", "user1", "user1", "user2", "user2", "user1", "user2", "user1", "user2", refstore.BlockedUser)
	if r.Chance(35) {
		sp.skind = hx.Pick(r, c15TPKinds...)
	} else {
		sp.skind = hx.Pick(r, "opaque-at", "opaque-at", "jwt-at", "refresh", "refresh", "id", "expired-at", "revoked-at", "revoked-jwt-at", "expired-id", "foreign-jwt", "rotated-rt", "garbage",
			"xchg-at", "xchg-jwt-at", "xchg-rt", "xchg-id", "revoked-xchg-at")
	}
	sp.sshadow, sp.ashadow = r.Chance(12), r.Chance(12)
	// deep4: subjects with ':' (subject 22 %, actor 22 %), the trusting policy (35 % where no presented token's liveness rests on the lookup)
	if r.Chance(22) {
		sp.user = hx.Pick(r, c15ColonUsers...)
	}
	if r.Chance(22) {
		sp.auser = hx.Pick(r, c15ColonUsers...)
	}
	sp.pol = "check"
	trust := r.Chance(35)
	sp.sdecl = "right"
	if r.Chance(15) {
		sp.sdecl = hx.Pick(r, ttAccess, ttRefresh, ttID, ttJWT, "urn:unknown", "", ttSAML1, ttSAML2)
	}
	switch {
	case r.Chance(45):
		sp.akind = "none"
	case r.Chance(50):
		sp.akind = hx.Pick(r, c15TPKinds...)
	default:
		sp.akind = hx.Pick(r, "opaque-at", "jwt-at", "id", "refresh", "expired-at", "revoked-jwt-at", "expired-id", "garbage", "xchg-at", "xchg-id", "revoked-xchg-at")
	}
	sp.adecl = "right"
	if r.Chance(18) {
		// (incl. an actor_token WITHOUT actor_token_type: "")
		sp.adecl = hx.Pick(r, ttAccess, ttID, ttJWT, "urn:unknown", "", "", ttSAML2)
	}
	if sp.akind == "none" && r.Chance(8) {
		sp.aTypeAlone = hx.Pick(r, ttAccess, ttID, ttJWT, "urn:unknown") // actor_token_type without an actor_token
	}
	sp.noSubject = r.Chance(2)
	sp.requested = hx.Pick(r, "", "", ttAccess, ttAccess, ttAccess, ttAccess, ttRefresh, ttRefresh, ttRefresh, ttRefresh, ttID, ttID, ttID, ttJWT, "urn:unknown", ttSAML2)
	sp.scopes = hx.Pick(r, []string{"openid"}, []string{"openid", "profile"}, []string{"openid", "address"}, []string(nil),
		[]string{"openid", refstore.ImpersonateScopePrefix + "user2"}, []string{"openid", refstore.ImpersonateScopePrefix + refstore.BlockedUser})
	sp.audience = hx.Pick(r, []string(nil), []string(nil), []string{"api1"}, []string{"api1", "api2"})
	sp.rsrc = hx.Pick(r, []string(nil), []string(nil), []string{"https://rs.example/a"})
	if r.Chance(6) {
		sp.scopes = []string{"openid", refstore.ImpersonateScopePrefix + "corp:user2"} // impersonation OF a user with a colon
	}
	// the trusting policy takes the framework's resolution as it is: it is a policy in the property's sense only where that resolution does
	// not rest on the storage's lookup - no expired / revoked access token, and every token declared as the type it really has (an ID token
	// declared an access_token passes the framework's JWT verifier with an empty jti and is only stopped by the lookup, notes/DEEP_C15.md §5)
	if trust && !c15DeadAT[sp.skind] && !c15DeadAT[sp.akind] && sp.sdecl == "right" && (sp.akind == "none" || sp.adecl == "right") {
		sp.pol = "trust"
	}
	return sp
}

// c15Fixed: a deterministic preamble that every run (quick and thorough) starts with - the shapes a reviewer would ask for by name
func c15Fixed() []c15Spec {
	base := c15Spec{capTE: true, capTEV: true, reg: c15Reg{te: true, rt: true, auth: "basic"}, cred: "own", user: "user1",
		skind: "opaque-at", sdecl: "right", akind: "none", adecl: "right", requested: ttAccess, scopes: []string{"openid"}}
	var out []c15Spec
	add := func(label string, f func(*c15Spec)) {
		for _, router := range []string{"provider", "legacy"} {
			sp := base
			sp.router, sp.fixed = router, label
			f(&sp)
			out = append(out, sp)
		}
	}
	// a JWT access token (live / revoked) declared as an ID token, as subject and as actor
	add("jwt-at-as-id", func(s *c15Spec) { s.skind, s.sdecl = "jwt-at", ttID })
	add("revoked-jwt-at-as-id", func(s *c15Spec) { s.skind, s.sdecl = "revoked-jwt-at", ttID })
	add("actor-revoked-jwt-at-as-id", func(s *c15Spec) { s.akind, s.adecl = "revoked-jwt-at", ttID })
	// exchange grant without refresh grant asking for a refresh token (explicitly / through the storage default)
	add("te-without-rt-grant:refresh", func(s *c15Spec) { s.reg.rt, s.requested = false, ttRefresh })
	add("te-without-rt-grant:default", func(s *c15Spec) { s.reg.rt, s.requested = false, "" })
	add("te-with-rt-grant:access", func(s *c15Spec) { s.requested = ttAccess })
	// third-party tokens, one role at a time and the same token in both roles
	for _, k := range c15TPKinds {
		k := k
		add("subject:"+k, func(s *c15Spec) { s.skind = k })
		add("actor:"+k, func(s *c15Spec) { s.akind = k })
		add("both:"+k, func(s *c15Spec) { s.skind, s.akind = k, k })
	}
	add("own-token-shadowed-in-verifier-table", func(s *c15Spec) { s.skind, s.sshadow, s.akind, s.ashadow = "id", true, "id", true })
	add("tp-without-verifier", func(s *c15Spec) { s.skind, s.capTEV = "tp-both", false })
	add("expired-id", func(s *c15Spec) { s.skind = "expired-id" })
	add("actor-expired-id", func(s *c15Spec) { s.akind = "expired-id" })
	add("requested-jwt", func(s *c15Spec) { s.requested = ttJWT })
	add("blocked-user", func(s *c15Spec) { s.user = refstore.BlockedUser })
	add("audience", func(s *c15Spec) {
		s.audience, s.rsrc, s.scopes = []string{"api1"}, []string{"https://rs.example/a"}, []string{"openid", "profile"}
	})
	// ---- deep3
	// the optional-capability cross of the storage x the access token type of the presenter, for the two flows in which the
	// storage policy decides an ACTOR (impersonation: scope, no actor token; delegation: an actor token) and for each issuable type
	imp := []string{"openid", refstore.ImpersonateScopePrefix + "user2"}
	for m := 0; m < 8; m++ {
		pc, ui, jwt := m&1 != 0, m&2 != 0, m&4 != 0
		for _, req := range []string{ttAccess, ttRefresh, ttID} {
			req := req
			lab := fmt.Sprintf("pc%d-ui%d-jwt%d:%s", b2i(pc), b2i(ui), b2i(jwt), c15Short(req))
			add("impersonation:"+lab, func(s *c15Spec) { s.capPC, s.capUI, s.reg.jwtAT, s.requested, s.scopes = pc, ui, jwt, req, imp })
			add("delegation:"+lab, func(s *c15Spec) { s.capPC, s.capUI, s.reg.jwtAT, s.requested, s.akind = pc, ui, jwt, req, "opaque-at" })
		}
	}
	// delegation AND impersonation in one request (an actor token and the policy's scope): subject = the impersonated user, actor = the actor
	add("delegation+impersonation:opaque", func(s *c15Spec) { s.akind, s.scopes = "opaque-at", imp })
	add("delegation+impersonation:jwt", func(s *c15Spec) { s.akind, s.scopes, s.reg.jwtAT, s.capPC = "jwt-at", imp, true, true })
	add("delegation+impersonation:id", func(s *c15Spec) { s.akind, s.scopes, s.requested, s.capUI = "id", imp, ttID, true })
	// every subset of the optional / conditionally required parameters present or absent, everything that is present being valid:
	// bit 0 subject_token_type, 1 actor_token, 2 actor_token_type, 3 requested_token_type, 4 scope, 5 audience, 6 resource
	for m := 0; m < 128; m++ {
		m := m
		add(fmt.Sprintf("subset:%07b", m), func(s *c15Spec) {
			s.capPC, s.capUI, s.reg.jwtAT = m%3 == 0, m%5 == 0, m%2 == 1
			if m&1 == 0 {
				s.sdecl = ""
			}
			switch {
			case m&2 != 0 && m&4 != 0:
				s.akind = "opaque-at"
			case m&2 != 0:
				s.akind, s.adecl = "opaque-at", ""
			case m&4 != 0:
				s.aTypeAlone = ttAccess
			}
			s.requested, s.scopes = "", nil
			if m&8 != 0 {
				s.requested = ttAccess
			}
			if m&16 != 0 {
				s.scopes = []string{"openid"}
			}
			if m&32 != 0 {
				s.audience = []string{"api1"}
			}
			if m&64 != 0 {
				s.rsrc = []string{"https://rs.example/a"}
			}
		})
	}
	// an actor token WITHOUT a declared type: garbage, the provider's own token, a third-party token the verifier storage knows
	for _, k := range []string{"garbage", "opaque-at", "id", "expired-at", "tp-both", "tp-actor-only", "tp-subj-only"} {
		k := k
		add("actor-without-type:"+k, func(s *c15Spec) { s.akind, s.adecl = k, "" })
		add("actor-without-type:"+k+":no-verifier", func(s *c15Spec) { s.akind, s.adecl, s.capTEV = k, "", false })
	}
	// histories: the subject / actor token is itself the result of an earlier exchange (live, or revoked since)
	for _, k := range []string{"xchg-at", "xchg-jwt-at", "xchg-rt", "xchg-id", "revoked-xchg-at"} {
		k := k
		add("chain:subject:"+k, func(s *c15Spec) { s.skind = k })
		add("chain:actor:"+k, func(s *c15Spec) { s.akind = k })
	}
	// a declared type outside the supported set, with a token the verifier storage would accept under ANY declared type: the
	// framework's own type checks (one copy per router) are all that stands between the request and the storage
	add("subject-unknown-type:tp-both", func(s *c15Spec) { s.skind, s.sdecl = "tp-both", "urn:unknown" })
	add("actor-unknown-type:tp-both", func(s *c15Spec) { s.akind, s.adecl = "tp-both", "urn:unknown" })
	add("actor-unknown-type:tp-actor-only", func(s *c15Spec) { s.akind, s.adecl = "tp-actor-only", "urn:unknown" })
	add("requested-unknown-type", func(s *c15Spec) { s.requested = "urn:unknown" })
	for _, t := range []string{ttSAML1, ttSAML2} {
		t := t
		add("subject-type:"+c15Short(t)+":tp-both", func(s *c15Spec) { s.skind, s.sdecl = "tp-both", t })
		add("actor-type:"+c15Short(t)+":tp-both", func(s *c15Spec) { s.akind, s.adecl = "tp-both", t })
		add("requested-type:"+c15Short(t), func(s *c15Spec) { s.requested = t })
	}
	add("actor-type-without-actor", func(s *c15Spec) { s.aTypeAlone = ttJWT })
	add("no-subject-token", func(s *c15Spec) { s.noSubject = true })
	// ---- deep4: a LIVE token of a user whose subject contains ':' (one or several; empty prefix / suffix), as subject and as actor, opaque /
	// JWT / ID token (refresh, result of an earlier exchange for the first), under the reference policy and the trusting policy
	for _, u := range []string{"corp:user2", "urn:user:user2", ":user2", "user2:", "did:example:123:actor1"} {
		u := u
		kinds := []string{"opaque-at", "jwt-at", "id"}
		if u == "corp:user2" {
			kinds = append(kinds, "refresh", "xchg-at")
		}
		for _, k := range kinds {
			k := k
			for _, pol := range []string{"check", "trust"} {
				pol := pol
				add("colon-subject:"+u+":"+k+":"+pol, func(s *c15Spec) { s.user, s.skind, s.pol = u, k, pol })
				add("colon-actor:"+u+":"+k+":"+pol, func(s *c15Spec) { s.auser, s.akind, s.pol = u, k, pol })
			}
		}
	}
	add("colon-subject+actor:opaque:trust", func(s *c15Spec) {
		s.user, s.auser, s.akind, s.pol = "corp:user2", "did:example:123:actor1", "opaque-at", "trust"
	})
	add("colon-subject:jwt-at:jwt-presenter", func(s *c15Spec) { s.user, s.skind, s.reg.jwtAT, s.capPC = "urn:user:user2", "jwt-at", true, true })
	add("colon-impersonated", func(s *c15Spec) { s.scopes = []string{"openid", refstore.ImpersonateScopePrefix + "corp:user2"} })
	add("trusting-policy:plain", func(s *c15Spec) { s.pol = "trust" })
	add("trusting-policy:delegation", func(s *c15Spec) { s.pol, s.akind = "trust", "opaque-at" })
	// ---- deep5: the storage policy's decision about the `act` member x every way an issued token has claims (JWT access token alone / next
	// to a refresh token, ID token) x {delegation, impersonation, both, delegation by a colon user, a third-party actor, a chained actor token}
	for _, mode := range c15ActModes {
		mode := mode
		for _, tk := range []struct {
			lab, req string
			jwt      bool
		}{{"jwt-at", ttAccess, true}, {"jwt-at+rt", ttRefresh, true}, {"id", ttID, false}, {"id:jwt-client", ttID, true}} {
			tk := tk
			lab := "act-policy:" + mode + ":" + tk.lab
			add(lab+":delegation", func(s *c15Spec) { s.actpol, s.requested, s.reg.jwtAT, s.akind = mode, tk.req, tk.jwt, "opaque-at" })
			add(lab+":delegation:pc+ui", func(s *c15Spec) {
				s.actpol, s.requested, s.reg.jwtAT, s.akind, s.capPC, s.capUI = mode, tk.req, tk.jwt, "jwt-at", true, true
			})
			add(lab+":impersonation", func(s *c15Spec) { s.actpol, s.requested, s.reg.jwtAT, s.scopes = mode, tk.req, tk.jwt, imp })
			add(lab+":delegation+impersonation", func(s *c15Spec) {
				s.actpol, s.requested, s.reg.jwtAT, s.akind, s.scopes = mode, tk.req, tk.jwt, "id", imp
			})
		}
		add("act-policy:"+mode+":jwt-at:colon-actor", func(s *c15Spec) {
			s.actpol, s.reg.jwtAT, s.akind, s.auser, s.pol = mode, true, "jwt-at", "corp:user2", "trust"
		})
		add("act-policy:"+mode+":id:tp-actor", func(s *c15Spec) { s.actpol, s.requested, s.akind = mode, ttID, "tp-actor-only" })
		add("act-policy:"+mode+":jwt-at:chained-actor", func(s *c15Spec) { s.actpol, s.reg.jwtAT, s.akind = mode, true, "xchg-at" })
		add("act-policy:"+mode+":opaque:delegation", func(s *c15Spec) { s.actpol, s.akind = mode, "opaque-at" })
		add("act-policy:"+mode+":jwt-at:no-actor", func(s *c15Spec) { s.actpol, s.reg.jwtAT = mode, true })
	}
	return out
}

// a presented token with its ground truth
type c15Pres struct {
	tok   string
	isTP  bool
	right string          // the type it really has ("" = none of the four)
	live  map[string]bool // declared type -> it is a live token OF THAT TYPE at the provider (reference storage's truth)
	sub   string          // whose token it is
}

type c15Case struct {
	bed  *opbed.Bed
	sy   *symbols
	web  *flowClient
	webj *flowClient
	ctx  context.Context
}

func (c *c15Case) mk(kind, user, role string) c15Pres {
	bed := c.bed
	p := c15Pres{live: map[string]bool{}, sub: user}
	own := func(fc *flowClient) c15Tokens { return c15Issue(bed, c.sy, fc, user) }
	switch kind {
	case "opaque-at":
		p.tok, p.right, p.live[ttAccess] = own(c.web).access, ttAccess, true
	case "jwt-at":
		p.tok, p.right, p.live[ttAccess] = own(c.webj).access, ttAccess, true
	case "refresh":
		p.tok, p.right, p.live[ttRefresh] = own(c.web).refresh, ttRefresh, true
	case "id":
		p.tok, p.right, p.live[ttID] = own(c.web).id, ttID, true
	case "expired-at":
		t := own(c.web)
		bed.Store.ExpireToken(t.atID)
		p.tok, p.right = t.access, ttAccess
	case "revoked-at":
		t := own(c.web)
		bed.Do(bed.Form("/revoke", url.Values{"token": {t.access}}, ownAuth(c.sy, c.web)))
		p.tok, p.right = t.access, ttAccess
	case "revoked-jwt-at":
		t := own(c.webj)
		bed.Do(bed.Form("/revoke", url.Values{"token": {t.access}}, ownAuth(c.sy, c.webj)))
		p.tok, p.right = t.access, ttAccess
	case "expired-id":
		now := time.Now().Unix()
		claims := fmt.Sprintf(`{"iss":"%s","sub":"%s","aud":["web"],"azp":"web","exp":%d,"iat":%d}`, opbed.Issuer, user, now-100, now-4000)
		p.tok, _ = hx.Sign(bed.SignKey, bed.Cfg.SignAlg, "sig1", []byte(claims))
		p.right = ttID
	case "foreign-jwt":
		now := time.Now().Unix()
		claims := fmt.Sprintf(`{"iss":"%s","sub":"%s","aud":["web"],"azp":"web","exp":%d,"iat":%d,"jti":"at1"}`, opbed.Issuer, user, now+300, now-5)
		p.tok, _ = hx.Sign(hx.Keys()[1], "RS256", "sig1", []byte(claims))
	case "rotated-rt":
		t := own(c.web)
		bed.Do(bed.Form("/oauth/token", url.Values{"grant_type": {"refresh_token"}, "refresh_token": {t.refresh}}, ownAuth(c.sy, c.web)))
		p.tok, p.right = t.refresh, ttRefresh
	case "xchg-at", "xchg-jwt-at", "xchg-rt", "xchg-id", "revoked-xchg-at":
		// HISTORY: a token that is itself the result of an earlier token exchange (by the client web / webjwt, from a fresh access
		// token of the user) - what an exchange hands out must be live at the provider, i.e. usable like any other token of its type
		fc := c.web
		if kind == "xchg-jwt-at" {
			fc = c.webj
		}
		want := map[string]string{"xchg-at": ttAccess, "xchg-jwt-at": ttAccess, "revoked-xchg-at": ttAccess, "xchg-rt": ttRefresh, "xchg-id": ttID}[kind]
		r := bed.Do(bed.Form("/oauth/token", url.Values{"grant_type": {string(oidc.GrantTypeTokenExchange)}, "subject_token": {own(fc).access},
			"subject_token_type": {ttAccess}, "requested_token_type": {want}, "scope": {"openid"}}, ownAuth(c.sy, fc)))
		p.tok, p.right = r.Str("access_token"), want
		if want == ttRefresh {
			p.tok = r.Str("refresh_token")
		}
		switch {
		case r.Status != 200 || p.tok == "":
			p.tok, p.right = "garbage-"+role, "" // no exchange storage / vetoed: nothing was handed out
		case kind == "revoked-xchg-at":
			bed.Do(bed.Form("/revoke", url.Values{"token": {p.tok}}, ownAuth(c.sy, fc)))
		default:
			p.live[want] = true
		}
	case "tp-both", "tp-both-diff", "tp-subj-only", "tp-actor-only", "tp-neither":
		// a third-party credential only the optional verifier storage knows; its two role policies are independent
		p.tok, p.isTP = "tp:"+kind, true
		t := refstore.ThirdPartyToken{}
		switch kind {
		case "tp-both":
			t.AsSubject = refstore.RoleAnswer{Accept: true, ID: p.tok, Subject: "tp-user"}
			t.AsActor = t.AsSubject
		case "tp-both-diff":
			t.AsSubject = refstore.RoleAnswer{Accept: true, ID: p.tok, Subject: "tp-user-s"}
			t.AsActor = refstore.RoleAnswer{Accept: true, ID: p.tok, Subject: "tp-user-a"}
		case "tp-subj-only":
			t.AsSubject = refstore.RoleAnswer{Accept: true, ID: p.tok, Subject: "tp-user-s"}
		case "tp-actor-only":
			t.AsActor = refstore.RoleAnswer{Accept: true, ID: p.tok, Subject: "tp-user-a"}
		}
		bed.Store.SetThirdPartyToken(p.tok, t)
	default:
		p.tok = "garbage-" + role
	}
	return p
}

// oracle answers for one presented token: what the provider's own libraries / storage make of it, asked directly
func (c *c15Case) oracleKV(l *hx.Line, pfx, label, tok, declared string) {
	bed := c.bed
	l.S(pfx+"tok", label)
	if plain, err := bed.Provider.Crypto().Decrypt(tok); err == nil {
		l.B(pfx+"decok", true).S(pfx+"dec", plain)
	}
	if cl, err := op.VerifyAccessToken[*oidc.AccessTokenClaims](c.ctx, tok, bed.Provider.AccessTokenVerifier(c.ctx)); err == nil {
		l.L(pfx+"jwt", []string{cl.JWTID, cl.Subject})
	}
	if rec := bed.Store.Refresh(tok); rec != nil && rec.Expiration.After(time.Now()) {
		l.L(pfx+"rt", []string{rec.Subject})
	}
	cl, err := op.VerifyIDTokenHint[*oidc.IDTokenClaims](c.ctx, tok, bed.Provider.IDTokenHintVerifier(c.ctx))
	switch {
	case err == nil:
		l.L(pfx+"hint", []string{"valid", cl.Subject})
	case errors.As(err, &op.IDTokenHintExpiredError{}):
		l.L(pfx+"hint", []string{"expired", cl.Subject})
	}
	if a := bed.Store.ThirdPartyAnswer(tok, oidc.TokenType(declared), false); a.Accept {
		l.L(pfx+"vs", []string{a.ID, a.Subject})
	}
	if a := bed.Store.ThirdPartyAnswer(tok, oidc.TokenType(declared), true); a.Accept {
		l.L(pfx+"va", []string{a.ID, a.Subject})
	}
}

func c15Stream(r *hx.Rand, tier string, n int, w *bufio.Writer) map[string]int {
	if n == 0 {
		n = 2000
		if tier == "thorough" {
			n = 30000
		}
	}
	stats := map[string]int{}
	sy := newSymbols()
	fixed := c15Fixed()
	for i := 0; i < n; i++ {
		var sp c15Spec
		if i < len(fixed) {
			sp = fixed[i]
		} else {
			sp = c15Random(r)
		}
		if sp.pol == "" {
			sp.pol = "check"
		}
		if sp.auser == "" {
			sp.auser = "actor1"
		}
		// deep5: the act policy of a random case is a function of its number (no draw: the random sequence of rounds 3-4 is kept);
		// 3 in 8 cases keep the flat policy of the earlier rounds, as do their named shapes
		if sp.actpol == "" {
			sp.actpol = []string{"flat", "chain", "pairwise", "flat", "extra", "none", "flat", "chain"}[(i+i/8)%8]
			if i < len(fixed) {
				sp.actpol = "flat"
			}
		}
		journal := &c15Journal{}
		// the verifier table's shadow entry presupposes that the provider resolves its own token (see sshadow): not for subjects with ':'
		sp.sshadow, sp.ashadow = sp.sshadow && !c15HasColon(sp.user), sp.ashadow && !c15HasColon(sp.auser)
		bed, err := opbed.New(opbed.Config{Router: sp.router, S256: true, Post: true, PrivateKeyJWT: true, Refresh: true,
			Caps: refstore.Caps{CC: true, TE: sp.capTE, TEVerifier: sp.capTEV, Device: true, UserinfoFromReq: sp.capUI},
			StorageFn: func(st *refstore.Store) op.Storage {
				return c15Storage(st, c15Caps{TE: sp.capTE, TEV: sp.capTEV, PC: sp.capPC, UI: sp.capUI, Trust: sp.pol == "trust", Act: sp.actpol, J: journal})
			}})
		if err != nil {
			panic(err)
		}
		bed.Store.TEDefaultType = sp.storeDefault
		// registrations: two issuing clients (opaque / JWT access tokens) and the presenter
		web := &flowClient{c: opbed.WebClient("web", "secret-web", "https://rp.example/cb")}
		webjwtC := opbed.WebClient("webjwt", "secret-jwt", "https://rp.example/cb")
		webjwtC.TokenType = op.AccessTokenTypeJWT
		webjwt := &flowClient{c: webjwtC}
		px := opbed.WebClient("px", "secret-px", "https://rp.example/cb")
		px.Grants = []oidc.GrantType{oidc.GrantTypeCode}
		if sp.reg.te {
			px.Grants = append(px.Grants, oidc.GrantTypeTokenExchange)
		}
		if sp.reg.rt {
			px.Grants = append(px.Grants, oidc.GrantTypeRefreshToken)
		}
		if sp.reg.jwtAT {
			px.TokenType = op.AccessTokenTypeJWT
		}
		pres := &flowClient{c: px}
		switch sp.reg.auth {
		case "post":
			px.Auth = oidc.AuthMethodPost
		case "none":
			px.Auth, px.Secret, px.App = oidc.AuthMethodNone, "", op.ApplicationTypeNative
		case "pk":
			px.Auth, px.Secret = oidc.AuthMethodPrivateKeyJWT, ""
			px.Keys = []refstore.ClientKey{{Kid: "pk1", Pub: hx.Keys()[1].Pub}}
			pres.key, pres.kid = hx.Keys()[1], "pk1"
		}
		cls := []*flowClient{web, webjwt, pres}
		for _, fc := range cls {
			bed.Store.AddClient(fc.c)
		}
		for _, u := range append([]string{"user1", "user2", "actor1", "tp-user", "tp-user-s", "tp-user-a", "shadow-s", "shadow-a", refstore.BlockedUser}, c15ColonUsers...) {
			bed.Store.AddUser(u, nil)
		}
		cs := &c15Case{bed: bed, sy: sy, web: web, webj: webjwt, ctx: op.ContextWithIssuer(context.Background(), opbed.Issuer)}

		// ---- presented tokens and their ground truth
		subj := cs.mk(sp.skind, sp.user, "subject")
		declared := sp.sdecl
		if declared == "right" {
			declared = subj.right
			if declared == "" {
				if subj.isTP {
					declared = hx.Pick(r, ttJWT, ttJWT, ttJWT, ttJWT, ttJWT, ttJWT, ttJWT, ttAccess, ttRefresh, ttID)
				} else {
					declared = hx.Pick(r, ttAccess, ttRefresh, ttID, ttJWT)
				}
			}
		}
		var actor c15Pres
		actorDeclared := ""
		if sp.akind != "none" {
			if sp.akind == sp.skind && subj.isTP {
				actor = subj // the SAME third-party token in both roles
			} else {
				actor = cs.mk(sp.akind, sp.auser, "actor")
			}
			actorDeclared = sp.adecl
			if actorDeclared == "right" {
				actorDeclared = actor.right
				if actorDeclared == "" {
					actorDeclared = hx.Pick(r, ttJWT, ttJWT, ttJWT, ttAccess, ttID)
				}
			}
		}
		shadow := func(p c15Pres) {
			if !p.isTP && p.tok != "" {
				bed.Store.SetThirdPartyToken(p.tok, refstore.ThirdPartyToken{
					AsSubject: refstore.RoleAnswer{Accept: true, ID: "shadow-id", Subject: "shadow-s"}, AsActor: refstore.RoleAnswer{Accept: true, ID: "shadow-id", Subject: "shadow-a"}})
				stats["own-token-also-in-verifier-table"]++
			}
		}
		if sp.sshadow {
			shadow(subj)
		}
		if sp.ashadow && sp.akind != "none" {
			shadow(actor)
		}
		role := func(p c15Pres, decl string, asActor bool) (live bool, sub string) {
			if p.live[decl] {
				return true, p.sub
			}
			if a := bed.Store.ThirdPartyAnswer(p.tok, oidc.TokenType(decl), asActor); sp.capTEV && a.Accept {
				return true, a.Subject
			}
			return false, ""
		}
		sLive, sSub := role(subj, declared, false)
		aLive, aSub := false, ""
		if sp.akind != "none" {
			aLive, aSub = role(actor, actorDeclared, true)
		}

		// ---- the request
		form := url.Values{"grant_type": {string(oidc.GrantTypeTokenExchange)}}
		if !sp.noSubject {
			form.Set("subject_token", subj.tok)
		}
		if declared != "" {
			form.Set("subject_token_type", declared)
		}
		if sp.requested != "" {
			form.Set("requested_token_type", sp.requested)
		}
		if sp.akind != "none" {
			form.Set("actor_token", actor.tok)
			if actorDeclared != "" {
				form.Set("actor_token_type", actorDeclared)
			}
		} else if sp.aTypeAlone != "" {
			actorDeclared = sp.aTypeAlone
			form.Set("actor_token_type", actorDeclared)
		}
		if len(sp.scopes) > 0 {
			form.Set("scope", strings.Join(sp.scopes, " "))
		}
		for _, a := range sp.audience {
			form.Add("audience", a)
		}
		for _, a := range sp.rsrc {
			form.Add("resource", a)
		}
		l := hx.NewLine("C15").I("case", int64(i)).S("router", sp.router).B("cap.te", sp.capTE).B("cap.tev", sp.capTEV).B("cap.pc", sp.capPC).B("cap.ui", sp.capUI).
			B("px.jwt", sp.reg.jwtAT).S("issuer", opbed.Issuer).S("pol", sp.pol).S("actpol", sp.actpol).
			B("post", true).B("pkjwt", true).B("refresh", true).B("cap.cc", true).B("cap.device", true).S("st.default", sp.storeDefault)
		if sp.fixed != "" {
			l.S("fixed", sp.fixed)
		}
		clientsKV(l, cls)
		var auth opbed.Auth
		switch {
		case sp.reg.auth == "pk":
			now := time.Now().Unix()
			key := pres.key
			if sp.cred == "wrong-secret" {
				key = hx.Keys()[0] // an assertion signed with a key that is not the client's
			}
			auth = opbed.Auth{Kind: "assertion", Assertion: assertion(sy, l, key, "pk1", "px", "px", []string{opbed.Issuer}, now-5, now+300)}
		case sp.reg.auth == "none":
			auth = opbed.Auth{Kind: "id-only", ID: "px"}
		case sp.reg.auth == "post":
			auth = opbed.Auth{Kind: "post", ID: "px", Secret: px.Secret}
		default:
			auth = opbed.Auth{Kind: "basic", ID: "px", Secret: px.Secret}
		}
		if sp.cred == "wrong-secret" && auth.Secret != "" {
			auth.Secret = "wrong"
		}
		l.S("auth", auth.Kind).S("cid", auth.ID).S("secret", auth.Secret)

		// effective requested type and the reference storage's policy veto (ground truth for the monitor)
		effective := sp.requested
		if effective == "" {
			effective = sp.storeDefault
			if effective == "" {
				effective = ttRefresh
			}
		}
		impersonated := ""
		for _, s := range sp.scopes {
			if rest, ok := strings.CutPrefix(s, refstore.ImpersonateScopePrefix); ok {
				impersonated = rest
			}
		}
		veto := sSub == refstore.BlockedUser || impersonated == refstore.BlockedUser || (declared == ttID && effective == ttRefresh)
		l.S("s.kind", sp.skind).S("s.type", declared).B("s.live", sLive).S("s.sub", sSub).
			S("a.kind", sp.akind).S("a.type", actorDeclared).B("a.live", aLive).S("a.sub", aSub).
			S("req.type", sp.requested).L("scopes", sp.scopes).L("aud", sp.audience).L("res", sp.rsrc).B("veto", veto)
		// oracle answers for the model (asked of the real libraries / the storage's table just before the request)
		if sp.noSubject {
			l.S("s.tok", "")
		} else {
			cs.oracleKV(l, "s.", "S", subj.tok, declared)
		}
		if sp.akind != "none" {
			label := "A"
			if actor.tok == subj.tok {
				label = "S"
			}
			cs.oracleKV(l, "a.", label, actor.tok, actorDeclared)
		}
		var liveIDs []string
		for _, id := range bed.Store.TokenIDs() {
			if bed.Store.TokenLive(id) {
				liveIDs = append(liveIDs, id)
			}
		}
		l.L("live", liveIDs)

		bed.Store.LastExchange = nil
		*journal = c15Journal{} // the earlier exchanges of a history (xchg-* kinds) wrote into it
		t0 := time.Now()
		resp := bed.Do(bed.Form("/oauth/token", form, auth))
		l.I("now0", t0.UnixNano()).I("now1", time.Now().UnixNano())
		outcome := ""
		switch {
		case resp.Panicked:
			l.S("obs", "panic")
			outcome = "panic"
		case resp.Status == 200:
			is := c15Classify(bed, resp.Str("access_token"))
			l.S("obs", "ok").S("o.issued", resp.Str("issued_token_type")).S("o.at", is.kind).B("o.atlive", is.live).S("o.sub", is.subject).L("o.aud", is.audience)
			// the token's own claims (a JWT access token / an ID token is self-contained): subject, actor, which hook supplied them
			l.S("o.form", is.form).S("o.jsub", is.jsub).S("o.jact", is.jact).S("o.src", is.jsrc)
			// deep5: the token's whole act member, and what the exchange storage's claims hook answered for THIS request (journal)
			l.S("o.jactv", is.jactv).B("o.pasked", journal.Asked).S("o.phook", journal.Hook).S("o.pact", journal.Act)
			if rt := resp.Str("refresh_token"); rt != "" {
				rec := bed.Store.Refresh(rt)
				l.B("o.rt", true).B("o.rtlive", rec != nil && rec.Expiration.After(time.Now()))
			}
			if sc, ok := resp.JSON["scope"].(string); ok && sc != "" {
				l.L("o.scopes", strings.Split(sc, " "))
			}
			if seen := bed.Store.LastExchange; seen != nil {
				// what the framework resolved for each role, as handed to the storage policy
				l.B("o.seen", true).S("o.xsub", seen.Subject).S("o.actor", seen.Actor)
			}
			outcome = "ok-" + shortGrant(resp.Str("issued_token_type"))
		default:
			l.S("obs", "err").S("o.err", resp.OAuthError()).I("o.status", int64(resp.Status))
			outcome = resp.OAuthError()
		}
		// ---- distribution
		stats["obs-"+outcome]++
		stats["router-"+sp.router]++
		stats["subject-"+sp.skind]++
		stats["actor-"+sp.akind]++
		stats[fmt.Sprintf("presenter-te%d-rt%d-%s", b2i(sp.reg.te), b2i(sp.reg.rt), sp.reg.auth)]++
		stats["cred-"+sp.cred]++
		stats["policy-"+sp.pol]++
		stats["act-policy-"+sp.actpol]++
		stats[fmt.Sprintf("colon-in-subject%d-actor%d/%s", b2i(c15HasColon(sp.user)), b2i(sp.akind != "none" && c15HasColon(sp.auser)), c15Outcome(resp.Status))]++
		if c15HasColon(sp.user) {
			stats["colon-subject-"+sp.skind+"/"+sp.pol+"/"+c15Outcome(resp.Status)]++
		}
		if sp.akind != "none" && c15HasColon(sp.auser) {
			stats["colon-actor-"+sp.akind+"/"+sp.pol+"/"+c15Outcome(resp.Status)]++
		}
		stats[fmt.Sprintf("storage-te%d-verifier%d", b2i(sp.capTE), b2i(sp.capTEV))]++
		stats[fmt.Sprintf("storage-te%d-privclaims%d-userinfo%d/px-jwt%d", b2i(sp.capTE), b2i(sp.capPC), b2i(sp.capUI), b2i(sp.reg.jwtAT))]++
		stats[fmt.Sprintf("params-stype%d-atok%d-atype%d-req%d-scope%d-aud%d-res%d", b2i(declared != ""), b2i(sp.akind != "none"), b2i(actorDeclared != ""),
			b2i(sp.requested != ""), b2i(len(sp.scopes) > 0), b2i(len(sp.audience) > 0), b2i(len(sp.rsrc) > 0))]++
		if resp.Status == 200 {
			is := c15Classify(bed, resp.Str("access_token"))
			stats["issued-"+is.form+"/claims-from-"+is.jsrc+"/act-"+c15ActClass(is.jact, sSub, aSub)]++
			if is.form == "jwt" || is.form == "id" {
				flow := "plain"
				switch {
				case sp.akind != "none" && impersonated != "":
					flow = "delegation+impersonation"
				case sp.akind != "none":
					flow = "delegation"
				case impersonated != "":
					flow = "impersonation"
				}
				stats["act-policy-"+sp.actpol+"/"+is.form+"/"+flow+"/token-act-"+c15ActShape(is.jactv, journal)]++
			}
		}
		stats["requested-"+c15Short(sp.requested)+"/default-"+c15Short(sp.storeDefault)]++
		if subj.isTP {
			stats[fmt.Sprintf("thirdparty-subject-%s/verifier%d/%s", sp.skind, b2i(sp.capTEV), c15Outcome(resp.Status))]++
		}
		if sp.akind != "none" && actor.isTP {
			stats[fmt.Sprintf("thirdparty-actor-%s/verifier%d/%s", sp.akind, b2i(sp.capTEV), c15Outcome(resp.Status))]++
		}
		if subj.isTP && sp.akind != "none" && actor.tok == subj.tok {
			stats["thirdparty-same-token-in-both-roles"]++
		}
		if resp.Status == 200 && sp.reg.te && !sp.reg.rt {
			stats["ok-for-client-with-te-without-refresh-grant:"+c15Short(resp.Str("issued_token_type"))]++
		}
		if sp.fixed != "" {
			stats["fixed-preamble"]++
		}
		fmt.Fprintln(w, l.String())
	}
	return stats
}

// c15ActClass: whose identity the token's act.sub is
func c15ActClass(act, subjectSub, actorSub string) string {
	switch {
	case act == "":
		return "none"
	case act == actorSub:
		return "actor"
	case act == subjectSub:
		return "exchange-subject"
	}
	return "other"
}

// c15ActShape: the token's act member against what the claims hook answered for this request
func c15ActShape(act string, j *c15Journal) string {
	switch {
	case !j.Asked:
		return "hook-not-asked"
	case act == j.Act && act == "":
		return "none-as-decided"
	case act == j.Act:
		return "as-decided"
	}
	return "NOT-as-decided"
}

func c15Outcome(status int) string {
	if status == 200 {
		return "ok"
	}
	return "refused"
}

func b2i(b bool) int {
	if b {
		return 1
	}
	return 0
}

func c15Short(t string) string {
	if t == "" {
		return "absent"
	}
	return strings.TrimPrefix(t, "urn:ietf:params:oauth:token-type:")
}

func c15TP(kind string) string {
	if strings.HasPrefix(kind, "tp-") {
		return kind
	}
	if kind == "none" {
		return "none"
	}
	return "own"
}
