package main

import (
	"bufio"
	"fmt"
	"net/url"
	"strings"
	"time"

	jose "github.com/go-jose/go-jose/v4"
	"github.com/zitadel/oidc/v3/pkg/crypto"
	"github.com/zitadel/oidc/v3/pkg/oidc"
	"github.com/zitadel/oidc/v3/pkg/op"

	"verifharness/internal/hx"
	"verifharness/internal/opbed"
	"verifharness/internal/refstore"
)

func init() { streams["C15"] = c15Stream }

const (
	ttAccess  = "urn:ietf:params:oauth:token-type:access_token"
	ttRefresh = "urn:ietf:params:oauth:token-type:refresh_token"
	ttID      = "urn:ietf:params:oauth:token-type:id_token"
	ttJWT     = "urn:ietf:params:oauth:token-type:jwt"
)

type c15Tokens struct {
	access, refresh, id string
	atID                string
}

// issue runs a code flow for fc / user and returns the tokens
func c15Issue(bed *opbed.Bed, sy *symbols, fc *flowClient, user string) c15Tokens {
	redirect := fc.c.Redirects[0]
	q := url.Values{"client_id": {fc.c.ID}, "redirect_uri": {redirect}, "response_type": {"code"}, "scope": {"openid profile offline_access"}, "state": {"s"}}
	resp := bed.Do(bed.Get("/authorize", q, ""))
	if resp.Loc == nil {
		return c15Tokens{}
	}
	id := resp.Loc.Query().Get("authRequestID")
	bed.Store.CompleteAuthRequest(id, user)
	cb := bed.Do(bed.Get("/authorize/callback", url.Values{"id": {id}}, ""))
	if cb.Loc == nil {
		return c15Tokens{}
	}
	tr := bed.Do(bed.Form("/oauth/token", url.Values{"grant_type": {"authorization_code"}, "code": {cb.Loc.Query().Get("code")}, "redirect_uri": {redirect}}, ownAuth(sy, fc)))
	ids := bed.Store.TokenIDs()
	t := c15Tokens{access: tr.Str("access_token"), refresh: tr.Str("refresh_token"), id: tr.Str("id_token")}
	if len(ids) > 0 {
		t.atID = ids[len(ids)-1]
	}
	return t
}

// classify what the access_token member of a response is and whether it is live / verifies
func c15Classify(bed *opbed.Bed, tok string) (kind string, live bool, subject string) {
	if tok == "" {
		return "", false, ""
	}
	if plain, err := crypto.DecryptAES(tok, string(bed.CryptoKey[:])); err == nil {
		parts := strings.Split(plain, ":")
		if len(parts) == 2 {
			if rec := bed.Store.Token(parts[0]); rec != nil {
				return "access", bed.Store.TokenLive(parts[0]), rec.Subject
			}
		}
		return "other", false, ""
	}
	m, ok := opbed.DecodeJWT(tok)
	if !ok {
		return "other", false, ""
	}
	jws, err := jose.ParseSigned(tok, allAlgs)
	if err != nil {
		return "other", false, ""
	}
	if _, err := jws.Verify(bed.SignKey.Pub); err != nil {
		return "other", false, ""
	}
	sub, _ := m["sub"].(string)
	if jti, _ := m["jti"].(string); jti != "" {
		if rec := bed.Store.Token(jti); rec != nil {
			return "access", bed.Store.TokenLive(jti), rec.Subject
		}
	}
	exp, _ := m["exp"].(float64)
	if iss, _ := m["iss"].(string); iss == opbed.Issuer && int64(exp) > time.Now().Unix() {
		return "id", true, sub
	}
	return "id", false, sub
}

func c15Stream(r *hx.Rand, tier string, n int, w *bufio.Writer) map[string]int {
	if n == 0 {
		n = 2000
		if tier == "thorough" {
			n = 30000
		}
	}
	stats := map[string]int{}
	sy := newSymbols()
	for i := 0; i < n; i++ {
		router := hx.Pick(r, "provider", "legacy")
		capTE := r.Chance(88)
		bed, err := opbed.New(opbed.Config{Router: router, S256: true, Post: true, PrivateKeyJWT: true, Refresh: true,
			Caps: refstore.Caps{CC: true, TE: capTE, Device: true}})
		if err != nil {
			panic(err)
		}
		cls := flowClients()
		webjwt := opbed.WebClient("webjwt", "secret-jwt", "https://rp.example/cb")
		webjwt.TokenType = op.AccessTokenTypeJWT
		limited := opbed.WebClient("limited", "secret-lim", "https://rp.example/cb")
		limited.Grants = []oidc.GrantType{oidc.GrantTypeCode, oidc.GrantTypeRefreshToken}
		cls = append(cls, &flowClient{c: webjwt}, &flowClient{c: limited})
		for _, fc := range cls {
			bed.Store.AddClient(fc.c)
		}
		for _, u := range []string{"user1", "user2", refstore.BlockedUser} {
			bed.Store.AddUser(u, nil)
		}
		byID := map[string]*flowClient{}
		for _, fc := range cls {
			byID[fc.c.ID] = fc
		}
		user := hx.Pick(r, "user1", "user1", "user1", "user2", "user2", "user1", "user2", "user1", "user2", refstore.BlockedUser)
		opaque := c15Issue(bed, sy, byID["web"], user)
		jwtT := c15Issue(bed, sy, byID["webjwt"], user)

		// ---- subject token
		type pres struct {
			tok, declared, subject string
			liveAs                 map[string]bool // declared type -> live
		}
		mk := func(kind string) pres {
			p := pres{liveAs: map[string]bool{}, subject: user}
			switch kind {
			case "opaque-at":
				p.tok, p.liveAs[ttAccess] = opaque.access, true
			case "jwt-at":
				p.tok, p.liveAs[ttAccess] = jwtT.access, true
			case "refresh":
				p.tok, p.liveAs[ttRefresh] = opaque.refresh, true
			case "id":
				p.tok, p.liveAs[ttID] = opaque.id, true
			case "expired-at":
				bed.Store.ExpireToken(opaque.atID)
				p.tok = opaque.access
			case "revoked-at":
				bed.Do(bed.Form("/revoke", url.Values{"token": {opaque.access}}, ownAuth(sy, byID["web"])))
				p.tok = opaque.access
			case "expired-id":
				now := time.Now().Unix()
				claims := fmt.Sprintf(`{"iss":"%s","sub":"%s","aud":["web"],"azp":"web","exp":%d,"iat":%d}`, opbed.Issuer, user, now-100, now-4000)
				p.tok, _ = hx.Sign(bed.SignKey, bed.Cfg.SignAlg, "sig1", []byte(claims))
			case "foreign-jwt":
				now := time.Now().Unix()
				claims := fmt.Sprintf(`{"iss":"%s","sub":"%s","aud":["web"],"azp":"web","exp":%d,"iat":%d,"jti":"%s"}`, opbed.Issuer, user, now+300, now-5, opaque.atID)
				p.tok, _ = hx.Sign(hx.Keys()[1], "RS256", "sig1", []byte(claims))
			case "rotated-rt":
				bed.Do(bed.Form("/oauth/token", url.Values{"grant_type": {"refresh_token"}, "refresh_token": {opaque.refresh}}, ownAuth(sy, byID["web"])))
				p.tok = opaque.refresh
			default:
				p.tok = "garbage-token"
			}
			return p
		}
		skind := hx.Pick(r, "opaque-at", "opaque-at", "jwt-at", "refresh", "refresh", "id", "expired-at", "revoked-at", "expired-id", "foreign-jwt", "rotated-rt", "garbage")
		subj := mk(skind)
		// declared type: usually the right one
		declared := ""
		for t := range subj.liveAs {
			declared = t
		}
		if declared == "" {
			declared = hx.Pick(r, ttAccess, ttRefresh, ttID)
		}
		if r.Chance(15) {
			declared = hx.Pick(r, ttAccess, ttRefresh, ttID, ttJWT, "urn:unknown", "")
		}
		requested := hx.Pick(r, "", ttAccess, ttAccess, ttAccess, ttRefresh, ttRefresh, ttID, ttID, ttJWT, "urn:unknown")
		// actor
		actorKind := hx.Pick(r, "none", "none", "none", "live", "dead", "garbage")
		var actor pres
		actorDeclared := ""
		switch actorKind {
		case "live":
			actor = pres{tok: jwtT.access, liveAs: map[string]bool{ttAccess: true}}
			actorDeclared = ttAccess
		case "dead":
			bed.Store.ExpireToken(jwtT.atID)
			actor = pres{tok: jwtT.access, liveAs: map[string]bool{}}
			actorDeclared = ttAccess
			if skind == "jwt-at" {
				subj.liveAs = map[string]bool{}
			}
		case "garbage":
			actor = pres{tok: "garbage-actor", liveAs: map[string]bool{}}
			actorDeclared = hx.Pick(r, ttAccess, ttID, "urn:unknown")
		}
		scopes := hx.Pick(r, []string{"openid"}, []string{"openid", "profile"}, []string{"openid", "address"}, []string(nil),
			[]string{"openid", refstore.ImpersonateScopePrefix + "user2"})
		presenter := hx.Pick(r, "web", "web", "web", "web", "web", "web", "web", "web", "web-wrong", "limited", "pub")
		form := url.Values{"grant_type": {string(oidc.GrantTypeTokenExchange)}, "subject_token": {subj.tok}}
		if declared != "" {
			form.Set("subject_token_type", declared)
		}
		if requested != "" {
			form.Set("requested_token_type", requested)
		}
		if actorKind != "none" {
			form.Set("actor_token", actor.tok)
			form.Set("actor_token_type", actorDeclared)
		}
		if len(scopes) > 0 {
			form.Set("scope", strings.Join(scopes, " "))
		}
		var auth opbed.Auth
		switch presenter {
		case "web-wrong":
			auth = opbed.Auth{Kind: "basic", ID: "web", Secret: "wrong"}
		case "pub":
			auth = opbed.Auth{Kind: "id-only", ID: "pub"}
		default:
			auth = ownAuth(sy, byID[presenter])
		}
		// storage policy veto (reference storage): blocked user, id_token -> refresh_token, impersonation of the blocked user
		veto := user == refstore.BlockedUser || (declared == ttID && (requested == ttRefresh || requested == ""))
		l := hx.NewLine("C15").I("case", int64(i)).S("router", router).B("cap.te", capTE).S("issuer", opbed.Issuer).
			B("post", true).B("pkjwt", true).B("refresh", true).B("cap.cc", true).B("cap.device", true)
		clientsKV(l, cls)
		l.S("auth", auth.Kind).S("cid", auth.ID).S("secret", auth.Secret)
		l.S("s.kind", skind).S("s.type", declared).B("s.live", subj.liveAs[declared]).S("s.sub", user).S("a.kind", actorKind).S("a.type", actorDeclared).
			B("a.live", actorKind == "live").S("req.type", requested).L("scopes", scopes).B("veto", veto)
		t0 := time.Now()
		resp := bed.Do(bed.Form("/oauth/token", form, auth))
		l.I("now0", t0.UnixNano()).I("now1", time.Now().UnixNano())
		switch {
		case resp.Panicked:
			l.S("obs", "panic")
			stats["obs-panic"]++
		case resp.Status == 200:
			kind, live, sub := c15Classify(bed, resp.Str("access_token"))
			l.S("obs", "ok").S("o.issued", resp.Str("issued_token_type")).S("o.at", kind).B("o.atlive", live).S("o.sub", sub)
			if rt := resp.Str("refresh_token"); rt != "" {
				rec := bed.Store.Refresh(rt)
				l.B("o.rt", true).B("o.rtlive", rec != nil)
			}
			if sc, ok := resp.JSON["scope"].(string); ok && sc != "" {
				l.L("o.scopes", strings.Split(sc, " "))
			}
			stats["obs-ok-"+shortGrant(resp.Str("issued_token_type"))]++
		default:
			l.S("obs", "err").S("o.err", resp.OAuthError()).I("o.status", int64(resp.Status))
			stats["obs-"+resp.OAuthError()]++
		}
		stats["subject-"+skind]++
		fmt.Fprintln(w, l.String())
	}
	return stats
}
