package main

import (
	"bufio"
	"context"
	"errors"
	"fmt"
	"net/url"
	"strings"
	"time"

	jose "github.com/go-jose/go-jose/v4"
	"github.com/zitadel/oidc/v3/pkg/crypto"
	"github.com/zitadel/oidc/v3/pkg/oidc"
	"github.com/zitadel/oidc/v3/pkg/op"

	"verifharness/internal/hx"
	"verifharness/internal/opbed"
	"verifharness/internal/refstore"
)

func init() { streams["C15"] = c15Stream }

const (
	ttAccess  = "urn:ietf:params:oauth:token-type:access_token"
	ttRefresh = "urn:ietf:params:oauth:token-type:refresh_token"
	ttID      = "urn:ietf:params:oauth:token-type:id_token"
	ttJWT     = "urn:ietf:params:oauth:token-type:jwt"
)

type c15Tokens struct {
	access, refresh, id string
	atID                string
}

// issue runs a code flow for fc / user and returns the tokens
func c15Issue(bed *opbed.Bed, sy *symbols, fc *flowClient, user string) c15Tokens {
	redirect := fc.c.Redirects[0]
	q := url.Values{"client_id": {fc.c.ID}, "redirect_uri": {redirect}, "response_type": {"code"}, "scope": {"openid profile offline_access"}, "state": {"s"}}
	resp := bed.Do(bed.Get("/authorize", q, ""))
	if resp.Loc == nil {
		return c15Tokens{}
	}
	id := resp.Loc.Query().Get("authRequestID")
	bed.Store.CompleteAuthRequest(id, user)
	cb := bed.Do(bed.Get("/authorize/callback", url.Values{"id": {id}}, ""))
	if cb.Loc == nil {
		return c15Tokens{}
	}
	tr := bed.Do(bed.Form("/oauth/token", url.Values{"grant_type": {"authorization_code"}, "code": {cb.Loc.Query().Get("code")}, "redirect_uri": {redirect}}, ownAuth(sy, fc)))
	ids := bed.Store.TokenIDs()
	t := c15Tokens{access: tr.Str("access_token"), refresh: tr.Str("refresh_token"), id: tr.Str("id_token")}
	if len(ids) > 0 {
		t.atID = ids[len(ids)-1]
	}
	return t
}

// what the access_token member of a response is: kind, liveness, and what the token carries
type c15Issued struct {
	kind     string // "access" | "id" | "other" | ""
	live     bool
	subject  string
	audience []string
}

func c15Classify(bed *opbed.Bed, tok string) c15Issued {
	if tok == "" {
		return c15Issued{}
	}
	stored := func(id string) (c15Issued, bool) {
		if rec := bed.Store.Token(id); rec != nil {
			return c15Issued{kind: "access", live: bed.Store.TokenLive(id), subject: rec.Subject, audience: rec.Audience}, true
		}
		return c15Issued{}, false
	}
	if plain, err := crypto.DecryptAES(tok, string(bed.CryptoKey[:])); err == nil {
		parts := strings.Split(plain, ":")
		if len(parts) == 2 {
			if is, ok := stored(parts[0]); ok {
				return is
			}
		}
		return c15Issued{kind: "other"}
	}
	m, ok := opbed.DecodeJWT(tok)
	if !ok {
		return c15Issued{kind: "other"}
	}
	jws, err := jose.ParseSigned(tok, allAlgs)
	if err != nil {
		return c15Issued{kind: "other"}
	}
	if _, err := jws.Verify(bed.SignKey.Pub); err != nil {
		return c15Issued{kind: "other"}
	}
	sub, _ := m["sub"].(string)
	if jti, _ := m["jti"].(string); jti != "" {
		if is, ok := stored(jti); ok {
			return is
		}
	}
	var aud []string
	switch a := m["aud"].(type) {
	case string:
		aud = []string{a}
	case []any:
		for _, x := range a {
			if s, ok := x.(string); ok {
				aud = append(aud, s)
			}
		}
	}
	exp, _ := m["exp"].(float64)
	iss, _ := m["iss"].(string)
	return c15Issued{kind: "id", live: iss == opbed.Issuer && int64(exp) > time.Now().Unix(), subject: sub, audience: aud}
}

// ---------------------------------------------------------------- one case

type c15Reg struct { // the presenter's registration
	te, rt bool   // registered for the token-exchange / refresh_token grant
	auth   string // basic | post | none | pk
	jwtAT  bool   // its access tokens are JWTs
}

type c15Spec struct {
	router         string
	capTE, capTEV  bool
	storeDefault   string // requested_token_type the storage fills in when absent ("" = refresh_token)
	reg            c15Reg
	cred           string // own | wrong-secret | basic-for-post (a post client sending Basic)
	user           string
	skind, sdecl   string // sdecl "right" = the type the token really has
	akind, adecl   string
	requested      string
	scopes         []string
	audience, rsrc []string
	sshadow        bool   // the verifier storage ALSO knows the provider's own subject / actor token, as other identities:
	ashadow        bool   // the provider's own resolution must win, the storage is only a fallback
	fixed          string // label of a deterministic preamble case ("" = random)
}

var (
	c15TPKinds = []string{"tp-both", "tp-both-diff", "tp-subj-only", "tp-actor-only", "tp-neither"}
)

func c15Random(r *hx.Rand) c15Spec {
	sp := c15Spec{router: hx.Pick(r, "provider", "legacy"), capTE: r.Chance(90), capTEV: r.Chance(70),
		storeDefault: hx.Pick(r, "", "", ttAccess, ttID)}
	// the presenter: {token-exchange grant} x {refresh grant} x auth method, mostly with the exchange grant
	sp.reg = c15Reg{te: r.Chance(90), rt: r.Bool(), auth: hx.Pick(r, "basic", "basic", "basic", "basic", "basic", "post", "none", "pk"), jwtAT: r.Chance(25)}
	sp.cred = hx.Pick(r, "own", "own", "own", "own", "own", "own", "own", "own", "own", "own", "own", "own", "own", "wrong-secret")
	sp.user = hx.Pick(r, "user1", "user1", "user1", "user2", "user2", "user1", "user2", "user1", "user2", refstore.BlockedUser)
	if r.Chance(35) {
		sp.skind = hx.Pick(r, c15TPKinds...)
	} else {
		sp.skind = hx.Pick(r, "opaque-at", "opaque-at", "jwt-at", "refresh", "refresh", "id", "expired-at", "revoked-at", "revoked-jwt-at", "expired-id", "foreign-jwt", "rotated-rt", "garbage")
	}
	sp.sshadow, sp.ashadow = r.Chance(12), r.Chance(12)
	sp.sdecl = "right"
	if r.Chance(15) {
		sp.sdecl = hx.Pick(r, ttAccess, ttRefresh, ttID, ttJWT, "urn:unknown", "")
	}
	switch {
	case r.Chance(45):
		sp.akind = "none"
	case r.Chance(50):
		sp.akind = hx.Pick(r, c15TPKinds...)
	default:
		sp.akind = hx.Pick(r, "opaque-at", "jwt-at", "id", "refresh", "expired-at", "revoked-jwt-at", "expired-id", "garbage")
	}
	sp.adecl = "right"
	if r.Chance(12) {
		sp.adecl = hx.Pick(r, ttAccess, ttID, ttJWT, "urn:unknown")
	}
	sp.requested = hx.Pick(r, "", "", ttAccess, ttAccess, ttAccess, ttRefresh, ttRefresh, ttRefresh, ttID, ttID, ttJWT, "urn:unknown")
	sp.scopes = hx.Pick(r, []string{"openid"}, []string{"openid", "profile"}, []string{"openid", "address"}, []string(nil),
		[]string{"openid", refstore.ImpersonateScopePrefix + "user2"}, []string{"openid", refstore.ImpersonateScopePrefix + refstore.BlockedUser})
	sp.audience = hx.Pick(r, []string(nil), []string(nil), []string{"api1"}, []string{"api1", "api2"})
	sp.rsrc = hx.Pick(r, []string(nil), []string(nil), []string{"https://rs.example/a"})
	return sp
}

// c15Fixed: a deterministic preamble that every run (quick and thorough) starts with - the shapes a reviewer would ask for by name
func c15Fixed() []c15Spec {
	base := c15Spec{capTE: true, capTEV: true, reg: c15Reg{te: true, rt: true, auth: "basic"}, cred: "own", user: "user1",
		skind: "opaque-at", sdecl: "right", akind: "none", adecl: "right", requested: ttAccess, scopes: []string{"openid"}}
	var out []c15Spec
	add := func(label string, f func(*c15Spec)) {
		for _, router := range []string{"provider", "legacy"} {
			sp := base
			sp.router, sp.fixed = router, label
			f(&sp)
			out = append(out, sp)
		}
	}
	// a JWT access token (live / revoked) declared as an ID token, as subject and as actor
	add("jwt-at-as-id", func(s *c15Spec) { s.skind, s.sdecl = "jwt-at", ttID })
	add("revoked-jwt-at-as-id", func(s *c15Spec) { s.skind, s.sdecl = "revoked-jwt-at", ttID })
	add("actor-revoked-jwt-at-as-id", func(s *c15Spec) { s.akind, s.adecl = "revoked-jwt-at", ttID })
	// exchange grant without refresh grant asking for a refresh token (explicitly / through the storage default)
	add("te-without-rt-grant:refresh", func(s *c15Spec) { s.reg.rt, s.requested = false, ttRefresh })
	add("te-without-rt-grant:default", func(s *c15Spec) { s.reg.rt, s.requested = false, "" })
	add("te-with-rt-grant:access", func(s *c15Spec) { s.requested = ttAccess })
	// third-party tokens, one role at a time and the same token in both roles
	for _, k := range c15TPKinds {
		k := k
		add("subject:"+k, func(s *c15Spec) { s.skind = k })
		add("actor:"+k, func(s *c15Spec) { s.akind = k })
		add("both:"+k, func(s *c15Spec) { s.skind, s.akind = k, k })
	}
	add("own-token-shadowed-in-verifier-table", func(s *c15Spec) { s.skind, s.sshadow, s.akind, s.ashadow = "id", true, "id", true })
	add("tp-without-verifier", func(s *c15Spec) { s.skind, s.capTEV = "tp-both", false })
	add("expired-id", func(s *c15Spec) { s.skind = "expired-id" })
	add("actor-expired-id", func(s *c15Spec) { s.akind = "expired-id" })
	add("requested-jwt", func(s *c15Spec) { s.requested = ttJWT })
	add("blocked-user", func(s *c15Spec) { s.user = refstore.BlockedUser })
	add("audience", func(s *c15Spec) {
		s.audience, s.rsrc, s.scopes = []string{"api1"}, []string{"https://rs.example/a"}, []string{"openid", "profile"}
	})
	return out
}

// a presented token with its ground truth
type c15Pres struct {
	tok   string
	isTP  bool
	right string          // the type it really has ("" = none of the four)
	live  map[string]bool // declared type -> it is a live token OF THAT TYPE at the provider (reference storage's truth)
	sub   string          // whose token it is
}

type c15Case struct {
	bed  *opbed.Bed
	sy   *symbols
	web  *flowClient
	webj *flowClient
	ctx  context.Context
}

func (c *c15Case) mk(kind, user, role string) c15Pres {
	bed := c.bed
	p := c15Pres{live: map[string]bool{}, sub: user}
	own := func(fc *flowClient) c15Tokens { return c15Issue(bed, c.sy, fc, user) }
	switch kind {
	case "opaque-at":
		p.tok, p.right, p.live[ttAccess] = own(c.web).access, ttAccess, true
	case "jwt-at":
		p.tok, p.right, p.live[ttAccess] = own(c.webj).access, ttAccess, true
	case "refresh":
		p.tok, p.right, p.live[ttRefresh] = own(c.web).refresh, ttRefresh, true
	case "id":
		p.tok, p.right, p.live[ttID] = own(c.web).id, ttID, true
	case "expired-at":
		t := own(c.web)
		bed.Store.ExpireToken(t.atID)
		p.tok, p.right = t.access, ttAccess
	case "revoked-at":
		t := own(c.web)
		bed.Do(bed.Form("/revoke", url.Values{"token": {t.access}}, ownAuth(c.sy, c.web)))
		p.tok, p.right = t.access, ttAccess
	case "revoked-jwt-at":
		t := own(c.webj)
		bed.Do(bed.Form("/revoke", url.Values{"token": {t.access}}, ownAuth(c.sy, c.webj)))
		p.tok, p.right = t.access, ttAccess
	case "expired-id":
		now := time.Now().Unix()
		claims := fmt.Sprintf(`{"iss":"%s","sub":"%s","aud":["web"],"azp":"web","exp":%d,"iat":%d}`, opbed.Issuer, user, now-100, now-4000)
		p.tok, _ = hx.Sign(bed.SignKey, bed.Cfg.SignAlg, "sig1", []byte(claims))
		p.right = ttID
	case "foreign-jwt":
		now := time.Now().Unix()
		claims := fmt.Sprintf(`{"iss":"%s","sub":"%s","aud":["web"],"azp":"web","exp":%d,"iat":%d,"jti":"at1"}`, opbed.Issuer, user, now+300, now-5)
		p.tok, _ = hx.Sign(hx.Keys()[1], "RS256", "sig1", []byte(claims))
	case "rotated-rt":
		t := own(c.web)
		bed.Do(bed.Form("/oauth/token", url.Values{"grant_type": {"refresh_token"}, "refresh_token": {t.refresh}}, ownAuth(c.sy, c.web)))
		p.tok, p.right = t.refresh, ttRefresh
	case "tp-both", "tp-both-diff", "tp-subj-only", "tp-actor-only", "tp-neither":
		// a third-party credential only the optional verifier storage knows; its two role policies are independent
		p.tok, p.isTP = "tp:"+kind, true
		t := refstore.ThirdPartyToken{}
		switch kind {
		case "tp-both":
			t.AsSubject = refstore.RoleAnswer{Accept: true, ID: p.tok, Subject: "tp-user"}
			t.AsActor = t.AsSubject
		case "tp-both-diff":
			t.AsSubject = refstore.RoleAnswer{Accept: true, ID: p.tok, Subject: "tp-user-s"}
			t.AsActor = refstore.RoleAnswer{Accept: true, ID: p.tok, Subject: "tp-user-a"}
		case "tp-subj-only":
			t.AsSubject = refstore.RoleAnswer{Accept: true, ID: p.tok, Subject: "tp-user-s"}
		case "tp-actor-only":
			t.AsActor = refstore.RoleAnswer{Accept: true, ID: p.tok, Subject: "tp-user-a"}
		}
		bed.Store.SetThirdPartyToken(p.tok, t)
	default:
		p.tok = "garbage-" + role
	}
	return p
}

// oracle answers for one presented token: what the provider's own libraries / storage make of it, asked directly
func (c *c15Case) oracleKV(l *hx.Line, pfx, label, tok, declared string) {
	bed := c.bed
	l.S(pfx+"tok", label)
	if plain, err := bed.Provider.Crypto().Decrypt(tok); err == nil {
		l.B(pfx+"decok", true).S(pfx+"dec", plain)
	}
	if cl, err := op.VerifyAccessToken[*oidc.AccessTokenClaims](c.ctx, tok, bed.Provider.AccessTokenVerifier(c.ctx)); err == nil {
		l.L(pfx+"jwt", []string{cl.JWTID, cl.Subject})
	}
	if rec := bed.Store.Refresh(tok); rec != nil && rec.Expiration.After(time.Now()) {
		l.L(pfx+"rt", []string{rec.Subject})
	}
	cl, err := op.VerifyIDTokenHint[*oidc.IDTokenClaims](c.ctx, tok, bed.Provider.IDTokenHintVerifier(c.ctx))
	switch {
	case err == nil:
		l.L(pfx+"hint", []string{"valid", cl.Subject})
	case errors.As(err, &op.IDTokenHintExpiredError{}):
		l.L(pfx+"hint", []string{"expired", cl.Subject})
	}
	if a := bed.Store.ThirdPartyAnswer(tok, oidc.TokenType(declared), false); a.Accept {
		l.L(pfx+"vs", []string{a.ID, a.Subject})
	}
	if a := bed.Store.ThirdPartyAnswer(tok, oidc.TokenType(declared), true); a.Accept {
		l.L(pfx+"va", []string{a.ID, a.Subject})
	}
}

func c15Stream(r *hx.Rand, tier string, n int, w *bufio.Writer) map[string]int {
	if n == 0 {
		n = 2000
		if tier == "thorough" {
			n = 30000
		}
	}
	stats := map[string]int{}
	sy := newSymbols()
	fixed := c15Fixed()
	for i := 0; i < n; i++ {
		var sp c15Spec
		if i < len(fixed) {
			sp = fixed[i]
		} else {
			sp = c15Random(r)
		}
		bed, err := opbed.New(opbed.Config{Router: sp.router, S256: true, Post: true, PrivateKeyJWT: true, Refresh: true,
			Caps: refstore.Caps{CC: true, TE: sp.capTE, TEVerifier: sp.capTEV, Device: true}})
		if err != nil {
			panic(err)
		}
		bed.Store.TEDefaultType = sp.storeDefault
		// registrations: two issuing clients (opaque / JWT access tokens) and the presenter
		web := &flowClient{c: opbed.WebClient("web", "secret-web", "https://rp.example/cb")}
		webjwtC := opbed.WebClient("webjwt", "secret-jwt", "https://rp.example/cb")
		webjwtC.TokenType = op.AccessTokenTypeJWT
		webjwt := &flowClient{c: webjwtC}
		px := opbed.WebClient("px", "secret-px", "https://rp.example/cb")
		px.Grants = []oidc.GrantType{oidc.GrantTypeCode}
		if sp.reg.te {
			px.Grants = append(px.Grants, oidc.GrantTypeTokenExchange)
		}
		if sp.reg.rt {
			px.Grants = append(px.Grants, oidc.GrantTypeRefreshToken)
		}
		if sp.reg.jwtAT {
			px.TokenType = op.AccessTokenTypeJWT
		}
		pres := &flowClient{c: px}
		switch sp.reg.auth {
		case "post":
			px.Auth = oidc.AuthMethodPost
		case "none":
			px.Auth, px.Secret, px.App = oidc.AuthMethodNone, "", op.ApplicationTypeNative
		case "pk":
			px.Auth, px.Secret = oidc.AuthMethodPrivateKeyJWT, ""
			px.Keys = []refstore.ClientKey{{Kid: "pk1", Pub: hx.Keys()[1].Pub}}
			pres.key, pres.kid = hx.Keys()[1], "pk1"
		}
		cls := []*flowClient{web, webjwt, pres}
		for _, fc := range cls {
			bed.Store.AddClient(fc.c)
		}
		for _, u := range []string{"user1", "user2", "actor1", "tp-user", "tp-user-s", "tp-user-a", "shadow-s", "shadow-a", refstore.BlockedUser} {
			bed.Store.AddUser(u, nil)
		}
		cs := &c15Case{bed: bed, sy: sy, web: web, webj: webjwt, ctx: op.ContextWithIssuer(context.Background(), opbed.Issuer)}

		// ---- presented tokens and their ground truth
		subj := cs.mk(sp.skind, sp.user, "subject")
		declared := sp.sdecl
		if declared == "right" {
			declared = subj.right
			if declared == "" {
				if subj.isTP {
					declared = hx.Pick(r, ttJWT, ttJWT, ttJWT, ttJWT, ttJWT, ttJWT, ttJWT, ttAccess, ttRefresh, ttID)
				} else {
					declared = hx.Pick(r, ttAccess, ttRefresh, ttID, ttJWT)
				}
			}
		}
		var actor c15Pres
		actorDeclared := ""
		if sp.akind != "none" {
			if sp.akind == sp.skind && subj.isTP {
				actor = subj // the SAME third-party token in both roles
			} else {
				actor = cs.mk(sp.akind, "actor1", "actor")
			}
			actorDeclared = sp.adecl
			if actorDeclared == "right" {
				actorDeclared = actor.right
				if actorDeclared == "" {
					actorDeclared = hx.Pick(r, ttJWT, ttJWT, ttJWT, ttAccess, ttID)
				}
			}
		}
		shadow := func(p c15Pres) {
			if !p.isTP && p.tok != "" {
				bed.Store.SetThirdPartyToken(p.tok, refstore.ThirdPartyToken{
					AsSubject: refstore.RoleAnswer{Accept: true, ID: "shadow-id", Subject: "shadow-s"}, AsActor: refstore.RoleAnswer{Accept: true, ID: "shadow-id", Subject: "shadow-a"}})
				stats["own-token-also-in-verifier-table"]++
			}
		}
		if sp.sshadow {
			shadow(subj)
		}
		if sp.ashadow && sp.akind != "none" {
			shadow(actor)
		}
		role := func(p c15Pres, decl string, asActor bool) (live bool, sub string) {
			if p.live[decl] {
				return true, p.sub
			}
			if a := bed.Store.ThirdPartyAnswer(p.tok, oidc.TokenType(decl), asActor); sp.capTEV && a.Accept {
				return true, a.Subject
			}
			return false, ""
		}
		sLive, sSub := role(subj, declared, false)
		aLive, aSub := false, ""
		if sp.akind != "none" {
			aLive, aSub = role(actor, actorDeclared, true)
		}

		// ---- the request
		form := url.Values{"grant_type": {string(oidc.GrantTypeTokenExchange)}, "subject_token": {subj.tok}}
		if declared != "" {
			form.Set("subject_token_type", declared)
		}
		if sp.requested != "" {
			form.Set("requested_token_type", sp.requested)
		}
		if sp.akind != "none" {
			form.Set("actor_token", actor.tok)
			form.Set("actor_token_type", actorDeclared)
		}
		if len(sp.scopes) > 0 {
			form.Set("scope", strings.Join(sp.scopes, " "))
		}
		for _, a := range sp.audience {
			form.Add("audience", a)
		}
		for _, a := range sp.rsrc {
			form.Add("resource", a)
		}
		l := hx.NewLine("C15").I("case", int64(i)).S("router", sp.router).B("cap.te", sp.capTE).B("cap.tev", sp.capTEV).S("issuer", opbed.Issuer).
			B("post", true).B("pkjwt", true).B("refresh", true).B("cap.cc", true).B("cap.device", true).S("st.default", sp.storeDefault)
		if sp.fixed != "" {
			l.S("fixed", sp.fixed)
		}
		clientsKV(l, cls)
		var auth opbed.Auth
		switch {
		case sp.reg.auth == "pk":
			now := time.Now().Unix()
			key := pres.key
			if sp.cred == "wrong-secret" {
				key = hx.Keys()[0] // an assertion signed with a key that is not the client's
			}
			auth = opbed.Auth{Kind: "assertion", Assertion: assertion(sy, l, key, "pk1", "px", "px", []string{opbed.Issuer}, now-5, now+300)}
		case sp.reg.auth == "none":
			auth = opbed.Auth{Kind: "id-only", ID: "px"}
		case sp.reg.auth == "post":
			auth = opbed.Auth{Kind: "post", ID: "px", Secret: px.Secret}
		default:
			auth = opbed.Auth{Kind: "basic", ID: "px", Secret: px.Secret}
		}
		if sp.cred == "wrong-secret" && auth.Secret != "" {
			auth.Secret = "wrong"
		}
		l.S("auth", auth.Kind).S("cid", auth.ID).S("secret", auth.Secret)

		// effective requested type and the reference storage's policy veto (ground truth for the monitor)
		effective := sp.requested
		if effective == "" {
			effective = sp.storeDefault
			if effective == "" {
				effective = ttRefresh
			}
		}
		impersonated := ""
		for _, s := range sp.scopes {
			if rest, ok := strings.CutPrefix(s, refstore.ImpersonateScopePrefix); ok {
				impersonated = rest
			}
		}
		veto := sSub == refstore.BlockedUser || impersonated == refstore.BlockedUser || (declared == ttID && effective == ttRefresh)
		l.S("s.kind", sp.skind).S("s.type", declared).B("s.live", sLive).S("s.sub", sSub).
			S("a.kind", sp.akind).S("a.type", actorDeclared).B("a.live", aLive).S("a.sub", aSub).
			S("req.type", sp.requested).L("scopes", sp.scopes).L("aud", sp.audience).L("res", sp.rsrc).B("veto", veto)
		// oracle answers for the model (asked of the real libraries / the storage's table just before the request)
		cs.oracleKV(l, "s.", "S", subj.tok, declared)
		if sp.akind != "none" {
			label := "A"
			if actor.tok == subj.tok {
				label = "S"
			}
			cs.oracleKV(l, "a.", label, actor.tok, actorDeclared)
		}
		var liveIDs []string
		for _, id := range bed.Store.TokenIDs() {
			if bed.Store.TokenLive(id) {
				liveIDs = append(liveIDs, id)
			}
		}
		l.L("live", liveIDs)

		bed.Store.LastExchange = nil
		t0 := time.Now()
		resp := bed.Do(bed.Form("/oauth/token", form, auth))
		l.I("now0", t0.UnixNano()).I("now1", time.Now().UnixNano())
		outcome := ""
		switch {
		case resp.Panicked:
			l.S("obs", "panic")
			outcome = "panic"
		case resp.Status == 200:
			is := c15Classify(bed, resp.Str("access_token"))
			l.S("obs", "ok").S("o.issued", resp.Str("issued_token_type")).S("o.at", is.kind).B("o.atlive", is.live).S("o.sub", is.subject).L("o.aud", is.audience)
			if rt := resp.Str("refresh_token"); rt != "" {
				rec := bed.Store.Refresh(rt)
				l.B("o.rt", true).B("o.rtlive", rec != nil && rec.Expiration.After(time.Now()))
			}
			if sc, ok := resp.JSON["scope"].(string); ok && sc != "" {
				l.L("o.scopes", strings.Split(sc, " "))
			}
			if seen := bed.Store.LastExchange; seen != nil {
				// what the framework resolved for each role, as handed to the storage policy
				l.B("o.seen", true).S("o.xsub", seen.Subject).S("o.actor", seen.Actor)
			}
			outcome = "ok-" + shortGrant(resp.Str("issued_token_type"))
		default:
			l.S("obs", "err").S("o.err", resp.OAuthError()).I("o.status", int64(resp.Status))
			outcome = resp.OAuthError()
		}
		// ---- distribution
		stats["obs-"+outcome]++
		stats["router-"+sp.router]++
		stats["subject-"+sp.skind]++
		stats["actor-"+sp.akind]++
		stats[fmt.Sprintf("presenter-te%d-rt%d-%s", b2i(sp.reg.te), b2i(sp.reg.rt), sp.reg.auth)]++
		stats["cred-"+sp.cred]++
		stats[fmt.Sprintf("storage-te%d-verifier%d", b2i(sp.capTE), b2i(sp.capTEV))]++
		stats["requested-"+c15Short(sp.requested)+"/default-"+c15Short(sp.storeDefault)]++
		if subj.isTP {
			stats[fmt.Sprintf("thirdparty-subject-%s/verifier%d/%s", sp.skind, b2i(sp.capTEV), c15Outcome(resp.Status))]++
		}
		if sp.akind != "none" && actor.isTP {
			stats[fmt.Sprintf("thirdparty-actor-%s/verifier%d/%s", sp.akind, b2i(sp.capTEV), c15Outcome(resp.Status))]++
		}
		if subj.isTP && sp.akind != "none" && actor.tok == subj.tok {
			stats["thirdparty-same-token-in-both-roles"]++
		}
		if resp.Status == 200 && sp.reg.te && !sp.reg.rt {
			stats["ok-for-client-with-te-without-refresh-grant:"+c15Short(resp.Str("issued_token_type"))]++
		}
		if sp.fixed != "" {
			stats["fixed-preamble"]++
		}
		fmt.Fprintln(w, l.String())
	}
	return stats
}

func c15Outcome(status int) string {
	if status == 200 {
		return "ok"
	}
	return "refused"
}

func b2i(b bool) int {
	if b {
		return 1
	}
	return 0
}

func c15Short(t string) string {
	if t == "" {
		return "absent"
	}
	return strings.TrimPrefix(t, "urn:ietf:params:oauth:token-type:")
}

func c15TP(kind string) string {
	if strings.HasPrefix(kind, "tp-") {
		return kind
	}
	if kind == "none" {
		return "none"
	}
	return "own"
}
