package main

// C04 round 4b: providers whose JWTProfileVerifier carries a CUSTOM subject check (the public option op.SubjectCheck).
//
// The one JWTProfileVerifier of a JWTAuthorizationGrantExchanger serves the jwt-bearer grant - where delegation (iss != sub) is
// what the option exists for - AND private_key_jwt client authentication (AuthorizePrivateJWTKey: AuthorizeCodeClient on the
// Provider router, LegacyServer.VerifyClient on the Server router).  In about a third of the C04 histories the provider is a
// struct embedding *op.Provider that overrides JWTProfileVerifier(ctx) with such a verifier (routed through op.CreateRouter /
// op.NewLegacyServer + RegisterLegacyServer, as an integrator would), with one of two policies:
//   all    every assertion with a non-empty `sub` passes the subject check;
//   table  sub = iss, or the pair iss>sub is in a delegation table (random pairs of registered private_key_jwt clients, plus
//          pairs naming a user or a client that is not registered for private_key_jwt).
// In these histories every private_key_jwt registration has ITS OWN key, and a scripted opening presents, for a code issued to
// one private_key_jwt client (the victim), assertions signed by ANOTHER registered private_key_jwt client with its own key:
//   delegated              {iss: other, sub: victim}   - the signature is the other client's: authenticated identity = other
//   iss-victim-other-key   {iss: victim, sub: victim}  signed by the other client (its own kid, or the victim's kid)
//   iss-victim-sub-other   {iss: victim, sub: other}   signed by the other client
//   sub-user / sub-secret-client   {iss: other, sub: a user / a client_secret_basic client}
//   own-assertion-victim-client_id {iss: other, sub: other} plus the form parameter client_id=victim
// then the victim's own assertion; and, for a code of the OTHER client, that client's delegated assertion {iss: other, sub: victim}
// (it IS the other client that is authenticated: tokens, unless the table refuses the pair).
// The reset line carries the policy (sc, sc.table); the model (Driver/Flow.lean -> FlowSC.stepExchange over Generated/TokenEndpointSC.lean)
// computes with exactly that check, the monitor is told only THAT the check is a custom one (Spec/C04.lean callerIsCfg).

import (
	"context"
	"errors"
	"io"
	"log/slog"
	"net/url"
	"time"

	"github.com/zitadel/oidc/v3/pkg/oidc"
	"github.com/zitadel/oidc/v3/pkg/op"

	"verifharness/internal/hx"
	"verifharness/internal/opbed"
	"verifharness/internal/refstore"
)

type c04scPolicy struct {
	kind  string   // "all" | "table"
	table []string // "iss>sub"
}

func (p *c04scPolicy) check(req *oidc.JWTTokenRequest) error {
	switch p.kind {
	case "all":
		if req.Subject == "" {
			return errors.New("sub missing")
		}
		return nil
	default:
		if req.Subject == req.Issuer || containsStr(p.table, req.Issuer+">"+req.Subject) {
			return nil
		}
		return errors.New("delegation not allowed for this pair")
	}
}

func (p *c04scPolicy) describe(l *hx.Line) {
	l.S("sc", p.kind)
	if p.kind == "table" {
		l.L("sc.table", p.table)
	}
}

// the provider an integrator writes to allow delegation: *op.Provider with its JWTProfileVerifier replaced
type c04scProvider struct {
	*op.Provider
	pol *c04scPolicy
}

func (p *c04scProvider) JWTProfileVerifier(ctx context.Context) *op.JWTProfileVerifier {
	return op.NewJWTProfileVerifier(p.Storage(), op.IssuerFromContext(ctx), time.Hour, time.Second, op.SubjectCheck(p.pol.check))
}

var c04scDiscard = slog.New(slog.NewTextHandler(io.Discard, nil))

func c04scPKClients(cls []*flowClient) []*flowClient {
	var out []*flowClient
	for _, fc := range cls {
		if fc.c.Auth == oidc.AuthMethodPrivateKeyJWT && fc.key != nil {
			out = append(out, fc)
		}
	}
	return out
}

// c04scSetup decides the subject-check policy of this history (nil: the library's own provider), gives every private_key_jwt
// registration its own key (before the registrations are stored) and re-routes the bed through the wrapped provider
func c04scSetup(r *hx.Rand, bed *opbed.Bed, cls []*flowClient, stats map[string]int) *c04scPolicy {
	if !r.Chance(35) {
		stats["sc-history-default"]++
		return nil
	}
	pol := &c04scPolicy{kind: hx.Pick(r, "all", "table")}
	keys := hx.Keys()
	own := []*hx.Key{keys[1], keys[2], keys[3]} // RS256, ES256, ES256
	pks := c04scPKClients(cls)
	for i, fc := range pks {
		k := own[i%len(own)]
		fc.key = k
		fc.c.Keys = []refstore.ClientKey{{Kid: fc.kid, Pub: k.Pub}}
	}
	if pol.kind == "table" {
		for _, a := range pks {
			for _, b := range pks {
				if a != b && r.Chance(40) {
					pol.table = append(pol.table, a.c.ID+">"+b.c.ID)
				}
			}
			if r.Chance(50) {
				pol.table = append(pol.table, a.c.ID+">"+hx.Pick(r, "user1", "user2", "web"))
			}
		}
	}
	wrapped := &c04scProvider{Provider: bed.Provider, pol: pol}
	switch bed.Cfg.Router {
	case "legacy":
		bed.Handler = op.RegisterLegacyServer(op.NewLegacyServer(wrapped, *op.DefaultEndpoints), op.AuthorizeCallbackHandler(wrapped), op.WithFallbackLogger(c04scDiscard))
	default:
		bed.Handler = op.CreateRouter(wrapped)
	}
	stats["sc-history-"+pol.kind]++
	return pol
}

// exchangeAssertion: one code exchange whose client_assertion is {iss, sub} signed by `signer`'s key under key id `kid`
func (x *c04xCtx) exchangeAssertion(codeStr, codeLabel, redirect, verifier string, signer *flowClient, kid, iss, sub, variant string) *opbed.Resp {
	return x.exchangeAssertionCID(codeStr, codeLabel, redirect, verifier, signer, kid, iss, sub, variant, "")
}

// ... with a `client_id` form parameter next to the assertion (cid != ""): the assertion decides who the caller is, not the parameter
func (x *c04xCtx) exchangeAssertionCID(codeStr, codeLabel, redirect, verifier string, signer *flowClient, kid, iss, sub, variant, cid string) *opbed.Resp {
	form := url.Values{"grant_type": {"authorization_code"}, "code": {codeStr}, "redirect_uri": {redirect}}
	if cid != "" {
		form.Set("client_id", cid)
	}
	if verifier != "" {
		form.Set("code_verifier", verifier)
	}
	l := hx.NewLine(x.prop).I("case", int64(*x.caseNo)).S("op", "exchange").S("code", codeLabel).S("redirect", redirect).S("verifier", verifier).
		S("caller", signer.c.ID).S("sc.variant", variant)
	if cid != "" {
		l.S("cid", cid)
	}
	now := time.Now().Unix()
	tok := assertion(x.sy, l, signer.key, kid, iss, sub, []string{opbed.Issuer}, now-5, now+300)
	l.S("auth", "assertion")
	waitClearOfSecondEdge()
	t0 := time.Now()
	resp := x.bed.Do(x.bed.Form("/oauth/token", form, opbed.Auth{Kind: "assertion", Assertion: tok}))
	t1 := time.Now()
	l.I("now0", t0.UnixNano()).I("now1", t1.UnixNano())
	x.respObs(l, resp)
	x.stats["op-exchange"]++
	x.stats["exchange-"+obsClass(resp)]++
	x.stats["exchange-by-"+regName(signer.c)+"-"+obsClass(resp)]++
	x.stats["sc-exchange-"+variant+"-"+obsClass(resp)]++
	x.emit(l)
	return resp
}

func c04scScenarios(x *c04xCtx, pol *c04scPolicy) {
	if pol == nil || !x.bed.Cfg.PrivateKeyJWT && !x.r.Chance(30) {
		return
	}
	r := x.r
	var pks []*flowClient
	for _, fc := range c04scPKClients(x.cls) {
		if containsStr(grantStrings(fc.c.Grants), "authorization_code") {
			pks = append(pks, fc)
		}
	}
	if len(pks) < 2 {
		return
	}
	rounds := 1 + r.Intn(2)
	for round := 0; round < rounds; round++ {
		victim := pks[r.Intn(len(pks))]
		var other *flowClient
		for {
			other = pks[r.Intn(len(pks))]
			if other != victim {
				break
			}
		}
		if pol.kind == "table" && r.Chance(60) { // prefer a pair the table admits
			for _, e := range pol.table {
				for _, a := range pks {
					for _, b := range pks {
						if a != b && e == a.c.ID+">"+b.c.ID {
							other, victim = a, b
						}
					}
				}
			}
		}
		pk := c04xPKCE{}
		if r.Chance(30) { // a verifier the other client may know (same RP software) - PKCE is not what keeps clients apart
			pk = c04xMakePKCE(r, hx.Pick(r, "s256", "plain"))
		}
		scopes := hx.Pick(r, "openid", "openid offline_access", "openid profile")
		// (a) a code of the victim, presented by the other client
		if id, redirect := x.authorize(victim, scopes, pk); id != "" {
			x.doLogin(id)
			if ic := x.doCallback(id, false); ic != nil {
				x.stats["scripted-delegated-assertion"]++
				variants := []string{"delegated", "delegated", "iss-victim-other-key", "iss-victim-sub-other", hx.Pick(r, "sub-user", "sub-secret-client"), "own-assertion-victim-client_id"}
				for i := len(variants) - 1; i > 0; i-- {
					j := r.Intn(i + 1)
					variants[i], variants[j] = variants[j], variants[i]
				}
				variants = variants[:2+r.Intn(len(variants)-1)]
				for _, v := range variants {
					var resp *opbed.Resp
					switch v {
					case "delegated":
						resp = x.exchangeAssertion(ic.real, ic.label, redirect, pk.verifier, other, other.kid, other.c.ID, victim.c.ID, v)
					case "iss-victim-other-key":
						resp = x.exchangeAssertion(ic.real, ic.label, redirect, pk.verifier, other, hx.Pick(r, other.kid, victim.kid), victim.c.ID, victim.c.ID, v)
					case "iss-victim-sub-other":
						resp = x.exchangeAssertion(ic.real, ic.label, redirect, pk.verifier, other, hx.Pick(r, other.kid, victim.kid), victim.c.ID, other.c.ID, v)
					case "sub-user":
						resp = x.exchangeAssertion(ic.real, ic.label, redirect, pk.verifier, other, other.kid, other.c.ID, hx.Pick(r, "user1", "user2"), v)
					case "own-assertion-victim-client_id": // the other client's proper assertion, the form names the victim
						resp = x.exchangeAssertionCID(ic.real, ic.label, redirect, pk.verifier, other, other.kid, other.c.ID, other.c.ID, v, victim.c.ID)
					case "sub-secret-client":
						resp = x.exchangeAssertion(ic.real, ic.label, redirect, pk.verifier, other, other.kid, other.c.ID, "web", v)
					}
					if resp != nil && resp.Status == 200 {
						x.stats["sc-FOREIGN-SIGNER-REDEEMED-THE-CODE"]++
					}
				}
				// the victim itself: plain, or (table permitting / admit-all) with a delegated subject - it is still the victim that signs
				sub := victim.c.ID
				if r.Chance(25) {
					sub = hx.Pick(r, other.c.ID, "user1")
				}
				x.exchangeAssertion(ic.real, ic.label, redirect, pk.verifier, victim, victim.kid, victim.c.ID, sub, "rightful")
			}
		}
		// (b) a code of the other client, redeemed by that client with a DELEGATED assertion {iss: other, sub: victim}: the signer is
		// the code's client (tokens - unless the table refuses the pair)
		if r.Chance(60) {
			if id, redirect := x.authorize(other, scopes, c04xPKCE{}); id != "" {
				x.doLogin(id)
				if ic := x.doCallback(id, false); ic != nil {
					x.stats["scripted-own-code-delegated-subject"]++
					x.exchangeAssertion(ic.real, ic.label, redirect, "", other, other.kid, other.c.ID, victim.c.ID, "own-code-delegated")
					x.exchangeAssertion(ic.real, ic.label, redirect, "", other, other.kid, other.c.ID, other.c.ID, "own-code-plain")
				}
			}
		}
	}
}
