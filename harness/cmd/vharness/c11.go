package main

// C11 — authorization response parameters arrive intact and cannot inject markup.
//
// The stream runs the REAL encoders of pkg/op (AuthResponseURL, AuthResponseFormPost, AuthResponseCode,
// AuthResponseToken, AuthRequestError, TryErrorRedirect and the HTTP authorize -> callback path) on
// generated (redirect URI shape x response mode x response type x parameter strings) and writes, per case,
//   - the inputs: redirect URI (hex), mode, response type, the parameters the provider PRODUCED
//     (intercepted at the schema-encoder boundary, so they are the values handed to the transport code),
//   - the oracle: what net/url.Parse made of the redirect URI (the model takes url.Parse as a parameter),
//   - the observation: the Location header or the HTML body, byte for byte (hex), and for HTML bodies what
//     golang.org/x/net/html (the "user agent" tokenizer) sees in it.
// The Lean driver recomputes Location / body with the model and evaluates the monitor on the OBSERVED bytes.

import (
	"bufio"
	"bytes"
	"context"
	"encoding/hex"
	"fmt"
	"io"
	"log/slog"
	"net/http"
	"net/http/httptest"
	"net/url"
	"strings"
	"time"
	"unicode/utf8"

	"golang.org/x/net/html"

	httphelper "github.com/zitadel/oidc/v3/pkg/http"
	"github.com/zitadel/oidc/v3/pkg/oidc"
	"github.com/zitadel/oidc/v3/pkg/op"

	"verifharness/internal/hx"
	"verifharness/internal/opbed"
	"verifharness/internal/refstore"
)

func init() { streams["C11"] = c11Stream }

var c11Discard = slog.New(slog.NewTextHandler(io.Discard, nil))

// ---------------------------------------------------------------- instrumented collaborators

// recEncoder is the provider's real schema encoder; it records what the provider produced.
type recEncoder struct {
	real httphelper.Encoder
	last map[string][]string
}

func (e *recEncoder) Encode(src any, dst map[string][]string) error {
	err := e.real.Encode(src, dst)
	e.last = map[string][]string{}
	for k, v := range dst {
		e.last[k] = append([]string(nil), v...)
	}
	return err
}

// fixedCrypto hands out the drawn string as authorization code (op.Crypto is an interface of the library).
type fixedCrypto struct{ code string }

func (c fixedCrypto) Encrypt(string) (string, error) { return c.code, nil }
func (c fixedCrypto) Decrypt(s string) (string, error) { return s, nil }

// c11Authorizer: the real Provider with the instrumented encoder (and, for code responses, crypto).
type c11Authorizer struct {
	op.Authorizer
	enc    *recEncoder
	crypto op.Crypto
}

func (a *c11Authorizer) Encoder() httphelper.Encoder { return a.enc }
func (a *c11Authorizer) Logger() *slog.Logger          { return c11Discard }
func (a *c11Authorizer) Crypto() op.Crypto {
	if a.crypto != nil {
		return a.crypto
	}
	return a.Authorizer.Crypto()
}

// c11AuthReq is a stored authorization request with session management support.
type c11AuthReq struct {
	id, clientID, uri, state, sessionState string
	rtype                                  oidc.ResponseType
	mode                                   oidc.ResponseMode
	noSession                              bool
}

func (a *c11AuthReq) GetID() string                         { return a.id }
func (a *c11AuthReq) GetACR() string                        { return "" }
func (a *c11AuthReq) GetAMR() []string                      { return []string{"pwd"} }
func (a *c11AuthReq) GetAudience() []string                 { return []string{a.clientID} }
func (a *c11AuthReq) GetAuthTime() time.Time                { return time.Unix(1700000000, 0) }
func (a *c11AuthReq) GetClientID() string                   { return a.clientID }
func (a *c11AuthReq) GetCodeChallenge() *oidc.CodeChallenge { return nil }
func (a *c11AuthReq) GetNonce() string                      { return "n" }
func (a *c11AuthReq) GetRedirectURI() string                { return a.uri }
func (a *c11AuthReq) GetResponseType() oidc.ResponseType    { return a.rtype }
func (a *c11AuthReq) GetResponseMode() oidc.ResponseMode    { return a.mode }
func (a *c11AuthReq) GetScopes() []string                   { return []string{"openid"} }
func (a *c11AuthReq) GetState() string                      { return a.state }
func (a *c11AuthReq) GetSubject() string                    { return "user1" }
func (a *c11AuthReq) Done() bool                            { return true }
func (a *c11AuthReq) GetSessionState() string               { return a.sessionState }

// the anonymous struct of AuthResponseCode, for the direct calls of AuthResponseURL / AuthResponseFormPost
type c11CodeResponse struct {
	Code         string `schema:"code"`
	State        string `schema:"state,omitempty"`
	SessionState string `schema:"session_state,omitempty"`
}

// ---------------------------------------------------------------- generators

const c11Punct = "+/=&%#? \"'<>;,:@!$()*[]{}|\\^~`-_."

var c11Crafted = []string{
	"a+b", "a b", "a%2Bb", "%", "%zz", "%41", "100%", "&amp;", "&lt;b&gt;", "&#34;", "&quot;", "&quot", "&amp", "&ampx", "&copy;", "&nbsp;x", "&#x41;", "&#65;", "&#0;", "&",
	"\"><script>alert(1)</script>", "\" autofocus onfocus=\"alert(1)", "'", "\"", "</form><form action=\"https://evil.example/\">", "a&b=c", "#frag", "?q=1", "a;b", "=", "&&", "a=b&code=evil",
	"é", "日本語", "😀", " ", "�", "﷐", " ", "x́", "ÿ", "<!--", "-->", "<", ">", "javascript:alert(1)", "+", " ", "  ", "~", "a/b", "a:b", "a@b", "a,b",
	"The requested scope is invalid, unknown, or malformed", "state with spaces & ampersands = fun", "eyJhbGciOiJSUzI1NiJ9.eyJzdWIiOiJ1In0.c2ln-_",
}

type c11Val struct {
	s, class string
}

// value draws a parameter string; htmlSafe restricts to what HTML can carry (valid UTF-8, no C0 controls / NUL)
func c11Value(r *hx.Rand, htmlSafe bool, tier string) c11Val {
	k := r.Intn(100)
	switch {
	case k < 14:
		n := 1 + r.Intn(24)
		var b strings.Builder
		for i := 0; i < n; i++ {
			b.WriteByte("abcdefghijklmnopqrstuvwxyzABCDEFGHIJKLMNOPQRSTUVWXYZ0123456789-_"[r.Intn(64)])
		}
		return c11Val{b.String(), "alnum"}
	case k < 44:
		return c11Val{c11Crafted[r.Intn(len(c11Crafted))], "crafted"}
	case k < 70:
		n := 1 + r.Intn(20)
		var b strings.Builder
		for i := 0; i < n; i++ {
			if r.Chance(65) {
				b.WriteByte(c11Punct[r.Intn(len(c11Punct))])
			} else {
				b.WriteByte("abXY019"[r.Intn(7)])
			}
		}
		return c11Val{b.String(), "punct"}
	case k < 84:
		n := 1 + r.Intn(10)
		var b strings.Builder
		for i := 0; i < n; i++ {
			var cp rune
			switch r.Intn(7) {
			case 0:
				cp = rune(0x20 + r.Intn(0x5f)) // ASCII printable
			case 1:
				cp = rune(0xa0 + r.Intn(0x160)) // Latin-1 / Latin Extended
			case 2:
				cp = rune(0x4e00 + r.Intn(0x5000)) // CJK
			case 3:
				cp = rune(0x1f300 + r.Intn(0x300)) // emoji
			case 4:
				cp = hx.Pick(r, rune(0xfffd), rune(0xfdd0), rune(0xffff), rune(0x2028), rune(0x200b), rune(0x85), rune(0x10ffff))
			case 5:
				cp = rune(0x370 + r.Intn(0x300)) // Greek / Cyrillic
			default:
				cp = rune(c11Punct[r.Intn(len(c11Punct))])
			}
			b.WriteRune(cp)
		}
		return c11Val{b.String(), "unicode"}
	case k < 90:
		// long
		n := 200 + r.Intn(1800)
		if tier != "thorough" {
			n = 100 + r.Intn(300)
		}
		var b strings.Builder
		for b.Len() < n {
			b.WriteString(c11Crafted[r.Intn(len(c11Crafted))])
		}
		return c11Val{b.String(), "long"}
	case k < 96 && !htmlSafe:
		// raw bytes: controls, DEL, invalid UTF-8
		n := 1 + r.Intn(8)
		b := make([]byte, n)
		for i := range b {
			switch r.Intn(4) {
			case 0:
				b[i] = byte(r.Intn(0x20))
			case 1:
				b[i] = byte(0x80 + r.Intn(0x80))
			case 2:
				b[i] = 0x7f
			default:
				b[i] = byte(r.Intn(256))
			}
		}
		return c11Val{string(b), "bytes"}
	case k < 96:
		return c11Val{"tab\tand del\x7f", "ctl-ok"} // TAB is a C0 control but passes HTML unharmed; kept out of the theorem domain, observed only
	default:
		return c11Val{"", "empty"}
	}
}

func c11HTMLSafe(s string) bool {
	if !utf8.ValidString(s) {
		return false
	}
	for i := 0; i < len(s); i++ {
		if s[i] < 0x20 {
			return false
		}
	}
	return true
}

type c11URI struct {
	s, shape string
}

var c11URIs = []c11URI{
	{"https://rp.example/cb", "plain"},
	{"https://rp.example/cb", "plain"},
	{"https://rp.example:8443/a/b/cb", "plain"},
	{"http://127.0.0.1:8080/cb", "loopback"},
	{"http://[::1]:9/cb", "loopback"},
	{"https://rp.example/cb?tenant=acme", "query"},
	{"https://rp.example/cb?a=1&a=2&b=", "query"},
	{"https://rp.example/cb?x=a%20b&y=c+d", "query"},
	{"https://rp.example/cb?k=%26%3D&z=%C3%A9", "query"},
	{"https://rp.example/cb?flag", "query"},
	{"https://rp.example/cb?", "query-force"},
	{"https://rp.example/cb?state=pre", "query-collide"},
	{"https://rp.example/cb?zz=1&code=old", "query-collide"},
	{"https://rp.example/cb?q=\"x\"&r='y'", "query-quote"},
	{"https://rp.example/cb?q=<b>&amp;=1", "query-quote"},
	{"https://rp.example/cb?a;b=1&ok=1", "query-malformed"},
	{"https://rp.example/cb?%zz=1&ok=2", "query-malformed"},
	{"https://rp.example/app#/login/callback", "fragment"},
	{"https://rp.example/app?tenant=acme#/login/callback", "query+fragment"},
	{"https://rp.example/app#a%20b", "fragment"},
	{"https://rp.example/app#a+b=c&d", "fragment"},
	{"https://rp.example/app#state=a%2Bb", "fragment"},
	{"myapp://callback", "custom"},
	{"myapp://callback?x=1", "custom"},
	{"com.example.app:/oauth2redirect", "custom"},
	{"com.example.app:/oauth2redirect?app=1#top", "custom"},
	{"myapp:cb", "custom-opaque"},
	{"urn:ietf:wg:oauth:2.0:oob", "custom-opaque"},
	{"https://rp.example/c%20b/x'y", "path-special"},
	{"https://rp.example/a b/\"q\"", "path-special"},
	{"https://rp.example/%2Fenc/cb", "path-special"},
	{"https://rp.example/ü/cb", "path-special"},
	{"https://u:p@rp.example/cb", "userinfo"},
	{"HTTPS://RP.example/CB", "upper"},
	{"https://rp.example/%zz", "unparsable"},
	{"http://[::1/cb", "unparsable"},
	{"https://rp.example/\x7fcb", "unparsable"},
}

// registered with the HTTP flow clients (exact match required there)
var c11FlowWebURIs = []string{
	"https://rp.example/cb", "https://rp.example/cb?tenant=acme", "https://rp.example/cb?a=1&a=2&b=", "https://rp.example/cb?state=pre",
	"https://rp.example/app#/login/callback", "https://rp.example/app?tenant=acme#/login/callback", "https://rp.example/cb?q=\"x\"&r='y'",
	"https://rp.example/cb?a;b=1&ok=1", "https://rp.example/c%20b/x'y",
}
var c11FlowNativeURIs = []string{"myapp://callback", "com.example.app:/oauth2redirect", "myapp://callback?x=1", "http://127.0.0.1:8080/cb"}

func c11Hex(s string) string { return hex.EncodeToString([]byte(s)) }

// pct: QueryEscape percent-encodes at least one byte of s
func c11NeedsPct(s string) bool { return strings.Contains(url.QueryEscape(s), "%") }

// safe: html/template's URL filter lets the scheme through (http, https, mailto or none)
func c11SafeScheme(s string) bool {
	if protocol, _, ok := strings.Cut(s, ":"); ok && !strings.Contains(protocol, "/") {
		return strings.EqualFold(protocol, "http") || strings.EqualFold(protocol, "https") || strings.EqualFold(protocol, "mailto")
	}
	return true
}

// paramOrder: the names the response types can carry, in a fixed order
var c11ParamOrder = []string{"code", "state", "session_state", "access_token", "token_type", "refresh_token", "expires_in", "id_token", "scope", "error", "error_description"}

func c11Produced(m map[string][]string) []string {
	var out []string
	seen := map[string]bool{}
	add := func(k string) {
		for _, v := range m[k] {
			out = append(out, k, c11Hex(v))
		}
		seen[k] = true
	}
	for _, k := range c11ParamOrder {
		if _, ok := m[k]; ok {
			add(k)
		}
	}
	for k := range m { // anything unexpected is reported too (sorted for determinism)
		if !seen[k] {
			add(k)
		}
	}
	return out
}

// uaView: what a user agent's HTML tokenizer sees: "T:<tag>" followed by its "A:<name>=<hex value>" entries
func c11UAView(body []byte) []string {
	var out []string
	z := html.NewTokenizer(bytes.NewReader(body))
	for {
		tt := z.Next()
		if tt == html.ErrorToken {
			return out
		}
		if tt == html.TextToken {
			// character data that is not white space: reported as the pseudo tag `#text` (an auto-submitting form has none)
			if txt := bytes.TrimSpace(z.Text()); len(txt) > 0 {
				out = append(out, "T:#text", "A:data="+hex.EncodeToString(txt))
			}
			continue
		}
		if tt != html.StartTagToken && tt != html.SelfClosingTagToken {
			continue
		}
		name, hasAttr := z.TagName()
		out = append(out, "T:"+string(name))
		for hasAttr {
			var k, v []byte
			k, v, hasAttr = z.TagAttr()
			out = append(out, "A:"+string(k)+"="+hex.EncodeToString(v))
		}
	}
}

type c11Obs struct {
	kind   string // redirect | form | refused | panic
	status int
	loc    string
	body   []byte
}

func c11Observe(f func(w http.ResponseWriter)) (o c11Obs) {
	rec := httptest.NewRecorder()
	func() {
		defer func() {
			if p := recover(); p != nil {
				o.kind = "panic"
			}
		}()
		f(rec)
	}()
	if o.kind == "panic" {
		return o
	}
	o.status = rec.Code
	o.loc = rec.Header().Get("Location")
	o.body = rec.Body.Bytes()
	switch {
	case rec.Code == http.StatusFound && o.loc != "":
		o.kind = "redirect"
	case rec.Code == http.StatusOK:
		o.kind = "form"
	default:
		o.kind = "refused"
	}
	return o
}

func c11Stream(r *hx.Rand, tier string, n int, w *bufio.Writer) map[string]int {
	if n == 0 {
		n = 5000
		if tier == "thorough" {
			n = 120000
		}
	}
	stats := map[string]int{}
	bed, err := opbed.New(opbed.Config{Router: "provider", S256: true, Caps: refstore.Caps{}})
	if err != nil {
		panic(err)
	}
	web := opbed.WebClient("web", "secret", c11FlowWebURIs...)
	web.RespTypes = []oidc.ResponseType{oidc.ResponseTypeCode, oidc.ResponseTypeIDToken, oidc.ResponseTypeIDTokenOnly}
	native := opbed.NativeClient("native", c11FlowNativeURIs...)
	bed.Store.AddClient(web)
	bed.Store.AddClient(native)
	bed.Store.AddUser("user1", nil)
	enc := &recEncoder{real: oidc.NewEncoder()}
	authz := &c11Authorizer{Authorizer: bed.Provider, enc: enc}
	modes := []oidc.ResponseMode{"", oidc.ResponseModeQuery, oidc.ResponseModeFragment, oidc.ResponseModeFormPost}
	rtypes := []oidc.ResponseType{oidc.ResponseTypeCode, oidc.ResponseTypeCode, oidc.ResponseTypeIDToken, oidc.ResponseTypeIDTokenOnly}
	errCtors := []func() *oidc.Error{oidc.ErrAccessDenied, oidc.ErrInvalidRequest, oidc.ErrInvalidScope, oidc.ErrLoginRequired, oidc.ErrInteractionRequired, oidc.ErrServerError, oidc.ErrRequestNotSupported}

	// source-traced flows: both routers, with and without request-object support
	srcBeds := []*c11SrcBed{c11NewSrcBed("provider", true), c11NewSrcBed("legacy", true), c11NewSrcBed("provider", false), c11NewSrcBed("legacy", false)}

	c11ParPreamble(r, tier, w, stats, bed) // the situation of F-C11e (fixed), once per run whatever the seed draws
	lenEnv := &c11LenEnv{enc: enc, authz: authz, web: web}
	c11LenPreamble(r, tier, w, stats, lenEnv) // every length boundary x both error functions, whatever the seed draws

	for caseNo := 0; caseNo < n; caseNo++ {
		kind := hx.Pick(r, "url", "url", "url", "form", "form", "code", "code", "token", "error", "error", "tryerror", "flow", "src", "src", "src", "seq", "par", "len")
		mode := modes[r.Intn(len(modes))]
		rtype := rtypes[r.Intn(len(rtypes))]
		u := c11URIs[r.Intn(len(c11URIs))]
		htmlSafe := kind == "form" || mode == oidc.ResponseModeFormPost
		val := func() string {
			for {
				v := c11Value(r, htmlSafe, tier)
				if htmlSafe && !c11HTMLSafe(v.s) {
					if v.class == "ctl-ok" {
						stats["value-"+v.class]++
						return v.s
					}
					continue
				}
				stats["value-"+v.class]++
				return v.s
			}
		}
		isErr := false
		sub := ""
		var produced map[string][]string
		var reqState []string // handler kinds: state and session_state of the authorization request
		var srcErr []string   // error kinds: error code and description of the error value handed to the function
		var obs c11Obs
		var srcFields func(l *hx.Line)
		req := httptest.NewRequest(http.MethodGet, "/authorize/callback?id=x", nil)
		switch kind {
		case "seq":
			c11SeqRun(r, tier, caseNo, w, stats, bed.Provider, web)
			continue
		case "par":
			c11ParRun(r, tier, caseNo, w, stats, bed)
			continue
		case "len":
			c11LenCase(r, tier, int64(caseNo), w, stats, lenEnv, c11LenBound(r, tier), "", nil)
			continue
		case "src":
			sr, ok := c11SrcCase(r, srcBeds, tier, stats)
			if !ok {
				continue
			}
			u, mode, rtype, isErr, sub, produced, obs, srcFields = sr.u, sr.mode, sr.rtype, sr.isErr, sr.sub, sr.produced, sr.obs, sr.src
			m := string(mode)
			if m == "" {
				m = "default"
			}
			stats["state-channel:"+sr.stChannel+"/"+m]++
			stats["src-outcome:"+sr.outcome+"/"+sr.who]++
			if sr.errClass != "" {
				stats["error-text-class:"+sr.errClass+"/"+m]++
				stats["error-kind:"+sr.errKind+"/"+sr.outcome]++
			}
		case "url", "form":
			if kind == "form" {
				mode = oidc.ResponseModeFormPost
			}
			var resp any
			switch r.Intn(3) {
			case 0:
				sub = "code"
				resp = &c11CodeResponse{Code: val(), State: val(), SessionState: hx.Pick(r, "", val())}
			case 1:
				sub = "token"
				resp = &oidc.AccessTokenResponse{AccessToken: val(), TokenType: hx.Pick(r, oidc.BearerToken, val()), IDToken: val(), State: val(),
					ExpiresIn: uint64(r.Intn(4000)), RefreshToken: hx.Pick(r, "", "", val()), Scope: hx.Pick(r, nil, oidc.SpaceDelimitedArray{"openid"}, oidc.SpaceDelimitedArray{"openid", "profile"})}
			default:
				if kind == "form" {
					sub = "code"
					resp = &c11CodeResponse{Code: val(), State: val()}
				} else {
					sub = "error"
					isErr = true
					e := errCtors[r.Intn(len(errCtors))]()
					e.Description = hx.Pick(r, e.Description, val())
					e.State = val()
					e.SessionState = hx.Pick(r, "", val())
					resp = e
				}
			}
			if kind == "url" && mode == oidc.ResponseModeFormPost && !isErr {
				// the handlers never hand a successful form_post response to AuthResponseURL
				mode = modes[r.Intn(3)]
			}
			enc.last = nil
			if kind == "url" {
				obs = c11Obs{}
				func() {
					defer func() {
						if p := recover(); p != nil {
							obs.kind = "panic"
						}
					}()
					loc, err := op.AuthResponseURL(u.s, rtype, mode, resp, enc)
					if err != nil {
						obs.kind = "refused"
					} else {
						obs.kind, obs.loc = "redirect", loc
					}
				}()
			} else {
				obs = c11Observe(func(w http.ResponseWriter) {
					if err := op.AuthResponseFormPost(w, u.s, resp, enc); err != nil {
						http.Error(w, err.Error(), http.StatusBadRequest)
					}
				})
			}
			produced = enc.last
		case "code":
			ar := &c11AuthReq{id: "ar-c11", clientID: "web", uri: u.s, state: val(), sessionState: hx.Pick(r, "", val()), rtype: oidc.ResponseTypeCode, mode: mode}
			reqState = []string{ar.state, ar.sessionState}
			rtype = oidc.ResponseTypeCode
			code := val()
			if code == "" {
				code = "c"
			}
			authz.crypto = fixedCrypto{code}
			enc.last = nil
			obs = c11Observe(func(w http.ResponseWriter) { op.AuthResponseCode(w, req, ar, authz) })
			produced = enc.last
			authz.crypto = nil
		case "token":
			if rtype == oidc.ResponseTypeCode {
				rtype = oidc.ResponseTypeIDToken
			}
			ar := &c11AuthReq{id: "ar-c11", clientID: "web", uri: u.s, state: val(), sessionState: hx.Pick(r, "", val()), rtype: rtype, mode: mode}
			reqState = []string{ar.state, ar.sessionState}
			enc.last = nil
			ctx := op.ContextWithIssuer(req.Context(), opbed.Issuer)
			obs = c11Observe(func(w http.ResponseWriter) { op.AuthResponseToken(w, req.WithContext(ctx), ar, authz, web) })
			produced = enc.last
		case "error", "tryerror":
			isErr = true
			if mode == oidc.ResponseModeFormPost && r.Chance(60) {
				mode = modes[r.Intn(3)]
			}
			ar := &c11AuthReq{id: "ar-c11", clientID: "web", uri: u.s, state: val(), sessionState: hx.Pick(r, "", val()), rtype: rtype, mode: mode}
			reqState = []string{ar.state, ar.sessionState}
			e := errCtors[r.Intn(len(errCtors))]()
			if r.Chance(70) {
				e.Description = val()
			}
			var perr error = e
			if r.Chance(10) {
				perr = fmt.Errorf("plain error %s", val()) // not an oidc.Error: becomes server_error with this text
			}
			// what has to arrive: code and description of the error value handed in (an *oidc.Error as it is, anything else as
			// server_error with the error's text), not what the function under test hands to the encoder
			srcErr = []string{string(e.ErrorType), e.Description}
			if perr != error(e) {
				srcErr = []string{string(oidc.ServerError), perr.Error()}
			}
			enc.last = nil
			if kind == "error" {
				obs = c11Observe(func(w http.ResponseWriter) { op.AuthRequestError(w, req, ar, perr, authz) })
			} else {
				func() {
					defer func() {
						if p := recover(); p != nil {
							obs.kind = "panic"
						}
					}()
					red, err := op.TryErrorRedirect(context.Background(), ar, perr, enc, c11Discard)
					if err != nil || red == nil {
						obs.kind = "refused"
					} else {
						obs.kind, obs.loc = "redirect", red.URL
					}
				}()
			}
			produced = enc.last
		case "flow":
			// the whole HTTP path: GET /authorize (state as the client sends it) -> login -> GET /authorize/callback
			client, uris := "web", c11FlowWebURIs
			if r.Chance(30) {
				client, uris = "native", c11FlowNativeURIs
			}
			u = c11URI{uris[r.Intn(len(uris))], "flow-" + client}
			rtype = oidc.ResponseTypeCode
			state := val()
			q := url.Values{"client_id": {client}, "redirect_uri": {u.s}, "response_type": {"code"}, "scope": {"openid"}, "state": {state},
				"code_challenge": {oidc.NewSHACodeChallenge("verifier-AAAAAAAAAAAAAAAAAAAAAAAAAAAAAAAAAAAAAAAAAAA")}, "code_challenge_method": {"S256"}}
			if mode != "" {
				q.Set("response_mode", string(mode))
			}
			resp := bed.Do(bed.Get("/authorize", q, ""))
			id := ""
			if resp.Loc != nil && strings.HasPrefix(resp.Loc.Path, "/login") {
				id = resp.Loc.Query().Get("authRequestID")
			}
			if id == "" {
				stats["flow-authorize-refused"]++
				continue
			}
			finish := r.Chance(75)
			if finish {
				bed.Store.CompleteAuthRequest(id, "user1")
			} else {
				isErr = true
			}
			cb := bed.Do(bed.Get("/authorize/callback", url.Values{"id": {id}}, ""))
			obs = c11Obs{status: cb.Status, loc: cb.Header.Get("Location"), body: cb.Body}
			switch {
			case cb.Panicked:
				obs.kind = "panic"
			case cb.Status == http.StatusFound && obs.loc != "":
				obs.kind = "redirect"
			case cb.Status == http.StatusOK:
				obs.kind = "form"
			default:
				obs.kind = "refused"
			}
			produced = map[string][]string{}
			if state != "" {
				produced["state"] = []string{state}
			}
			if finish {
				sub = "code"
				if ar := bed.Store.GetAuthRequest(id); ar != nil && ar.Code != "" {
					produced["code"] = []string{ar.Code} // the code the provider stored for this request
				}
			} else {
				sub = "error"
				produced["error"] = []string{"interaction_required"}
				produced["error_description"] = []string{"Unfortunately, the user may be not logged in and/or additional interaction is required."}
			}
		}
		if sub == "" {
			sub = map[string]string{"code": "code", "token": "token", "error": "error", "tryerror": "error"}[kind]
		}

		l := hx.NewLine("C11").I("case", int64(caseNo)).S("kind", kind).S("sub", sub).S("mode", string(mode)).S("rtype", string(rtype)).B("err", isErr).
			S("shape", u.shape).S("uri", c11Hex(u.s))
		// oracle: net/url.Parse on the redirect URI
		if pu, perr := url.Parse(u.s); perr == nil {
			b := *pu
			b.RawQuery, b.ForceQuery, b.Fragment, b.RawFragment = "", false, "", ""
			l.B("u.ok", true).S("u.base", c11Hex(b.String())).S("u.rawq", c11Hex(pu.RawQuery)).B("u.fq", pu.ForceQuery).
				S("u.frag", c11Hex(pu.Fragment)).S("u.rawfrag", c11Hex(pu.RawFragment))
		} else {
			l.B("u.ok", false)
		}
		// what must arrive = what the provider handed to the transport code (recorded at the encoder boundary), with
		// state and session_state as the authorization request holds them (the value the client sent / the OP's session)
		expected := map[string][]string{}
		for k, v := range produced {
			expected[k] = v
		}
		if reqState != nil {
			if reqState[0] != "" {
				expected["state"] = []string{reqState[0]}
			}
			if reqState[1] != "" {
				expected["session_state"] = []string{reqState[1]}
			}
		}
		if srcErr != nil && len(produced) > 0 {
			expected["error"] = []string{srcErr[0]}
			delete(expected, "error_description")
			if srcErr[1] != "" {
				expected["error_description"] = []string{srcErr[1]}
			}
		}
		l.L("p", c11Produced(expected))
		if pe, pp := c11Produced(produced), c11Produced(expected); strings.Join(pe, ",") != strings.Join(pp, ",") {
			l.L("e", pe) // the model starts from what the encoder wrote
			stats["expected-differs-from-encoded"]++
		}
		pct := false
		for k, vs := range produced {
			pct = pct || c11NeedsPct(k)
			for _, v := range vs {
				pct = pct || c11NeedsPct(v)
			}
		}
		l.B("pct", pct).B("safe", c11SafeScheme(u.s)).B("direct", kind == "url" || kind == "tryerror")
		if srcFields != nil {
			srcFields(l)
		}
		l.S("obs", obs.kind)
		switch obs.kind {
		case "redirect":
			l.S("o.loc", c11Hex(obs.loc))
		case "form":
			l.S("o.body", hex.EncodeToString(obs.body)).L("ua", c11UAView(obs.body))
		case "refused":
			l.I("o.status", int64(obs.status))
		}
		fmt.Fprintln(w, l.String())
		stats["kind-"+kind]++
		stats["mode-"+string(mode)+"_"]++
		stats["shape-"+u.shape]++
		stats["obs-"+obs.kind]++
		stats["sub-"+sub]++
	}
	return stats
}
