// vharness: correspondence harness. Runs the REAL implementation (built from /repo's working tree)
// on generated inputs and writes one line per case for the Lean driver (model + monitor).
package main

import (
	"bufio"
	"bytes"
	"flag"
	"fmt"
	"os"
	"strconv"
	"strings"

	"verifharness/internal/hx"
)

type stream func(r *hx.Rand, tier string, n int, w *bufio.Writer) (stats map[string]int)

var streams = map[string]stream{}

func main() {
	tier := flag.String("tier", "quick", "quick|thorough")
	seed := flag.Uint64("seed", 1, "PRNG seed")
	n := flag.Int("n", 0, "number of cases (0 = tier default)")
	out := flag.String("out", "", "output file (default stdout)")
	only := flag.String("only", "", "emit only the case with this id (replay)")
	flag.Parse()
	if flag.NArg() < 1 {
		fmt.Fprintln(os.Stderr, "usage: vharness [-tier t] [-seed n] [-n cases] [-out file] <property>")
		os.Exit(2)
	}
	if s := os.Getenv("VERIF_SEED"); s != "" && !isFlagSet("seed") {
		if v, err := strconv.ParseUint(s, 10, 64); err == nil {
			*seed = v
		}
	}
	prop := flag.Arg(0)
	st, ok := streams[prop]
	if !ok {
		fmt.Fprintln(os.Stderr, "no stream for", prop)
		os.Exit(2)
	}
	var w *bufio.Writer
	if *out == "" {
		w = bufio.NewWriter(os.Stdout)
	} else {
		f, err := os.Create(*out)
		if err != nil {
			fmt.Fprintln(os.Stderr, err)
			os.Exit(2)
		}
		defer f.Close()
		w = bufio.NewWriter(f)
	}
	if *only != "" {
		// replay: regenerate the whole stream (same PRNG sequence) but keep only the requested case
		var buf bytes.Buffer
		bw := bufio.NewWriter(&buf)
		st(hx.NewRand(*seed), *tier, *n, bw)
		bw.Flush()
		lines := strings.Split(buf.String(), "\n")
		// a case of a stateful history (marked h0=<case id of its reset line>) is replayed with its history prefix
		h0 := ""
		for _, ln := range lines {
			if strings.Contains(ln, " case="+*only+" ") {
				for _, tok := range strings.Fields(ln) {
					if strings.HasPrefix(tok, "h0=") {
						h0 = tok
					}
				}
			}
		}
		done := false
		for _, ln := range lines {
			hit := strings.Contains(ln, " case="+*only+" ")
			if hit || (h0 != "" && !done && strings.Contains(ln, " "+h0+" ")) {
				fmt.Fprintln(w, ln)
			}
			if hit {
				done = true
			}
		}
		w.Flush()
		return
	}
	stats := st(hx.NewRand(*seed), *tier, *n, w)
	w.Flush()
	// distribution of what was generated (printed into the evidence by ./check)
	for k, v := range stats {
		fmt.Fprintf(os.Stderr, "stat %s %d\n", k, v)
	}
}

func isFlagSet(name string) bool {
	set := false
	flag.Visit(func(f *flag.Flag) {
		if f.Name == name {
			set = true
		}
	})
	return set
}
