package main

// C03 stream: the REAL authorization endpoint and its callback (both routers) on generated client registrations
// and redirect URIs.  One history = one provider instance with 3-6 registrations; every line is one HTTP request
// (or the login UI completing a request).  Each request line carries what net/url, net.ParseIP and doublestar
// answered for the strings involved (the model's and the monitor's oracle) and the observed response.

import (
	"bufio"
	"encoding/json"
	"errors"
	"fmt"
	"html"
	"html/template"
	"net"
	"net/url"
	"regexp"
	"sort"
	"strings"

	"github.com/bmatcuk/doublestar/v4"
	"github.com/zitadel/oidc/v3/pkg/oidc"
	"github.com/zitadel/oidc/v3/pkg/op"

	"verifharness/internal/hx"
	"verifharness/internal/opbed"
	"verifharness/internal/refstore"
)

func init() {
	streams["C03"] = c03Stream
}

const c03Login = "/login?authRequestID="

var (
	c03HTTPS    = []string{"https://rp.example/cb", "https://rp.example/cb?x=1", "https://app.example:8443/callback", "https://rp.example/a/b"}
	c03HTTP     = []string{"http://rp.example/cb", "http://insecure.example/cb"}
	c03Loopback = []string{"http://localhost/cb", "http://localhost:8080/cb", "http://127.0.0.1/cb", "http://127.0.0.1:9000/cb?k=v", "http://[::1]/cb",
		"https://localhost/cb", "http://localhost/a/b"}
	c03Custom = []string{"myapp://cb", "com.example.app:/oauth2redirect", "custom://auth/callback"}
	c03Weird  = []string{"HTTP://rp.example/upper", "https://rp.example:port/cb", "http:opaque.example/cb", "HTTPS://rp.example/upper"}
	// (round 3) unusual-but-legal registrations: mixed-case schemes, IPv6 loopback spellings, ports, userinfo, trailing dots,
	// percent-encoded path segments, a fragment, the empty string
	c03Odd = []string{"HtTpS://rp.example/mixed", "Http://localhost/cb", "hTTp://127.0.0.1:9000/cb", "http://[0:0:0:0:0:0:0:1]:8080/cb", "http://[::1]:8080/cb",
		"http://127.0.0.1:0/cb", "https://user@rp.example/cb", "http://user:pw@localhost/cb", "https://rp.example./cb", "http://localhost./cb",
		"https://rp.example/a%2Fb", "http://localhost/c%62", "https://rp.example/caf%C3%A9", "https://rp.example/cb#frag", "https://rp.example:443/cb",
		"http://rp.example:80/cb", "https://RP.EXAMPLE/cb", "http://[::ffff:127.0.0.1]/cb", "", "https://rp.example/cb/../cb", "https://rp.example//cb"}
	c03OddGlobs = []string{"https://rp.example/\\*", "https://rp.example/[a-c]b", "https://rp.example/c?", "https://rp.example/{cb,x}", "**", "*", "",
		"https://rp.example/cb\\", "http://localhost:{1234,8080}/cb", "https://rp.example/[!a]b", "https://*/cb", "http*://rp.example/cb", "https://rp.example/[a-", "{", "https://rp.example/**/cb"}
	c03Globs  = []string{"https://*.rp.example/cb", "https://rp.example/*", "https://rp.example/**", "http://localhost:*/cb", "myapp://*",
		"[", "https://rp.example/cb[", "https://rp.example/{a,b}/cb", "http://*.insecure.example/cb", "http://**"}
	c03Foreign = []string{"https://evil.example/steal", "https://evil.example/cb?x=1", "javascript:alert(1)", "data:text/html,x", "/relative", "//evil.example/cb",
		"http://evil.example/cb", "evil://cb", "https://rp.example@evil.example/cb", "https://rp.example.evil.example/cb", "http://10.0.0.7/cb",
		"http://localhost.evil.example/cb", "http://127.0.0.1.evil.example/cb", "http://127.0.0.1@evil.example/cb", "http://[::1]@evil.example/cb"}
	c03GlobTargets = []string{"https://a.rp.example/cb", "https://a.b.rp.example/cb", "https://rp.example/x", "https://rp.example/x/y", "http://localhost:1234/cb",
		"myapp://anything", "https://rp.example/a/cb", "https://rp.example/c/cb", "http://x.insecure.example/cb", "http://evil.example/anything", "https://rp.example/cb["}
	c03FormAction = regexp.MustCompile(`action="([^"]*)"`)
)

type c03Client struct {
	c   *refstore.Client
	tag string // short description of the registration (class label)
}

func c03GenClient(r *hx.Rand, i int) *c03Client {
	app := hx.Pick(r, op.ApplicationTypeWeb, op.ApplicationTypeWeb, op.ApplicationTypeUserAgent, op.ApplicationTypeNative, op.ApplicationTypeNative)
	c := &refstore.Client{ID: fmt.Sprintf("c%d", i), App: app, Dev: r.Chance(25),
		Auth:   hx.Pick(r, oidc.AuthMethodBasic, oidc.AuthMethodPost, oidc.AuthMethodNone, oidc.AuthMethodPrivateKeyJWT),
		Grants: []oidc.GrantType{oidc.GrantTypeCode, oidc.GrantTypeImplicit}}
	if c.Auth == oidc.AuthMethodBasic || c.Auth == oidc.AuthMethodPost {
		c.Secret = "secret"
	}
	switch r.Intn(6) {
	case 0:
		c.RespTypes = []oidc.ResponseType{oidc.ResponseTypeCode}
	case 1:
		c.RespTypes = []oidc.ResponseType{oidc.ResponseTypeIDToken, oidc.ResponseTypeIDTokenOnly}
	default:
		c.RespTypes = []oidc.ResponseType{oidc.ResponseTypeCode, oidc.ResponseTypeIDToken, oidc.ResponseTypeIDTokenOnly}
	}
	n := 1 + r.Intn(4)
	seen := map[string]bool{}
	for len(c.Redirects) < n {
		var u string
		switch k := r.Intn(100); {
		case k < 30:
			u = c03HTTPS[r.Intn(len(c03HTTPS))]
		case k < 42:
			u = c03HTTP[r.Intn(len(c03HTTP))]
		case k < 72:
			u = c03Loopback[r.Intn(len(c03Loopback))]
		case k < 90:
			u = c03Custom[r.Intn(len(c03Custom))]
		case k < 94:
			u = c03Weird[r.Intn(len(c03Weird))]
		default:
			u = c03Odd[r.Intn(len(c03Odd))]
		}
		if !seen[u] {
			seen[u] = true
			c.Redirects = append(c.Redirects, u)
		}
	}
	odd := ""
	switch k := r.Intn(100); {
	case k < 6: // a registration made of unusual spellings only
		c.Redirects = nil
		for j := 1 + r.Intn(3); j > 0; j-- {
			c.Redirects = append(c.Redirects, c03Odd[r.Intn(len(c03Odd))])
		}
		odd = "-odd"
	case k < 10: // the same URI registered twice
		c.Redirects = append(c.Redirects, c.Redirects[0])
		odd = "-dup"
	case k < 13: // nothing registered (globs may still be)
		c.Redirects = nil
		odd = "-empty"
	}
	if r.Chance(35) {
		c.UseGlobs = true
		for k := r.Intn(3); k >= 0; k-- {
			if r.Chance(25) {
				c.Globs = append(c.Globs, c03OddGlobs[r.Intn(len(c03OddGlobs))])
				continue
			}
			c.Globs = append(c.Globs, c03Globs[r.Intn(len(c03Globs))])
		}
		if r.Chance(5) {
			c.Globs = nil // opted in, no patterns
		}
	}
	tag := map[op.ApplicationType]string{op.ApplicationTypeWeb: "web", op.ApplicationTypeUserAgent: "ua", op.ApplicationTypeNative: "nat"}[app]
	if c.Dev {
		tag += "-dev"
	}
	if c.UseGlobs {
		tag += "-glob"
	}
	tag += odd
	return &c03Client{c: c, tag: tag}
}

func c03IsLoopbackURI(u string) bool {
	p, err := url.Parse(u)
	if err != nil || (p.Scheme != "http" && p.Scheme != "https") {
		return false
	}
	h := p.Hostname()
	return h == "localhost" || net.ParseIP(h).IsLoopback()
}

// c03Request picks the requested redirect_uri for client fc and names its class
func c03Request(r *hx.Rand, fc *c03Client) (uri, class string) {
	c := fc.c
	if len(c.Redirects) == 0 { // nothing registered: whatever is asked for must be refused (unless an opted-in glob matches)
		all := append(append(append(append([]string{""}, c03HTTPS...), c03Loopback...), c03Custom...), c03GlobTargets...)
		return all[r.Intn(len(all))], "none-registered"
	}
	reg := c.Redirects[r.Intn(len(c.Redirects))]
	if reg == "" && r.Chance(50) {
		return "", "missing" // the empty string is "registered": a missing redirect_uri must still be refused
	}
	var loops []string
	for _, u := range c.Redirects {
		if c03IsLoopbackURI(u) {
			loops = append(loops, u)
		}
	}
	k := r.Intn(100)
	switch {
	case k < 30:
		return reg, "exact"
	case k < 50 && len(loops) > 0: // loopback variants of a registered loopback URI
		base := loops[r.Intn(len(loops))]
		p, _ := url.Parse(base)
		switch r.Intn(12) {
		case 0:
			p.Host = hx.Pick(r, "localhost", "127.0.0.1", "[::1]", "LOCALHOST", "127.0.0.2") + ":" + hx.Pick(r, "1", "8080", "43117", "65535")
			return p.String(), "loop-port"
		case 1:
			p.Host = hx.Pick(r, "localhost", "127.0.0.1", "[::1]", "LocalHost", "127.255.255.254", "[0:0:0:0:0:0:0:1]")
			return p.String(), "loop-host"
		case 2:
			p.Scheme = map[string]string{"http": "https", "https": "http"}[p.Scheme]
			return p.String(), "loop-scheme"
		case 3:
			p.User = hx.Pick(r, url.User("user"), url.UserPassword("user", "pw"), url.User("localhost"))
			p.Host = hx.Pick(r, p.Host, "127.0.0.1:7000")
			return p.String(), "loop-userinfo"
		case 4:
			p.Fragment = hx.Pick(r, "frag", "access_token=x", "/evil")
			p.Host = hx.Pick(r, p.Host, "[::1]:1")
			return p.String(), "loop-fragment"
		case 5:
			p.Path = hx.Pick(r, p.Path+"/", p.Path+"x", "/other", "", "/CB")
			return p.String(), "loop-path"
		case 6:
			p.RawQuery = hx.Pick(r, "x=1", "k=v&z=1", "k=V")
			p.Host = hx.Pick(r, p.Host, "127.0.0.1:7000")
			return p.String(), "loop-query"
		case 7:
			// same decoded path, different spelling
			s := strings.Replace(base, "/a/b", "/a%2Fb", 1)
			s = strings.Replace(s, "/cb", "/c%62", 1)
			if s == base {
				return base, "exact"
			}
			return s, "loop-escpath"
		case 8:
			p.Host = hx.Pick(r, "localhost.evil.example", "127.0.0.1.evil.example", "10.0.0.7", "evil.example", "0x7f.0.0.1", "127.1", "2130706433", "[::2]", "localhost.")
			return p.String(), "loop-nonloopback-host"
		case 9:
			p.User = url.User(hx.Pick(r, "127.0.0.1", "localhost", "[::1]"))
			p.Host = "evil.example"
			return p.String(), "loop-host-in-userinfo"
		case 10:
			return strings.Replace(base, "http", "HTTP", 1), "loop-upper-scheme"
		default:
			p.Host = hx.Pick(r, "127.0.0.1", "[::1]", "localhost") + ":" + hx.Pick(r, "2", "9999")
			p.Scheme = hx.Pick(r, "http", "https")
			return p.String(), "loop-port"
		}
	case k < 68: // near misses of a registered URI
		if reg == "" {
			return c03Foreign[r.Intn(len(c03Foreign))], "foreign"
		}
		switch r.Intn(16) {
		case 0:
			return reg + "/", "near-slash"
		case 1:
			return strings.ToUpper(reg[:1]) + reg[1:], "near-case-scheme"
		case 2:
			return strings.Replace(reg, "rp.example", "RP.example", 1), "near-case-host"
		case 3:
			return reg + "x", "near-suffix"
		case 4:
			if strings.Contains(reg, "?") {
				return reg + "&y=2", "near-query"
			}
			return reg + "?y=2", "near-query"
		case 5:
			return reg + "#frag", "near-fragment"
		case 6:
			return strings.Replace(reg, "://", "://user@", 1), "near-userinfo"
		case 7:
			if strings.HasPrefix(reg, "https://") {
				return "http://" + strings.TrimPrefix(reg, "https://"), "near-scheme-swap"
			}
			return "https://" + strings.TrimPrefix(strings.TrimPrefix(reg, "http://"), "https://"), "near-scheme-swap"
		case 8:
			return strings.Replace(reg, "rp.example", "rp.example.evil.example", 1), "near-host-suffix"
		case 9:
			return strings.Replace(reg, "://", "://evil.example/", 1), "near-host-prefix"
		case 10:
			return strings.TrimSuffix(reg, reg[len(reg)-1:]), "near-truncated"
		case 11:
			return " " + reg, "near-space"
		case 12:
			return strings.Replace(reg, ".example", ".example.", 1), "near-trailing-dot"
		case 13:
			return strings.Replace(strings.Replace(reg, "/cb", "/c%62", 1), "/a/b", "/a%2Fb", 1), "near-escaped"
		case 14:
			if pu, err := url.Parse(reg); err == nil && pu.Host != "" && pu.Port() == "" {
				return strings.Replace(reg, pu.Host, pu.Host+":"+hx.Pick(r, "443", "80", "8443"), 1), "near-port"
			}
			return reg + "?", "near-empty-query"
		default:
			return reg + "/../x", "near-dotdot"
		}
	case k < 80 && c.UseGlobs:
		return c03GlobTargets[r.Intn(len(c03GlobTargets))], "glob-target"
	case k < 80:
		return reg, "exact"
	case k < 83:
		return "", "missing"
	case k < 90: // a URI some OTHER registration of the pools contains
		all := append(append(append(append([]string{}, c03HTTPS...), c03HTTP...), c03Loopback...), c03Custom...)
		return all[r.Intn(len(all))], "pool"
	default:
		return c03Foreign[r.Intn(len(c03Foreign))], "foreign"
	}
}

// c03Oracle writes what net/url, net.ParseIP and doublestar answer for the given strings / (glob, uri) pairs
func c03Oracle(l *hx.Line, uris []string, globs []string, target string) {
	seen := map[string]bool{}
	var us []string
	for _, u := range uris {
		if !seen[u] {
			seen[u] = true
			us = append(us, u)
		}
	}
	hosts := map[string]bool{}
	l.I("u.n", int64(len(us)))
	for i, s := range us {
		p := fmt.Sprintf("u.%d.", i)
		l.S(p+"s", s)
		pu, err := url.Parse(s)
		if err != nil {
			l.B(p+"ok", false)
			continue
		}
		epath := pu.EscapedPath()
		if pu.Opaque != "" {
			epath = "opaque:" + pu.Opaque
		}
		user := ""
		if pu.User != nil {
			user = pu.User.String()
			if user == "" {
				user = "@"
			}
		}
		l.B(p+"ok", true).S(p+"scheme", pu.Scheme).S(p+"host", pu.Host).S(p+"hostname", pu.Hostname()).S(p+"path", pu.Path).S(p+"rq", pu.RawQuery).
			S(p+"user", user).S(p+"epath", epath).S(p+"frag", pu.EscapedFragment())
		hosts[pu.Hostname()] = true
	}
	hs := make([]string, 0, len(hosts))
	for h := range hosts {
		hs = append(hs, h)
	}
	sort.Strings(hs)
	l.I("ip.n", int64(len(hs)))
	for i, h := range hs {
		l.S(fmt.Sprintf("ip.%d.h", i), h).B(fmt.Sprintf("ip.%d.loop", i), net.ParseIP(h).IsLoopback())
	}
	gseen := map[string]bool{}
	var gs []string
	for _, g := range globs {
		if !gseen[g] {
			gseen[g] = true
			gs = append(gs, g)
		}
	}
	l.I("g.n", int64(len(gs)))
	for i, g := range gs {
		m, err := doublestar.Match(g, target)
		res := "0"
		if err != nil {
			res = "err"
		} else if m {
			res = "1"
		}
		l.S(fmt.Sprintf("g.%d.p", i), g).S(fmt.Sprintf("g.%d.u", i), target).S(fmt.Sprintf("g.%d.r", i), res)
	}
}

// c03Observe describes the response: page / redirect / formpost / panic; returns the strings the oracle must cover
func c03Observe(l *hx.Line, resp *opbed.Resp) (extra []string, loc string) {
	l.I("o.status", int64(resp.Status))
	kindOf := func(v url.Values) string {
		switch {
		case v.Get("error") != "":
			return "error:" + v.Get("error")
		case v.Get("code") != "":
			return "code"
		case v.Get("access_token") != "" || v.Get("id_token") != "":
			return "token"
		}
		return ""
	}
	if resp.Panicked {
		l.S("obs", "panic")
		return nil, ""
	}
	if loc = resp.Header.Get("Location"); loc != "" {
		l.S("obs", "redirect").S("o.loc", loc)
		if !strings.HasPrefix(loc, c03Login) {
			where, kind := "-", "-"
			if pu, err := url.Parse(loc); err == nil {
				if k := kindOf(pu.Query()); k != "" {
					where, kind = "q", k
				} else if fv, err := url.ParseQuery(pu.Fragment); err == nil && kindOf(fv) != "" {
					where, kind = "f", kindOf(fv)
				}
			}
			l.S("o.where", where).S("o.kind", kind)
		}
		return []string{loc}, loc
	}
	if resp.Status == 200 && strings.Contains(string(resp.Body), "<form") {
		action := ""
		if m := c03FormAction.FindSubmatch(resp.Body); m != nil {
			action = html.UnescapeString(string(m[1]))
		}
		l.S("obs", "formpost").S("o.action", action).S("o.kind", "-")
		return []string{action}, ""
	}
	l.S("obs", "page")
	return nil, ""
}

// c03TmplAction: ORACLE for html/template - what the engine renders into an `action="{{.}}"` attribute for this URI (its contextual
// URL filter replaces URLs with a scheme other than http / https / mailto by "#ZgotmplZ"); computed with a template of the
// harness, not with the provider's form_post template
var c03ActionTmpl = template.Must(template.New("a").Parse(`<form action="{{.}}">`))

func c03TmplAction(uri string) string {
	var b strings.Builder
	if err := c03ActionTmpl.Execute(&b, uri); err != nil {
		return "!" + err.Error()
	}
	if m := c03FormAction.FindStringSubmatch(b.String()); m != nil {
		return html.UnescapeString(m[1])
	}
	return "!nomatch"
}

func c03Fault(r *hx.Rand) (string, error) {
	switch r.Intn(4) {
	case 0:
		return "ErrAccessDenied", oidc.ErrAccessDenied()
	case 1:
		return "ErrInvalidRequestRedirectURI", oidc.ErrInvalidRequestRedirectURI().WithDescription("storage says no")
	default:
		return "plain", errors.New("injected storage failure")
	}
}

// c03Shape names the INPUT shapes on which the code's reading of the statement is known to be weaker than the strict one
// (known-findings are matched on it): a native client's loopback variant that differs from the registered URI in userinfo /
// fragment / path spelling, and a scheme that is http for a URL parser but not by the literal prefix "http://".
func c03Shape(c *refstore.Client, uri string) string {
	var out []string
	pu, err := url.Parse(uri)
	if err != nil {
		return "plain"
	}
	if c != nil && c.App == op.ApplicationTypeNative && c03IsLoopbackURI(uri) {
		exact := false
		for _, reg := range c.Redirects {
			if reg == uri {
				exact = true
			}
		}
		if !exact {
			for _, reg := range c.Redirects {
				pr, err := url.Parse(reg)
				if err != nil || !c03IsLoopbackURI(reg) || pr.Path != pu.Path || pr.RawQuery != pu.RawQuery {
					continue
				}
				if pr.User.String() != pu.User.String() || pr.EscapedPath() != pu.EscapedPath() || pr.EscapedFragment() != pu.EscapedFragment() {
					out = append(out, "loopvar-strict-diff")
					break
				}
			}
		}
	}
	if pu.Scheme == "http" && !strings.HasPrefix(uri, "http://") {
		out = append(out, "scheme-nonliteral")
	}
	if len(out) == 0 {
		return "plain"
	}
	return strings.Join(out, "+")
}

type c03Accepted struct {
	class           string
	id, client, uri string
	done            bool
	calledBack      int
}

func c03Stream(r *hx.Rand, tier string, n int, w *bufio.Writer) map[string]int {
	if n == 0 {
		n = 300
		if tier == "thorough" {
			n = 6000
		}
	}
	stats := map[string]int{}
	for h := 0; h < n; h++ {
		if r.Chance(14) { // (round 4) a form_post history with write faults: c03fp.go
			c03FPHistory(r, h, w, stats)
			continue
		}
		router := hx.Pick(r, "provider", "legacy")
		roSupported := r.Chance(40)
		bed, err := opbed.New(opbed.Config{Router: router, S256: true, Post: true, PrivateKeyJWT: true, RequestObject: roSupported})
		if err != nil {
			panic(err)
		}
		ln := 0
		emit := func(l *hx.Line) {
			fmt.Fprintln(w, l.String())
			ln++
		}
		line := func(op string) *hx.Line {
			return hx.NewLine("C03").I("case", int64(h)).I("ln", int64(ln)).S("op", op)
		}
		var cls []*c03Client
		for i := 0; i < 3+r.Intn(4); i++ {
			fc := c03GenClient(r, i)
			fc.c.Keys = []refstore.ClientKey{{Kid: "k-" + fc.c.ID, Pub: hx.Keys()[1].Pub}} // every client can sign request objects
			cls = append(cls, fc)
			bed.Store.AddClient(fc.c)
		}
		bed.Store.AddUser("user1", nil)
		l := line("reset").S("router", router).B("ro", roSupported).S("cls", "-").I("cl.n", int64(len(cls)))
		for i, fc := range cls {
			p := fmt.Sprintf("cl.%d.", i)
			c := fc.c
			l.S(p+"id", c.ID).I(p+"app", appNo(c.App)).S(p+"auth", string(c.Auth)).L(p+"redirects", c.Redirects).B(p+"dev", c.Dev).
				L(p+"resptypes", respTypeStrings(c.RespTypes)).S(p+"login", c03Login)
			if c.UseGlobs {
				l.L(p+"globs", c.Globs)
			}
		}
		emit(l)
		stats["router-"+router]++

		byID := map[string]*c03Client{}
		for _, fc := range cls {
			byID[fc.c.ID] = fc
		}
		var accepted []*c03Accepted
		nreq := 5 + r.Intn(8)
		for q := 0; q < nreq; q++ {
			// ---------------------------------------------------------------- authorize
			fc := cls[r.Intn(len(cls))]
			uri, class := c03Request(r, fc)
			clientID := fc.c.ID
			tag := fc.tag
			if r.Chance(4) {
				clientID, tag = hx.Pick(r, "nobody", ""), "unknown-client"
			}
			rt := hx.Pick(r, "code", "code", "code", "code", "code", "code", "code", "id_token token", "id_token", "id_token token")
			if r.Chance(7) {
				rt = hx.Pick(r, "", "token", "code id_token")
			}
			mode := hx.Pick(r, "", "", "", "query", "fragment", "form_post")
			scope := hx.Pick(r, "openid", "openid profile")
			if r.Chance(8) {
				scope = ""
			}
			prompt := ""
			if r.Chance(10) {
				prompt = hx.Pick(r, "none", "none login", "login")
			}
			hint, request := "", ""
			if r.Chance(4) {
				hint = "garbage"
			}
			if r.Chance(6) {
				request = "x.y.z"
			}
			// a signed request object that overrides redirect_uri (and state / response_mode): validation must see the override
			formURI, roOK, roURI, roState, roMode := uri, false, "", "", ""
			roIss, roAudOK, roSig, roCid, roRt := "", false, false, "", ""
			if roSupported && clientID == fc.c.ID && r.Chance(22) {
				var roClass string
				roURI, roClass = c03Request(r, fc)
				if r.Chance(15) {
					roURI = "" // no override
				}
				roState = hx.Pick(r, "", "ro-state")
				roMode = hx.Pick(r, "", "", "fragment", "query")
				claims := map[string]any{"iss": clientID, "aud": []string{opbed.Issuer}, "client_id": clientID, "response_type": rt}
				if roURI != "" {
					claims["redirect_uri"] = roURI
				}
				if roState != "" {
					claims["state"] = roState
				}
				if roMode != "" {
					claims["response_mode"] = roMode
				}
				key, kid := hx.Keys()[1], "k-"+clientID
				roOK = true
				roIss, roAudOK, roSig, roCid, roRt = clientID, true, true, clientID, rt
				switch r.Intn(14) {
				case 0:
					key, roOK, roSig = hx.Keys()[0], false, false // signed by somebody else
				case 1:
					claims["aud"], roOK, roAudOK = []string{"https://other.example"}, false, false
				case 2:
					claims["iss"], roOK, roIss = "somebody", false, "somebody"
				case 3: // a request object made for another client
					other := cls[r.Intn(len(cls))].c.ID
					claims["client_id"], roCid = other, other
					claims["iss"], roIss = other, other
					kid = "k-" + other
					roOK = other == clientID
				case 4: // a request object made for another response type
					roRt = hx.Pick(r, "code", "id_token", "id_token token")
					claims["response_type"] = roRt
					roOK = roRt == rt
				}
				payload, _ := json.Marshal(claims)
				tok, err := hx.Sign(key, "RS256", kid, payload)
				if err != nil {
					panic(err)
				}
				request = tok
				class = "ro-" + roClass
				if roOK && roURI != "" {
					uri = roURI // the request's redirect URI is the one of the request object
				}
			}
			state := hx.Pick(r, "st", "", "s t&x=1")
			v := url.Values{}
			set := func(k, val string) {
				if val != "" {
					v.Set(k, val)
				}
			}
			set("client_id", clientID)
			set("redirect_uri", formURI)
			set("response_type", rt)
			set("response_mode", mode)
			set("scope", scope)
			set("prompt", prompt)
			set("id_token_hint", hint)
			set("request", request)
			set("state", state)
			target := "/authorize?" + v.Encode()
			parse := "ok"
			if r.Chance(4) {
				parse = "err"
				target += hx.Pick(r, "&max_age=abc", "&%zz=1", "&x=%")
			}
			var regClient *refstore.Client
			if known := byID[clientID]; known != nil {
				regClient = known.c
			}
			l := line("authorize").S("cls", tag+":"+class).S("shape", c03Shape(regClient, uri)).S("client", clientID).S("uri", uri).S("rt", rt).S("mode", mode).S("state", state).
				L("scopes", strings.Fields(scope)).L("prompt", strings.Fields(prompt)).S("hint", hint).S("parse", parse)
			if len(request) > 10 {
				l.S("request", "ro").S("form.uri", formURI).B("ro.ok", roOK).S("ro.uri", roURI).S("ro.state", roState).S("ro.mode", roMode).
					S("ro.iss", roIss).B("ro.audok", roAudOK).B("ro.sig", roSig).S("ro.cid", roCid).S("ro.rt", roRt)
			} else {
				l.S("request", request)
			}
			if r.Chance(4) {
				name, e := c03Fault(r)
				bed.Store.FailMethod("GetClientByClientID", e)
				l.S("f.getclient", name)
			}
			if r.Chance(7) {
				name, e := c03Fault(r)
				bed.Store.FailMethod("CreateAuthRequest", e)
				l.S("f.create", name)
			}
			resp := bed.Do(bed.Get(target, nil, ""))
			bed.Store.ClearFaults()
			extra, loc := c03Observe(l, resp)
			uris := append([]string{uri}, extra...)
			var globs []string
			if known := byID[clientID]; known != nil {
				uris = append(uris, known.c.Redirects...)
				if known.c.UseGlobs {
					globs = known.c.Globs
				}
			}
			c03Oracle(l, uris, globs, uri)
			emit(l)
			stats["authorize:"+class]++
			stats["app:"+tag]++
			var acc *c03Accepted
			if strings.HasPrefix(loc, c03Login) {
				acc = &c03Accepted{id: strings.TrimPrefix(loc, c03Login), client: clientID, uri: uri, class: class}
				accepted = append(accepted, acc)
				stats["accepted"]++
			}
			// ---------------------------------------------------------------- login / callback on some accepted request
			if len(accepted) == 0 || r.Chance(15) {
				if r.Chance(20) { // callback for an id nobody was given / without id
					id := hx.Pick(r, "ar999", "", "x")
					l := line("callback").S("cls", "unknown-id")
					vals := url.Values{}
					if id != "" {
						vals.Set("id", id)
						l.S("id", id)
					}
					resp := bed.Do(bed.Get("/authorize/callback", vals, ""))
					extra, _ := c03Observe(l, resp)
					c03Oracle(l, extra, nil, "")
					emit(l)
					stats["callback:unknown-id"]++
				}
				continue
			}
			a := accepted[len(accepted)-1]
			if acc == nil || r.Chance(20) {
				a = accepted[r.Intn(len(accepted))]
			}
			if a.calledBack > 0 && r.Chance(75) {
				continue // a request is usually called back once
			}
			if !a.done && r.Chance(82) {
				bed.Store.CompleteAuthRequest(a.id, "user1")
				a.done = true
				emit(line("login").S("cls", "-").S("id", a.id))
			}
			l = line("callback").S("id", a.id)
			cls2 := "after-login"
			if !a.done {
				cls2 = "before-login"
			}
			if a.calledBack > 0 {
				cls2 += "-again"
			}
			if r.Chance(5) {
				name, e := c03Fault(r)
				bed.Store.FailMethod("AuthRequestByID", e)
				l.S("f.byid", name)
			}
			if r.Chance(5) {
				name, e := c03Fault(r)
				bed.Store.FailMethod("GetClientByClientID", e)
				l.S("f.getclient", name)
			}
			if r.Chance(5) {
				name, e := c03Fault(r)
				bed.Store.FailMethod("SaveAuthCode", e)
				l.S("f.savecode", name)
			}
			if r.Chance(5) {
				name, e := c03Fault(r)
				bed.Store.FailMethod("SigningKey", e)
				l.S("f.token", name)
			}
			owner := byID[a.client]
			l.S("cls", owner.tag+":"+a.class+":"+cls2).S("shape", c03Shape(owner.c, a.uri)).S("uri", a.uri).S("t.act", c03TmplAction(a.uri))
			cbVals := url.Values{"id": {a.id}}
			if r.Chance(20) { // stray parameters on the callback: the answer must still go to the STORED redirect URI
				cbVals.Set("redirect_uri", hx.Pick(r, "https://evil.example/steal", "http://127.0.0.1:1/cb", "myapp://evil"))
				cbVals.Set("state", "evil-state")
				cbVals.Set("response_mode", hx.Pick(r, "query", "fragment", "form_post"))
				cbVals.Set("client_id", hx.Pick(r, "c0", "c1", "nobody"))
				l.S("cb.extra", "1")
			}
			resp = bed.Do(bed.Get("/authorize/callback", cbVals, ""))
			bed.Store.ClearFaults()
			a.calledBack++
			extra, _ = c03Observe(l, resp)
			uris = append([]string{a.uri}, extra...)
			uris = append(uris, owner.c.Redirects...)
			globs = nil
			if owner.c.UseGlobs {
				globs = owner.c.Globs
			}
			c03Oracle(l, uris, globs, a.uri)
			emit(l)
			stats["callback:"+cls2]++
		}
	}
	return stats
}
