package main

import (
	"bufio"
	"context"
	"encoding/json"
	"fmt"
	"time"

	jose "github.com/go-jose/go-jose/v4"
	"github.com/zitadel/oidc/v3/pkg/client/rp"
	"github.com/zitadel/oidc/v3/pkg/oidc"

	"verifharness/internal/hx"
)

func init() { streams["C01"] = c01Stream }

// staticKeySet: accepts a signature iff one of its keys verifies it (model: KeySetKind.static).
type staticKeySet struct{ keys []*hx.Key }

func (s *staticKeySet) VerifySignature(ctx context.Context, jws *jose.JSONWebSignature) ([]byte, error) {
	for _, k := range s.keys {
		if p, err := jws.Verify(k.Pub); err == nil {
			return p, nil
		}
	}
	return nil, fmt.Errorf("no key verifies")
}

func ksLine(l *hx.Line, kind string, keys []*hx.Key, kids, uses []string) {
	l.S("ks.kind", kind).I("ks.n", int64(len(keys)))
	for i, k := range keys {
		p := fmt.Sprintf("ks.%d.", i)
		kid, use := "", ""
		if kids != nil {
			kid = kids[i]
		}
		if uses != nil {
			use = uses[i]
		}
		l.S(p+"kid", kid).S(p+"use", use).S(p+"kty", k.Kty).I(p+"no", int64(k.No))
	}
}

// waitClearOfSecondEdge keeps `now` away from .0/.5 second edges so that rounded comparisons do not flip mid-call
func waitClearOfSecondEdge() {
	for {
		ns := time.Now().Nanosecond()
		m := ns % 500_000_000
		if m > 20_000_000 && m < 470_000_000 {
			return
		}
		time.Sleep(5 * time.Millisecond)
	}
}

func c01Stream(r *hx.Rand, tier string, n int, w *bufio.Writer) map[string]int {
	if n == 0 {
		n = 3000
		if tier == "thorough" {
			n = 60000
		}
	}
	stats := map[string]int{}
	keys := hx.Keys()
	ring := []*hx.Key{keys[0], keys[2], keys[5]} // trusted: RSA, P-256, Ed25519
	ks := &staticKeySet{keys: ring}
	const issuer, cid = "https://op.example", "rp-client"
	accessTokens := []string{"at-AAAA", "at-BBBB"}
	// reverse table real at_hash -> symbolic digest
	sym := map[string]string{}
	for _, at := range accessTokens {
		for _, alg := range []string{"RS256", "RS384", "RS512"} {
			// reference hash computed with the standard library only (NOT with the library under test)
			sym[hx.RefClaimHash(at, alg)] = hx.SymHash(hx.HashFamily(alg), at)
		}
	}
	symHash := func(s string) string {
		if v, ok := sym[s]; ok {
			return v
		}
		return s
	}
	for i := 0; i < n; i++ {
		waitClearOfSecondEdge()
		now := time.Now()
		sec := now.Unix()
		// ---- verifier configuration
		offset := hx.Pick(r, time.Second, time.Second, 0, -time.Second, 90*time.Second)
		maxIAT := hx.Pick(r, 0, 0, 10*time.Second, time.Hour)
		maxAge := hx.Pick(r, 0, 0, 30*time.Second, time.Hour)
		nonceMode := hx.Pick(r, "default", "set", "set", "nil")
		acrMode := hx.Pick(r, "none", "none", "list")
		// ---- token: start valid, mutate 0..3 dimensions
		key := hx.Pick(r, keys[0], keys[0], keys[2], keys[5])
		alg := key.Algs[0]
		if key.Kty == "RSA" {
			alg = hx.Pick(r, "RS256", "RS256", "RS384", "PS256", "RS512", "PS384")
		}
		// allow-list: mostly one that admits the token's algorithm
		var algs []string
		switch r.Intn(10) {
		case 0, 1, 2:
			if alg != "RS256" && alg != "ES256" && alg != "PS256" {
				algs = []string{alg}
			}
		case 3, 4, 5, 6:
			algs = []string{"RS512", alg, "ES384"}
		case 7:
			algs = []string{"RS256", "ES256", "EdDSA"}
		case 8:
			algs = hx.Pick(r, []string{"ES256"}, []string{"RS384", "PS256"}, []string{"HS256", "none"})
		}
		opts := []rp.VerifierOption{rp.WithIssuedAtOffset(offset), rp.WithIssuedAtMaxAge(maxIAT), rp.WithAuthTimeMaxAge(maxAge)}
		if algs != nil {
			opts = append(opts, rp.WithSupportedSigningAlgorithms(algs...))
		}
		switch nonceMode {
		case "set":
			opts = append(opts, rp.WithNonce(func(context.Context) string { return "n-123" }))
		case "nil":
			opts = append(opts, rp.WithNonce(nil))
		}
		if acrMode == "list" {
			opts = append(opts, rp.WithACRVerifier(oidc.DefaultACRVerifier([]string{"gold", "silver"})))
		}
		v := rp.NewIDTokenVerifier(issuer, cid, ks, opts...)

		withAT := r.Chance(50)
		at := accessTokens[0]
		offS := int64(offset / time.Second)
		claims := map[string]any{
			"iss": issuer, "sub": "user-1", "aud": []string{cid}, "exp": sec + 600, "iat": sec - 5, "auth_time": sec - 20,
		}
		if nonceMode == "set" {
			claims["nonce"] = "n-123"
		}
		if acrMode == "list" {
			claims["acr"] = "gold"
		}
		if withAT && r.Chance(70) {
			if h := hx.RefClaimHash(at, alg); h != "" {
				claims["at_hash"] = h
			}
		}
		nmut := hx.Pick(r, 0, 1, 1, 1, 2, 2, 3)
		for m := 0; m < nmut; m++ {
			dim := r.Intn(12)
			stats[fmt.Sprintf("mut-dim-%02d", dim)]++
			switch dim {
			case 0:
				claims["iss"] = hx.Pick(r, "https://evil.example", "", issuer+"/")
			case 1:
				claims["sub"] = hx.Pick(r, "", "x")
			case 2:
				claims["aud"] = hx.Pick[any](r, []string{}, []string{"x"}, []string{cid, "x"}, []string{"x", cid, "y"}, cid, "x", []string{cid, cid})
			case 3:
				claims["azp"] = hx.Pick(r, cid, "x", "")
			case 4:
				claims["exp"] = sec + offS + int64(hx.Pick(r, -2, -1, 0, 1, 2, 3))
				if r.Chance(15) {
					delete(claims, "exp")
				}
			case 5:
				claims["iat"] = sec + offS + int64(hx.Pick(r, -2, -1, 0, 1, 2, 3))
				if r.Chance(15) {
					delete(claims, "iat")
				}
			case 6:
				if maxIAT > 0 {
					claims["iat"] = sec - int64(maxIAT/time.Second) + int64(hx.Pick(r, -2, -1, 0, 1, 2))
				} else {
					claims["iat"] = sec - 100000
				}
			case 7:
				claims["nonce"] = hx.Pick(r, "n-123", "other", "")
				if r.Chance(30) {
					delete(claims, "nonce")
				}
			case 8:
				claims["acr"] = hx.Pick(r, "gold", "silver", "bronze", "")
			case 9:
				if maxAge > 0 {
					claims["auth_time"] = sec - int64(maxAge/time.Second) + int64(hx.Pick(r, -2, -1, 0, 1, 2))
				} else {
					claims["auth_time"] = sec - 100000
				}
				if r.Chance(25) {
					delete(claims, "auth_time")
				}
			case 10:
				other := hx.RefClaimHash(accessTokens[1], alg)
				wrongAlg := hx.RefClaimHash(at, "RS512")
				if hx.HashFamily(alg) == "sha512" {
					wrongAlg = hx.RefClaimHash(at, "RS256")
				}
				// "short": only the first 128 bits of the digest - wrong for SHA-384 / SHA-512
				claims["at_hash"] = hx.Pick(r, other, wrongAlg, hx.RefClaimHashShort(at, alg), "garbage", "")
			case 11:
				key = hx.Pick(r, keys[1], keys[3], keys[6]) // untrusted signer
				alg = key.Algs[0]
			}
		}
		payload, _ := json.Marshal(claims)
		tok, err := hx.Sign(key, alg, "", payload)
		if err != nil {
			stats["sign-error"]++
			continue
		}
		dec, decOK := hx.DecodeIDClaims(payload)

		// ---- run the real verifier, bracketed by t0 / t1
		var got *oidc.IDTokenClaims
		var verr error
		panicked := false
		t0 := time.Now()
		func() {
			defer func() {
				if p := recover(); p != nil {
					panicked = true
				}
			}()
			if withAT {
				got, verr = rp.VerifyTokens[*oidc.IDTokenClaims](context.Background(), at, tok, v)
			} else {
				got, verr = rp.VerifyIDToken[*oidc.IDTokenClaims](context.Background(), tok, v)
			}
		}()
		t1 := time.Now()

		l := hx.NewLine("C01").I("case", int64(i)).I("now0", t0.UnixNano()).I("now1", t1.UnixNano())
		if withAT {
			l.S("at", at)
		}
		l.S("v.iss", issuer).S("v.cid", cid).I("v.off", int64(offset)).I("v.maxiat", int64(maxIAT)).I("v.maxage", int64(maxAge)).L("v.algs", algs)
		switch nonceMode {
		case "default":
			l.S("v.nonce", "")
		case "set":
			l.S("v.nonce", "n-123")
		}
		if acrMode == "list" {
			l.L("v.acr", []string{"gold", "silver"})
		}
		ksLine(l, "static", ring, nil, nil)
		l.I("t.segs", 3).I("t.mid", 1).B("t.json", decOK)
		if decOK {
			dec.AccessTokenHash = symHash(dec.AccessTokenHash)
			hx.ClaimsKV(l, "c.", dec)
		}
		l.B("t.jws", true).I("j.bytes", 1).I("j.n", 1)
		l.S("s0.alg", alg).S("s0.kid", "").I("s0.signer", int64(key.No)).S("s0.salg", alg).I("s0.sbytes", 1).S("s0.shalg", alg).S("s0.shkid", "")
		switch {
		case panicked:
			l.S("obs", "panic")
			stats["obs-panic"]++
		case verr != nil:
			l.S("obs", "err").S("o.err", hx.ErrName(verr))
			stats["obs-"+hx.ErrName(verr)]++
		default:
			l.S("obs", "ok")
			cp := *got
			cp.AccessTokenHash = symHash(cp.AccessTokenHash)
			hx.ClaimsKV(l, "o.", &cp)
			stats["obs-ok"]++
		}
		fmt.Fprintln(w, l.String())
	}
	return stats
}
