package main

import (
	"bufio"
	"context"
	"encoding/json"
	"fmt"
	"time"

	jose "github.com/go-jose/go-jose/v4"
	"github.com/zitadel/oidc/v3/pkg/client/rp"
	"github.com/zitadel/oidc/v3/pkg/oidc"

	"verifharness/internal/hx"
)

func init() { streams["C01"] = c01Stream }

// staticKeySet: accepts a signature iff one of its keys verifies it (model: KeySetKind.static).
type staticKeySet struct{ keys []*hx.Key }

func (s *staticKeySet) VerifySignature(ctx context.Context, jws *jose.JSONWebSignature) ([]byte, error) {
	for _, k := range s.keys {
		if p, err := jws.Verify(k.Pub); err == nil {
			return p, nil
		}
	}
	return nil, fmt.Errorf("no key verifies")
}

func ksLine(l *hx.Line, kind string, keys []*hx.Key, kids, uses []string) {
	l.S("ks.kind", kind).I("ks.n", int64(len(keys)))
	for i, k := range keys {
		p := fmt.Sprintf("ks.%d.", i)
		kid, use := "", ""
		if kids != nil {
			kid = kids[i]
		}
		if uses != nil {
			use = uses[i]
		}
		l.S(p+"kid", kid).S(p+"use", use).S(p+"kty", k.Kty).I(p+"no", int64(k.No))
	}
}

// waitClearOfSecondEdge keeps `now` away from .0/.5 second edges so that rounded comparisons do not flip mid-call
func waitClearOfSecondEdge() {
	for {
		ns := time.Now().Nanosecond()
		m := ns % 500_000_000
		if m > 20_000_000 && m < 470_000_000 {
			return
		}
		time.Sleep(5 * time.Millisecond)
	}
}

func c01Stream(r *hx.Rand, tier string, n int, w *bufio.Writer) map[string]int {
	if n == 0 {
		n = 3000
		if tier == "thorough" {
			n = 60000
		}
	}
	stats := map[string]int{}
	keys := hx.Keys()
	ring := []*hx.Key{keys[0], keys[2], keys[5]} // trusted: RSA, P-256, Ed25519
	ks := &staticKeySet{keys: ring}
	// the same ring as a published key set (relying-party mode: remote key set over the fake provider's JWKS endpoint)
	ringPub := []pubKey{{k: keys[0], kid: "k-rsa", use: "sig"}, {k: keys[2], kid: "k-ec", use: "sig"}, {k: keys[5], kid: "k-ed", use: "sig"}}
	kidOf := map[int]string{keys[0].No: "k-rsa", keys[2].No: "k-ec", keys[5].No: "k-ed"}
	op := newC01OP(ringPub)
	defer op.srv.Close()
	const bareIssuer, cid = "https://op.example", "rp-client"
	accessTokens := []string{"at-AAAA", "at-BBBB"}
	// reverse table real at_hash -> symbolic digest
	sym := map[string]string{}
	for _, at := range accessTokens {
		for _, alg := range []string{"RS256", "RS384", "RS512"} {
			// reference hash computed with the standard library only (NOT with the library under test)
			sym[hx.RefClaimHash(at, alg)] = hx.SymHash(hx.HashFamily(alg), at)
		}
	}
	symHash := func(s string) string {
		if v, ok := sym[s]; ok {
			return v
		}
		return s
	}
	for i := 0; i < n; i++ {
		waitClearOfSecondEdge()
		now := time.Now()
		sec := now.Unix()
		// ---- how the verifier comes about: hand-built (rp.NewIDTokenVerifier) or handed out by a real relying party
		mode := "bare"
		oauthOnly := false // relying-party mode with rp.NewRelyingPartyOAuth: no discovery, no issuer, ID tokens are not looked at
		switch m := r.Intn(100); {
		case m >= 94:
			mode, oauthOnly = "rp", true
		case m >= 58:
			mode = "rp"
		}
		stats["mode-"+mode]++
		issuer := bareIssuer
		if mode == "rp" {
			issuer = op.srv.URL
		}
		// ---- verifier configuration
		offset := hx.Pick(r, time.Second, time.Second, 0, -time.Second, 90*time.Second)
		maxIAT := hx.Pick(r, 0, 0, 10*time.Second, time.Hour)
		maxAge := hx.Pick(r, 0, 0, 30*time.Second, time.Hour)
		nonceMode := hx.Pick(r, "default", "set", "set", "nil")
		acrMode := hx.Pick(r, "none", "none", "list")
		// ---- token: start valid, mutate 0..3 dimensions
		key := hx.Pick(r, keys[0], keys[0], keys[2], keys[5])
		alg := key.Algs[0]
		if key.Kty == "RSA" {
			alg = hx.Pick(r, "RS256", "RS256", "RS384", "PS256", "RS512", "PS384")
		}
		// allow-list: mostly one that admits the token's algorithm
		var algs []string
		switch r.Intn(10) {
		case 0, 1, 2:
			if alg != "RS256" && alg != "ES256" && alg != "PS256" {
				algs = []string{alg}
			}
		case 3, 4, 5, 6:
			algs = []string{"RS512", alg, "ES384"}
		case 7:
			algs = []string{"RS256", "ES256", "EdDSA"}
		case 8:
			algs = hx.Pick(r, []string{"ES256"}, []string{"RS384", "PS256"}, []string{"HS256", "none"})
		}
		// the verifier options the case is about (relying-party mode: an option that only restates the default is sometimes left out)
		keep := func(isDefault bool) bool { return mode == "bare" || !isDefault || r.Chance(50) }
		var want []c01VOpt
		if keep(offset == time.Second) {
			want = append(want, c01VOpt{kind: "off", dur: offset})
		}
		if keep(maxIAT == 0) {
			want = append(want, c01VOpt{kind: "maxiat", dur: maxIAT})
		}
		if keep(maxAge == 0) {
			want = append(want, c01VOpt{kind: "maxage", dur: maxAge})
		}
		if algs != nil {
			want = append(want, c01VOpt{kind: "algs", algs: algs})
		}
		if nonceMode != "default" {
			want = append(want, c01VOpt{kind: "nonce", mode: nonceMode})
		}
		if acrMode == "list" {
			want = append(want, c01VOpt{kind: "acr", mode: "list"})
		}
		if mode == "rp" && r.Chance(12) {
			want = nil // a relying party without any verifier option (library defaults; possibly the discovered algorithms)
		}
		var v *rp.IDTokenVerifier
		var plan c01RPPlan
		var party rp.RelyingParty
		var cerr error
		eff := c01Effective(want)
		path := "vid"
		if r.Chance(50) {
			path = "vtok"
		}
		if mode == "bare" {
			var opts []rp.VerifierOption
			for _, o := range want {
				opts = append(opts, o.option())
			}
			v = rp.NewIDTokenVerifier(issuer, cid, ks, opts...)
		} else {
			plan = c01PlanRP(r, want, alg, oauthOnly, stats)
			eff = plan.eff
			path = hx.Pick(r, "vid", "vtok", "code", "refresh")
			if oauthOnly {
				path = hx.Pick(r, "code", "refresh")
				stats["rp-oauth-only"]++
			}
			party, cerr = plan.build(context.Background(), op, cid)
			stats["rp-path-"+path]++
		}
		withAT := path != "vid"
		at := accessTokens[0]
		offS := int64(eff.offset / time.Second)
		claims := map[string]any{
			"iss": issuer, "sub": "user-1", "aud": []string{cid}, "exp": sec + 600, "iat": sec - 5, "auth_time": sec - 20,
		}
		if eff.nonce == "set" {
			claims["nonce"] = "n-123"
		}
		if eff.acr {
			claims["acr"] = "gold"
		}
		if withAT && r.Chance(70) {
			if h := hx.RefClaimHash(at, alg); h != "" {
				claims["at_hash"] = h
			}
		}
		untrustedKid := ""
		nmut := hx.Pick(r, 0, 1, 1, 1, 2, 2, 3)
		for m := 0; m < nmut; m++ {
			dim := r.Intn(13)
			stats[fmt.Sprintf("mut-dim-%02d", dim)]++
			switch dim {
			case 0:
				claims["iss"] = hx.Pick(r, "https://evil.example", "", issuer+"/")
			case 1:
				claims["sub"] = hx.Pick(r, "", "x")
			case 2:
				claims["aud"] = hx.Pick[any](r, []string{}, []string{"x"}, []string{cid, "x"}, []string{"x", cid, "y"}, cid, "x", []string{cid, cid},
					// (round 4) ONE audience that merely contains the client id (space / comma separated text is not a list), null, a number,
					// an array with a member that is not a string (not an audience: the payload is not a decodable ID Token)
					cid+" x", "x "+cid, cid+",x", []string{cid + " x"}, []string{"x," + cid}, nil, 5, []any{cid, 5})
				if _, plain := claims["aud"].([]string); r.Chance(50) && !plain {
					// ... with an azp that would fit if the text were read as a list of audiences
					claims["azp"] = cid
				}
			case 3:
				claims["azp"] = hx.Pick(r, cid, "x", "")
				if r.Chance(30) {
					// several audiences, the azp value possibly ANOTHER member of them
					claims["aud"] = hx.Pick(r, []string{cid, "x", "y"}, []string{"x", cid})
				}
			case 4:
				claims["exp"] = sec + offS + int64(hx.Pick(r, -2, -1, 0, 1, 2, 3))
				if r.Chance(15) {
					delete(claims, "exp")
				}
			case 5:
				claims["iat"] = sec + offS + int64(hx.Pick(r, -2, -1, 0, 1, 2, 3, 3600))
				if r.Chance(15) {
					delete(claims, "iat")
				}
			case 6:
				if eff.maxIAT > 0 {
					claims["iat"] = sec - int64(eff.maxIAT/time.Second) + int64(hx.Pick(r, -2, -1, 0, 1, 2))
				} else {
					claims["iat"] = sec - 100000
				}
			case 7:
				claims["nonce"] = hx.Pick(r, "n-123", "other", "")
				if r.Chance(30) {
					delete(claims, "nonce")
				}
			case 8:
				claims["acr"] = hx.Pick(r, "gold", "silver", "bronze", "")
			case 9:
				if eff.maxAge > 0 {
					claims["auth_time"] = sec - int64(eff.maxAge/time.Second) + int64(hx.Pick(r, -2, -1, 0, 1, 2))
				} else {
					claims["auth_time"] = sec - 100000
				}
				if r.Chance(25) {
					delete(claims, "auth_time")
				}
			case 10:
				other := hx.RefClaimHash(accessTokens[1], alg)
				wrongAlg := hx.RefClaimHash(at, "RS512")
				if hx.HashFamily(alg) == "sha512" {
					wrongAlg = hx.RefClaimHash(at, "RS256")
				}
				// "short": only the first 128 bits of the digest - wrong for SHA-384 / SHA-512
				claims["at_hash"] = hx.Pick(r, other, wrongAlg, hx.RefClaimHashShort(at, alg), "garbage", "")
			case 12:
				// claims a verifier must NOT read as something else: `client_id` (RFC 9068 style) next to / instead of azp, with one
				// or several audiences; a `nbf` in the future (not a condition of ID Token validation)
				claims["client_id"] = hx.Pick(r, cid, "x", "other-client")
				switch r.Intn(4) {
				case 0:
					claims["aud"] = []string{cid, "x"}
					delete(claims, "azp")
				case 1:
					delete(claims, "azp")
				case 2:
					claims["nbf"] = sec + 3600
				}
			case 11:
				key = hx.Pick(r, keys[1], keys[3], keys[6]) // untrusted signer
				alg = key.Algs[0]
				// (published key set) it claims the key id of the trusted key of its type, or one nobody published
				untrustedKid = hx.Pick(r, map[string]string{"RSA": "k-rsa", "EC": "k-ec", "OKP": "k-ed"}[key.Kty], "k-unknown")
			}
		}
		// ---- (round 4) HOW the time claims are written: every legal JSON number spelling of the same second (fraction, exponent
		// forms), RFC 3339 strings, and spellings that name another value or none (negative, zero, null, far future, beyond
		// int64, strings of digits, other types); the claim's meaning is the harness's own exact reading (c01time.go)
		spelled := map[string]c01Spelled{}
		if r.Chance(40) {
			present := []string{}
			for _, k := range []string{"exp", "iat", "auth_time", "nbf"} {
				if _, ok := claims[k].(int64); ok {
					present = append(present, k)
				}
			}
			if _, ok := claims["nbf"]; !ok && r.Chance(20) {
				claims["nbf"] = sec - 5
				present = append(present, "nbf")
			}
			for j := hx.Pick(r, 1, 1, 2, 3); j > 0 && len(present) > 0; j-- {
				k := hx.Pick(r, present...)
				if _, done := spelled[k]; done {
					continue
				}
				v := claims[k].(int64)
				var raw, kind string
				switch {
				case nmut == 0 && eff.maxIAT == 0 && k == "iat" && r.Chance(8):
					// an instant in the last 62135596800 seconds of the int64 range (exactly representable as a double)
					raw, kind = hx.Pick(r, "9223372036854774784", "9223372036800000000", "9.223372036854774784e18"), "int64-top"
				case r.Chance(75):
					raw, kind = c01SpellSame(r, v)
				default:
					raw, kind = c01SpellOther(r, v)
				}
				sp := c01ReadTime(raw, kind)
				sp.wrap = kind == "int64-top"
				spelled[k] = sp
				claims[k] = sp
				stats["spell-"+kind]++
				stats["spell-claim-"+k]++
			}
		}
		if len(spelled) > 0 {
			stats["spelled-tokens"]++
		}
		kid := ""
		if mode == "rp" {
			kid = kidOf[key.No]
			if kid == "" {
				kid = untrustedKid
			}
		}
		payload, _ := json.Marshal(claims)
		tok, err := hx.Sign(key, alg, kid, payload)
		if err != nil {
			stats["sign-error"]++
			continue
		}
		_, decOK := hx.DecodeIDClaims(payload)
		audDoc, audItems, audBad := c01AudDoc(claims)
		if audBad {
			if decOK {
				stats["aud-decodable-disagrees-with-library"]++
			}
			decOK = false
		}
		if len(spelled) > 0 {
			// is the payload decodable? by the harness's own reading: every spelled time claim is a documented form in range
			own := !audBad
			for _, sp := range spelled {
				own = own && sp.ok
			}
			if own != decOK {
				stats["spell-decodable-disagrees-with-library"]++
			}
			decOK = own
		}
		// (code exchange) now and then the token response carries no id_token at all
		missing := mode == "rp" && path == "code" && r.Chance(4)
		if missing {
			tok = ""
		}

		// ---- run the real verifier, bracketed by t0 / t1
		var got *oidc.IDTokenClaims
		var verr error
		panicked := false
		t0 := time.Now()
		func() {
			defer func() {
				if p := recover(); p != nil {
					panicked = true
				}
			}()
			switch {
			case mode == "rp" && cerr != nil:
				verr = cerr
			case mode == "rp":
				got, verr = c01RunRP(context.Background(), party, op, path, at, tok, i)
			case withAT:
				got, verr = rp.VerifyTokens[*oidc.IDTokenClaims](context.Background(), at, tok, v)
			default:
				got, verr = rp.VerifyIDToken[*oidc.IDTokenClaims](context.Background(), tok, v)
			}
		}()
		t1 := time.Now()

		l := hx.NewLine("C01").I("case", int64(i)).I("now0", t0.UnixNano()).I("now1", t1.UnixNano())
		if withAT {
			l.S("at", at)
		}
		vIssuer := issuer
		if oauthOnly {
			vIssuer = "" // NewRelyingPartyOAuth knows no issuer
		}
		l.S("v.iss", vIssuer).S("v.cid", cid).I("v.off", int64(eff.offset)).I("v.maxiat", int64(eff.maxIAT)).I("v.maxage", int64(eff.maxAge)).L("v.algs", eff.algs)
		switch eff.nonce {
		case "default":
			l.S("v.nonce", "")
		case "set":
			l.S("v.nonce", "n-123")
		}
		if eff.acr {
			l.L("v.acr", []string{"gold", "silver"})
		}
		if oauthOnly {
			ksLinePub(l, "published", nil) // remote key set over the empty JWKS URL
			plan.line(l, op, path)
		} else if mode == "rp" {
			ksLinePub(l, "published", ringPub)
			plan.line(l, op, path)
		} else {
			ksLine(l, "static", ring, nil, nil)
		}
		if missing {
			l.I("t.segs", 0).B("t.json", false).B("t.jws", false).B("tr.noid", true)
		} else {
			l.I("t.segs", 3).I("t.mid", 1).B("t.json", decOK)
			if decOK {
				// the claims of the payload in the harness's OWN reading of the JSON object it signed (registered claim names of
				// OIDC Core 2), not what the library's struct tags / getters make of it
				c01ClaimsKV(l, "c.", claims, symHash)
			}
			c01SpellLine(l, spelled)
			if audDoc != "" {
				l.S("au.doc", audDoc).L("au.v", audItems).B("au.bad", audBad)
			}
			for _, sp := range spelled {
				if sp.wrap {
					l.B("sp.top", true)
				}
			}
			l.B("t.jws", true).I("j.bytes", 1).I("j.n", 1)
			l.S("s0.alg", alg).S("s0.kid", kid).I("s0.signer", int64(key.No)).S("s0.salg", alg).I("s0.sbytes", 1).S("s0.shalg", alg).S("s0.shkid", kid)
		}
		switch {
		case panicked:
			l.S("obs", "panic")
			stats["obs-panic"]++
		case mode == "rp" && cerr != nil:
			l.S("obs", "err").S("o.err", "construct")
			stats["obs-construct-error"]++
		case oauthOnly && verr == rp.ErrMissingIDToken && got == nil:
			// the tokens came back WITHOUT ID Token claims (c01RunRP reports that as ErrMissingIDToken on the refresh path)
			l.S("obs", "noclaims")
			stats["obs-noclaims"]++
		case verr != nil:
			l.S("obs", "err").S("o.err", c01ErrName(verr))
			stats["obs-"+c01ErrName(verr)]++
		default:
			l.S("obs", "ok")
			cp := *got
			cp.AccessTokenHash = symHash(cp.AccessTokenHash)
			hx.ClaimsKV(l, "o.", &cp)
			stats["obs-ok"]++
		}
		fmt.Fprintln(w, l.String())
	}
	return stats
}

// c01ClaimsKV writes the registered claims of the JSON object `m` (as it was signed) under prefix p, with the keys of hx.ClaimsKV
func c01ClaimsKV(l *hx.Line, p string, m map[string]any, symHash func(string) string) {
	str := func(k string) string {
		if v, ok := m[k].(string); ok {
			return v
		}
		return ""
	}
	num := func(k string) int64 {
		switch v := m[k].(type) {
		case int64:
			return v
		case int:
			return int64(v)
		case c01Spelled:
			return v.val // the harness's own exact reading of the spelled claim
		}
		return 0
	}
	var aud []string
	switch v := m["aud"].(type) {
	case string:
		aud = []string{v}
	case []string:
		aud = v
	}
	l.S(p+"iss", str("iss")).S(p+"sub", str("sub")).L(p+"aud", aud).S(p+"azp", str("azp"))
	l.I(p+"exp", num("exp")).I(p+"iat", num("iat")).I(p+"auth", num("auth_time"))
	l.S(p+"nonce", str("nonce")).S(p+"acr", str("acr")).S(p+"athash", symHash(str("at_hash")))
	l.S(p+"chash", str("c_hash")).S(p+"client", str("client_id")).S(p+"sigalg", "")
}
